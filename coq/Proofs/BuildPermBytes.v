(* BuildPermBytes.v — C14, byte-wise: building from any permutation of the pattern/value pairs gives
   THE SAME automaton (same state array, same output table, same counters -- hence the same
   serialised bytes), for standard and leftmost-longest semantics.  Chain: the two tries are
   isomorphic (IsoTrie), finish_nfa preserves the isomorphism step by step (Iso), the layout runs
   in lock step on isomorphic NFAs and ends in equal arrays (IsoBw). *)
From DV Require Import Model.Base Model.Nfa Model.Helper Model.BwBuild Model.BwSearch Model.Utf8 Model.CwBuild Model.CwSearch
     Model.Spec Model.Cert
     Proofs.GenAC Proofs.TrieInv Proofs.BuildTrie Proofs.BuildSafe Proofs.CwBuildSafe Proofs.NfaFails Proofs.NfaFailsLm
     Proofs.DaRefine Proofs.CwDaRefine Proofs.BwSafe Proofs.BuildProps Proofs.BuildCert Proofs.CwBuildCert Proofs.BuildStats
     Proofs.BuildCertLm Proofs.NoPanicBw Proofs.NoPanic Proofs.Iso Proofs.IsoBw Proofs.IsoTrie.
From Coq Require Import Sorted Permutation ZifyN ZifyNat ZifyBool.
Local Open Scope N_scope.

Lemma regd_not_lmf {V} k (pvs : list (list N * V)) : k <> LeftmostFirst -> regd V k pvs = pvs.
Proof. intros Hk. unfold regd, registered. destruct k; [reflexivity|reflexivity|congruence]. Qed.

Lemma total_len_perm' {V} (pvs pvs' : list (list N * V)) : Permutation pvs pvs' -> total_len V pvs = total_len V pvs'.
Proof.
  unfold total_len. induction 1 as [|x l l' HP IH|x y l|l l' l'' H1 IH1 H2 IH2]; cbn [fold_right]; [reflexivity|rewrite IH; reflexivity|lia|congruence].
Qed.

(* everything the pattern loop establishes about the trie of an accepted collection *)
Lemma bw_trie_facts (V : Type) k (pvs : list (list N * V)) n0 :
  (forall p v, In (p, v) pvs -> Forall (fun b => b < 256) p) -> 4 * total_len V pvs <= U32_MAX - 1 ->
  add_all V (fun _ => 1) (nfa_new V k) pvs = Ok n0 ->
  exists paths, TI V (fun _ => 1) n0 (regd V k pvs) [] paths /\ n_kind n0 = k /\ n_len n0 = N.of_nat (length (regd V k pvs)) /\ n_outputs n0 = []
    /\ NoDup (map fst pvs) /\ XInv V n0
    /\ (forall i st, nget i (n_states n0) = Some st -> n_fail st = ROOT /\ n_outpos st = 0)
    /\ (forall i st, nget i (n_states n0) = Some st -> NoDup (map fst (n_edges st))).
Proof.
  intros Hbytes Hsz Ea. pose proof Ea as Ea2. rewrite add_all_adds in Ea.
  pose proof (adds_spec V (fun _ => 1) one_pos one_le4 k pvs Hsz) as S.
  destruct (first_offence [] (map fst pvs)) as [e|] eqn:Efo; [rewrite Ea in S; discriminate|].
  destruct S as (n0' & paths & S1 & T0 & Hk & Hlen & Hout). rewrite Ea in S1. inversion S1; subst n0'; clear S1.
  apply first_offence_none in Efo as (_ & Hnd & _).
  pose proof (adds_PEF V (fun _ => 1) pvs _ n0 (nfa_new_PEF V k) Ea) as HPEF.
  destruct (add_all_inv V pvs _ n0 Hbytes (nfa_new_PLO V k) eq_refl Ea2) as [HPLO _].
  exists paths. split; [exact T0|]. split; [exact Hk|]. split; [exact Hlen|]. split; [exact Hout|]. split; [exact Hnd|].
  split; [exact (adds_XInv V _ pvs _ n0 (nfa_new_XInv V k) Ea)|]. split.
  - intros i st Hg. split; [exact (proj1 (HPEF i st Hg))|exact (proj1 (HPLO i st Hg))].
  - intros i st Hg. exact (proj2 (HPEF i st Hg)).
Qed.

Theorem bw_build_perm (V : Type) k nfb (pvs pvs' : list (list N * V)) A A' :
  Permutation pvs pvs' -> k <> LeftmostFirst ->
  (forall p v, In (p, v) pvs -> Forall (fun b => b < 256) p) -> 4 * total_len V pvs <= U32_MAX - 1 ->
  bw_build_with_values V k nfb pvs = Ok A -> bw_build_with_values V k nfb pvs' = Ok A' -> A' = A.
Proof.
  intros HP Hk Hbytes Hsz HA HA'.
  assert (Hsz' : 4 * total_len V pvs' <= U32_MAX - 1) by (rewrite <- (total_len_perm' pvs pvs' HP); exact Hsz).
  assert (Hbytes' : forall p v, In (p, v) pvs' -> Forall (fun b => b < 256) p).
  { intros p v Hin. apply (Hbytes p v). eapply Permutation_in; [apply Permutation_sym; exact HP|exact Hin]. }
  unfold bw_build_with_values in HA, HA'. destruct (nfb =? 0); [discriminate|].
  destruct (bw_build_sparse_nfa V k pvs) as [n2| | | |] eqn:En; cbn [bind] in HA; try discriminate.
  destruct (bw_build_sparse_nfa V k pvs') as [n2'| | | |] eqn:En'; cbn [bind] in HA'; try discriminate.
  destruct (build_double_array V nfb n2) as [sts| | | |] eqn:Ed; cbn [bind] in HA; try discriminate.
  destruct (build_double_array V nfb n2') as [sts'| | | |] eqn:Ed'; cbn [bind] in HA'; try discriminate.
  destruct (U32_MAX <? n_nstates n2 - 1); [discriminate|]. destruct (U32_MAX <? n_nstates n2' - 1); [discriminate|].
  inversion HA; subst A; clear HA. inversion HA'; subst A'; clear HA'.
  pose proof (bw_sparse_nfa_inv V k pvs n2 Hbytes En) as [HA2 _].
  unfold bw_build_sparse_nfa in En, En'.
  destruct (add_all V (fun _ => 1) (nfa_new V k) pvs) as [n0| | | |] eqn:Ea; cbn [bind] in En; try discriminate.
  destruct (add_all V (fun _ => 1) (nfa_new V k) pvs') as [n0'| | | |] eqn:Ea'; cbn [bind] in En'; try discriminate.
  destruct (n_len n0 =? 0) eqn:El; [discriminate|]. destruct (U24_MAX <? n_len n0) eqn:E24; [discriminate|].
  destruct (n_len n0' =? 0); [discriminate|]. destruct (U24_MAX <? n_len n0'); [discriminate|].
  destruct (bw_trie_facts V k pvs n0 Hbytes Hsz Ea) as (paths & T0 & Hk0 & Hlen & Hout & Hnd & X0 & F0 & EK0).
  destruct (bw_trie_facts V k pvs' n0' Hbytes' Hsz' Ea') as (paths' & T0' & Hk0' & Hlen' & Hout' & _ & X0' & F0' & _).
  rewrite (regd_not_lmf k pvs Hk) in *. rewrite (regd_not_lmf k pvs' Hk) in *.
  assert (Hlen01 : n_len n0' = n_len n0) by (rewrite Hlen, Hlen', (Permutation_length HP); reflexivity).
  assert (Hiso0 : iso V (mk_phi paths paths') n0 n0').
  { apply (tries_iso V (fun _ => 1) n0 n0' pvs pvs' paths paths' T0 T0' HP Hnd X0 X0' F0 F0'); [split; assumption|exact Hlen01|congruence]. }
  pose proof (psi_phi V (fun _ => 1) n0 n0' pvs pvs' paths paths' T0 T0' HP Hlen01) as Hpsiphi.
  pose proof (phi_psi V (fun _ => 1) n0 n0' pvs pvs' paths paths' T0 T0' HP Hlen01) as Hphipsi.
  pose proof (finish_nfa_iso V (mk_phi paths paths') (mk_phi paths' paths) Hpsiphi eq_refl eq_refl n0 n0' Hiso0) as Hfin.
  rewrite En, En' in Hfin. cbn [rres] in Hfin.
  (* the tree facts of the finished NFA, for the injectivity of the state-id map *)
  assert (NE0 : pvs <> []) by (intros ->; cbn in Hlen; rewrite Hlen in El; discriminate).
  assert (LEN0 : N.of_nat (length pvs) < U32_MAX) by (apply N.ltb_ge in E24; unfold U24_MAX, U32_MAX in *; lia).
  destruct (finish_nfa_any V (fun _ => 1) one_pos k n0 pvs paths T0 EK0 (fun i st Hg => proj1 (F0 i st Hg)) Hnd LEN0 (fun i st Hg => proj2 (F0 i st Hg)) Hout NE0 Hk0)
    as (n2x & Hf & Hns & Htc & Hst & _).
  rewrite En in Hf. inversion Hf; subst n2x; clear Hf.
  assert (Hlab : forall i st, nget i (n_states n2) = Some st -> forall c t, In (c, t) (n_edges st) -> c < 256) by (intros i st Hg; exact (proj2 (HA2 i st Hg))).
  assert (Hinj : forall a0 h0 a1 h1 im, init_array nfb = Ok (a0, h0) ->
     dfs_loop V (S (N.to_nat (n_nstates n2))) n2 a0 h0 (nset ROOT ROOT nempty) [ROOT] = Ok (a1, h1, im) ->
     forall s1 s2 i, nget s1 im = Some i -> nget s2 im = Some i -> s1 = s2).
  { clear dependent n0'. intros a0 h0 a1 h1 im Ei Edfs.
    assert (W1 : forall i, i < n_nstates n2 -> exists st, nget i (n_states n2) = Some st) by (eapply tf_wf; eassumption).
    assert (W2 : forall s c t, node V n2 s -> (In (c, t) (edges_of V n2 s) <-> tchild V n2 s c = Some t)) by (eapply tf_edges_child; try eassumption; exact one_pos).
    assert (W3 : forall s c t, In (c, t) (edges_of V n2 s) -> c < 256) by (eapply tf_labels; eassumption).
    assert (W4 : forall s c t, node V n2 s -> tchild V n2 s c = Some t -> node V n2 t /\ t <> ROOT /\ t <> DEAD /\ t < n_nstates n2) by (eapply tf_child_node; try eassumption; exact one_pos).
    assert (W5 : forall p1 p2 c1 c2 t, node V n2 p1 -> node V n2 p2 -> tchild V n2 p1 c1 = Some t -> tchild V n2 p2 c2 = Some t -> p1 = p2 /\ c1 = c2) by (eapply tf_uniq_parent; try eassumption; exact one_pos).
    assert (W6 : forall t, node V n2 t -> t <> ROOT -> exists p c, node V n2 p /\ tchild V n2 p c = Some t) by (eapply tf_nonroot_parent; eassumption).
    assert (W7 : forall t, node V n2 t -> t < n_nstates n2) by (eapply tf_node_lt; try eassumption; exact one_pos).
    assert (W8 : forall s, node V n2 s -> NoDup (map fst (edges_of V n2 s))) by (eapply tf_edges_nodup; try eassumption; exact one_pos).
    pose proof (init_array_DI V n2) as XI. feed XI. pose proof (XI nfb a0 h0 Ei) as D0. clear XI.
    pose proof (dfs_loop_DI V n2) as XD. feed XD. destruct (XD _ _ _ _ _ _ _ _ _ D0 Edfs) as [proc D1]. clear XD.
    exact (di_im_inj _ _ _ _ _ _ _ D1). }
  pose proof (build_double_array_iso V (mk_phi paths paths') (mk_phi paths' paths) Hphipsi Hpsiphi eq_refl eq_refl nfb n2 n2' sts sts' Hfin Hinj Ed Ed') as Ests.
  destruct Hfin as (Hn & _ & Ho & _). rewrite Ests, Ho, Hn. reflexivity.
Qed.

(* ---- the character-wise builder --------------------------------------------------------------------- *)
From DV Require Import Proofs.IsoCw Proofs.PermProps.

Lemma cw_trie_facts (V : Type) k (pvs : list (list N * V)) n0 f pr :
  4 * total_len V pvs <= U32_MAX - 1 ->
  cw_add_all V (nfa_new V k) {| fq_map := nempty; fq_len := 0 |} [] pvs = Ok (n0, f, pr) ->
  exists paths, TI V len_utf8 n0 (regd V k pvs) [] paths /\ n_kind n0 = k /\ n_len n0 = N.of_nat (length (regd V k pvs)) /\ n_outputs n0 = []
    /\ NoDup (map fst pvs) /\ XInv V n0
    /\ (forall i st, nget i (n_states n0) = Some st -> n_fail st = ROOT /\ n_outpos st = 0)
    /\ (forall i st, nget i (n_states n0) = Some st -> NoDup (map fst (n_edges st))).
Proof.
  intros Hsz Ea.
  pose proof (cw_add_all_adds V pvs (nfa_new V k) {| fq_map := nempty; fq_len := 0 |} []) as Hadds. rewrite Ea in Hadds.
  pose proof (adds_spec V len_utf8 len_utf8_pos len_utf8_le4 k pvs Hsz) as S.
  destruct (first_offence [] (map fst pvs)) as [e|] eqn:Efo; [rewrite Hadds in S; discriminate|].
  destruct S as (n0' & paths & S1 & T0 & Hk & Hlen & Hout). rewrite Hadds in S1. inversion S1; subst n0'; clear S1.
  apply first_offence_none in Efo as (_ & Hnd & _).
  pose proof (adds_PEF V len_utf8 pvs _ n0 (nfa_new_PEF V k) Hadds) as HPEF.
  destruct (cw_add_all_inv V pvs _ _ _ _ _ _ (nfa_new_PLO_any V k) eq_refl Ea) as [HPLO _].
  exists paths. split; [exact T0|]. split; [exact Hk|]. split; [exact Hlen|]. split; [exact Hout|]. split; [exact Hnd|].
  split; [exact (adds_XInv V _ pvs _ n0 (nfa_new_XInv V k) Hadds)|]. split.
  - intros i st Hg. split; [exact (proj1 (HPEF i st Hg))|exact (proj1 (HPLO i st Hg))].
  - intros i st Hg. exact (proj2 (HPEF i st Hg)).
Qed.

Theorem cw_build_perm (V : Type) k nfb (pvs pvs' : list (list N * V)) C C' :
  Permutation pvs pvs' -> k <> LeftmostFirst -> 4 * total_len V pvs <= U32_MAX - 1 ->
  cw_build_with_values V k nfb pvs = Ok C -> cw_build_with_values V k nfb pvs' = Ok C' -> C' = C.
Proof.
  intros HP Hk Hsz HA HA'.
  assert (Hsz' : 4 * total_len V pvs' <= U32_MAX - 1) by (rewrite <- (total_len_perm' pvs pvs' HP); exact Hsz).
  unfold cw_build_with_values in HA, HA'. destruct (nfb =? 0); [discriminate|].
  destruct (cw_add_all V (nfa_new V k) _ [] pvs) as [[[n0 f] pr]| | | |] eqn:Ea; cbn [bind] in HA; try discriminate.
  destruct (cw_add_all V (nfa_new V k) _ [] pvs') as [[[n0' f'] pr']| | | |] eqn:Ea'; cbn [bind] in HA'; try discriminate.
  destruct (n_len n0 =? 0) eqn:El; [discriminate|]. destruct (n_len n0' =? 0); [discriminate|].
  destruct (finish_nfa V n0) as [n2| | | |] eqn:En; cbn [bind] in HA; try discriminate.
  destruct (finish_nfa V n0') as [n2'| | | |] eqn:En'; cbn [bind] in HA'; try discriminate.
  assert (Hmp : mapper_new f' pr' = mapper_new f pr).
  { rewrite (cw_mapper_is_mapper_of_chars pvs _ _ _ _ Ea), (cw_mapper_is_mapper_of_chars pvs' _ _ _ _ Ea'). symmetry. apply cw_mapper_perm. exact HP. }
  rewrite Hmp in HA'. set (mp := mapper_new f pr) in *.
  destruct (cw_init_array (mp_alpha mp) nfb) as [[[a0 h0] b]| | | |] eqn:Ei; cbn [bind] in HA, HA'; try discriminate.
  destruct (cw_dfs_loop V _ _ b n2 a0 h0 _ _) as [[[a1 h1] idmap]| | | |] eqn:Ed; cbn [bind] in HA; try discriminate.
  destruct (cw_dfs_loop V _ _ b n2' a0 h0 _ _) as [[[a1' h1'] idmap']| | | |] eqn:Ed'; cbn [bind] in HA'; try discriminate.
  destruct (cw_set_fails_loop V n2 a1 idmap _) as [a2| | | |] eqn:Es; cbn [bind] in HA; try discriminate.
  destruct (cw_set_fails_loop V n2' a1' idmap' _) as [a2'| | | |] eqn:Es'; cbn [bind] in HA'; try discriminate.
  destruct (U32_MAX <? n_nstates n2 - 1); [discriminate|]. destruct (U32_MAX <? n_nstates n2' - 1); [discriminate|].
  inversion HA; subst C; clear HA. inversion HA'; subst C'; clear HA'.
  destruct (cw_trie_facts V k pvs n0 f pr Hsz Ea) as (paths & T0 & Hk0 & Hlen & Hout & Hnd & X0 & F0 & EK0).
  destruct (cw_trie_facts V k pvs' n0' f' pr' Hsz' Ea') as (paths' & T0' & Hk0' & Hlen' & Hout' & _ & X0' & F0' & _).
  rewrite (regd_not_lmf k pvs Hk) in *. rewrite (regd_not_lmf k pvs' Hk) in *.
  assert (Hlen01 : n_len n0' = n_len n0) by (rewrite Hlen, Hlen', (Permutation_length HP); reflexivity).
  assert (Hiso0 : iso V (mk_phi paths paths') n0 n0').
  { apply (tries_iso V len_utf8 n0 n0' pvs pvs' paths paths' T0 T0' HP Hnd X0 X0' F0 F0'); [split; assumption|exact Hlen01|congruence]. }
  pose proof (psi_phi V len_utf8 n0 n0' pvs pvs' paths paths' T0 T0' HP Hlen01) as Hpsiphi.
  pose proof (phi_psi V len_utf8 n0 n0' pvs pvs' paths paths' T0 T0' HP Hlen01) as Hphipsi.
  pose proof (finish_nfa_iso V (mk_phi paths paths') (mk_phi paths' paths) Hpsiphi eq_refl eq_refl n0 n0' Hiso0) as Hfin.
  rewrite En, En' in Hfin. cbn [rres] in Hfin.
  assert (NE0 : pvs <> []) by (intros ->; cbn in Hlen; rewrite Hlen in El; discriminate).
  assert (Hne : forall p v, In (p, v) pvs -> p <> []).
  { intros p v Hin Hp. subst p. pose proof (ti_sub _ _ _ _ _ _ T0 [] v Hin) as Hin2. apply (ti_mem _ _ _ _ _ _ T0) in Hin2 as [Hx _]. congruence. }
  assert (LEN0 : N.of_nat (length pvs) < U32_MAX) by (pose proof (count_le_total_len pvs Hne); unfold U32_MAX in *; lia).
  destruct (finish_nfa_any V len_utf8 len_utf8_pos k n0 pvs paths T0 EK0 (fun i st Hg => proj1 (F0 i st Hg)) Hnd LEN0 (fun i st Hg => proj2 (F0 i st Hg)) Hout NE0 Hk0)
    as (n2x & Hf & Hns & Htc & Hst & _).
  rewrite En in Hf. inversion Hf; subst n2x; clear Hf.
  assert (Hinj : forall s1 s2 i, nget s1 idmap = Some i -> nget s2 idmap = Some i -> s1 = s2).
  { clear dependent n0'. clear dependent n2'.
    assert (Hnode : forall t, node V n2 t <-> exists w, N0 V n0 w t) by (apply node2_iff; exact Htc).
    destruct (cw_init_array_inv _ _ _ _ _ Ei) as (Hb & Hbu & _).
    destruct (block_len_pow2 (mp_alpha mp)) as [kk [Hbk Hk1]].
    assert (Hprs : StronglySorted N.lt pr) by (apply (cw_add_all_present pvs _ _ _ _ _ _ (SSorted_nil _) Ea)).
    assert (W2 : forall s c t, node V n2 s -> (In (c, t) (edges_of V n2 s) <-> tchild V n2 s c = Some t)) by (eapply tf_edges_child; try eassumption; exact len_utf8_pos).
    assert (W4 : forall s c t, node V n2 s -> tchild V n2 s c = Some t -> node V n2 t /\ t <> ROOT /\ t <> DEAD /\ t < n_nstates n2) by (eapply tf_child_node; try eassumption; exact len_utf8_pos).
    assert (W5 : forall p1 p2 c1 c2 t, node V n2 p1 -> node V n2 p2 -> tchild V n2 p1 c1 = Some t -> tchild V n2 p2 c2 = Some t -> p1 = p2 /\ c1 = c2) by (eapply tf_uniq_parent; try eassumption; exact len_utf8_pos).
    assert (W7 : forall t, node V n2 t -> t < n_nstates n2) by (eapply tf_node_lt; try eassumption; exact len_utf8_pos).
    assert (W8 : forall s, node V n2 s -> NoDup (map fst (edges_of V n2 s))) by (eapply tf_edges_nodup; try eassumption; exact len_utf8_pos).
    assert (W9 : forall c m, code_of (index_list (mp_table mp)) c = Some m -> m < 2 ^ kk).
    { intros c m Hc. apply (code_of_lt (mp_table mp) (mp_alpha mp)) in Hc; [|intros x Hx; exact (mapper_new_codes f pr x Hx)].
      pose proof (block_len_ge (mp_alpha mp)) as Hge. rewrite <- Hb in Hge. specialize (Hge Hbu). rewrite Hb, Hbk in Hge. lia. }
    assert (W10 : forall c1 c2 m, code_of (index_list (mp_table mp)) c1 = Some m -> code_of (index_list (mp_table mp)) c2 = Some m -> c1 = c2) by exact (mapper_code_inj f pr Hprs).
    pose proof (cw_init_CDI kk Hk1 V n2 (index_list (mp_table mp))) as XI. feed XI. destruct (XI (mp_alpha mp) nfb a0 h0 b Hbk Ei) as [Eb D0]. clear XI.
    specialize (D0 ltac:(apply Hnode; exists []; reflexivity)). rewrite Eb in Ed.
    pose proof (cw_dfs_loop_CDI kk Hk1 V n2 (index_list (mp_table mp))) as XD. feed XD. destruct (XD _ _ _ _ _ _ _ _ _ D0 Ed) as [proc D1]. clear XD.
    exact (cd_im_inj _ _ _ _ _ _ _ _ _ D1). }
  pose proof (cw_layout_iso V (mk_phi paths paths') (mk_phi paths' paths) Hphipsi Hpsiphi eq_refl eq_refl
                (mp_alpha mp) nfb (index_list (mp_table mp)) n2 n2' a0 h0 b a1 h1 idmap a2 a0 h0 b a1' h1' idmap' a2' Hfin Hinj Ei Ed Es Ei Ed' Es') as Ests.
  destruct Hfin as (Hn & _ & Ho & _). rewrite Ests, Ho, Hn. reflexivity.
Qed.
