(* BwLeftmost.v — byte-wise automaton, leftmost kinds: [bw_lm_cert_ok A pvs = true] implies that
   leftmost_find_iter of the model returns the specification spec_lml pvs for ALL haystacks. *)
From DV Require Import Model.Base Model.Nfa Model.BwBuild Model.BwSearch Model.Api Model.Spec
     Model.Cert Proofs.GenAC Proofs.Leftmost Proofs.BwCert.
From Coq Require Import ZifyN ZifyNat ZifyBool.

Local Open Scope N_scope.

Section BwLm.
Variable V : Type.
Variable veqb : V -> V -> bool.
Hypothesis veqb_sound : forall a b, veqb a b = true -> a = b.
Variable A : bw_automaton V.
Variable pvs : list (list N * V).
Hypothesis CERT : bw_lm_cert_ok veqb A pvs = true.

Let sget := bw_sget V A.
Let oget := bw_oget V A.
Let nslots := bw_nslots V A.
Let child := bwc_child sget.
Let failof := bwc_failof sget.
Let outposof := bwc_outposof sget.
Let outat := bwc_outat V oget.
Let maxdepth := S (length (bw_states A)).

Notation walk := (Cert.walk child).
Notation lsuf := (Cert.lsuf child).
Notation occ := (Leftmost.occ V pvs).
Notation isLL := (Leftmost.isLL V pvs).
Notation K := (Leftmost.K V child pvs).

Lemma kind_lm : is_leftmost (bw_kind A) = true.
Proof. pose proof CERT as C. unfold bw_lm_cert_ok in C. apply andb_true_iff in C. tauto. Qed.

Lemma child_labels_lm : forall s c, ~ In c byte_labels -> child s c = Ok None.
Proof.
  intros s c H. unfold child, bwc_child. destruct (c <? 256) eqn:E; [|reflexivity].
  exfalso. apply H. apply nseq_In. lia.
Qed.

Lemma cert_tree_lm : exists fuel,
  lm_tree_ok V veqb child failof outposof outat byte_labels bwc_plen pvs fuel maxdepth ROOT [] = true.
Proof.
  pose proof CERT as C. unfold bw_lm_cert_ok, lm_cert_ok in C. rewrite !andb_true_iff in C.
  destruct C as (_ & (H & _) & _). eexists. exact H.
Qed.

Lemma pats_ok_lm : forall p v, In (p, v) pvs -> p <> [] /\ Cert.inT child p = true.
Proof.
  pose proof CERT as C. unfold bw_lm_cert_ok, lm_cert_ok in C. rewrite !andb_true_iff in C.
  destruct C as (_ & (_ & H) & _). rewrite forallb_forall in H. intros p v Hin.
  specialize (H (p, v) Hin). cbn [fst] in H. apply andb_true_iff in H as [H1 H2]. split; [|exact H2].
  destruct p; [discriminate|congruence].
Qed.

Lemma nodupb_sound l : nodupb l = true -> NoDup l.
Proof.
  induction l as [|x r IH]; cbn [nodupb]; intros H; [constructor|].
  apply andb_true_iff in H as [H1 H2]. constructor; [|apply IH; exact H2].
  intros Hin. apply negb_true_iff in H1.
  assert (existsb (list_eqb x) r = true); [|congruence].
  apply existsb_exists. exists x. split; [exact Hin|]. apply list_eqb_eq. reflexivity.
Qed.

Lemma pats_nodup : NoDup (map fst pvs).
Proof.
  pose proof CERT as C. unfold bw_lm_cert_ok, lm_cert_ok in C. rewrite !andb_true_iff in C.
  destruct C as (_ & _ & H). apply nodupb_sound. exact H.
Qed.

Definition lm_node_ok' := lm_node_ok V veqb veqb_sound child failof outposof outat byte_labels bwc_plen pvs
                                     child_labels_lm maxdepth cert_tree_lm.

(* ---- the model's leftmost transition function is the generic loop --------------------------- *)
Lemma next_state_lm_gen c : c < 256 -> forall fuel s t s',
  g_next_lm child failof fuel s c = Ok s' ->
  exists t', bw_next_state_lm sget fuel s c t = Ok (s', t').
Proof.
  intros Hc. induction fuel as [|fuel IH]; intros s t s' H; [discriminate|].
  cbn [g_next_lm bw_next_state_lm] in *. unfold child at 1, bwc_child in H. rewrite (proj2 (N.ltb_lt _ _) Hc) in H.
  destruct (bw_child sget s c) as [[x|]| | | |]; cbn [bind] in *; try discriminate.
  - inversion H; subst. eauto.
  - destruct (s =? ROOT); [inversion H; subst; eauto|].
    unfold failof at 1, bwc_failof in H. destruct (st_at sget s) as [st| | | |]; cbn [bind] in *; try discriminate.
    destruct (b_fail st =? DEAD); [inversion H; subst; eauto|]. eapply IH. exact H.
Qed.

Lemma step_lm w c s t : c < 256 -> walk ROOT (lsuf w) = Some s ->
  exists s' t', bw_next_state_lm sget (fuel0 nslots) s c t = Ok (s', t')
                /\ state_of child (lm_str V child pvs (fuel0 nslots) (lsuf w) c) = Some s'.
Proof.
  intros Hc Hw. pose proof (lm_node_ok' _ _ Hw) as NF.
  assert (Hf : (length (lsuf w) < fuel0 nslots)%nat).
  { destruct NF as [_ _ Hd _ _ _]. unfold fuel0, nslots, bw_nslots. rewrite Nat2N.id. unfold maxdepth in Hd. lia. }
  destruct (g_next_lm_str V veqb veqb_sound child failof outposof outat byte_labels bwc_plen pvs
              child_labels_lm maxdepth cert_tree_lm c (fuel0 nslots) (lsuf w) s Hw Hf) as (s' & H1 & H2).
  destruct (next_state_lm_gen c Hc _ s t s' H1) as [t' Ht]. eauto.
Qed.

(* ---- the scan of one next() call -------------------------------------------------------------- *)
Variable p : nat.         (* absolute offset at which this call starts *)
Variable R : list N.      (* the haystack from there on *)

Definition SI (w : list N) (s last : N) (selfpos : nat) : Prop :=
  walk ROOT (lsuf w) = Some s /\ K w
  /\ (last = 0 -> forall a b, ~ occ w a b)
  /\ (last <> 0 -> exists a b o, isLL w a b /\ selfpos = (p + b)%nat /\ outat last = Ok o
                                /\ o_length o = bwc_plen (sub w a b) /\ In (sub w a b, o_value o) pvs).

Definition Q (res : option (N * nat)) (pos' : nat) : Prop :=
  match res with
  | None => forall a b, ~ occ R a b
  | Some (opos, e_abs) => exists a b o, isLL R a b /\ e_abs = (p + b)%nat /\ pos' = e_abs /\ outat opos = Ok o
                                      /\ o_length o = bwc_plen (sub R a b) /\ In (sub R a b, o_value o) pvs
  end.

Lemma occ_prefix' w z a b : (b <= length w)%nat -> occ (w ++ z) a b <-> occ w a b.
Proof. apply (occ_prefix V child pvs pats_ok_lm). Qed.

Lemma lm_scan_correct : forall rest w s last selfpos t,
  R = w ++ rest -> bytes rest -> SI w s last selfpos ->
  exists res pos' t', lm_scan sget nslots rest (p + length w) s last selfpos t = Ok (res, pos', t') /\ Q res pos'.
Proof.
  induction rest as [|c rest IH]; intros w s last selfpos t HR Hb (Hw & HK & H0 & H1).
  - rewrite app_nil_r in HR. subst w. cbn [lm_scan]. destruct (last =? 0) eqn:E.
    + apply N.eqb_eq in E. eexists. eexists. eexists. split; [reflexivity|]. cbn. exact (H0 E).
    + apply N.eqb_neq in E. destruct (H1 E) as (a & b & o & HLL & Hsp & Ho & Hl & Hin).
      eexists. eexists. eexists. split; [reflexivity|]. cbn. exists a, b, o.
      split; [exact HLL|]. split; [exact Hsp|]. split; [reflexivity|]. split; [exact Ho|]. split; [exact Hl|exact Hin].
  - inversion Hb as [|? ? Hc Hb']; subst.
    destruct (step_lm w c s t Hc Hw) as (s' & t' & Hstep & Hst).
    assert (Hfuel : (length (lsuf w) < fuel0 nslots)%nat).
    { pose proof (lm_node_ok' _ _ Hw) as NF. destruct NF as [_ _ Hd _ _ _].
      unfold fuel0, nslots, bw_nslots. rewrite Nat2N.id. unfold maxdepth in Hd. lia. }
    pose proof (lm_step V veqb veqb_sound child byte_labels pvs child_labels_lm maxdepth pats_ok_lm c w (fuel0 nslots) HK Hfuel) as Hls.
    assert (HR' : R = (w ++ [c]) ++ rest) by (rewrite HR, <- app_assoc; reflexivity).
    assert (Hidx : S (p + length w) = (p + length (w ++ [c]))%nat) by (rewrite app_length; cbn [length]; lia).
    cbn [lm_scan]. rewrite Hstep. cbn [bind].
    destruct (lm_str V child pvs (fuel0 nslots) (lsuf w) c) as [z|] eqn:Ez.
    + (* a live transition to the node z = lsuf (w ++ [c]) *)
      destruct Hls as [Hz HK']. cbn [state_of] in Hst.
      pose proof (lm_node_ok' _ _ Hst) as NF. destruct NF as [NFroot _ _ _ NFout _].
      pose proof (lm_out_step V veqb veqb_sound child byte_labels bwc_plen pvs child_labels_lm maxdepth pats_ok_lm w c HK') as Hout. cbn zeta in Hout.
      rewrite Hz in Hst.
      destruct (s' =? ROOT) eqn:Er.
      * apply N.eqb_eq in Er. pose proof (NFroot Er) as Hznil.
        assert (Hnone : forall a b, ~ occ (w ++ [c]) a b).
        { intros a b Ho. pose proof (HK' a b Ho) as Hs. rewrite <- Hz, Hznil in Hs. cbn [length] in Hs.
          destruct Ho as [Ho _]. lia. }
        destruct (last =? 0) eqn:E.
        -- apply N.eqb_eq in E. rewrite Hidx. apply IH; [exact HR'|exact Hb'|].
           split; [exact Hst|]. split; [exact HK'|]. split; [intros _; exact Hnone|]. intros Hne. congruence.
        -- apply N.eqb_neq in E. destruct (H1 E) as (a & b & o & [Ho _] & _). exfalso.
           apply (Hnone a b). apply (proj2 (occ_prefix' w [c] a b ltac:(destruct Ho; lia))). exact Ho.
      * destruct NFout as (p0 & Hp0 & Hrel). unfold outposof, bwc_outposof in Hp0.
        destruct (st_at sget s') as [st| | | |]; cbn [bind] in Hp0; try discriminate. inversion Hp0; subst p0.
        cbn [bind]. rewrite Hz in Hrel.
        destruct (Cert.lm_out V bwc_plen pvs (lsuf (w ++ [c]))) as [lv|] eqn:Elo.
        -- destruct Hrel as (Hne & o & Hoa & Hol & Hov). rewrite (proj2 (N.eqb_neq _ _) Hne).
           destruct Hout as (a & v & HLL & Hin & Hlv).
           rewrite Hidx. apply IH; [exact HR'|exact Hb'|].
           split; [exact Hst|]. split; [exact HK'|]. split; [intros E; congruence|]. intros _.
           exists a, (length (w ++ [c])), o. split; [exact HLL|]. split; [reflexivity|]. split; [exact Hoa|].
           subst lv. cbn [fst snd] in Hol, Hov. split; [exact Hol|]. rewrite Hov. exact Hin.
        -- rewrite Hrel, N.eqb_refl. destruct Hout as [Hkeep Hnone].
           rewrite Hidx. apply IH; [exact HR'|exact Hb'|].
           split; [exact Hst|]. split; [exact HK'|]. split; [intros E; apply Hnone; exact (H0 E)|].
           intros E. destruct (H1 E) as (a & b & o & HLL & Hsp & Ho & Hl & Hin).
           assert (Hbw : (b <= length w)%nat) by (destruct HLL as [[Hr _] _]; lia).
           exists a, b, o. rewrite (sub_app_l V child pvs pats_ok_lm w [c] a b Hbw).
           split; [apply Hkeep; exact HLL|]. split; [exact Hsp|]. split; [exact Ho|]. split; [exact Hl|exact Hin].
    + (* a dead link: fall back to the root and report what was recorded *)
      destruct Hls as [(s0 & e0 & Hocc0) HB4]. cbn [state_of] in Hst. inversion Hst; subst s'.
      rewrite N.eqb_refl.
      destruct (last =? 0) eqn:E; [apply N.eqb_eq in E; exfalso; exact (H0 E _ _ Hocc0)|].
      apply N.eqb_neq in E. destruct (H1 E) as (a & b & o & HLL & Hsp & Ho & Hl & Hin).
      eexists. eexists. eexists. split; [reflexivity|]. cbn. rewrite HR.
      assert (Hbw : (b <= length w)%nat) by (destruct HLL as [[Hr _] _]; lia).
      exists a, b, o. rewrite (sub_app_l V child pvs pats_ok_lm w (c :: rest) a b Hbw).
      split; [|split; [exact Hsp|]; split; [reflexivity|]; split; [exact Ho|]; split; [exact Hl|exact Hin]]. destruct HLL as [Hoab Hmin]. split.
      * apply (proj2 (occ_prefix' w (c :: rest) a b Hbw)). exact Hoab.
      * intros a' b' Ho'. destruct (le_lt_dec b' (length w)) as [Hle|Hgt].
        -- apply Hmin. apply (proj1 (occ_prefix' w (c :: rest) a' b' Hle)). exact Ho'.
        -- destruct (HB4 rest a' b' Ho' Hgt) as (s1 & e1 & Ho1 & Hlt).
           destruct (Hmin _ _ Ho1) as [Hle1 _]. split; lia.
Qed.

End BwLm.

(* ================= the specification side ====================================================== *)
Section SpecSide.
Variable V : Type.
Variable child : N -> N -> res (option N).
Variable pvs : list (list N * V).
Hypothesis pats_ok : forall p v, In (p, v) pvs -> p <> [] /\ Cert.inT child p = true.
Hypothesis pats_nd : NoDup (map fst pvs).

Notation occ := (Leftmost.occ V pvs).
Notation isLL := (Leftmost.isLL V pvs).

Lemma nonempty_pats_id : nonempty_pats V pvs = pvs.
Proof.
  unfold nonempty_pats. assert (forall l : list (list N * V), (forall p v, In (p, v) l -> p <> []) -> filter (fun pv => negb (list_eqb (fst pv) [])) l = l) as H.
  { induction l as [|[p v] l IH]; intros Hl; [reflexivity|]. cbn [filter fst].
    destruct (list_eqb p []) eqn:E.
    - apply list_eqb_eq in E. exfalso. apply (Hl p v); [left; reflexivity|exact E].
    - cbn [negb]. f_equal. apply IH. intros q x Hin. apply (Hl q x). right. exact Hin. }
  apply H. intros q x Hin. apply (pats_ok q x Hin).
Qed.

(* longest_at: the longest pattern that is a prefix of the text from s *)
Lemma longest_at_spec h s : forall (l : list (list N * V)) (acc : option (list N * V)),
  (match acc with Some b => is_prefix (fst b) (skipn s h) = true | None => True end) ->
  match fold_left (fun (best : option (list N * V)) (pv : list N * V) =>
                     if is_prefix (fst pv) (skipn s h) then
                       match best with
                       | Some b => if (length (fst b) <? length (fst pv))%nat then Some pv else best
                       | None => Some pv
                       end
                     else best) l acc with
  | None => acc = None /\ forall pv, In pv l -> is_prefix (fst pv) (skipn s h) = false
  | Some b => (In b l \/ acc = Some b) /\ is_prefix (fst b) (skipn s h) = true
              /\ (forall pv, In pv l -> is_prefix (fst pv) (skipn s h) = true -> (length (fst pv) <= length (fst b))%nat)
              /\ (forall a, acc = Some a -> (length (fst a) <= length (fst b))%nat)
  end.
Proof.
  induction l as [|pv l IH]; intros acc Hacc; cbn [fold_left].
  - destruct acc as [b|]; [|split; [reflexivity|intros ? []]].
    split; [right; reflexivity|]. split; [exact Hacc|]. split; [intros ? []|]. intros a E. inversion E. lia.
  - destruct (is_prefix (fst pv) (skipn s h)) eqn:Ep.
    + destruct acc as [b0|].
      * destruct (length (fst b0) <? length (fst pv))%nat eqn:El.
        -- specialize (IH (Some pv) Ep). destruct (fold_left _ l (Some pv)) as [b|].
           ++ destruct IH as (H1 & H2 & H3 & H4). split; [destruct H1 as [H1|H1]; [left; right; exact H1|inversion H1; subst; left; left; reflexivity]|].
              split; [exact H2|]. split.
              ** intros q [<-|Hq] Hpq; [apply H4; reflexivity|apply H3; assumption].
              ** intros a E. inversion E; subst. apply Nat.ltb_lt in El. specialize (H4 pv eq_refl). lia.
           ++ destruct IH as [H _]. discriminate.
        -- specialize (IH (Some b0) Hacc). destruct (fold_left _ l (Some b0)) as [b|].
           ++ destruct IH as (H1 & H2 & H3 & H4). split; [destruct H1 as [H1|H1]; [left; right; exact H1|right; exact H1]|].
              split; [exact H2|]. split.
              ** intros q [<-|Hq] Hpq; [apply Nat.ltb_ge in El; specialize (H4 b0 eq_refl); lia|apply H3; assumption].
              ** exact H4.
           ++ destruct IH as [H _]. discriminate.
      * specialize (IH (Some pv) Ep). destruct (fold_left _ l (Some pv)) as [b|].
        -- destruct IH as (H1 & H2 & H3 & H4). split; [destruct H1 as [H1|H1]; [left; right; exact H1|inversion H1; subst; left; left; reflexivity]|].
           split; [exact H2|]. split; [|intros a E; discriminate].
           intros q [<-|Hq] Hpq; [apply H4; reflexivity|apply H3; assumption].
        -- destruct IH as [H _]. discriminate.
    + specialize (IH acc Hacc). destruct (fold_left _ l acc) as [b|].
      * destruct IH as (H1 & H2 & H3 & H4). split; [destruct H1 as [H1|H1]; [left; right; exact H1|right; exact H1]|].
        split; [exact H2|]. split; [|exact H4]. intros q [<-|Hq] Hpq; [congruence|apply H3; assumption].
      * destruct IH as [H1 H2]. split; [exact H1|]. intros q [<-|Hq]; [exact Ep|apply H2; exact Hq].
Qed.

Lemma first_start_spec (choose : nat -> option (list N * V)) : forall n a,
  match first_start V choose (seq a n) with
  | None => forall k, (a <= k < a + n)%nat -> choose k = None
  | Some (s, pv) => (a <= s < a + n)%nat /\ choose s = Some pv /\ forall k, (a <= k < s)%nat -> choose k = None
  end.
Proof.
  induction n as [|n IH]; intros a; cbn [seq first_start]; [intros k Hk; lia|].
  destruct (choose a) as [pv|] eqn:E.
  - split; [lia|]. split; [exact E|]. intros k Hk. lia.
  - specialize (IH (S a)). destruct (first_start V choose (seq (S a) n)) as [[s pv]|].
    + destruct IH as (H1 & H2 & H3). split; [lia|]. split; [exact H2|]. intros k Hk.
      destruct (Nat.eq_dec k a) as [->|Hne]; [exact E|apply H3; lia].
    + intros k Hk. destruct (Nat.eq_dec k a) as [->|Hne]; [exact E|apply IH; lia].
Qed.

Lemma isLL_unique R a b a' b' : isLL R a b -> isLL R a' b' -> a = a' /\ b = b'.
Proof.
  intros [H1 H2] [H3 H4]. destruct (H2 _ _ H3) as [Ha Hb]. destruct (H4 _ _ H1) as [Ha' Hb'].
  assert (a = a') by lia. subst. split; [reflexivity|]. specialize (Hb eq_refl). specialize (Hb' eq_refl). lia.
Qed.

Lemma skipn_skipn'' {X} (x y : nat) (l : list X) : skipn x (skipn y l) = skipn (y + x) l.
Proof.
  revert l; induction y as [|y IH]; intros l; [reflexivity|].
  destruct l as [|a l]; [rewrite !skipn_nil; reflexivity|]. cbn [skipn Nat.add]. apply IH.
Qed.

(* the choice of the specification at the first start position with an occurrence is THE
   leftmost-longest occurrence of the remaining text *)
Lemma spec_choice h from : (from <= length h)%nat ->
  let R := skipn from h in
  match first_start V (longest_at V pvs h) (seq from (length h - from)) with
  | None => forall a b, ~ occ R a b
  | Some (s, pv) => (from <= s)%nat /\ In pv pvs /\ isLL R (s - from) (s - from + length (fst pv))
                    /\ sub R (s - from) (s - from + length (fst pv)) = fst pv
  end.
Proof.
  intros Hf R.
  assert (HRl : length R = (length h - from)%nat) by (unfold R; apply skipn_length).
  assert (Hocc_pre : forall a b, occ R a b -> exists pv, In pv pvs /\ fst pv = sub R a b
                                                     /\ is_prefix (fst pv) (skipn (from + a) h) = true).
  { intros a b [Hr Hp]. apply (isPat_iff V pvs) in Hp as [v Hin]. exists (sub R a b, v). split; [exact Hin|]. split; [reflexivity|].
    cbn [fst]. apply (is_prefix_iff). unfold sub, R. rewrite skipn_skipn''. exists (skipn (b - a) (skipn (from + a) h)).
    symmetry. apply firstn_skipn. }
  assert (Hpre_occ : forall a pv, In pv pvs -> is_prefix (fst pv) (skipn (from + a) h) = true ->
                                  occ R a (a + length (fst pv)) /\ sub R a (a + length (fst pv)) = fst pv).
  { intros a [q v] Hin Hp. cbn [fst] in *. apply is_prefix_iff in Hp as [r Hr].
    destruct (pats_ok q v Hin) as [Hne _].
    assert (Hsk : skipn a R = q ++ r) by (unfold R; rewrite skipn_skipn''; exact Hr).
    assert (Hsub : sub R a (a + length q) = q).
    { unfold sub. replace (a + length q - a)%nat with (length q) by lia. rewrite Hsk.
      rewrite firstn_app, Nat.sub_diag, firstn_all. cbn [firstn]. apply app_nil_r. }
    split; [|exact Hsub]. split.
    - apply (f_equal (@length N)) in Hsk. rewrite skipn_length, app_length in Hsk.
      destruct q; [congruence|cbn [length] in *]. lia.
    - rewrite Hsub. apply (isPat_iff V pvs). eauto. }
  pose proof (first_start_spec (longest_at V pvs h) (length h - from) from) as Hfs.
  destruct (first_start V (longest_at V pvs h) (seq from (length h - from))) as [[s pv]|].
  - destruct Hfs as (Hs & Hch & Hbefore).
    unfold longest_at in Hch. pose proof (longest_at_spec h s pvs None I) as Hl. rewrite Hch in Hl.
    destruct Hl as (Hin & Hp & Hmax & _). destruct Hin as [Hin|Hin]; [|discriminate].
    replace s with (from + (s - from))%nat in Hp by lia.
    destruct (Hpre_occ (s - from)%nat pv Hin Hp) as [Ho Hsub].
    split; [lia|]. split; [exact Hin|]. split; [|exact Hsub]. split; [exact Ho|].
    intros a' b' Ho'. destruct (Hocc_pre a' b' Ho') as (pv' & Hin' & Hf' & Hp').
    split.
    + destruct (le_lt_dec (s - from) a') as [H|H]; [exact H|]. exfalso.
      assert (Hk : (from <= from + a' < s)%nat) by lia.
      specialize (Hbefore _ Hk). unfold longest_at in Hbefore.
      pose proof (longest_at_spec h (from + a') pvs None I) as Hl'. rewrite Hbefore in Hl'.
      destruct Hl' as [_ Hall]. rewrite (Hall pv' Hin') in Hp'. discriminate.
    + intros ->. replace (from + (s - from))%nat with s in Hp' by lia.
      replace (from + (s - from))%nat with s in Hp by lia.
      specialize (Hmax pv' Hin' Hp'). rewrite Hf' in Hmax.
      destruct Ho' as [Hr' _]. unfold sub in Hmax. rewrite firstn_length, skipn_length in Hmax. lia.
  - intros a b Ho. destruct (Hocc_pre a b Ho) as (pv' & Hin' & Hf' & Hp').
    assert (Hk : (from <= from + a < from + (length h - from))%nat) by (destruct Ho as [Hr _]; lia).
    specialize (Hfs _ Hk). unfold longest_at in Hfs.
    pose proof (longest_at_spec h (from + a) pvs None I) as Hl'. rewrite Hfs in Hl'.
    destruct Hl' as [_ Hall]. rewrite (Hall pv' Hin') in Hp'. discriminate.
Qed.

Lemma value_unique_gen (l : list (list N * V)) p v v' :
  NoDup (map fst l) -> In (p, v) l -> In (p, v') l -> v = v'.
Proof.
  induction l as [|[q w] l IH]; cbn [map fst In]; intros Hn; [tauto|].
  inversion Hn as [|? ? Hnot Hn']; subst. intros [H1|H1] [H2|H2].
  - congruence.
  - inversion H1; subst. exfalso. apply Hnot. apply in_map_iff. exists (p, v'). auto.
  - inversion H2; subst. exfalso. apply Hnot. apply in_map_iff. exists (p, v). auto.
  - apply IH; assumption.
Qed.
End SpecSide.

(* ================= assembling: every next() call, the whole run ================================ *)
Section BwLmFinal.
Variable V : Type.
Variable veqb : V -> V -> bool.
Hypothesis veqb_sound : forall a b, veqb a b = true -> a = b.
Variable A : bw_automaton V.
Variable pvs : list (list N * V).
Hypothesis CERT : bw_lm_cert_ok veqb A pvs = true.

Let sget := bw_sget V A.
Let oget := bw_oget V A.
Let nslots := bw_nslots V A.
Let child := bwc_child sget.

Notation lm_next' := (lm_next V sget oget nslots).

Let pok := pats_ok_lm V veqb A pvs CERT.
Let pnd := pats_nodup V veqb A pvs CERT.

Definition lm_it_at (h : list N) (pos : nat) (t : N) : lm_it := {| l_hay := h; l_pos := pos; l_ticks := t |}.

Lemma SI_init from : SI V A pvs from [] ROOT 0 from.
Proof.
  unfold SI. split; [reflexivity|]. split.
  - unfold Leftmost.K, starts_ge. intros s e [H _]. cbn in H. lia.
  - split.
    + intros _ a b [H _]. cbn in H. lia.
    + intros H. congruence.
Qed.

(* one call of next() against the choice of the specification *)
Lemma lm_next_spec h from t : bytes h -> (from <= length h)%nat ->
  exists r it', lm_next' (lm_it_at h from t) = Ok (r, it') /\
    match first_start V (longest_at V pvs h) (seq from (length h - from)) with
    | None => r = None
    | Some (s, pv) => exists m, r = Some m /\ tr_m V m = (s, (s + length (fst pv))%nat, snd pv)
                                /\ (N.to_nat (m_length m) <= m_end m)%nat
                                /\ l_hay it' = h /\ l_pos it' = (s + length (fst pv))%nat
                                /\ (from <= s)%nat /\ (s + length (fst pv) <= length h)%nat /\ (0 < length (fst pv))%nat
    end.
Proof.
  intros Hb Hf. set (R := skipn from h).
  assert (HbR : bytes R).
  { unfold bytes, R in *. rewrite Forall_forall in *. intros x Hx. apply Hb.
    rewrite <- (firstn_skipn from h). apply in_or_app. right. exact Hx. }
  destruct (lm_scan_correct V veqb veqb_sound A pvs CERT from R R [] ROOT 0 from t eq_refl HbR (SI_init from))
    as (res & pos' & t' & Hscan & HQ).
  cbn [length] in Hscan. rewrite Nat.add_0_r in Hscan.
  unfold lm_next, lm_it_at. cbn [l_pos l_hay l_ticks]. fold R. fold sget nslots in Hscan. rewrite Hscan. cbn [bind].
  pose proof (spec_choice V child pvs pok h from Hf) as Hspec. cbn zeta in Hspec. fold R in Hspec.
  destruct (first_start V (longest_at V pvs h) (seq from (length h - from))) as [[s pv]|].
  - destruct Hspec as (Hs & Hin & HLL & Hsub).
    destruct res as [[opos e_abs]|].
    + destruct HQ as (a & b & o & HLL' & He & Hpos & Hoa & Hol & Hov).
      destruct (isLL_unique V child pvs pok R _ _ _ _ HLL' HLL) as [-> ->].
      unfold bwc_outat in Hoa. fold oget in Hoa. rewrite Hoa. cbn [bind].
      rewrite Hsub in Hol, Hov. destruct pv as [q v]. cbn [fst snd] in *.
      pose proof (value_unique_gen V pvs q (o_value o) v pnd Hov Hin) as Hv.
      destruct HLL as [[Hr _] _]. unfold R in Hr. rewrite skipn_length in Hr.
      eexists. eexists. split; [reflexivity|]. eexists. split; [reflexivity|].
      unfold tr_m. cbn [m_end m_length m_value l_hay l_pos]. rewrite Hol. unfold bwc_plen. rewrite Nat2N.id.
      subst e_abs pos'. rewrite Hv.
      split; [apply f_equal2; [apply f_equal2; lia|reflexivity]|]. split; [lia|]. split; [reflexivity|]. split; [lia|]. split; [lia|]. split; lia.
    + exfalso. destruct HLL as [Ho _]. exact (HQ _ _ Ho).
  - destruct res as [[opos e_abs]|]; [|eauto].
    exfalso. destruct HQ as (a & b & o & [Ho _] & _). exact (Hspec _ _ Ho).
Qed.

Lemma lm_run h : bytes h -> forall n from k t,
  (from <= length h)%nat -> (length h - from < n)%nat -> (n <= k)%nat ->
  exists ms it', drain V lm_next' k (lm_it_at h from t) = Ok (ms, it')
                 /\ map (tr_m V) ms = spec_leftmost_from V n (longest_at V pvs h) (length h) from
                 /\ Forall (fun m => (N.to_nat (m_length m) <= m_end m)%nat) ms.
Proof.
  intros Hb. induction n as [|n IH]; intros from k t Hf Hn Hk; [lia|].
  destruct k as [|k]; [lia|].
  destruct (lm_next_spec h from t Hb Hf) as (r & it1 & Hr & Hm).
  cbn [drain spec_leftmost_from]. rewrite Hr. cbn [bind].
  destruct (first_start V (longest_at V pvs h) (seq from (length h - from))) as [[s pv]|].
  - destruct Hm as (m & -> & Htr & Hlen & Hhay & Hpos & Hs1 & Hs2 & Hs3).
    destruct it1 as [h1 p1 t1]. cbn [l_hay l_pos] in Hhay, Hpos. subst h1 p1.
    destruct (IH (s + length (fst pv))%nat k t1) as (ms & it' & Hd & Hsp & Hall); try lia.
    unfold lm_it_at in Hd. rewrite Hd. cbn [bind].
    exists (m :: ms), it'. split; [reflexivity|]. split; [|constructor; assumption].
    cbn [map]. rewrite Htr, Hsp. reflexivity.
  - subst r. exists [], it1. repeat split. constructor.
Qed.

Theorem bw_leftmost_correct_lemma h : bytes h ->
  bw_leftmost_find_iter V A h = Ok (spec_lml V pvs h).
Proof.
  intros Hb. unfold bw_leftmost_find_iter. rewrite (kind_lm V veqb A pvs CERT). unfold run_iter.
  destruct (lm_run h Hb (S (length h)) 0%nat (S (S (length h))) 0) as (ms & it' & Hd & Hs & Hall); try lia.
  unfold lm_init. unfold lm_it_at in Hd. fold sget oget nslots. rewrite Hd. cbn [bind].
  rewrite (triples_ok V ms Hall). unfold spec_lml. rewrite (nonempty_pats_id V child pvs pok). rewrite Hs. reflexivity.
Qed.

End BwLmFinal.
