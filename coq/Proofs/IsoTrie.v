(* IsoTrie.v — C14: the tries built from a collection and from any permutation of it are isomorphic.
   Both satisfy the trie invariant TI for the same set of strings, so "the state of string p"
   defines a renaming phi of the state ids (a bijection of N, the identity outside the states);
   edge lists are sorted by label, hence corresponding states have corresponding edge lists;
   outputs agree because the pattern/value pairs are the same. *)
From DV Require Import Model.Base Model.Nfa Model.Spec Proofs.GenAC Proofs.TrieInv Proofs.BuildTrie Proofs.BuildSafe Proofs.NfaFails Proofs.Iso.
From Coq Require Import Sorted Permutation ZifyN ZifyNat ZifyBool.
Local Open Scope N_scope.

Ltac bstep H :=
  match type of H with
  | bind ?e _ = Ok _ => let E := fresh "E" in destruct e eqn:E; cbn [bind] in H; try discriminate
  end.

(* ---- the pattern loop keeps edge lists sorted, edge targets above DEAD, and the DEAD state untouched *)
Section Inv.
Variable V : Type.
Definition PX (st : nstate V) : Prop :=
  StronglySorted N.lt (map fst (n_edges st)) /\ forall c t, In (c, t) (n_edges st) -> 2 <= t.
Definition XInv (n : nfa V) : Prop :=
  nget DEAD (n_states n) = Some (nstate_default V) /\ 2 <= n_nstates n /\ AllSt V PX n.

Lemma edge_insert_sorted es c t : StronglySorted N.lt (map fst es) -> StronglySorted N.lt (map fst (edge_insert es c t)).
Proof.
  induction es as [|[k v] r IH]; intros Hs; cbn [edge_insert map fst] in *; [repeat constructor|].
  inversion Hs as [|? ? Hr Hk]; subst. destruct (c <? k) eqn:E1.
  - apply N.ltb_lt in E1. cbn [map fst]. constructor; [constructor; assumption|]. constructor; [exact E1|].
    rewrite Forall_forall in *. intros x Hx. specialize (Hk x Hx). lia.
  - apply N.ltb_ge in E1. destruct (c =? k) eqn:E2.
    + apply N.eqb_eq in E2. subst c. cbn [map fst]. constructor; assumption.
    + apply N.eqb_neq in E2. cbn [map fst]. constructor; [exact (IH Hr)|]. rewrite Forall_forall in *. intros x Hx.
      apply in_map_iff in Hx as [[k' v'] [<- Hin]]. cbn [fst]. apply edge_insert_in in Hin as [[-> _]|Hin]; [lia|].
      apply Hk. apply in_map_iff. exists (k', v'). auto.
Qed.

Lemma PX_default : PX (nstate_default V).
Proof. split; [constructor|intros c t []]. Qed.

Lemma add_walk_XInv : forall rest (n : nfa V) sid n' fin, XInv n -> sid <> DEAD -> add_walk V n sid rest = Ok (n', fin) ->
  XInv n' /\ forall s, fin = Some s -> s <> DEAD.
Proof.
  induction rest as [|c rest IH]; intros n sid n' fin HX Hs H; cbn [add_walk] in H.
  - inversion H; subst. split; [exact HX|]. intros s E. inversion E; subst. exact Hs.
  - bstep H. destruct (_ && _); [inversion H; subst; split; [exact HX|discriminate]|].
    destruct HX as (Hd & Hn & HA). pose proof (HA sid a (nfa_get_some V n sid a E)) as [Hso Htg].
    destruct (edge_get (n_edges a) c) as [nx|] eqn:Ee.
    + apply (IH n nx n' fin); [split; [exact Hd|split; [exact Hn|exact HA]]| |exact H].
      apply edge_get_in in Ee. specialize (Htg c nx Ee). unfold DEAD. lia.
    + destruct (U32_MAX <? n_nstates n); [discriminate|].
      refine (IH _ _ n' fin _ _ H); [|unfold DEAD; lia].
      split; [|split].
      * unfold nfa_push_state, nfa_set. cbn [n_states n_nstates]. rewrite ngso by (unfold DEAD; lia). rewrite ngso by exact (fun E0 => Hs (eq_sym E0)). exact Hd.
      * unfold nfa_push_state, nfa_set. cbn [n_nstates]. lia.
      * apply AllSt_push; [|exact PX_default]. apply AllSt_set; [exact HA|]. split; cbn [n_edges].
        -- apply edge_insert_sorted. exact Hso.
        -- intros c' t' Hin. apply edge_insert_in in Hin as [[_ ->]|Hin]; [exact Hn|exact (Htg c' t' Hin)].
Qed.

Lemma add_XInv lb (n : nfa V) p v n' : XInv n -> add V lb n p v = Ok n' -> XInv n'.
Proof.
  intros HX H. unfold add in H. destruct (U32_MAX <? _); [discriminate|]. destruct (_ =? 0); [discriminate|].
  bstep H. destruct a as [n1 fin]. assert (Hrd : ROOT <> DEAD) by (unfold ROOT, DEAD; lia).
  destruct (add_walk_XInv _ _ _ _ _ HX Hrd E) as [(Hd & Hn & HA) Hfin]. destruct fin as [sid|].
  - bstep H. destruct (isSome (n_output a)); [discriminate|]. inversion H; subst. clear H.
    pose proof (Hfin sid eq_refl) as Hs. split; [|split].
    + cbn [n_states nfa_set]. rewrite ngso by exact (fun E1 => Hs (eq_sym E1)). exact Hd.
    + cbn [n_nstates nfa_set]. exact Hn.
    + intros i st Hg. cbn [n_states] in Hg. revert i st Hg. apply AllSt_set; [exact HA|].
      exact (HA sid a (nfa_get_some V n1 sid a E0)).
  - unfold check_shadowed_duplicate in H. bstep H. bstep H. destruct (_ || _); [discriminate|]. inversion H; subst.
    split; [exact Hd|split; [exact Hn|exact HA]].
Qed.

Lemma adds_XInv lb : forall pvs (n n' : nfa V), XInv n -> adds V lb n pvs = Ok n' -> XInv n'.
Proof.
  induction pvs as [|[p v] r IH]; intros n n' HX H; cbn [adds] in H; [inversion H; subst; exact HX|].
  bstep H. exact (IH a n' (add_XInv lb n p v a HX E) H).
Qed.

Lemma nfa_new_XInv k : XInv (nfa_new V k).
Proof.
  split; [|split].
  - unfold nfa_new. cbn [n_states]. apply ngss.
  - cbn. lia.
  - intros i st Hg. unfold nfa_new in Hg. cbn [n_states] in Hg.
    destruct (N.eq_dec i 1) as [->|H1]; [rewrite ngss in Hg; inversion Hg; apply PX_default|].
    rewrite ngso in Hg by exact H1. destruct (N.eq_dec i 0) as [->|H0]; [rewrite ngss in Hg; inversion Hg; apply PX_default|].
    rewrite ngso in Hg by exact H0. rewrite nget_empty in Hg. discriminate.
Qed.
End Inv.

(* ---- positions in duplicate-free lists of strings ------------------------------------------------ *)
Fixpoint index_of (p : list N) (l : list (list N)) : option nat :=
  match l with
  | [] => None
  | q :: r => if list_eqb p q then Some 0%nat else option_map S (index_of p r)
  end.

Lemma index_of_nth p : forall l j, index_of p l = Some j -> nth_error l j = Some p.
Proof.
  induction l as [|q r IH]; intros j H; cbn [index_of] in H; [discriminate|].
  destruct (list_eqb p q) eqn:E; [apply list_eqb_eq in E; inversion H; subst; reflexivity|].
  destruct (index_of p r) as [j'|]; [|discriminate]. inversion H; subst. cbn [nth_error]. apply IH. reflexivity.
Qed.

Lemma index_of_in p : forall l, In p l -> exists j, index_of p l = Some j.
Proof.
  induction l as [|q r IH]; intros H; [destruct H|]. cbn [index_of]. destruct (list_eqb p q) eqn:E; [eauto|].
  destruct H as [->|H]; [rewrite (proj2 (list_eqb_eq p p) eq_refl) in E; discriminate|]. destruct (IH H) as [j ->]. cbn. eauto.
Qed.

Lemma nth_index : forall l i p, NoDup l -> nth_error l i = Some p -> index_of p l = Some i.
Proof.
  induction l as [|q r IH]; intros i p Hn H; [destruct i; discriminate|]. apply NoDup_cons_iff in Hn as [Hq Hn]. cbn [index_of].
  destruct i as [|i]; cbn [nth_error] in H.
  - inversion H; subst. rewrite (proj2 (list_eqb_eq p p) eq_refl). reflexivity.
  - destruct (list_eqb p q) eqn:E; [apply list_eqb_eq in E; subst; exfalso; apply Hq; exact (nth_error_In _ _ H)|].
    rewrite (IH i p Hn H). reflexivity.
Qed.

Definition mk_phi (paths paths' : list (list N)) (x : N) : N :=
  if x <? 2 then x
  else match nth_error paths (N.to_nat (x - 2)) with
       | Some p => match index_of p paths' with Some j => N.of_nat j + 2 | None => x end
       | None => x
       end.

Section Phi.
Variables paths paths' : list (list N).
Hypothesis nd : NoDup paths.
Hypothesis nd' : NoDup paths'.
Hypothesis mem : forall p, In p paths <-> In p paths'.
Hypothesis len : length paths = length paths'.

Lemma mk_phi_small x : x < 2 -> mk_phi paths paths' x = x.
Proof. intros H. unfold mk_phi. apply N.ltb_lt in H. rewrite H. reflexivity. Qed.

Lemma mk_phi_path i p : nth_error paths i = Some p ->
  exists j, nth_error paths' j = Some p /\ mk_phi paths paths' (N.of_nat i + 2) = N.of_nat j + 2.
Proof.
  intros H. destruct (index_of_in p paths' (proj1 (mem p) (nth_error_In _ _ H))) as [j Hj]. exists j. split; [exact (index_of_nth p _ _ Hj)|].
  unfold mk_phi. assert ((N.of_nat i + 2 <? 2) = false) as -> by (apply N.ltb_ge; lia).
  replace (N.to_nat (N.of_nat i + 2 - 2)) with i by lia. rewrite H, Hj. reflexivity.
Qed.

Lemma mk_phi_big x : 2 <= x -> (length paths <= N.to_nat (x - 2))%nat -> mk_phi paths paths' x = x.
Proof.
  intros H2 Hl. unfold mk_phi. assert ((x <? 2) = false) as -> by (apply N.ltb_ge; lia).
  assert (nth_error paths (N.to_nat (x - 2)) = None) as -> by (apply nth_error_None; exact Hl). reflexivity.
Qed.
End Phi.

Lemma mk_phi_inv paths paths' : NoDup paths -> NoDup paths' -> (forall p, In p paths <-> In p paths') -> length paths = length paths' ->
  forall x, mk_phi paths' paths (mk_phi paths paths' x) = x.
Proof.
  intros nd nd' mem len x. destruct (N.lt_ge_cases x 2) as [H2|H2].
  - rewrite (mk_phi_small paths paths' x H2). apply mk_phi_small. exact H2.
  - destruct (nth_error paths (N.to_nat (x - 2))) as [p|] eqn:E.
    + destruct (mk_phi_path paths paths' mem len (N.to_nat (x - 2)) p E) as (j & Hj & Hphi).
      replace (N.of_nat (N.to_nat (x - 2)) + 2) with x in Hphi by lia. rewrite Hphi.
      destruct (mk_phi_path paths' paths (fun q => iff_sym (mem q)) (eq_sym len) j p Hj) as (i & Hi & Hpsi). rewrite Hpsi.
      assert (i = N.to_nat (x - 2)).
      { pose proof (nth_index paths _ p nd E) as I1. pose proof (nth_index paths i p nd Hi) as I2. congruence. }
      lia.
    + apply nth_error_None in E. rewrite (mk_phi_big paths paths' len x H2 E). apply mk_phi_big; [exact (eq_sym len)|exact H2|lia].
Qed.

Lemma mk_phi_range paths paths' : (forall p, In p paths <-> In p paths') -> length paths = length paths' ->
  forall x, (mk_phi paths paths' x <? N.of_nat (length paths) + 2) = (x <? N.of_nat (length paths) + 2).
Proof.
  intros mem len x. destruct (N.lt_ge_cases x 2) as [H2|H2]; [rewrite (mk_phi_small paths paths' x H2); reflexivity|].
  destruct (nth_error paths (N.to_nat (x - 2))) as [p|] eqn:E.
  - destruct (mk_phi_path paths paths' mem len (N.to_nat (x - 2)) p E) as (j & Hj & Hphi).
    replace (N.of_nat (N.to_nat (x - 2)) + 2) with x in Hphi by lia. rewrite Hphi.
    assert (j < length paths')%nat by (apply nth_error_Some; congruence).
    assert (N.to_nat (x - 2) < length paths)%nat by (apply nth_error_Some; congruence).
    assert ((N.of_nat j + 2 <? N.of_nat (length paths) + 2) = true) as -> by (apply N.ltb_lt; lia).
    symmetry. apply N.ltb_lt. lia.
  - apply nth_error_None in E. rewrite (mk_phi_big paths paths' len x H2 E). reflexivity.
Qed.

(* ---- sorted association lists are determined by their lookup function ----------------------------- *)
Lemma edge_get_notin es c : ~ In c (map fst es) -> edge_get es c = None.
Proof.
  induction es as [|[k v] r IH]; intros H; cbn [edge_get]; [reflexivity|]. cbn [map fst In] in H.
  destruct (k =? c) eqn:E; [apply N.eqb_eq in E; tauto|]. apply IH. tauto.
Qed.

Lemma sorted_head_notin k (l : list N) : StronglySorted N.lt (k :: l) -> forall c, c <= k -> ~ In c l.
Proof. intros H c Hc Hin. inversion H as [|? ? _ Hk]; subst. rewrite Forall_forall in Hk. specialize (Hk c Hin). lia. Qed.

Lemma sorted_assoc_ext (phi : N -> N) : forall es es',
  StronglySorted N.lt (map fst es) -> StronglySorted N.lt (map fst es') ->
  (forall c, edge_get es' c = option_map phi (edge_get es c)) -> es' = redges phi es.
Proof.
  induction es as [|[k v] r IH]; intros es' Hs Hs' H.
  - destruct es' as [|[k' v'] r']; [reflexivity|]. specialize (H k'). cbn [edge_get option_map] in H. rewrite N.eqb_refl in H. discriminate.
  - destruct es' as [|[k' v'] r'].
    + specialize (H k). cbn [edge_get option_map] in H. rewrite N.eqb_refl in H. discriminate.
    + cbn [map fst] in Hs, Hs'.
      assert (Hk : k' = k).
      { destruct (N.lt_trichotomy k' k) as [Hlt|[E|Hgt]]; [|exact E|]; exfalso.
        - specialize (H k'). cbn [edge_get] in H. rewrite N.eqb_refl in H.
          assert ((k =? k') = false) as Ek by (apply N.eqb_neq; lia). rewrite Ek in H.
          rewrite (edge_get_notin r k') in H; [discriminate|]. apply (sorted_head_notin k _ Hs). lia.
        - specialize (H k). cbn [edge_get] in H. rewrite N.eqb_refl in H.
          assert ((k' =? k) = false) as Ek by (apply N.eqb_neq; lia). rewrite Ek in H.
          rewrite (edge_get_notin r' k) in H; [discriminate|]. apply (sorted_head_notin k' _ Hs'). lia. }
      subst k'. pose proof (H k) as Hv. cbn [edge_get option_map] in Hv. rewrite N.eqb_refl in Hv. inversion Hv; subst v'.
      cbn [redges map fst snd]. f_equal. inversion Hs as [|? ? Hsr _]; subst. inversion Hs' as [|? ? Hsr' _]; subst.
      apply IH; [exact Hsr|exact Hsr'|]. intros c. destruct (N.eq_dec c k) as [->|Hne].
      * rewrite (edge_get_notin r k), (edge_get_notin r' k); [reflexivity| |]; [apply (sorted_head_notin k _ Hs')|apply (sorted_head_notin k _ Hs)]; lia.
      * specialize (H c). cbn [edge_get] in H. assert ((k =? c) = false) as Ek by (apply N.eqb_neq; congruence). rewrite Ek in H. exact H.
Qed.

(* ---- the two tries -------------------------------------------------------------------------------- *)
Section Tries.
Variable V : Type.
Variable lb : N -> N.
Variables (n n' : nfa V) (outs outs' : list (list N * V)) (paths paths' : list (list N)).
Hypothesis T : TI V lb n outs [] paths.
Hypothesis T' : TI V lb n' outs' [] paths'.
Hypothesis HP : Permutation outs outs'.
Hypothesis Hnd : NoDup (map fst outs).
Hypothesis X : XInv V n.
Hypothesis X' : XInv V n'.
Hypothesis F0 : forall i st, nget i (n_states n) = Some st -> n_fail st = ROOT /\ n_outpos st = 0.
Hypothesis F0' : forall i st, nget i (n_states n') = Some st -> n_fail st = ROOT /\ n_outpos st = 0.
Hypothesis Hout : n_outputs n = [] /\ n_outputs n' = [].
Hypothesis Hlen : n_len n' = n_len n.
Hypothesis Hkind : n_kind n' = n_kind n.

Notation phi := (mk_phi paths paths').
Notation psi := (mk_phi paths' paths).

Lemma paths_nodup (m : nfa V) o ps : TI V lb m o [] ps -> NoDup ps.
Proof.
  intros Tm. apply NoDup_nth_error. intros i j Hi E. destruct (nth_error ps i) as [p|] eqn:Ei; [|apply nth_error_None in Ei; lia].
  symmetry in E. pose proof (ti_fwd _ _ _ _ _ _ Tm i p Ei) as W1. pose proof (ti_fwd _ _ _ _ _ _ Tm j p E) as W2. rewrite W1 in W2. inversion W2. lia.
Qed.

Lemma paths_mem p : In p paths <-> In p paths'.
Proof.
  rewrite (ti_mem _ _ _ _ _ _ T p), (ti_mem _ _ _ _ _ _ T' p). unfold covered. split; intros [Hne [Hp|(q & v & Hq & Hpq)]]; (split; [exact Hne|]); auto; right; exists q, v; (split; [|exact Hpq]).
  - eapply Permutation_in; eassumption.
  - eapply Permutation_in; [apply Permutation_sym; eassumption|exact Hq].
Qed.

Lemma paths_len : length paths = length paths'.
Proof. apply Permutation_length. apply NoDup_Permutation; [exact (paths_nodup _ _ _ T)|exact (paths_nodup _ _ _ T')|exact paths_mem]. Qed.

Lemma phi_psi x : phi (psi x) = x.
Proof. apply mk_phi_inv; [exact (paths_nodup _ _ _ T')|exact (paths_nodup _ _ _ T)|intros p; symmetry; apply paths_mem|symmetry; exact paths_len]. Qed.
Lemma psi_phi x : psi (phi x) = x.
Proof. apply mk_phi_inv; [exact (paths_nodup _ _ _ T)|exact (paths_nodup _ _ _ T')|exact paths_mem|exact paths_len]. Qed.
Lemma phi_root : phi ROOT = ROOT. Proof. reflexivity. Qed.
Lemma phi_dead : phi DEAD = DEAD. Proof. reflexivity. Qed.

Lemma nst_eq : n_nstates n' = n_nstates n.
Proof. pose proof (ti_cnt _ _ _ _ _ _ T). pose proof (ti_cnt _ _ _ _ _ _ T'). pose proof paths_len. lia. Qed.

Lemma walk_phi p t : twalk V n ROOT p = Some t -> twalk V n' ROOT p = Some (phi t).
Proof.
  intros H. destruct (ti_bwd _ _ _ _ _ _ T p t H) as [[-> ->]|[H2 Hn]]; [reflexivity|].
  destruct (mk_phi_path paths paths' paths_mem paths_len _ p Hn) as (j & Hj & Hphi).
  replace (N.of_nat (N.to_nat (t - 2)) + 2) with t in Hphi by lia. rewrite Hphi. exact (ti_fwd _ _ _ _ _ _ T' j p Hj).
Qed.

Lemma walk_psi p t : twalk V n' ROOT p = Some t -> twalk V n ROOT p = Some (psi t).
Proof.
  intros H. destruct (ti_bwd _ _ _ _ _ _ T' p t H) as [[-> ->]|[H2 Hn]]; [reflexivity|].
  destruct (mk_phi_path paths' paths (fun q => iff_sym (paths_mem q)) (eq_sym paths_len) _ p Hn) as (j & Hj & Hphi).
  replace (N.of_nat (N.to_nat (t - 2)) + 2) with t in Hphi by lia. rewrite Hphi. exact (ti_fwd _ _ _ _ _ _ T j p Hj).
Qed.

Lemma outs_value p v v' : In (p, v) outs -> In (p, v') outs -> v = v'.
Proof.
  clear -Hnd. induction outs as [|[q w] l IH]; intros H1 H2; [destruct H1|]. cbn [map fst] in Hnd. apply NoDup_cons_iff in Hnd as [Hq Hn].
  destruct H1 as [E1|H1]; destruct H2 as [E2|H2].
  - congruence.
  - inversion E1; subst. exfalso. apply Hq. apply in_map_iff. exists (p, v'). auto.
  - inversion E2; subst. exfalso. apply Hq. apply in_map_iff. exists (p, v). auto.
  - exact (IH Hn H1 H2).
Qed.

Lemma state_rel p t st st' : twalk V n ROOT p = Some t -> nget t (n_states n) = Some st ->
  nget (phi t) (n_states n') = Some st' -> st' = rst V phi st.
Proof.
  intros Hw Hg Hg'. pose proof (walk_phi p t Hw) as Hw'.
  destruct X as (_ & _ & AX). destruct X' as (_ & _ & AX'). destruct (AX t st Hg) as [Hso _]. destruct (AX' _ st' Hg') as [Hso' _].
  destruct (F0 t st Hg) as [Hf Ho]. destruct (F0' _ st' Hg') as [Hf' Ho'].
  assert (He : n_edges st' = redges phi (n_edges st)).
  { apply sorted_assoc_ext; [exact Hso|exact Hso'|]. intros c.
    assert (E1 : edge_get (n_edges st) c = tchild V n t c) by (unfold tchild; rewrite Hg; reflexivity).
    assert (E2 : edge_get (n_edges st') c = tchild V n' (phi t) c) by (unfold tchild; rewrite Hg'; reflexivity).
    rewrite E1, E2. destruct (tchild V n t c) as [u|] eqn:Ec; cbn [option_map].
    - assert (Hu : twalk V n ROOT (p ++ [c]) = Some u) by (rewrite twalk_snoc, Hw; exact Ec).
      apply walk_phi in Hu. rewrite twalk_snoc, Hw' in Hu. exact Hu.
    - destruct (tchild V n' (phi t) c) as [u'|] eqn:Ec'; [exfalso|reflexivity].
      assert (Hu : twalk V n' ROOT (p ++ [c]) = Some u') by (rewrite twalk_snoc, Hw'; exact Ec').
      apply walk_psi in Hu. rewrite twalk_snoc, Hw, Ec in Hu. discriminate. }
  assert (Hop : n_output st' = n_output st).
  { pose proof (ti_out _ _ _ _ _ _ T p t st Hw Hg) as O1. pose proof (ti_out _ _ _ _ _ _ T' p _ st' Hw' Hg') as O2.
    destruct (n_output st) as [[v l]|]; destruct (n_output st') as [[v' l']|].
    - destruct O1 as [I1 ->]. destruct O2 as [I2 ->]. f_equal. f_equal.
      apply (outs_value p v' v); [eapply Permutation_in; [apply Permutation_sym; exact HP|exact I2]|exact I1].
    - destruct O1 as [I1 _]. exfalso. apply (O2 v). eapply Permutation_in; eassumption.
    - destruct O2 as [I2 _]. exfalso. apply (O1 v'). eapply Permutation_in; [apply Permutation_sym; exact HP|exact I2].
    - reflexivity. }
  destruct st' as [e' f' o' op']. cbn [n_edges n_fail n_output n_outpos] in *. unfold rst. cbn [n_edges n_fail n_output n_outpos].
  subst e' f' o' op'. rewrite Hf, Ho. reflexivity.
Qed.

Theorem tries_iso : iso V phi n n'.
Proof.
  split; [exact nst_eq|]. split; [exact Hkind|]. split; [destruct Hout as [-> ->]; reflexivity|]. split; [exact Hlen|].
  assert (Hcnt : n_nstates n = N.of_nat (length paths) + 2) by (pose proof (ti_cnt _ _ _ _ _ _ T); lia).
  split.
  - intros i. rewrite Hcnt. apply mk_phi_range; [exact paths_mem|exact paths_len].
  - intros i Hi. destruct (ti_wf _ _ _ _ _ _ T i Hi) as [st Hst]. rewrite Hst. cbn [option_map].
    assert (Hi' : phi i < n_nstates n').
    { rewrite nst_eq. apply N.ltb_lt. rewrite Hcnt, (mk_phi_range paths paths' paths_mem paths_len i), <- Hcnt. apply N.ltb_lt. exact Hi. }
    destruct (ti_wf _ _ _ _ _ _ T' _ Hi') as [st' Hst']. rewrite Hst'. f_equal.
    destruct (N.eq_dec i DEAD) as [->|Hd].
    + destruct X as (Hd1 & _). destruct X' as (Hd2 & _). rewrite Hd1 in Hst. change (phi DEAD) with DEAD in Hst'. rewrite Hd2 in Hst'.
      inversion Hst; inversion Hst'; subst. reflexivity.
    + destruct (N.eq_dec i ROOT) as [->|Hr].
      * exact (state_rel [] ROOT st st' eq_refl Hst Hst').
      * assert (H2 : 2 <= i) by (unfold ROOT, DEAD in *; lia).
        destruct (nth_error paths (N.to_nat (i - 2))) as [p|] eqn:Ep.
        -- pose proof (ti_fwd _ _ _ _ _ _ T _ p Ep) as Hw. replace (N.of_nat (N.to_nat (i - 2)) + 2) with i in Hw by lia.
           exact (state_rel p i st st' Hw Hst Hst').
        -- apply nth_error_None in Ep. lia.
Qed.
End Tries.
