(* CliMain.v — C16, the WHOLE program of Model/Cli.v (pattern list assembly, construction, the loops
   over stdin / the FILE arguments, both colour arms) against the property text, with NO
   certificate hypothesis: the builder theorem (Proofs/BuildCert.v) and the no-panic theorem
   (Proofs/NoPanic.v) discharge it for the automaton daacfind builds from its own pattern list. *)
From DV Require Import Model.Base Model.Nfa Model.BwBuild Model.BwSearch Model.Api Model.Spec
     Model.Cert Model.Cli Model.Utf8 Proofs.CliProps Proofs.CliColour Proofs.TrieInv Proofs.BuildTrie Proofs.BuildCert
     Proofs.NoPanicBw Proofs.NoPanic Proofs.BuiltAutomata.
From Coq Require Import ZifyN ZifyNat ZifyBool.
Local Open Scope N_scope.

Definition upvs (pats : list (list N)) : list (list N * unit) := map (fun p => (p, tt)) pats.

Lemma ueqb_eq a b : ueqb a b = true <-> a = b.
Proof. destruct a, b. unfold ueqb. split; reflexivity. Qed.

Lemma enumerate_conv_unit : forall ps i, enumerate_conv unit (fun _ => Some tt) i ps = Some (upvs ps).
Proof.
  induction ps as [|p r IH]; intros i; cbn [enumerate_conv upvs map]; [reflexivity|].
  rewrite (IH (S i)). reflexivity.
Qed.

Lemma upvs_fst pats : map fst (upvs pats) = pats.
Proof. unfold upvs. rewrite map_map. cbn [fst]. apply map_id. Qed.

(* ---- what the property says is printed ------------------------------------------------------------ *)
(* one line: nothing unless the line contains an occurrence; otherwise prefix, the line (with colour:
   cut into maximal runs, red exactly on the bytes covered by an occurrence), LF *)
Definition expected_line (pvs : list (list N * unit)) (color : bool) (prefix line : list N) : list N :=
  if has_occ pvs line
  then prefix ++ (if color then render (Cli.covered (occs_of pvs line)) line 0 false [] else line) ++ [10]
  else [].

Fixpoint expected_out (pvs : list (list N * unit)) (fl : cli_flags) (fname : option (list N)) (i : nat)
         (ls : list (list N)) : list N :=
  match ls with
  | [] => []
  | l :: r => expected_line pvs (cf_color fl) (line_prefix fl fname i) l ++ expected_out pvs fl fname (S i) r
  end.

Fixpoint expected_files (pvs : list (list N * unit)) (fl : cli_flags) (files : list (list N * list N)) : list N :=
  match files with
  | [] => []
  | (name, content) :: r => expected_out pvs fl (Some name) 0 (buf_lines content) ++ expected_files pvs fl r
  end.

Definition cli_expected (pvs : list (list N * unit)) (fl : cli_flags) (stdin : list N)
           (files : list (list N * list N)) : list N :=
  match files with
  | [] => expected_out pvs fl None 0 (buf_lines stdin)
  | _ => expected_files pvs fl files
  end.

(* the side condition of the colour arm: the program slices the line as a str *)
Definition occs_on_boundaries (pvs : list (list N * unit)) (line : list N) : Prop :=
  forall s e v, occ_at unit pvs line s e v -> is_char_boundary line s = true /\ is_char_boundary line e = true.

Definition line_ok (pvs : list (list N * unit)) (color : bool) (line : list N) : Prop :=
  Forall (fun b => b < 256) line /\ (color = true -> occs_on_boundaries pvs line).

Section Certified.
Variable A : bw_automaton unit.
Variable pvs : list (list N * unit).
Hypothesis CERT : bw_cert_ok ueqb A pvs = true.

Lemma find_and_output_any color prefix line : line_ok pvs color line ->
  find_and_output A color prefix line
  = Ok (if has_occ pvs line
        then Some (prefix ++ (if color then render (Cli.covered (occs_of pvs line)) line 0 false [] else line) ++ [10])
        else None).
Proof.
  intros [Hb Hbd]. destruct color.
  - destruct (has_occ pvs line) eqn:E.
    + exact (find_and_output_colour A pvs CERT prefix line Hb E (Hbd eq_refl)).
    + pose proof (find_and_output_colour_lines A pvs CERT prefix line Hb) as H.
      destruct (find_and_output A true prefix line) as [[o|]| | | |]; congruence.
  - exact (find_and_output_plain A pvs CERT prefix line Hb).
Qed.

Lemma run_lines_any fl fname : forall ls i, Forall (line_ok pvs (cf_color fl)) ls ->
  run_lines A fl fname i ls = Ok (expected_out pvs fl fname i ls).
Proof.
  induction ls as [|l r IH]; intros i Hok; [reflexivity|].
  inversion Hok as [|? ? Hl Hr]; subst. cbn [run_lines expected_out].
  rewrite (find_and_output_any _ _ l Hl). cbn [bind]. rewrite (IH (S i) Hr). cbn [bind].
  unfold expected_line. destruct (has_occ pvs l); reflexivity.
Qed.

Lemma run_files_any fl : forall files,
  Forall (fun f => Forall (line_ok pvs (cf_color fl)) (buf_lines (snd f))) files ->
  run_files A fl files = Ok (expected_files pvs fl files).
Proof.
  induction files as [|[name content] r IH]; intros Hok; [reflexivity|].
  inversion Hok as [|? ? Hf Hr]; subst. cbn [run_files expected_files]. cbn [snd] in Hf.
  rewrite (run_lines_any fl (Some name) _ 0%nat Hf). cbn [bind]. rewrite (IH Hr). cbn [bind]. reflexivity.
Qed.
End Certified.

(* ---- the whole program ------------------------------------------------------------------------------ *)
Definition inputs_ok (pvs : list (list N * unit)) (color : bool) (stdin : list N) (files : list (list N * list N)) : Prop :=
  Forall (line_ok pvs color) (buf_lines stdin)
  /\ Forall (fun f => Forall (line_ok pvs color) (buf_lines (snd f))) files.

Theorem cli_main_lemma (fl : cli_flags) (pfile pstr : option (list N)) (stdin : list N) (files : list (list N * list N)) :
  let pats := cli_patterns pfile pstr in
  (forall p, In p pats -> Forall (fun b => b < 256) p) -> 4 * plain_len pats <= U32_MAX - 1 ->
  inputs_ok (upvs pats) (cf_color fl) stdin files ->
  match spec_build_error pats with
  | Some _ => cli_main fl pfile pstr stdin files = Ok ([], 1)
  | None => cli_main fl pfile pstr stdin files = Ok (cli_expected (upvs pats) fl stdin files, 0)
            \/ cli_main fl pfile pstr stdin files = Ok ([], 1)       (* refused: AutomatonScale *)
  end.
Proof.
  intros pats Hb Hsz [Hin Hfs]. unfold cli_main. fold pats.
  assert (Hbuild : bw_build unit (fun _ => Some tt) Standard NFB_DEFAULT pats
                   = bw_build_with_values unit Standard NFB_DEFAULT (upvs pats)).
  { unfold bw_build. rewrite enumerate_conv_unit. reflexivity. }
  rewrite Hbuild.
  assert (Hn : NFB_DEFAULT <> 0) by (unfold NFB_DEFAULT; lia).
  assert (Hb' : forall p v, In (p, v) (upvs pats) -> Forall (fun b => b < 256) p).
  { intros p v Hp. apply Hb. unfold upvs in Hp. apply in_map_iff in Hp as (q & E & Hq). inversion E; subst. exact Hq. }
  assert (Hsz' : 4 * total_len unit (upvs pats) <= U32_MAX - 1) by (rewrite total_len_plain, upvs_fst; exact Hsz).
  destruct (spec_build_error pats) as [e|] eqn:Es.
  - rewrite (bw_build_error_lemma unit Standard NFB_DEFAULT (upvs pats) e Hn Hsz' ltac:(rewrite upvs_fst; exact Es)). reflexivity.
  - pose proof (bw_build_valid unit Standard NFB_DEFAULT (upvs pats) Hn Hb' Hsz' ltac:(rewrite upvs_fst; exact Es)) as Hv.
    destruct (bw_build_with_values unit Standard NFB_DEFAULT (upvs pats)) as [A|e| | |] eqn:EA; cbn [okscale] in Hv; try contradiction.
    + left.
      pose proof (built_cert unit ueqb ueqb_eq NFB_DEFAULT (upvs pats) A Hb' Hsz' EA) as CERT.
      unfold cli_expected. destruct files as [|f r].
      * rewrite (run_lines_any A (upvs pats) CERT fl None _ 0%nat Hin). reflexivity.
      * rewrite (run_files_any A (upvs pats) CERT fl _ Hfs). reflexivity.
    + right. reflexivity.
Qed.

(* ---- UTF-8 inputs: lines of UTF-8 text are UTF-8 text ---------------------------------------------- *)
(* the character-level twin of split_lf / split_nl_all *)
Fixpoint csplit_lf (cs : list N) (cur : list N) : list (list N) :=
  match cs with
  | [] => match cur with [] => [] | _ => [rev cur] end
  | c :: r => if c =? 10 then rev cur :: csplit_lf r [] else csplit_lf r (c :: cur)
  end.
Fixpoint csplit_nl_all (cs : list N) (cur : list N) : list (list N) :=
  match cs with
  | [] => [rev cur]
  | c :: r => if c =? 10 then rev cur :: csplit_nl_all r [] else csplit_nl_all r (c :: cur)
  end.
Definition cdrop_cr (l : list N) : list N :=
  match rev l with
  | c :: r => if c =? 13 then rev r else l
  | [] => l
  end.

From DV Require Import Proofs.Utf8Props Theory.Utf8Spec.

(* bytes of a character: the character itself when ASCII, otherwise all >= 128 *)
Lemma encode_char_ascii_or_high c : scalar c ->
  (c < 128 /\ encode_char c = [c]) \/ (128 <= c /\ Forall (fun b => 128 <= b) (encode_char c)).
Proof.
  intros Hs. apply scalar_range in Hs. unfold encode_char.
  destruct (c <? 128) eqn:E1; [left; split; [lia|reflexivity]|right; split; [lia|]].
  destruct (c <? 2048) eqn:E2; [repeat constructor; lia|].
  destruct (c <? 65536) eqn:E3; repeat constructor; lia.
Qed.

Lemma split_lf_app_no10 w : Forall (fun b => b <> 10) w -> forall rest cur,
  split_lf (w ++ rest) cur = split_lf rest (rev w ++ cur).
Proof.
  induction w as [|b w IH]; intros Hw rest cur; [reflexivity|].
  inversion Hw as [|? ? Hb Hr]; subst. cbn [app split_lf rev]. apply N.eqb_neq in Hb. rewrite Hb.
  rewrite (IH Hr). rewrite <- app_assoc. reflexivity.
Qed.
Lemma split_nl_all_app_no10 w : Forall (fun b => b <> 10) w -> forall rest cur,
  split_nl_all (w ++ rest) cur = split_nl_all rest (rev w ++ cur).
Proof.
  induction w as [|b w IH]; intros Hw rest cur; [reflexivity|].
  inversion Hw as [|? ? Hb Hr]; subst. cbn [app split_nl_all rev]. apply N.eqb_neq in Hb. rewrite Hb.
  rewrite (IH Hr). rewrite <- app_assoc. reflexivity.
Qed.

Lemma encode_char_no10 c : scalar c -> c <> 10 -> Forall (fun b => b <> 10) (encode_char c).
Proof.
  intros Hs Hc. destruct (encode_char_ascii_or_high c Hs) as [[_ ->]|[_ H]]; [repeat constructor; exact Hc|].
  eapply Forall_impl; [|exact H]. cbn beta. intros b Hb. lia.
Qed.

Lemma encode_utf8_nil_inv l : encode_utf8 l = [] -> l = [].
Proof.
  destruct l as [|c r]; [reflexivity|]. cbn [encode_utf8 flat_map]. intros H. apply app_eq_nil in H as [H _].
  exfalso. exact (encode_char_nonempty c H).
Qed.

Lemma split_lf_utf8 : forall cs curb curc, Forall scalar cs -> rev curb = encode_utf8 (rev curc) ->
  split_lf (encode_utf8 cs) curb = map encode_utf8 (csplit_lf cs curc).
Proof.
  induction cs as [|c r IH]; intros curb curc Hs Hinv.
  - cbn [encode_utf8 flat_map split_lf csplit_lf]. destruct curc as [|x xs].
    + cbn [rev encode_utf8 flat_map] in Hinv. destruct curb as [|y ys]; [reflexivity|].
      exfalso. apply (f_equal (@length N)) in Hinv. rewrite rev_length in Hinv. cbn in Hinv. lia.
    + destruct curb as [|y ys].
      * exfalso. change (rev (@nil N)) with (@nil N) in Hinv. symmetry in Hinv. apply encode_utf8_nil_inv in Hinv.
        apply (f_equal (@length N)) in Hinv. rewrite rev_length in Hinv. cbn in Hinv. lia.
      * cbn [map]. rewrite Hinv. reflexivity.
  - inversion Hs as [|? ? Hc Hr]; subst. cbn [encode_utf8 flat_map csplit_lf]. fold (encode_utf8 r).
    destruct (c =? 10) eqn:E10.
    + apply N.eqb_eq in E10. subst c. change (encode_char 10) with [10]. cbn [app split_lf]. change (10 =? 10) with true. cbn iota.
      cbn [map]. rewrite Hinv. f_equal. apply (IH [] [] Hr). reflexivity.
    + apply N.eqb_neq in E10. rewrite (split_lf_app_no10 _ (encode_char_no10 c Hc E10)).
      apply (IH _ (c :: curc) Hr). rewrite rev_app_distr, rev_involutive, Hinv. cbn [rev].
      rewrite encode_utf8_app. cbn [encode_utf8 flat_map]. rewrite app_nil_r. reflexivity.
Qed.

Lemma split_nl_all_utf8 : forall cs curb curc, Forall scalar cs -> rev curb = encode_utf8 (rev curc) ->
  split_nl_all (encode_utf8 cs) curb = map encode_utf8 (csplit_nl_all cs curc).
Proof.
  induction cs as [|c r IH]; intros curb curc Hs Hinv.
  - cbn [encode_utf8 flat_map split_nl_all csplit_nl_all map]. rewrite Hinv. reflexivity.
  - inversion Hs as [|? ? Hc Hr]; subst. cbn [encode_utf8 flat_map csplit_nl_all]. fold (encode_utf8 r).
    destruct (c =? 10) eqn:E10.
    + apply N.eqb_eq in E10. subst c. change (encode_char 10) with [10]. cbn [app split_nl_all]. change (10 =? 10) with true. cbn iota.
      cbn [map]. rewrite Hinv. f_equal. apply (IH [] [] Hr). reflexivity.
    + apply N.eqb_neq in E10. rewrite (split_nl_all_app_no10 _ (encode_char_no10 c Hc E10)).
      apply (IH _ (c :: curc) Hr). rewrite rev_app_distr, rev_involutive, Hinv. cbn [rev].
      rewrite encode_utf8_app. cbn [encode_utf8 flat_map]. rewrite app_nil_r. reflexivity.
Qed.

Lemma csplit_lf_scalar : forall cs cur, Forall scalar cs -> Forall scalar cur -> Forall (Forall scalar) (csplit_lf cs cur).
Proof.
  induction cs as [|c r IH]; intros cur Hs Hc; cbn [csplit_lf].
  - destruct cur; [constructor|]. constructor; [|constructor]. apply Forall_rev. exact Hc.
  - inversion Hs; subst. destruct (c =? 10).
    + constructor; [apply Forall_rev; exact Hc|]. apply IH; [assumption|constructor].
    + apply IH; [assumption|]. constructor; assumption.
Qed.
Lemma csplit_nl_all_scalar : forall cs cur, Forall scalar cs -> Forall scalar cur -> Forall (Forall scalar) (csplit_nl_all cs cur).
Proof.
  induction cs as [|c r IH]; intros cur Hs Hc; cbn [csplit_nl_all].
  - constructor; [|constructor]. apply Forall_rev. exact Hc.
  - inversion Hs; subst. destruct (c =? 10).
    + constructor; [apply Forall_rev; exact Hc|]. apply IH; [assumption|constructor].
    + apply IH; [assumption|]. constructor; assumption.
Qed.

Lemma drop_cr_utf8 l : Forall scalar l -> drop_cr (encode_utf8 l) = encode_utf8 (cdrop_cr l).
Proof.
  intros Hs. unfold drop_cr, cdrop_cr. destruct (rev l) as [|c r] eqn:El.
  - apply (f_equal (@rev N)) in El. rewrite rev_involutive in El. subst l. reflexivity.
  - assert (E : l = rev r ++ [c]) by (rewrite <- (rev_involutive l), El; reflexivity).
    assert (Hc : scalar c) by (rewrite Forall_forall in Hs; apply Hs; rewrite E; apply in_or_app; right; left; reflexivity).
    rewrite E at 1. rewrite encode_utf8_app, rev_app_distr. cbn [encode_utf8 flat_map]. rewrite app_nil_r.
    destruct (encode_char_ascii_or_high c Hc) as [[Hlt Ec]|[Hge Hall]].
    + rewrite Ec. cbn [rev app]. destruct (c =? 13) eqn:E13; [rewrite rev_involutive; reflexivity|].
      rewrite E, encode_utf8_app. cbn [encode_utf8 flat_map]. rewrite app_nil_r, Ec. reflexivity.
    + assert (E13 : (c =? 13) = false) by lia. rewrite E13.
      destruct (rev (encode_char c)) as [|b br] eqn:Er.
      { exfalso. apply (f_equal (@rev N)) in Er. rewrite rev_involutive in Er. exact (encode_char_nonempty c Er). }
      assert (Hb : 128 <= b).
      { rewrite Forall_forall in Hall. apply Hall. apply in_rev. rewrite Er. left. reflexivity. }
      cbn [app]. assert ((b =? 13) = false) as -> by lia.
      rewrite E, encode_utf8_app. cbn [encode_utf8 flat_map]. rewrite app_nil_r. reflexivity.
Qed.

Lemma cdrop_cr_scalar l : Forall scalar l -> Forall scalar (cdrop_cr l).
Proof.
  intros Hs. unfold cdrop_cr. destruct (rev l) as [|c r] eqn:El; [exact Hs|]. destruct (c =? 13); [|exact Hs].
  apply Forall_rev. assert (H : Forall scalar (rev l)) by (apply Forall_rev; exact Hs). rewrite El in H. inversion H; assumption.
Qed.

(* BufRead::lines of UTF-8 text: the lines are the UTF-8 encodings of the character-level lines *)
Definition cbuf_lines (cs : list N) : list (list N) := map cdrop_cr (csplit_lf cs []).

Theorem buf_lines_utf8 cs : Forall scalar cs ->
  buf_lines (encode_utf8 cs) = map encode_utf8 (cbuf_lines cs) /\ Forall (Forall scalar) (cbuf_lines cs).
Proof.
  intros Hs. unfold buf_lines, cbuf_lines. rewrite (split_lf_utf8 cs [] [] Hs eq_refl).
  pose proof (csplit_lf_scalar cs [] Hs ltac:(constructor)) as Hl. split.
  - rewrite !map_map. apply map_ext_in. intros l Hin. rewrite Forall_forall in Hl. apply drop_cr_utf8. apply Hl. exact Hin.
  - rewrite Forall_forall in *. intros l Hin. apply in_map_iff in Hin as (l0 & <- & Hin0). apply cdrop_cr_scalar. apply Hl. exact Hin0.
Qed.

(* the pattern list of UTF-8 arguments consists of non-empty UTF-8 strings *)
Definition ccli_patterns (pfile pstr : option (list N)) : list (list N) :=
  (match pfile with Some f => filter nonempty (cbuf_lines f) | None => [] end)
  ++ (match pstr with Some s => filter nonempty (csplit_nl_all s []) | None => [] end).

Lemma nonempty_encode l : nonempty (encode_utf8 l) = nonempty l.
Proof.
  destruct l as [|c r]; [reflexivity|]. cbn [encode_utf8 flat_map nonempty].
  destruct (encode_char c) eqn:E; [exfalso; exact (encode_char_nonempty c E)|reflexivity].
Qed.
Lemma filter_nonempty_encode ls : filter nonempty (map encode_utf8 ls) = map encode_utf8 (filter nonempty ls).
Proof.
  induction ls as [|l r IH]; [reflexivity|]. cbn [map filter]. rewrite nonempty_encode. destruct (nonempty l); cbn [map]; rewrite IH; reflexivity.
Qed.

Theorem cli_patterns_utf8 (pfile pstr : option (list N)) :
  (forall f, pfile = Some f -> Forall scalar f) -> (forall s, pstr = Some s -> Forall scalar s) ->
  cli_patterns (option_map encode_utf8 pfile) (option_map encode_utf8 pstr) = map encode_utf8 (ccli_patterns pfile pstr)
  /\ Forall (fun p => p <> [] /\ Forall scalar p) (ccli_patterns pfile pstr).
Proof.
  intros Hf Hp. unfold cli_patterns, ccli_patterns. split.
  - rewrite map_app. f_equal.
    + destruct pfile as [f|]; [|reflexivity]. cbn [option_map]. destruct (buf_lines_utf8 f (Hf f eq_refl)) as [-> _].
      apply filter_nonempty_encode.
    + destruct pstr as [s|]; [|reflexivity]. cbn [option_map]. rewrite (split_nl_all_utf8 s [] [] (Hp s eq_refl) eq_refl).
      apply filter_nonempty_encode.
  - apply Forall_app. split.
    + destruct pfile as [f|]; [|constructor]. destruct (buf_lines_utf8 f (Hf f eq_refl)) as [_ Hl].
      rewrite Forall_forall in *. intros l Hin. apply filter_In in Hin as [Hin Hne]. split; [destruct l; [discriminate|discriminate]|apply Hl; exact Hin].
    + destruct pstr as [s|]; [|constructor]. pose proof (csplit_nl_all_scalar s [] (Hp s eq_refl) ltac:(constructor)) as Hl.
      rewrite Forall_forall in *. intros l Hin. apply filter_In in Hin as [Hin Hne]. split; [destruct l; [discriminate|discriminate]|apply Hl; exact Hin].
Qed.

Lemma encode_utf8_bytes cs : Forall scalar cs -> Forall (fun b => b < 256) (encode_utf8 cs).
Proof.
  intros Hcs. apply Forall_forall. intros b Hb. unfold encode_utf8 in Hb. apply in_flat_map in Hb as (c & Hc & Hb).
  rewrite Forall_forall in Hcs. specialize (Hcs c Hc). apply scalar_range in Hcs. unfold encode_char in Hb.
  destruct (c <? 128) eqn:E1; [destruct Hb as [<-|[]]; lia|].
  destruct (c <? 2048) eqn:E2; [destruct Hb as [<-|[<-|[]]]; lia|].
  destruct (c <? 65536) eqn:E3; [destruct Hb as [<-|[<-|[<-|[]]]]; lia|].
  destruct Hb as [<-|[<-|[<-|[<-|[]]]]]; lia.
Qed.

Lemma bpvs_upvs cpats : bpvs unit (upvs cpats) = upvs (map encode_utf8 cpats).
Proof. unfold bpvs, upvs. rewrite !map_map. reflexivity. Qed.

Lemma utf8_lines_ok cpats color cs :
  Forall (fun p => p <> [] /\ Forall scalar p) cpats -> Forall scalar cs ->
  Forall (line_ok (upvs (map encode_utf8 cpats)) color) (buf_lines (encode_utf8 cs)).
Proof.
  intros Hp Hs. destruct (buf_lines_utf8 cs Hs) as [-> Hl]. rewrite Forall_forall in *. intros l Hin.
  apply in_map_iff in Hin as (cl & <- & Hcl). specialize (Hl cl Hcl). split; [apply encode_utf8_bytes; exact Hl|].
  intros _. unfold occs_on_boundaries. rewrite <- bpvs_upvs.
  apply (utf8_occurrences_on_boundaries (upvs cpats) cl).
  - intros p v Hpv. unfold upvs in Hpv. apply in_map_iff in Hpv as (q & E & Hq). inversion E as [[Eq Ev]]. rewrite <- Eq. exact (proj1 (Hp q Hq)).
  - intros p v Hpv. unfold upvs in Hpv. apply in_map_iff in Hpv as (q & E & Hq). inversion E as [[Eq Ev]]. rewrite <- Eq. exact (proj2 (Hp q Hq)).
  - exact Hl.
Qed.

(* THE WHOLE PROGRAM ON UTF-8 ARGUMENTS AND INPUTS: pattern file, pattern string, standard input and
   file contents are the UTF-8 encodings of arbitrary texts (file names: any bytes). *)
Theorem cli_main_utf8_lemma (fl : cli_flags) (pfile pstr : option (list N)) (stdin : list N) (files : list (list N * list N)) :
  (forall f, pfile = Some f -> Forall scalar f) -> (forall s, pstr = Some s -> Forall scalar s) ->
  Forall scalar stdin -> Forall (fun f => Forall scalar (snd f)) files ->
  let pats := map encode_utf8 (ccli_patterns pfile pstr) in
  let bfiles := map (fun f => (fst f, encode_utf8 (snd f))) files in
  let run := cli_main fl (option_map encode_utf8 pfile) (option_map encode_utf8 pstr) (encode_utf8 stdin) bfiles in
  4 * plain_len pats <= U32_MAX - 1 ->
  match spec_build_error pats with
  | Some _ => run = Ok ([], 1)
  | None => run = Ok (cli_expected (upvs pats) fl (encode_utf8 stdin) bfiles, 0) \/ run = Ok ([], 1)
  end.
Proof.
  intros Hf Hp Hin Hfs pats bfiles run Hsz.
  destruct (cli_patterns_utf8 pfile pstr Hf Hp) as [Epats Hpats].
  pose proof (cli_main_lemma fl (option_map encode_utf8 pfile) (option_map encode_utf8 pstr) (encode_utf8 stdin) bfiles) as M.
  cbv zeta in M. rewrite Epats in M. fold pats in M. fold run in M. apply M; [|exact Hsz|].
  - intros p Hp'. unfold pats in Hp'. apply in_map_iff in Hp' as (q & <- & Hq). apply encode_utf8_bytes.
    rewrite Forall_forall in Hpats. exact (proj2 (Hpats q Hq)).
  - split; [apply utf8_lines_ok; assumption|]. unfold bfiles. rewrite Forall_forall in *. intros f Hfin.
    apply in_map_iff in Hfin as (f0 & <- & Hf0). cbn [snd]. apply utf8_lines_ok; [apply Forall_forall; exact Hpats|exact (Hfs f0 Hf0)].
Qed.
