(* CliMain.v — C16, the WHOLE program of Model/Cli.v (pattern list assembly, construction, the loops
   over stdin / the FILE arguments, both colour arms) against the property text, with NO
   certificate hypothesis: the builder theorem (Proofs/BuildCert.v) and the no-panic theorem
   (Proofs/NoPanic.v) discharge it for the automaton daacfind builds from its own pattern list. *)
From DV Require Import Model.Base Model.Nfa Model.BwBuild Model.BwSearch Model.Api Model.Spec
     Model.Cert Model.Cli Model.Utf8 Proofs.CliProps Proofs.CliColour Proofs.TrieInv Proofs.BuildTrie Proofs.BuildCert
     Proofs.NoPanicBw Proofs.NoPanic Proofs.BuiltAutomata.
From Coq Require Import ZifyN ZifyNat ZifyBool.
Local Open Scope N_scope.

Definition upvs (pats : list (list N)) : list (list N * unit) := map (fun p => (p, tt)) pats.

Lemma ueqb_eq a b : ueqb a b = true <-> a = b.
Proof. destruct a, b. unfold ueqb. split; reflexivity. Qed.

Lemma enumerate_conv_unit : forall ps i, enumerate_conv unit (fun _ => Some tt) i ps = Some (upvs ps).
Proof.
  induction ps as [|p r IH]; intros i; cbn [enumerate_conv upvs map]; [reflexivity|].
  rewrite (IH (S i)). reflexivity.
Qed.

Lemma upvs_fst pats : map fst (upvs pats) = pats.
Proof. unfold upvs. rewrite map_map. cbn [fst]. apply map_id. Qed.

(* ---- what the property says is printed ------------------------------------------------------------ *)
(* one line: nothing unless the line contains an occurrence; otherwise prefix, the line (with colour:
   cut into maximal runs, red exactly on the bytes covered by an occurrence), LF *)
Definition expected_line (pvs : list (list N * unit)) (color : bool) (prefix line : list N) : list N :=
  if has_occ pvs line
  then prefix ++ (if color then render (Cli.covered (occs_of pvs line)) line 0 false [] else line) ++ [10]
  else [].

Fixpoint expected_out (pvs : list (list N * unit)) (fl : cli_flags) (fname : option (list N)) (i : nat)
         (ls : list (list N)) : list N :=
  match ls with
  | [] => []
  | l :: r => expected_line pvs (cf_color fl) (line_prefix fl fname i) l ++ expected_out pvs fl fname (S i) r
  end.

Fixpoint expected_files (pvs : list (list N * unit)) (fl : cli_flags) (files : list (list N * list N)) : list N :=
  match files with
  | [] => []
  | (name, content) :: r => expected_out pvs fl (Some name) 0 (buf_lines content) ++ expected_files pvs fl r
  end.

Definition cli_expected (pvs : list (list N * unit)) (fl : cli_flags) (stdin : list N)
           (files : list (list N * list N)) : list N :=
  match files with
  | [] => expected_out pvs fl None 0 (buf_lines stdin)
  | _ => expected_files pvs fl files
  end.

(* the side condition of the colour arm: the program slices the line as a str *)
Definition occs_on_boundaries (pvs : list (list N * unit)) (line : list N) : Prop :=
  forall s e v, occ_at unit pvs line s e v -> is_char_boundary line s = true /\ is_char_boundary line e = true.

Definition line_ok (pvs : list (list N * unit)) (color : bool) (line : list N) : Prop :=
  Forall (fun b => b < 256) line /\ (color = true -> occs_on_boundaries pvs line).

Section Certified.
Variable A : bw_automaton unit.
Variable pvs : list (list N * unit).
Hypothesis CERT : bw_cert_ok ueqb A pvs = true.

Lemma find_and_output_any color prefix line : line_ok pvs color line ->
  find_and_output A color prefix line
  = Ok (if has_occ pvs line
        then Some (prefix ++ (if color then render (Cli.covered (occs_of pvs line)) line 0 false [] else line) ++ [10])
        else None).
Proof.
  intros [Hb Hbd]. destruct color.
  - destruct (has_occ pvs line) eqn:E.
    + exact (find_and_output_colour A pvs CERT prefix line Hb E (Hbd eq_refl)).
    + pose proof (find_and_output_colour_lines A pvs CERT prefix line Hb) as H.
      destruct (find_and_output A true prefix line) as [[o|]| | | |]; congruence.
  - exact (find_and_output_plain A pvs CERT prefix line Hb).
Qed.

Lemma run_lines_any fl fname : forall ls i, Forall (line_ok pvs (cf_color fl)) ls ->
  run_lines A fl fname i ls = Ok (expected_out pvs fl fname i ls).
Proof.
  induction ls as [|l r IH]; intros i Hok; [reflexivity|].
  inversion Hok as [|? ? Hl Hr]; subst. cbn [run_lines expected_out].
  rewrite (find_and_output_any _ _ l Hl). cbn [bind]. rewrite (IH (S i) Hr). cbn [bind].
  unfold expected_line. destruct (has_occ pvs l); reflexivity.
Qed.

Lemma run_files_any fl : forall files,
  Forall (fun f => Forall (line_ok pvs (cf_color fl)) (buf_lines (snd f))) files ->
  run_files A fl files = Ok (expected_files pvs fl files).
Proof.
  induction files as [|[name content] r IH]; intros Hok; [reflexivity|].
  inversion Hok as [|? ? Hf Hr]; subst. cbn [run_files expected_files]. cbn [snd] in Hf.
  rewrite (run_lines_any fl (Some name) _ 0%nat Hf). cbn [bind]. rewrite (IH Hr). cbn [bind]. reflexivity.
Qed.
End Certified.

(* ---- the whole program ------------------------------------------------------------------------------ *)
Definition inputs_ok (pvs : list (list N * unit)) (color : bool) (stdin : list N) (files : list (list N * list N)) : Prop :=
  Forall (line_ok pvs color) (buf_lines stdin)
  /\ Forall (fun f => Forall (line_ok pvs color) (buf_lines (snd f))) files.

Theorem cli_main_lemma (fl : cli_flags) (pfile pstr : option (list N)) (stdin : list N) (files : list (list N * list N)) :
  let pats := cli_patterns pfile pstr in
  (forall p, In p pats -> Forall (fun b => b < 256) p) -> 4 * plain_len pats <= U32_MAX - 1 ->
  inputs_ok (upvs pats) (cf_color fl) stdin files ->
  match spec_build_error pats with
  | Some _ => cli_main fl pfile pstr stdin files = Ok ([], 1)
  | None => cli_main fl pfile pstr stdin files = Ok (cli_expected (upvs pats) fl stdin files, 0)
            \/ cli_main fl pfile pstr stdin files = Ok ([], 1)       (* refused: AutomatonScale *)
  end.
Proof.
  intros pats Hb Hsz [Hin Hfs]. unfold cli_main. fold pats.
  assert (Hbuild : bw_build unit (fun _ => Some tt) Standard NFB_DEFAULT pats
                   = bw_build_with_values unit Standard NFB_DEFAULT (upvs pats)).
  { unfold bw_build. rewrite enumerate_conv_unit. reflexivity. }
  rewrite Hbuild.
  assert (Hn : NFB_DEFAULT <> 0) by (unfold NFB_DEFAULT; lia).
  assert (Hb' : forall p v, In (p, v) (upvs pats) -> Forall (fun b => b < 256) p).
  { intros p v Hp. apply Hb. unfold upvs in Hp. apply in_map_iff in Hp as (q & E & Hq). inversion E; subst. exact Hq. }
  assert (Hsz' : 4 * total_len unit (upvs pats) <= U32_MAX - 1) by (rewrite total_len_plain, upvs_fst; exact Hsz).
  destruct (spec_build_error pats) as [e|] eqn:Es.
  - rewrite (bw_build_error_lemma unit Standard NFB_DEFAULT (upvs pats) e Hn Hsz' ltac:(rewrite upvs_fst; exact Es)). reflexivity.
  - pose proof (bw_build_valid unit Standard NFB_DEFAULT (upvs pats) Hn Hb' Hsz' ltac:(rewrite upvs_fst; exact Es)) as Hv.
    destruct (bw_build_with_values unit Standard NFB_DEFAULT (upvs pats)) as [A|e| | |] eqn:EA; cbn [okscale] in Hv; try contradiction.
    + left.
      pose proof (built_cert unit ueqb ueqb_eq NFB_DEFAULT (upvs pats) A Hb' Hsz' EA) as CERT.
      unfold cli_expected. destruct files as [|f r].
      * rewrite (run_lines_any A (upvs pats) CERT fl None _ 0%nat Hin). reflexivity.
      * rewrite (run_files_any A (upvs pats) CERT fl _ Hfs). reflexivity.
    + right. reflexivity.
Qed.

(* ---- UTF-8 inputs: lines of UTF-8 text are UTF-8 text ---------------------------------------------- *)
(* the character-level twin of split_lf / split_nl_all *)
Fixpoint csplit_lf (cs : list N) (cur : list N) : list (list N) :=
  match cs with
  | [] => match cur with [] => [] | _ => [rev cur] end
  | c :: r => if c =? 10 then rev cur :: csplit_lf r [] else csplit_lf r (c :: cur)
  end.
Fixpoint csplit_nl_all (cs : list N) (cur : list N) : list (list N) :=
  match cs with
  | [] => [rev cur]
  | c :: r => if c =? 10 then rev cur :: csplit_nl_all r [] else csplit_nl_all r (c :: cur)
  end.
Definition cdrop_cr (l : list N) : list N :=
  match rev l with
  | c :: r => if c =? 13 then rev r else l
  | [] => l
  end.
