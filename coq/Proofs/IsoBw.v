(* IsoBw.v — C14, byte-wise layout: the double array does not depend on how the NFA states are
   numbered.  For two NFAs isomorphic through a renaming phi of the state ids, the depth-first
   layout runs in lock step (same bases, same slots, same helper state; the state-id maps
   correspond), and the finished state arrays are equal. *)
From DV Require Import Model.Base Model.Nfa Model.Helper Model.BwBuild Proofs.TrieInv Proofs.BuildSafe Proofs.HelperFlags Proofs.DaRefine Proofs.Iso.
From Coq Require Import ZifyN ZifyNat ZifyBool.
Local Open Scope N_scope.

(* arrays that agree slot by slot *)
Definition aeq (a a' : barr) : Prop := ba_len a' = ba_len a /\ forall j, slot a' j = slot a j.

Lemma ba_get_aeq a a' j : aeq a a' -> ba_get a' j = ba_get a j.
Proof. intros [L S]. unfold ba_get. rewrite L. specialize (S j). unfold slot in S. rewrite S. reflexivity. Qed.

Lemma ba_upd_aeq a a' i f : aeq a a' -> rres aeq (ba_upd a i f) (ba_upd a' i f).
Proof.
  intros H. unfold ba_upd. rewrite (ba_get_aeq a a' i H). destruct (ba_get a i) as [s| | | |]; cbn [bind rres]; auto.
  destruct H as [L S]. split; [exact L|]. intros j. unfold slot. cbn [ba_map]. destruct (N.eq_dec j i) as [->|Hne].
  - rewrite !ngss. reflexivity.
  - rewrite !ngso by exact Hne. exact (S j).
Qed.

Lemma ric_loop_aeq h u : forall cs a a', aeq a a' -> rres aeq (ric_loop a h u cs) (ric_loop a' h u cs).
Proof.
  induction cs as [|c r IH]; intros a a' H; cbn [ric_loop]; [exact H|].
  destruct (if (N.lxor u c =? ROOT) || (N.lxor u c =? DEAD) then Ok true else u0 <- is_used_index h (N.lxor u c);; Ok (negb u0)) as [d| | | |];
    cbn [bind rres]; auto.
  destruct d; [|exact (IH a a' H)].
  apply (rres_bind aeq aeq); [apply ba_upd_aeq; exact H|]. intros x y Hxy. exact (IH x y Hxy).
Qed.

Lemma remove_invalid_checks_aeq a a' h B : aeq a a' -> rres aeq (remove_invalid_checks a h B) (remove_invalid_checks a' h B).
Proof.
  intros H. unfold remove_invalid_checks. destruct (unused_base_in_block h B) as [[u|]| | | |]; cbn [bind rres]; auto.
  apply ric_loop_aeq. exact H.
Qed.

Lemma ric_blocks_aeq h : forall bls a a', aeq a a' -> rres aeq (ric_blocks a h bls) (ric_blocks a' h bls).
Proof.
  induction bls as [|B r IH]; intros a a' H; cbn [ric_blocks]; [exact H|].
  apply (rres_bind aeq aeq); [apply remove_invalid_checks_aeq; exact H|]. intros x y Hxy. exact (IH x y Hxy).
Qed.

Lemma barr_to_list_aeq a a' : aeq a a' -> barr_to_list a' = barr_to_list a.
Proof.
  intros [L S]. unfold barr_to_list. rewrite L. apply map_ext. intros j. exact (S j).
Qed.

Lemma bstate_eq (x y : bstate) : b_base x = b_base y -> b_fail x = b_fail y -> b_check x = b_check y -> b_outpos x = b_outpos y -> x = y.
Proof.
  destruct x as [b f o], y as [b' f' o']. unfold b_check, b_outpos, pk_a, pk_b. cbn [b_base b_fail b_opos_ch]. intros -> -> Hc Ho. f_equal.
  rewrite N.shiftr_div_pow2 in Ho. rewrite (N.shiftr_div_pow2 o') in Ho. change 255 with (N.ones 8) in Hc. rewrite !N.land_ones in Hc.
  change (2 ^ 8) with 256 in *. rewrite (N.div_mod o 256), (N.div_mod o' 256) by discriminate. rewrite Ho, Hc. reflexivity.
Qed.

Section Sim.
Variable V : Type.
Variables phi psi : N -> N.
Hypothesis phi_psi : forall x, phi (psi x) = x.
Hypothesis psi_phi : forall x, psi (phi x) = x.
Hypothesis phi_root : phi ROOT = ROOT.
Hypothesis phi_dead : phi DEAD = DEAD.
Notation iso := (iso V phi).
Notation redges := (redges phi).

Definition imrel (im im' : nmap N) : Prop := forall s, nget (phi s) im' = nget s im.

Lemma imrel_set im im' ch idx : imrel im im' -> imrel (nset ch idx im) (nset (phi ch) idx im').
Proof.
  intros H s. destruct (N.eq_dec s ch) as [->|Hne]; [rewrite !ngss; reflexivity|].
  rewrite !ngso; [apply H|exact Hne|]. intros E. apply (phi_inj phi psi psi_phi) in E. contradiction.
Qed.

Lemma idmap_get_iso n n' im im' i : iso n n' -> imrel im im' -> idmap_get im' (n_nstates n') (phi i) = idmap_get im (n_nstates n) i.
Proof. intros (Hn & _ & _ & _ & Hr & _) Hi. unfold idmap_get. rewrite Hn, Hr, Hi. reflexivity. Qed.

Definition R4 (x y : barr * helper * nmap N * list N) : Prop :=
  fst (fst (fst y)) = fst (fst (fst x)) /\ snd (fst (fst y)) = snd (fst (fst x)) /\ imrel (snd (fst x)) (snd (fst y)) /\ snd y = map phi (snd x).

Lemma place_children_iso nst : (forall i, (phi i <? nst) = (i <? nst)) -> forall es a h im im' base stack, imrel im im' ->
  rres R4 (place_children a h im nst base es stack) (place_children a h im' nst base (redges es) (map phi stack)).
Proof.
  intros Hr. induction es as [|[c ch] es IH]; intros a h im im' base stack Hi; cbn [Iso.redges map place_children fst snd].
  - cbn [rres]. unfold R4. cbn [fst snd]. auto.
  - destruct (use_index h (N.lxor base c)) as [h1| | | |]; cbn [bind rres]; auto.
    destruct (ba_upd a (N.lxor base c) (set_check c)) as [a1| | | |]; cbn [bind rres]; auto.
    rewrite Hr. destruct (ch <? nst); [|reflexivity].
    exact (IH a1 h1 (nset ch (N.lxor base c) im) (nset (phi ch) (N.lxor base c) im') base (ch :: stack) (imrel_set im im' ch _ Hi)).
Qed.

Definition R3 (x y : barr * helper * nmap N) : Prop :=
  fst (fst y) = fst (fst x) /\ snd (fst y) = snd (fst x) /\ imrel (snd x) (snd y).

Lemma map_fst_redges es : map fst (redges es) = map fst es.
Proof. unfold Iso.redges. rewrite map_map. reflexivity. Qed.

Lemma dfs_loop_iso n n' : iso n n' -> forall fuel a h im im' stack, imrel im im' ->
  rres R3 (dfs_loop V fuel n a h im stack) (dfs_loop V fuel n' a h im' (map phi stack)).
Proof.
  intros H. pose proof H as (Hn & _ & _ & _ & Hr & _).
  induction fuel as [|fuel IH]; intros a h im im' stack Hi; destruct stack as [|sid stack]; cbn [map dfs_loop rres].
  - unfold R3. cbn [fst snd]. auto.
  - exact I.
  - unfold R3. cbn [fst snd]. auto.
  - rewrite (phi_eqb_dead phi psi psi_phi phi_dead). destruct (sid =? DEAD); [reflexivity|].
    rewrite (nfa_get_iso V phi n n' sid H). destruct (nfa_get V n sid) as [st| | | |]; cbn [rmap bind rres]; auto.
    rewrite (idmap_get_iso n n' im im' sid H Hi). destruct (idmap_get im (n_nstates n) sid) as [sidx| | | |]; cbn [bind rres]; auto.
    destruct (sidx =? DEAD); [reflexivity|]. cbn [rst n_edges].
    assert (Hm : forall (X : Type) (es : list (N * N)) (x y : X),
               match redges es with [] => x | _ :: _ => y end = match es with [] => x | _ :: _ => y end) by (intros X es x y; destruct es; reflexivity).
    rewrite Hm. rewrite map_fst_redges.
    destruct (n_edges st) as [|e0 es0] eqn:Ee; [exact (IH a h im im' stack Hi)|].
    destruct (find_base a h (map fst (e0 :: es0))) as [base| | | |]; cbn [bind rres]; auto.
    destruct (if ba_len a <=? base then extend_array a h else Ok (a, h)) as [[a1 h1]| | | |]; cbn [bind rres]; auto.
    rewrite Hn.
    apply (rres_bind R4 R3); [apply place_children_iso; [exact Hr|exact Hi]|].
    intros [[[a2 h2] im2] st2] [[[a2' h2'] im2'] st2'] (E1 & E2 & Hi2 & Est). cbn [fst snd] in *. subst a2' h2' st2'.
    destruct (ba_upd a2 sidx (set_base base)) as [a3| | | |]; cbn [bind rres]; auto.
    destruct (use_base h2 base) as [h3| | | |]; cbn [bind rres]; try reflexivity; try exact I.
    exact (IH a3 h3 im2 im2' st2 Hi2).
Qed.


Lemma set_fails_loop_ok_get n im : forall ids a a', set_fails_loop V n a im ids = Ok a' ->
  forall s, In s ids -> s <> DEAD -> exists st, nfa_get V n s = Ok st.
Proof.
  induction ids as [|i r IH]; intros a a' H s Hs Hd; [destruct Hs|]. cbn [set_fails_loop] in H.
  destruct (i =? DEAD) eqn:Ed.
  - destruct Hs as [<-|Hs]; [apply N.eqb_eq in Ed; contradiction|exact (IH a a' H s Hs Hd)].
  - destruct (idmap_get im (n_nstates n) i) as [idx| | | |]; cbn [bind] in H; try discriminate.
    destruct (idx =? DEAD); [discriminate|]. destruct (nfa_get V n i) as [st| | | |] eqn:Eg; cbn [bind] in H; try discriminate.
    destruct Hs as [<-|Hs]; [eauto|]. destruct (U24_MAX <? n_outpos st); [discriminate|].
    destruct (ba_upd a idx (set_outpos (n_outpos st))) as [a1| | | |]; cbn [bind] in H; try discriminate.
    destruct (n_fail st =? DEAD).
    + destruct (ba_upd a1 idx (set_bfail DEAD)) as [a2| | | |]; cbn [bind] in H; try discriminate. exact (IH a2 a' H s Hs Hd).
    + destruct (idmap_get im (n_nstates n) (n_fail st)) as [fidx| | | |]; cbn [bind] in H; try discriminate.
      destruct (fidx =? DEAD); [discriminate|].
      destruct (ba_upd a1 idx (set_bfail fidx)) as [a2| | | |]; cbn [bind] in H; try discriminate. exact (IH a2 a' H s Hs Hd).
Qed.

Lemma fmap_iso im im' f : imrel im im' -> fmap im' (phi f) = fmap im f.
Proof. intros Hi. unfold fmap. rewrite (phi_eqb_dead phi psi psi_phi phi_dead), Hi. reflexivity. Qed.

Lemma psi_range nst : (forall i, (phi i <? nst) = (i <? nst)) -> forall x, (psi x <? nst) = (x <? nst).
Proof. intros Hr x. rewrite <- (Hr (psi x)), phi_psi. reflexivity. Qed.

Lemma set_fails_iso n n' a1 im im' a2 a2' : iso n n' -> imrel im im' ->
  (forall s1 s2 i, nget s1 im = Some i -> nget s2 im = Some i -> s1 = s2) ->
  set_fails_loop V n a1 im (nseq 0 (N.to_nat (n_nstates n))) = Ok a2 ->
  set_fails_loop V n' a1 im' (nseq 0 (N.to_nat (n_nstates n'))) = Ok a2' -> aeq a2 a2'.
Proof.
  intros H Hi Hinj E1 E2. pose proof H as (Hn & _ & _ & _ & Hr & _). rewrite Hn in E2.
  set (nst := n_nstates n) in *. set (ids := nseq 0 (N.to_nat nst)) in *.
  assert (Hids : forall s, In s ids <-> s < nst).
  { intros s. unfold ids. rewrite nseq_in'. rewrite N2Nat.id. lia. }
  assert (Hinj' : forall s1 s2 i, nget s1 im' = Some i -> nget s2 im' = Some i -> s1 = s2).
  { intros s1 s2 i G1 G2. rewrite <- (phi_psi s1), Hi in G1. rewrite <- (phi_psi s2), Hi in G2.
    rewrite <- (phi_psi s1), <- (phi_psi s2). f_equal. exact (Hinj _ _ i G1 G2). }
  destruct (set_fails_loop_spec V n im Hinj ids a1 a2 (nseq_nodup' _ _) E1) as (L1 & S1 & U1 & F1).
  destruct (set_fails_loop_spec V n' im' Hinj' ids a1 a2' (nseq_nodup' _ _) E2) as (L2 & S2 & U2 & F2).
  split; [congruence|]. intros j. apply bstate_eq.
  - destruct (S1 j) as [B1 _]. destruct (S2 j) as [B2 _]. unfold bs in *. congruence.
  - destruct (existsb (fun s => negb (s =? DEAD) && match nget s im with Some x => x =? j | None => false end) ids) eqn:Ex.
    + apply existsb_exists in Ex as (s & Hs & Hc). apply andb_true_iff in Hc as [Hd Hg]. apply negb_true_iff, N.eqb_neq in Hd.
      destruct (nget s im) as [x|] eqn:Eg; [|discriminate]. apply N.eqb_eq in Hg. subst x.
      destruct (set_fails_loop_ok_get n im ids a1 a2 E1 s Hs Hd) as [st Hst].
      destruct (F1 s st j Hs Hd Hst Eg) as [Ff1 _].
      assert (Hs' : In (phi s) ids) by (apply Hids; apply Hids in Hs; apply N.ltb_lt; rewrite Hr; apply N.ltb_lt; exact Hs).
      assert (Hd' : phi s <> DEAD) by (intros E; rewrite <- phi_dead in E; apply (phi_inj phi psi psi_phi) in E; contradiction).
      assert (Hst' : nfa_get V n' (phi s) = Ok (rst V phi st)) by (rewrite (nfa_get_iso V phi n n' s H), Hst; reflexivity).
      destruct (F2 (phi s) _ j Hs' Hd' Hst' ltac:(rewrite Hi; exact Eg)) as [Ff2 _].
      rewrite Ff1, Ff2. cbn [rst n_fail]. apply fmap_iso. exact Hi.
    + assert (Hno : forall s, In s ids -> s <> DEAD -> nget s im <> Some j).
      { intros s Hs Hd Hg. assert (existsb (fun s => negb (s =? DEAD) && match nget s im with Some x => x =? j | None => false end) ids = true); [|congruence].
        apply existsb_exists. exists s. split; [exact Hs|]. rewrite Hg, N.eqb_refl. apply N.eqb_neq in Hd. rewrite Hd. reflexivity. }
      assert (Hno' : forall s, In s ids -> s <> DEAD -> nget s im' <> Some j).
      { intros s Hs Hd. rewrite <- (phi_psi s), Hi. apply Hno.
        - apply Hids. apply Hids in Hs. apply N.ltb_lt. rewrite (psi_range nst Hr). apply N.ltb_lt. exact Hs.
        - intros E. apply Hd. rewrite <- (phi_psi s), E. exact phi_dead. }
      destruct (U1 j Hno) as [A1 _]. destruct (U2 j Hno') as [A2 _]. congruence.
  - destruct (S1 j) as [_ B1]. destruct (S2 j) as [_ B2]. unfold ck in *. congruence.
  - destruct (existsb (fun s => negb (s =? DEAD) && match nget s im with Some x => x =? j | None => false end) ids) eqn:Ex.
    + apply existsb_exists in Ex as (s & Hs & Hc). apply andb_true_iff in Hc as [Hd Hg]. apply negb_true_iff, N.eqb_neq in Hd.
      destruct (nget s im) as [x|] eqn:Eg; [|discriminate]. apply N.eqb_eq in Hg. subst x.
      destruct (set_fails_loop_ok_get n im ids a1 a2 E1 s Hs Hd) as [st Hst].
      destruct (F1 s st j Hs Hd Hst Eg) as [_ Fo1].
      assert (Hs' : In (phi s) ids) by (apply Hids; apply Hids in Hs; apply N.ltb_lt; rewrite Hr; apply N.ltb_lt; exact Hs).
      assert (Hd' : phi s <> DEAD) by (intros E; rewrite <- phi_dead in E; apply (phi_inj phi psi psi_phi) in E; contradiction).
      assert (Hst' : nfa_get V n' (phi s) = Ok (rst V phi st)) by (rewrite (nfa_get_iso V phi n n' s H), Hst; reflexivity).
      destruct (F2 (phi s) _ j Hs' Hd' Hst' ltac:(rewrite Hi; exact Eg)) as [_ Fo2].
      rewrite Fo1, Fo2. reflexivity.
    + assert (Hno : forall s, In s ids -> s <> DEAD -> nget s im <> Some j).
      { intros s Hs Hd Hg. assert (existsb (fun s => negb (s =? DEAD) && match nget s im with Some x => x =? j | None => false end) ids = true); [|congruence].
        apply existsb_exists. exists s. split; [exact Hs|]. rewrite Hg, N.eqb_refl. apply N.eqb_neq in Hd. rewrite Hd. reflexivity. }
      assert (Hno' : forall s, In s ids -> s <> DEAD -> nget s im' <> Some j).
      { intros s Hs Hd. rewrite <- (phi_psi s), Hi. apply Hno.
        - apply Hids. apply Hids in Hs. apply N.ltb_lt. rewrite (psi_range nst Hr). apply N.ltb_lt. exact Hs.
        - intros E. apply Hd. rewrite <- (phi_psi s), E. exact phi_dead. }
      destruct (U1 j Hno) as [_ A1]. destruct (U2 j Hno') as [_ A2]. congruence.
Qed.

Theorem build_double_array_iso nfb n n' sts sts' : iso n n' ->
  (forall a0 h0 a1 h1 im, init_array nfb = Ok (a0, h0) ->
     dfs_loop V (S (N.to_nat (n_nstates n))) n a0 h0 (nset ROOT ROOT nempty) [ROOT] = Ok (a1, h1, im) ->
     forall s1 s2 i, nget s1 im = Some i -> nget s2 im = Some i -> s1 = s2) ->
  build_double_array V nfb n = Ok sts -> build_double_array V nfb n' = Ok sts' -> sts' = sts.
Proof.
  intros H Hinj E1 E2. unfold build_double_array in E1, E2. rewrite (iso_nstates V phi n n' H) in E2.
  destruct (init_array nfb) as [[a0 h0]| | | |] eqn:Ei; cbn [bind] in E1, E2; try discriminate.
  assert (Hi0 : imrel (nset ROOT ROOT nempty) (nset ROOT ROOT nempty)).
  { intros s. destruct (N.eq_dec s ROOT) as [->|Hne]; [rewrite phi_root, !ngss; reflexivity|].
    rewrite !ngso, !nget_empty; [reflexivity|exact Hne|]. intros E. rewrite <- phi_root in E. apply (phi_inj phi psi psi_phi) in E. contradiction. }
  pose proof (dfs_loop_iso n n' H (S (N.to_nat (n_nstates n))) a0 h0 _ _ [ROOT] Hi0) as Hd. cbn [map] in Hd. rewrite phi_root in Hd.
  destruct (dfs_loop V _ n a0 h0 _ [ROOT]) as [[[a1 h1] im]| | | |] eqn:Ed1; cbn [bind] in E1; try discriminate.
  destruct (dfs_loop V _ n' a0 h0 _ [ROOT]) as [[[a1' h1'] im']| | | |] eqn:Ed2; cbn [bind rres] in E2, Hd; try contradiction; try discriminate.
  destruct Hd as (Ea & Eh & Him). cbn [fst snd] in *. subst a1' h1'.
  destruct (set_fails_loop V n a1 im _) as [a2| | | |] eqn:Es1; cbn [bind] in E1; try discriminate.
  rewrite <- (iso_nstates V phi n n' H) in E2.
  destruct (set_fails_loop V n' a1 im' _) as [a2'| | | |] eqn:Es2; cbn [bind] in E2; try discriminate.
  pose proof (set_fails_iso n n' a1 im im' a2 a2' H Him (Hinj a0 h0 a1 h1 im eq_refl Ed1) Es1 Es2) as Ha.
  pose proof (ric_blocks_aeq h1 (nseq (active_block_start h1) (N.to_nat (h_nblocks h1 - active_block_start h1))) a2 a2' Ha) as Hr.
  destruct (ric_blocks a2 h1 _) as [a3| | | |]; cbn [bind] in E1; try discriminate.
  destruct (ric_blocks a2' h1 _) as [a3'| | | |]; cbn [bind rres] in E2, Hr; try contradiction; try discriminate.
  inversion E1; inversion E2; subst. apply barr_to_list_aeq. exact Hr.
Qed.

End Sim.
