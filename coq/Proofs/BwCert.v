(* BwCert.v — byte-wise automaton: [bw_cert_ok A pvs = true] implies that the three standard
   search methods of the model return exactly the specification, for ALL haystacks of bytes. *)
From DV Require Import Model.Base Model.Nfa Model.BwBuild Model.BwSearch Model.Api Model.Spec
     Model.Cert Proofs.GenAC.
From Coq Require Import ZifyN ZifyNat ZifyBool.

Local Open Scope N_scope.

Lemma nseq_In a n x : In x (nseq a n) <-> a <= x < a + N.of_nat n.
Proof.
  revert a; induction n as [|n IH]; intros a; cbn [nseq In].
  - lia.
  - rewrite IH. lia.
Qed.

Section BwCert.
Variable V : Type.
Variable veqb : V -> V -> bool.
Hypothesis veqb_sound : forall a b, veqb a b = true -> a = b.
Variable A : bw_automaton V.
Variable pvs : list (list N * V).
Hypothesis CERT : bw_cert_ok veqb A pvs = true.

Let sget := bw_sget V A.
Let oget := bw_oget V A.
Let nslots := bw_nslots V A.
Let child := bwc_child sget.
Let failof := bwc_failof sget.
Let outposof := bwc_outposof sget.
Let outat := bwc_outat V oget.
Let maxdepth := S (length (bw_states A)).
Let nouts := length (bw_outputs A).

Notation walk := (Cert.walk child).
Notation lsuf := (Cert.lsuf child).
Notation sufpats := (Cert.sufpats V bwc_plen pvs).
Notation chain := (Cert.chain V outat).

Lemma kind_std : is_standard (bw_kind A) = true.
Proof. unfold bw_cert_ok in CERT. apply andb_true_iff in CERT. tauto. Qed.

Lemma child_labels : forall s c, ~ In c byte_labels -> child s c = Ok None.
Proof.
  intros s c H. unfold child, bwc_child. destruct (c <? 256) eqn:E; [|reflexivity].
  exfalso. apply H. apply nseq_In. lia.
Qed.

Lemma cert_tree : exists fuel,
  tree_ok V veqb child failof outposof outat byte_labels bwc_plen pvs fuel maxdepth nouts ROOT [] = true.
Proof.
  unfold bw_cert_ok, bwc_cert_ok, cert_ok in CERT. rewrite !andb_true_iff in CERT.
  destruct CERT as (_ & H & _). eexists. exact H.
Qed.

Lemma pats_nodes : forall p v, In (p, v) pvs -> p <> [] /\ Cert.inT child p = true.
Proof.
  unfold bw_cert_ok, bwc_cert_ok, cert_ok in CERT. rewrite !andb_true_iff in CERT.
  destruct CERT as (_ & _ & H). rewrite forallb_forall in H. intros p v Hin.
  specialize (H (p, v) Hin). cbn [fst] in H. apply andb_true_iff in H as [H1 H2]. split; [|exact H2].
  destruct p; [discriminate|congruence].
Qed.

Definition node_ok' := node_ok V veqb veqb_sound child failof outposof outat byte_labels bwc_plen pvs
                               child_labels maxdepth nouts cert_tree.

(* ---- the model's transition function is the generic loop --------------------------------- *)
Lemma next_state_gen c : c < 256 -> forall fuel s t s',
  g_next child failof fuel s c = Ok s' ->
  exists t', bw_next_state sget fuel s c t = Ok (s', t').
Proof.
  intros Hc. induction fuel as [|fuel IH]; intros s t s' H; [discriminate|].
  cbn [g_next bw_next_state] in *. unfold child at 1, bwc_child in H. rewrite (proj2 (N.ltb_lt _ _) Hc) in H.
  destruct (bw_child sget s c) as [[x|]| | | |]; cbn [bind] in *; try discriminate.
  - inversion H; subst. eauto.
  - destruct (s =? ROOT); [inversion H; subst; eauto|].
    unfold failof at 1, bwc_failof in H. destruct (st_at sget s) as [st| | | |]; cbn [bind] in *; try discriminate.
    eapply IH. exact H.
Qed.

Definition bytes (h : list N) : Prop := Forall (fun b => b < 256) h.

(* the transition loop, with its iteration count: reading c in the state of node u ends in the
   state of lsuf (u ++ [c]) and costs at most |u| + 2 - |lsuf (u ++ [c])| iterations *)
Lemma lsuf_cons' a r : lsuf (a :: r) = if Cert.inT child (a :: r) then a :: r else lsuf r.
Proof. apply (lsuf_cons child). Qed.

Lemma lsuf_len' r : (length (lsuf r) <= length r)%nat.
Proof.
  induction r as [|a r IH]; [cbn; lia|]. rewrite lsuf_cons'.
  destruct (Cert.inT child (a :: r)); cbn [length]; lia.
Qed.

Lemma next_state_ticks c : c < 256 -> forall fuel u s t,
  walk ROOT u = Some s -> (length u < fuel)%nat ->
  exists s' t', bw_next_state sget fuel s c t = Ok (s', t')
                /\ walk ROOT (lsuf (u ++ [c])) = Some s'
                /\ (N.to_nat t' + length (lsuf (u ++ [c])) <= N.to_nat t + length u + 2)%nat.
Proof.
  intros Hc. induction fuel as [|fuel IH]; intros u s t Hw Hlen; [lia|].
  pose proof (node_ok' u s Hw) as NF.
  cbn [bw_next_state]. destruct NF as [NFroot _ NFfail _ NFchild]. destruct (NFchild c) as [r Hr].
  unfold child, bwc_child in Hr. rewrite (proj2 (N.ltb_lt _ _) Hc) in Hr. rewrite Hr. cbn [bind].
  assert (Hchild : child s c = Ok r).
  { unfold child, bwc_child. rewrite (proj2 (N.ltb_lt _ _) Hc). exact Hr. }
  destruct r as [t1|].
  - exists t1, (t + 1). split; [reflexivity|].
    assert (Hwt : walk ROOT (u ++ [c]) = Some t1) by (rewrite (walk_snoc child), Hw, Hchild; reflexivity).
    rewrite (lsuf_of_node child) by (unfold Cert.inT; rewrite Hwt; reflexivity).
    split; [exact Hwt|]. rewrite app_length. cbn [length]. lia.
  - assert (Hnot : Cert.inT child (u ++ [c]) = false).
    { unfold Cert.inT. rewrite (walk_snoc child), Hw, Hchild. reflexivity. }
    destruct u as [|a r].
    + cbn in Hw. inversion Hw; subst s. rewrite N.eqb_refl.
      exists ROOT, (t + 1). split; [reflexivity|]. cbn [app] in *. rewrite lsuf_cons', Hnot.
      split; [reflexivity|]. cbn. lia.
    + destruct (s =? ROOT) eqn:Es.
      { apply N.eqb_eq in Es. pose proof (NFroot Es). discriminate. }
      destruct (NFfail a r eq_refl) as [f [Hf Hwf]].
      unfold failof, bwc_failof in Hf. destruct (st_at sget s) as [st| | | |]; cbn [bind] in Hf; try discriminate.
      inversion Hf; subst f. cbn [bind].
      destruct (IH (lsuf r) (b_fail st) (t + 1) Hwf) as (s' & t' & Hs' & Hw' & Ht').
      { pose proof (lsuf_len' r). cbn [length] in Hlen. lia. }
      exists s', t'. split; [exact Hs'|].
      cbn [app]. rewrite lsuf_cons'. cbn [app] in Hnot. rewrite Hnot.
      rewrite (lsuf_snoc child). split; [exact Hw'|].
      pose proof (lsuf_len' r). cbn [length]. lia.
Qed.

(* one step of any scan: from the state of lsuf w to the state of lsuf (w ++ [c]); the potential
   "iterations so far + depth of the current node" grows by at most 2 *)
Lemma step w c s t : c < 256 -> walk ROOT (lsuf w) = Some s ->
  exists s' t', bw_next_state sget (fuel0 nslots) s c t = Ok (s', t')
                /\ walk ROOT (lsuf (w ++ [c])) = Some s'
                /\ (N.to_nat t' + length (lsuf (w ++ [c])) <= N.to_nat t + length (lsuf w) + 2)%nat.
Proof.
  intros Hc Hw. pose proof (node_ok' _ _ Hw) as NF.
  destruct (next_state_ticks c Hc (fuel0 nslots) (lsuf w) s t Hw) as (s' & t' & H1 & H2 & H3).
  { destruct NF as [_ Hd _ _ _]. unfold fuel0, nslots, bw_nslots. rewrite Nat2N.id. unfold maxdepth in Hd. lia. }
  exists s', t'. rewrite (lsuf_snoc child). auto.
Qed.

(* ---- outputs of the state of lsuf w -------------------------------------------------------- *)
Definition mk (e : nat) (lv : N * V) : mtch V := {| m_length := fst lv; m_end := e; m_value := snd lv |}.

Lemma chain_nil fuel p : chain fuel p = Ok [] -> p = 0.
Proof.
  destruct fuel; cbn [Cert.chain]; destruct (p =? 0) eqn:E; intros H; try (apply N.eqb_eq in E; exact E);
    try discriminate.
  destruct (outat p); cbn [bind] in H; try discriminate.
  destruct (Cert.chain V outat fuel (o_parent a)); cbn [bind] in H; discriminate.
Qed.

Lemma chain_cons fuel p o r : chain fuel p = Ok (o :: r) ->
  p <> 0 /\ outat p = Ok o /\ exists fuel', chain fuel' (o_parent o) = Ok r.
Proof.
  destruct fuel; cbn [Cert.chain]; destruct (p =? 0) eqn:E; intros H; try discriminate.
  apply N.eqb_neq in E. split; [exact E|].
  destruct (outat p) as [o'| | | |]; cbn [bind] in H; try discriminate.
  destruct (Cert.chain V outat fuel (o_parent o')) as [r'| | | |] eqn:Ec; cbn [bind] in H; try discriminate.
  inversion H; subst. split; [reflexivity|]. eauto.
Qed.

Lemma chain_zero fuel : chain fuel 0 = Ok [].
Proof. destruct fuel; reflexivity. Qed.

(* the state reached after reading w: its output position starts a chain that lists sufpats w *)
Lemma outputs_at w s : walk ROOT (lsuf w) = Some s ->
  exists st os, st_at sget s = Ok st /\ chain (S nouts) (b_outpos st) = Ok os
                /\ map (fun o => (o_length o, o_value o)) os = sufpats w
                /\ (length os <= nouts)%nat.
Proof.
  intros Hw. pose proof (node_ok' _ _ Hw) as NF.
  destruct NF as [_ _ _ (p & os & Hp & Hc & Hm & Hl) _].
  unfold outposof, bwc_outposof in Hp. destruct (st_at sget s) as [st| | | |] eqn:Est; cbn [bind] in Hp; try discriminate.
  inversion Hp; subst p. exists st, os. repeat split; auto.
  unfold outs_match in Hm. rewrite Hm.
  symmetry. apply (sufpats_lsuf V child bwc_plen pvs). intros p v Hin. apply (pats_nodes p v Hin).
Qed.

(* ---- the specification in terms of sufpats -------------------------------------------------- *)
Definition tr (e : nat) (lv : N * V) : nat * nat * V := ((e - N.to_nat (fst lv))%nat, e, snd lv).

Lemma skipn_skipn' {T} (x y : nat) (l : list T) : skipn x (skipn y l) = skipn (x + y) l.
Proof.
  revert l; induction y as [|y IH]; intros l.
  - rewrite Nat.add_0_r. reflexivity.
  - destruct l as [|a l]; [rewrite !skipn_nil; reflexivity|].
    rewrite Nat.add_succ_r. cbn [skipn]. apply IH.
Qed.

Lemma sub_lastn h from e (k : nat) : (from <= e <= length h)%nat -> (1 <= k <= e - from)%nat ->
  sub h (e - k) e = lastn k (sub h from e).
Proof.
  intros He Hk. unfold sub, lastn.
  rewrite firstn_length, skipn_length.
  replace (Nat.min (e - from) (length h - from)) with (e - from)%nat by lia.
  replace (e - (e - k))%nat with k by lia.
  replace (firstn (e - from) (skipn from h)) with (firstn ((e - from - k) + k) (skipn from h))
    by (f_equal; lia).
  rewrite <- firstn_skipn_comm. rewrite skipn_skipn'.
  replace (e - from - k + from)%nat with (e - k)%nat by lia. reflexivity.
Qed.

Lemma sub_length h from e : (from <= e <= length h)%nat -> length (sub h from e) = (e - from)%nat.
Proof. intros H. unfold sub. rewrite firstn_length, skipn_length. lia. Qed.

Lemma ends_at_from_sufpats h from e : (from <= e <= length h)%nat ->
  ends_at_from V pvs h from e = map (tr e) (sufpats (sub h from e)).
Proof.
  intros He. unfold ends_at_from, Cert.sufpats. rewrite sub_length by exact He.
  rewrite flat_map_concat_map, (flat_map_concat_map _ (rev (seq 1 (e - from)))), concat_map, map_map.
  f_equal. apply map_ext_in. intros k Hk. apply in_rev, in_seq in Hk.
  unfold occs_len, pats_eq. rewrite map_map. rewrite (sub_lastn h from e k He) by lia.
  apply map_ext_in. intros [p v] Hin. apply filter_In in Hin as [_ Heq]. cbn [fst snd] in *.
  apply list_eqb_eq in Heq. subst p. unfold tr, bwc_plen. cbn [fst snd].
  rewrite lastn_length by (rewrite sub_length by exact He; lia). rewrite Nat2N.id. reflexivity.
Qed.

Lemma sub_0 h e : sub h 0 e = firstn e h.
Proof. unfold sub. rewrite Nat.sub_0_r. reflexivity. Qed.

Lemma sufpats_len w lv : In lv (sufpats w) -> (N.to_nat (fst lv) <= length w)%nat.
Proof.
  unfold Cert.sufpats. intros H. apply in_flat_map in H as [k [Hk Hin]].
  apply in_rev, in_seq in Hk. unfold pats_eq in Hin. apply in_map_iff in Hin as [[p v] [E Hf]].
  apply filter_In in Hf as [_ Heq]. apply list_eqb_eq in Heq. cbn [fst] in Heq. subst lv p.
  cbn [fst]. unfold bwc_plen. rewrite Nat2N.id. rewrite lastn_length by lia. lia.
Qed.

(* ---- Match -> (start, end, value) ---------------------------------------------------------- *)
Definition tr_m (m : mtch V) : nat * nat * V :=
  ((m_end m - N.to_nat (m_length m))%nat, m_end m, m_value m).

Lemma triples_ok ms : Forall (fun m => (N.to_nat (m_length m) <= m_end m)%nat) ms ->
  triples V ms = Ok (map tr_m ms).
Proof.
  induction ms as [|m ms IH]; intros H; [reflexivity|]. inversion H as [|? ? Hm Hms]; subst.
  cbn [triples map]. unfold triple. rewrite (proj2 (Nat.leb_le _ _) Hm). cbn [bind].
  rewrite (IH Hms). reflexivity.
Qed.

Lemma tr_m_mk e lv : tr_m (mk e lv) = tr e lv.
Proof. reflexivity. Qed.

(* ---- FindOverlappingNoSuffixIterator -------------------------------------------------------- *)
Definition first1 {T} (l : list T) : list T := firstn 1 l.
Lemma first1_nil {T} : @first1 T [] = [].
Proof. reflexivity. Qed.
Lemma first1_cons {T} (x : T) l : first1 (x :: l) = [x].
Proof. reflexivity. Qed.
Notation nos_next' := (nos_next V sget oget nslots).

Definition nos_it_at (rest : list N) (pulled : nat) (s t : N) : nos_it :=
  {| x_src := {| s_rest := rest; s_pulled := pulled |}; x_state := s; x_ticks := t |}.

Lemma nos_run h : forall rest w s t k,
  h = w ++ rest -> bytes rest -> walk ROOT (lsuf w) = Some s -> (length rest < k)%nat ->
  (N.to_nat t + length (lsuf w) <= 2 * length w)%nat ->
  exists it', drain V nos_next' k (nos_it_at rest (length w) s t)
              = Ok (flat_map (fun e => first1 (map (mk e) (sufpats (firstn e h))))
                             (seq (S (length w)) (length rest)), it')
              /\ (N.to_nat (x_ticks it') <= 2 * length h)%nat.
Proof.
  induction rest as [|c rest IH]; intros w s t k Hh Hb Hw Hk Hphi.
  - destruct k as [|k]; [cbn in Hk; lia|]. cbn [drain]. unfold nos_next, nos_it_at. cbn.
    eexists; split; [reflexivity|]. cbn. subst h. rewrite app_nil_r. lia.
  - inversion Hb as [|? ? Hc Hb']; subst.
    destruct (step w c s t Hc Hw) as (s' & t' & Hstep & Hw' & Htk).
    destruct (outputs_at (w ++ [c]) s' Hw') as (st & os & Hst & Hch & Hmap & _).
    assert (Hh' : w ++ c :: rest = (w ++ [c]) ++ rest) by (rewrite <- app_assoc; reflexivity).
    assert (Hlen0 : length (w ++ [c]) = S (length w)) by (rewrite app_length; cbn [length]; lia).
    assert (Hfirst : firstn (S (length w)) (w ++ c :: rest) = w ++ [c]).
    { rewrite Hh', <- Hlen0. rewrite firstn_app, Nat.sub_diag, firstn_all. cbn [firstn]. apply app_nil_r. }
    assert (Hlen : length (w ++ [c]) = S (length w)) by (rewrite app_length; cbn; lia).
    assert (Hphi' : (N.to_nat t' + length (lsuf (w ++ [c])) <= 2 * length (w ++ [c]))%nat) by lia.
    destruct k as [|k]; [lia|].
    cbn [length seq flat_map]. rewrite Hfirst, <- Hmap.
    destruct os as [|o os'].
    + (* no output at this position: the same call keeps scanning *)
      apply chain_nil in Hch.
      destruct (IH (w ++ [c]) s' t' (S k) Hh' Hb' Hw') as [it' [Hd Ht]]; [cbn [length] in Hk; lia|exact Hphi'|].
      exists it'. split; [|exact Ht]. cbn [map]. rewrite first1_nil. cbn [app]. rewrite Hlen in Hd. rewrite <- Hd.
      cbn [drain]. unfold nos_next at 1 3, nos_it_at. cbn [x_src s_rest s_pulled x_state x_ticks nos_scan].
      rewrite Hstep. cbn [bind]. rewrite Hst. cbn [bind]. rewrite Hch. rewrite N.eqb_refl. reflexivity.
    + apply chain_cons in Hch as (Hp & Hout & _).
      destruct (IH (w ++ [c]) s' t' k Hh' Hb' Hw') as [it' [Hd Ht]]; [cbn [length] in Hk; lia|exact Hphi'|].
      exists it'. split; [|exact Ht]. cbn [map]. rewrite first1_cons. cbn [app].
      cbn [drain]. unfold nos_next at 1, nos_it_at. cbn [x_src s_rest s_pulled x_state x_ticks nos_scan].
      rewrite Hstep. cbn [bind]. rewrite Hst. cbn [bind].
      rewrite (proj2 (N.eqb_neq _ _) Hp). unfold outat, bwc_outat in Hout. rewrite Hout. cbn [bind].
      rewrite Hlen in Hd. unfold nos_it_at in Hd. rewrite Hd. cbn [bind]. reflexivity.
Qed.

Lemma map_flat_map {X Y Z} (f : Y -> Z) (g : X -> list Y) l :
  map f (flat_map g l) = flat_map (fun x => map f (g x)) l.
Proof. induction l as [|x l IH]; [reflexivity|]. cbn [flat_map]. rewrite map_app, IH. reflexivity. Qed.

Lemma first1_map {X Y} (f : X -> Y) l : first1 (map f l) = map f (first1 l).
Proof. destruct l; reflexivity. Qed.

Lemma In_first1 {X} (x : X) l : In x (first1 l) -> In x l.
Proof. destruct l as [|y l]; cbn; [tauto|]. intros [H|[]]. left. exact H. Qed.

Lemma firstn_le_length {X} n (l : list X) : (length (firstn n l) <= n)%nat.
Proof. rewrite firstn_length. lia. Qed.

Lemma walk_root0 : walk ROOT (lsuf []) = Some ROOT.
Proof. reflexivity. Qed.

Theorem bw_nosuffix_correct_lemma h : bytes h ->
  bw_find_overlapping_no_suffix_iter V A h = Ok (spec_nosuffix V pvs h).
Proof.
  intros Hb. unfold bw_find_overlapping_no_suffix_iter. rewrite kind_std. unfold run_iter.
  destruct (nos_run h h [] ROOT 0 (S (S (length h))) eq_refl Hb walk_root0) as [it' [Hd _]]; [lia|cbn; lia|].
  unfold nos_init, src_of. unfold nos_it_at in Hd. cbn [length] in Hd.
  fold sget oget nslots. rewrite Hd. cbn [bind].
  rewrite triples_ok.
  - f_equal. unfold spec_nosuffix. rewrite map_flat_map. apply flat_map_ext_in'.
    intros e He. apply in_seq in He. rewrite first1_map, map_map.
    unfold ends_at. rewrite ends_at_from_sufpats by lia. rewrite sub_0.
    change (firstn 1 (map (tr e) (sufpats (firstn e h)))) with (first1 (map (tr e) (sufpats (firstn e h)))).
    rewrite first1_map. apply map_ext. intros lv. apply tr_m_mk.
  - apply Forall_forall. intros m Hm. apply in_flat_map in Hm as [e [He Hm]].
    apply In_first1 in Hm. apply in_map_iff in Hm as [lv [E Hl]]. subst m.
    apply sufpats_len in Hl. cbn [mk m_length m_end]. pose proof (firstn_le_length e h). lia.
Qed.

(* ---- FindOverlappingIterator ---------------------------------------------------------------- *)
Notation ovl_next' := (ovl_next V sget oget nslots).

Definition ovl_it_at (rest : list N) (pulled : nat) (s : N) (pos : nat) (q t : N) : ovl_it :=
  {| v_src := {| s_rest := rest; s_pulled := pulled |}; v_state := s; v_pos := pos; v_outpos := q;
     v_ticks := t |}.

Definition mko (e : nat) (o : output V) : mtch V :=
  {| m_length := o_length o; m_end := e; m_value := o_value o |}.

Lemma mko_mk e os : map (mko e) os = map (mk e) (map (fun o => (o_length o, o_value o)) os).
Proof. rewrite map_map. reflexivity. Qed.

(* emitting the rest of a pending chain, one output per call *)
Lemma ovl_pending : forall os fuel q rest pulled s pos t k ms it',
  chain fuel q = Ok os ->
  drain V ovl_next' k (ovl_it_at rest pulled s pos 0 t) = Ok (ms, it') ->
  drain V ovl_next' (length os + k) (ovl_it_at rest pulled s pos q t) = Ok (map (mko pos) os ++ ms, it').
Proof.
  induction os as [|o os IH]; intros fuel q rest pulled s pos t k ms it' Hch Hd.
  - apply chain_nil in Hch. subst q. exact Hd.
  - apply chain_cons in Hch as (Hq & Hout & fuel' & Hch').
    cbn [length Nat.add drain]. unfold ovl_next at 1, ovl_it_at. cbn [v_outpos].
    rewrite (proj2 (N.eqb_neq _ _) Hq). unfold outat, bwc_outat in Hout. rewrite Hout. cbn [bind].
    cbn [v_src v_state v_pos v_ticks].
    pose proof (IH fuel' (o_parent o) rest pulled s pos t k ms it' Hch' Hd) as H.
    unfold ovl_it_at in H. rewrite H. cbn [bind map app]. reflexivity.
Qed.

Definition ovl_expected (h : list N) (from n : nat) : list (mtch V) :=
  flat_map (fun e => map (mk e) (sufpats (firstn e h))) (seq from n).

Lemma ovl_run h : forall rest w s pos t,
  h = w ++ rest -> bytes rest -> walk ROOT (lsuf w) = Some s ->
  (N.to_nat t + length (lsuf w) <= 2 * length w)%nat ->
  exists it', (N.to_nat (v_ticks it') <= 2 * length h)%nat /\
   forall k, (length (ovl_expected h (S (length w)) (length rest)) < k)%nat ->
    drain V ovl_next' k (ovl_it_at rest (length w) s pos 0 t)
    = Ok (ovl_expected h (S (length w)) (length rest), it').
Proof.
  unfold ovl_expected.
  induction rest as [|c rest IH]; intros w s pos t Hh Hb Hw Hphi.
  - eexists. split; [|intros k Hk; destruct k as [|k]; [cbn in Hk; lia|]; cbn [drain];
    unfold ovl_next, ovl_it_at; cbn; reflexivity]. cbn. subst h. rewrite app_nil_r. lia.
  - inversion Hb as [|? ? Hc Hb']; subst.
    destruct (step w c s t Hc Hw) as (s' & t' & Hstep & Hw' & Htk).
    destruct (outputs_at (w ++ [c]) s' Hw') as (st & os & Hst & Hch & Hmap & _).
    assert (Hh' : w ++ c :: rest = (w ++ [c]) ++ rest) by (rewrite <- app_assoc; reflexivity).
    assert (Hlen : length (w ++ [c]) = S (length w)) by (rewrite app_length; cbn [length]; lia).
    assert (Hfirst : firstn (S (length w)) (w ++ c :: rest) = w ++ [c]).
    { rewrite Hh', <- Hlen. rewrite firstn_app, Nat.sub_diag, firstn_all. cbn [firstn]. apply app_nil_r. }
    assert (Hphi' : (N.to_nat t' + length (lsuf (w ++ [c])) <= 2 * length (w ++ [c]))%nat) by lia.
    cbn [length seq flat_map]. rewrite Hfirst, <- Hmap, <- mko_mk.
    destruct os as [|o os'].
    + apply chain_nil in Hch.
      destruct (IH (w ++ [c]) s' pos t' Hh' Hb' Hw' Hphi') as (it' & Ht & Hd).
      exists it'. split; [exact Ht|]. intros k Hk. cbn [map app] in *. destruct k as [|k]; [lia|].
      rewrite Hlen in Hd. rewrite <- (Hd (S k)) by lia.
      cbn [drain]. unfold ovl_next at 1 3, ovl_it_at. cbn [v_outpos v_src s_rest s_pulled v_state v_pos v_ticks].
      rewrite N.eqb_refl. cbn [ovl_scan]. rewrite Hstep. cbn [bind]. rewrite Hst. cbn [bind].
      rewrite Hch, N.eqb_refl. reflexivity.
    + pose proof Hch as Hch0. apply chain_cons in Hch as (Hp & Hout & fuel' & Hch').
      destruct (IH (w ++ [c]) s' (S (length w)) t' Hh' Hb' Hw' Hphi') as (it' & Ht & Hd).
      exists it'. split; [exact Ht|]. intros k Hk. rewrite app_length, map_length in Hk. cbn [length] in Hk.
      destruct k as [|k]; [lia|].
      cbn [drain]. unfold ovl_next at 1, ovl_it_at. cbn [v_outpos v_src s_rest s_pulled v_state v_pos v_ticks].
      rewrite N.eqb_refl. cbn [ovl_scan]. rewrite Hstep. cbn [bind]. rewrite Hst. cbn [bind].
      rewrite (proj2 (N.eqb_neq _ _) Hp). unfold outat, bwc_outat in Hout. rewrite Hout. cbn [bind].
      rewrite Hlen in Hd.
      replace k with (length os' + (k - length os'))%nat by lia.
      pose proof (ovl_pending os' fuel' (o_parent o) rest (S (length w)) s' (S (length w)) t'
                              (k - length os') _ it' Hch' (Hd (k - length os')%nat ltac:(lia))) as H.
      unfold ovl_it_at in H. rewrite H. cbn [bind map app]. reflexivity.
Qed.

Lemma sufpats_bound w : (length (sufpats w) <= nouts)%nat.
Proof.
  pose proof (lsuf_inT child w) as Hin. unfold Cert.inT in Hin.
  destruct (walk ROOT (lsuf w)) as [s|] eqn:E; [|discriminate].
  destruct (outputs_at w s E) as (st & os & _ & _ & Hmap & Hl).
  rewrite <- Hmap, map_length. exact Hl.
Qed.

Lemma flat_map_length_le {X Y} (f : X -> list Y) (b : nat) l :
  (forall x, In x l -> (length (f x) <= b)%nat) -> (length (flat_map f l) <= length l * b)%nat.
Proof.
  induction l as [|x l IH]; intros H; [cbn; lia|]. cbn [flat_map length]. rewrite app_length.
  pose proof (H x (or_introl eq_refl)). pose proof (IH (fun y Hy => H y (or_intror Hy))). lia.
Qed.

Theorem bw_overlapping_correct_lemma h : bytes h ->
  bw_find_overlapping_iter V A h = Ok (spec_overlapping V pvs h).
Proof.
  intros Hb. unfold bw_find_overlapping_iter. rewrite kind_std. unfold run_iter.
  destruct (ovl_run h h [] ROOT 0%nat 0 eq_refl Hb walk_root0) as [it' [_ Hd]]; [cbn; lia|].
  unfold ovl_init, src_of. unfold ovl_it_at in Hd. cbn [length] in Hd.
  fold sget oget nslots. rewrite Hd.
  - cbn [bind]. rewrite triples_ok.
    + f_equal. unfold spec_overlapping, ovl_expected. rewrite map_flat_map. apply flat_map_ext_in'.
      intros e He. apply in_seq in He. rewrite map_map.
      unfold ends_at. rewrite ends_at_from_sufpats by lia. rewrite sub_0.
      apply map_ext. intros lv. apply tr_m_mk.
    + apply Forall_forall. intros m Hm. apply in_flat_map in Hm as [e [He Hm]].
      apply in_map_iff in Hm as [lv [E Hl]]. subst m.
      apply sufpats_len in Hl. cbn [mk m_length m_end]. pose proof (firstn_le_length e h). lia.
  - unfold ovl_expected.
    pose proof (flat_map_length_le (fun e => map (mk e) (sufpats (firstn e h))) nouts (seq 1 (length h))) as Hle.
    rewrite seq_length in Hle. fold nouts.
    assert (forall x, In x (seq 1 (length h)) -> (length (map (mk x) (sufpats (firstn x h))) <= nouts)%nat) as Hx.
    { intros x _. rewrite map_length. apply sufpats_bound. }
    specialize (Hle Hx). nia.
Qed.

(* ---- FindIterator (non-overlapping, restarts at the root after every match) ---------------- *)
Notation find_next' := (find_next V sget oget nslots).

Lemma skipn_app_exact {X} (a b : list X) : skipn (length a) (a ++ b) = b.
Proof. rewrite skipn_app, skipn_all, Nat.sub_diag. reflexivity. Qed.

Lemma firstn_app_exact {X} (a b : list X) : firstn (length a) (a ++ b) = a.
Proof. rewrite firstn_app, Nat.sub_diag, firstn_all. cbn [firstn]. apply app_nil_r. Qed.

Lemma find_scan_spec h w0 : forall rest w s t,
  h = w0 ++ w ++ rest -> bytes rest -> walk ROOT (lsuf w) = Some s ->
  (N.to_nat t + length (lsuf w) <= 2 * (length w0 + length w))%nat ->
  exists r it', find_scan V sget oget nslots rest (length w0 + length w) s t = Ok (r, it') /\
    match first_end V pvs h (length w0) (seq (S (length w0 + length w)) (length rest)) with
    | None => r = None /\ (N.to_nat (f_ticks it') <= 2 * length h)%nat
    | Some x => exists m, r = Some m /\ tr_m m = x /\ (N.to_nat (m_length m) <= m_end m)%nat
                          /\ (length w0 + length w < m_end m <= length h)%nat
                          /\ s_rest (f_src it') = skipn (m_end m) h /\ s_pulled (f_src it') = m_end m
                          /\ (N.to_nat (f_ticks it') <= 2 * m_end m)%nat
    end.
Proof.
  induction rest as [|c rest IH]; intros w s t Hh Hb Hw Hphi.
  - cbn [find_scan length seq first_end]. eexists. eexists. split; [reflexivity|]. split; [reflexivity|].
    cbn. subst h. rewrite !app_length. cbn [length]. lia.
  - inversion Hb as [|? ? Hc Hb']; subst.
    destruct (step w c s t Hc Hw) as (s' & t' & Hstep & Hw' & Htk).
    destruct (outputs_at (w ++ [c]) s' Hw') as (st & os & Hst & Hch & Hmap & _).
    set (h := w0 ++ w ++ c :: rest) in *.
    assert (Hh' : h = w0 ++ (w ++ [c]) ++ rest) by (unfold h; rewrite <- !app_assoc; reflexivity).
    assert (Hlen : length (w ++ [c]) = S (length w)) by (rewrite app_length; cbn [length]; lia).
    assert (Hhl : length h = (length w0 + length w + S (length rest))%nat).
    { unfold h. rewrite !app_length. cbn [length]. lia. }
    assert (Hsub : sub h (length w0) (S (length w0 + length w)) = w ++ [c]).
    { unfold sub. rewrite Hh' at 1. rewrite skipn_app_exact.
      replace (S (length w0 + length w) - length w0)%nat with (length (w ++ [c])) by lia.
      apply firstn_app_exact. }
    assert (Hphi' : (N.to_nat t' + length (lsuf (w ++ [c])) <= 2 * (length w0 + length (w ++ [c])))%nat) by lia.
    cbn [length seq first_end find_scan].
    rewrite ends_at_from_sufpats by lia. rewrite Hsub, <- Hmap.
    rewrite Hstep. cbn [bind]. rewrite Hst. cbn [bind].
    destruct os as [|o os'].
    + apply chain_nil in Hch. rewrite Hch, N.eqb_refl. cbn [map].
      destruct (IH (w ++ [c]) s' t' Hh' Hb' Hw' Hphi') as (r & it' & Hr & Hm).
      rewrite Hlen in Hr, Hm. replace (length w0 + S (length w))%nat with (S (length w0 + length w)) in Hr, Hm by lia.
      exists r, it'. split; [exact Hr|].
      destruct (first_end V pvs h (length w0) (seq (S (S (length w0 + length w))) (length rest))) as [x|]; [|exact Hm].
      destruct Hm as (m & H1 & H2 & H3 & H4 & H5 & H6 & H7). exists m.
      split; [exact H1|]. split; [exact H2|]. split; [exact H3|]. split; [lia|]. split; [assumption|]. split; assumption.
    + apply chain_cons in Hch as (Hp & Hout & _).
      rewrite (proj2 (N.eqb_neq _ _) Hp). unfold outat, bwc_outat in Hout. rewrite Hout. cbn [bind map].
      eexists. eexists. split; [reflexivity|]. eexists. split; [reflexivity|].
      cbn [tr_m m_end m_length m_value f_src s_rest s_pulled f_ticks]. repeat split; try lia.
      * assert (In (o_length o, o_value o) (sufpats (w ++ [c]))) as Hin by (rewrite <- Hmap; left; reflexivity).
        apply sufpats_len in Hin. cbn [fst] in Hin. lia.
      * replace (S (length w0 + length w)) with (length (w0 ++ w ++ [c]))
          by (rewrite !app_length; cbn [length]; lia).
        unfold h. replace (w0 ++ w ++ c :: rest) with ((w0 ++ w ++ [c]) ++ rest) by (rewrite <- !app_assoc; reflexivity).
        symmetry. apply skipn_app_exact.
Qed.

Definition find_it_at (rest : list N) (pulled : nat) (t : N) : find_it :=
  {| f_src := {| s_rest := rest; s_pulled := pulled |}; f_ticks := t |}.

Lemma find_run h : bytes h -> forall n from k t,
  (from <= length h)%nat -> (length h - from < n)%nat -> (n <= k)%nat ->
  (N.to_nat t <= 2 * from)%nat ->
  exists ms it', drain V find_next' k (find_it_at (skipn from h) from t) = Ok (ms, it')
                 /\ map tr_m ms = spec_find_from V n pvs h from
                 /\ Forall (fun m => (N.to_nat (m_length m) <= m_end m)%nat) ms
                 /\ (N.to_nat (f_ticks it') <= 2 * length h)%nat.
Proof.
  intros Hb. induction n as [|n IH]; intros from k t Hf Hn Hk Hphi; [lia|].
  destruct k as [|k]; [lia|].
  assert (Hh : h = firstn from h ++ [] ++ skipn from h) by (cbn [app]; symmetry; apply firstn_skipn).
  assert (Hl0 : length (firstn from h) = from) by (rewrite firstn_length; lia).
  assert (Hbs : bytes (skipn from h)).
  { unfold bytes in *. rewrite Forall_forall in *. intros x Hx. apply Hb.
    rewrite <- (firstn_skipn from h). apply in_or_app. right. exact Hx. }
  destruct (find_scan_spec h (firstn from h) (skipn from h) [] ROOT t Hh Hbs walk_root0) as (r & it1 & Hr & Hm).
  { rewrite Hl0. cbn. lia. }
  rewrite Hl0 in Hr, Hm. cbn [length] in Hr, Hm. rewrite Nat.add_0_r in Hr, Hm. rewrite skipn_length in Hm.
  cbn [drain spec_find_from]. unfold find_next at 1, find_it_at. cbn [f_src s_rest s_pulled f_ticks].
  rewrite Hr. cbn [bind].
  destruct (first_end V pvs h from (seq (S from) (length h - from))) as [[[st e] v]|].
  - destruct Hm as (m & H1 & H2 & H3 & H4 & H5 & H6 & H7). subst r.
    destruct (IH (m_end m) k (f_ticks it1)) as (ms & it' & Hd & Hs & Hall & Ht); try lia.
    destruct it1 as [[rest1 p1] t1]. cbn [f_src s_rest s_pulled f_ticks] in *. subst rest1 p1.
    unfold find_it_at in Hd. rewrite Hd. cbn [bind].
    exists (m :: ms), it'. split; [reflexivity|]. split; [|split; [constructor; assumption|exact Ht]].
    cbn [map]. rewrite H2, Hs. unfold tr_m in H2. inversion H2; subst. reflexivity.
  - destruct Hm as [-> Ht]. exists [], it1. repeat split; [constructor|exact Ht].
Qed.

Theorem bw_find_correct_lemma h : bytes h ->
  bw_find_iter V A h = Ok (spec_find V pvs h).
Proof.
  intros Hb. unfold bw_find_iter. rewrite kind_std. unfold run_iter.
  destruct (find_run h Hb (S (length h)) 0%nat (S (S (length h))) 0) as (ms & it' & Hd & Hs & Hall & _); try lia.
  unfold find_init, src_of. unfold find_it_at in Hd. cbn [skipn] in Hd.
  fold sget oget nslots. rewrite Hd. cbn [bind]. rewrite triples_ok by exact Hall.
  rewrite Hs. reflexivity.
Qed.

(* ---- C13: the standard scans take at most 2n transition-loop iterations on n bytes --------- *)
Theorem bw_nosuffix_linear_lemma h : bytes h ->
  exists ms it', drain V nos_next' (S (S (length h))) (nos_init h) = Ok (ms, it')
                 /\ (N.to_nat (x_ticks it') <= 2 * length h)%nat.
Proof.
  intros Hb. destruct (nos_run h h [] ROOT 0 (S (S (length h))) eq_refl Hb walk_root0) as [it' [Hd Ht]]; [lia|cbn; lia|].
  unfold nos_it_at in Hd. cbn [length] in Hd. eauto.
Qed.

Theorem bw_overlapping_linear_lemma h : bytes h ->
  exists ms it', drain V ovl_next' (S (S (length h) * S (length (bw_outputs A)))) (ovl_init h) = Ok (ms, it')
                 /\ (N.to_nat (v_ticks it') <= 2 * length h)%nat.
Proof.
  intros Hb. destruct (ovl_run h h [] ROOT 0%nat 0 eq_refl Hb walk_root0) as [it' [Ht Hd]]; [cbn; lia|].
  unfold ovl_it_at in Hd. cbn [length] in Hd. eexists. exists it'. split; [|exact Ht]. apply Hd.
  unfold ovl_expected.
  pose proof (flat_map_length_le (fun e => map (mk e) (sufpats (firstn e h))) nouts (seq 1 (length h))) as Hle.
  rewrite seq_length in Hle. fold nouts.
  assert (forall x, In x (seq 1 (length h)) -> (length (map (mk x) (sufpats (firstn x h))) <= nouts)%nat) as Hx.
  { intros x _. rewrite map_length. apply sufpats_bound. }
  specialize (Hle Hx). nia.
Qed.

Theorem bw_find_linear_lemma h : bytes h ->
  exists ms it', drain V find_next' (S (S (length h))) (find_init h) = Ok (ms, it')
                 /\ (N.to_nat (f_ticks it') <= 2 * length h)%nat.
Proof.
  intros Hb. destruct (find_run h Hb (S (length h)) 0%nat (S (S (length h))) 0) as (ms & it' & Hd & _ & _ & Ht); try lia.
  unfold find_it_at in Hd. cbn [skipn] in Hd. eauto.
Qed.

End BwCert.
