(* Utf8Props.v — the UTF-8 facts the character-wise automaton relies on.
   (U2) std's decoder (str::chars, modelled by [decode_one]/[chars_of]) inverts the encoder on scalar
        values: the bytes of a &str are what [encode_utf8] produces from its characters;
   (U1) the crate's hand-written end-offset decoder [dec_next] (src/charwise/iter.rs) decodes an
        encoded character exactly: it never reaches an unwrap_unchecked on None, never builds a
        non-scalar value, and reports the byte offset after the character. *)
From DV Require Import Model.Base Model.Utf8.
From Coq Require Import ZifyN ZifyNat ZifyBool.
Ltac Zify.zify_post_hook ::= Z.div_mod_to_equations.
Local Open Scope N_scope.

Definition scalar (c : N) : Prop := is_scalar c = true.

Lemma scalar_range c : scalar c -> c < 55296 \/ (57343 < c /\ c <= 1114111).
Proof. unfold scalar, is_scalar. lia. Qed.

(* ---- (U2) decode_one inverts encode_char -------------------------------------------------- *)
Lemma decode_encode_char c rest : scalar c -> decode_one (encode_char c ++ rest) = Some (c, rest).
Proof.
  intros Hs. apply scalar_range in Hs. unfold encode_char.
  destruct (c <? 128) eqn:E1.
  { cbn [app decode_one]. rewrite E1. reflexivity. }
  destruct (c <? 2048) eqn:E2.
  { cbn [app decode_one].
    replace (192 + c / 64 <? 128) with false by lia.
    replace (192 + c / 64 <? 194) with false by lia.
    replace (192 + c / 64 <? 224) with true by lia.
    unfold is_cont. replace ((128 <=? 128 + c mod 64) && (128 + c mod 64 <? 192)) with true by lia.
    f_equal. f_equal. lia. }
  destruct (c <? 65536) eqn:E3.
  { cbn [app decode_one].
    replace (224 + c / 4096 <? 128) with false by lia.
    replace (224 + c / 4096 <? 194) with false by lia.
    replace (224 + c / 4096 <? 224) with false by lia.
    replace (224 + c / 4096 <? 240) with true by lia.
    unfold is_cont.
    replace ((128 <=? 128 + c / 64 mod 64) && (128 + c / 64 mod 64 <? 192)) with true by lia.
    replace ((128 <=? 128 + c mod 64) && (128 + c mod 64 <? 192)) with true by lia.
    assert (Hc : (224 + c / 4096 - 224) * 4096 + (128 + c / 64 mod 64 - 128) * 64 + (128 + c mod 64 - 128) = c) by lia.
    rewrite Hc. replace (2048 <=? c) with true by lia.
    replace (is_scalar c) with true by (unfold is_scalar; lia). reflexivity. }
  cbn [app decode_one].
  replace (240 + c / 262144 <? 128) with false by lia.
  replace (240 + c / 262144 <? 194) with false by lia.
  replace (240 + c / 262144 <? 224) with false by lia.
  replace (240 + c / 262144 <? 240) with false by lia.
  replace (240 + c / 262144 <? 245) with true by lia.
  unfold is_cont.
  replace ((128 <=? 128 + c / 4096 mod 64) && (128 + c / 4096 mod 64 <? 192)) with true by lia.
  replace ((128 <=? 128 + c / 64 mod 64) && (128 + c / 64 mod 64 <? 192)) with true by lia.
  replace ((128 <=? 128 + c mod 64) && (128 + c mod 64 <? 192)) with true by lia.
  assert (Hc : (240 + c / 262144 - 240) * 262144 + (128 + c / 4096 mod 64 - 128) * 4096
               + (128 + c / 64 mod 64 - 128) * 64 + (128 + c mod 64 - 128) = c) by lia.
  rewrite Hc. replace (65536 <=? c) with true by lia. replace (c <=? 1114111) with true by lia. reflexivity.
Qed.

Lemma encode_char_length c : length (encode_char c) = N.to_nat (len_utf8 c).
Proof.
  unfold encode_char, len_utf8. destruct (c <? 128); [reflexivity|]. destruct (c <? 2048); [reflexivity|].
  destruct (c <? 65536); reflexivity.
Qed.

Lemma encode_char_nonempty c : encode_char c <> [].
Proof.
  unfold encode_char. destruct (c <? 128); [discriminate|]. destruct (c <? 2048); [discriminate|].
  destruct (c <? 65536); discriminate.
Qed.

Lemma decode_utf8_encode cs : Forall scalar cs -> forall fuel, (length cs <= fuel)%nat ->
  decode_utf8 fuel (encode_utf8 cs) = Some cs.
Proof.
  induction cs as [|c cs IH]; intros Hs fuel Hf.
  - destruct fuel; reflexivity.
  - inversion Hs as [|? ? Hc Hcs]; subst. cbn [encode_utf8 flat_map]. fold (encode_utf8 cs).
    pose proof (encode_char_nonempty c) as Hne.
    destruct fuel as [|fuel]; [cbn [length] in Hf; lia|].
    destruct (encode_char c ++ encode_utf8 cs) as [|b0 bs] eqn:Eb.
    { apply app_eq_nil in Eb as [Eb _]. congruence. }
    cbn [decode_utf8]. rewrite <- Eb. rewrite (decode_encode_char c _ Hc).
    rewrite IH; [reflexivity|exact Hcs|cbn [length] in Hf; lia].
Qed.

Lemma encode_utf8_length_ge cs : (length cs <= length (encode_utf8 cs))%nat.
Proof.
  induction cs as [|c cs IH]; [cbn; lia|]. cbn [encode_utf8 flat_map length]. fold (encode_utf8 cs).
  rewrite app_length. pose proof (encode_char_nonempty c). destruct (encode_char c); [congruence|cbn [length]; lia].
Qed.

(* str::chars on the bytes of a string gives its characters *)
Theorem chars_of_encode cs : Forall scalar cs -> chars_of (encode_utf8 cs) = Some cs.
Proof. intros H. unfold chars_of. apply decode_utf8_encode; [exact H|apply encode_utf8_length_ge]. Qed.

Lemma encode_utf8_app a b : encode_utf8 (a ++ b) = encode_utf8 a ++ encode_utf8 b.
Proof. unfold encode_utf8. apply flat_map_app. Qed.

(* ---- (U1) the hand-written decoder on an encoded character --------------------------------- *)
(* disjoint bit fields: OR of a shifted value and a smaller one is their sum *)
Lemma land_mul_pow2_small a b k : b < 2 ^ k -> N.land (a * 2 ^ k) b = 0.
Proof.
  intros Hb. apply N.bits_inj_0. intros n. rewrite N.land_spec.
  destruct (N.lt_ge_cases n k) as [Hn|Hn].
  - rewrite N.mul_pow2_bits_low by exact Hn. reflexivity.
  - destruct (N.eq_dec b 0) as [->|Hb0]; [rewrite N.bits_0; apply andb_false_r|].
    rewrite (N.bits_above_log2 b n); [apply andb_false_r|].
    apply N.log2_lt_pow2; [lia|]. eapply N.lt_le_trans; [exact Hb|]. apply N.pow_le_mono_r; lia.
Qed.

Lemma lor_shiftl_add a b k : b < 2 ^ k -> N.lor (N.shiftl a k) b = a * 2 ^ k + b.
Proof.
  intros Hb. rewrite N.shiftl_mul_pow2. rewrite <- N.lxor_lor by (apply land_mul_pow2_small; exact Hb).
  symmetry. apply N.add_nocarry_lxor. apply land_mul_pow2_small. exact Hb.
Qed.

Lemma land_ones_mod a k : N.land a (N.ones k) = a mod 2 ^ k.
Proof. apply N.land_ones. Qed.

Lemma land31 x : N.land x 31 = x mod 32. Proof. change 31 with (N.ones 5). apply N.land_ones. Qed.
Lemma land15 x : N.land x 15 = x mod 16. Proof. change 15 with (N.ones 4). apply N.land_ones. Qed.
Lemma land7 x : N.land x 7 = x mod 8. Proof. change 7 with (N.ones 3). apply N.land_ones. Qed.
Lemma land63 x : N.land x 63 = x mod 64. Proof. change 63 with (N.ones 6). apply N.land_ones. Qed.

Theorem dec_next_encode_char c rest pulled : scalar c ->
  dec_next (encode_char c ++ rest) pulled
  = Ok (Some ((pulled + length (encode_char c))%nat, c, rest, (pulled + length (encode_char c))%nat)).
Proof.
  intros Hs. pose proof Hs as Hsc. apply scalar_range in Hs. unfold encode_char.
  destruct (c <? 128) eqn:E1.
  { cbn [app dec_next length]. rewrite E1. repeat f_equal; lia. }
  destruct (c <? 2048) eqn:E2.
  { cbn [app dec_next length].
    replace (192 + c / 64 <? 128) with false by lia.
    replace (192 + c / 64 <? 224) with true by lia.
    rewrite land31, land63, (lor_shiftl_add _ _ 6) by (change (2 ^ 6) with 64; apply N.mod_lt; lia).
    assert (Hc : (192 + c / 64) mod 32 * 2 ^ 6 + (128 + c mod 64) mod 64 = c) by (change (2 ^ 6) with 64; lia).
    rewrite Hc. rewrite Hsc. repeat f_equal; lia. }
  destruct (c <? 65536) eqn:E3.
  { cbn [app dec_next length].
    replace (224 + c / 4096 <? 128) with false by lia.
    replace (224 + c / 4096 <? 224) with false by lia.
    replace (224 + c / 4096 <? 240) with true by lia.
    rewrite land15, !land63.
    rewrite (lor_shiftl_add _ _ 6) by (change (2 ^ 6) with 64; apply N.mod_lt; lia).
    rewrite (lor_shiftl_add _ _ 12) by (change (2 ^ 12) with 4096; change (2 ^ 6) with 64; lia).
    assert (Hc : (224 + c / 4096) mod 16 * 2 ^ 12 + ((128 + c / 64 mod 64) mod 64 * 2 ^ 6 + (128 + c mod 64) mod 64) = c)
      by (change (2 ^ 6) with 64; change (2 ^ 12) with 4096; lia).
    rewrite Hc. rewrite Hsc. repeat f_equal; lia. }
  cbn [app dec_next length].
  replace (240 + c / 262144 <? 128) with false by lia.
  replace (240 + c / 262144 <? 224) with false by lia.
  replace (240 + c / 262144 <? 240) with false by lia.
  rewrite land7, !land63.
  rewrite (lor_shiftl_add _ _ 6) by (change (2 ^ 6) with 64; apply N.mod_lt; lia).
  rewrite (lor_shiftl_add _ _ 6) by (change (2 ^ 6) with 64; apply N.mod_lt; lia).
  rewrite (lor_shiftl_add _ _ 18) by (change (2 ^ 18) with 262144; change (2 ^ 6) with 64; lia).
  assert (Hc : (240 + c / 262144) mod 8 * 2 ^ 18
               + (((128 + c / 4096 mod 64) mod 64 * 2 ^ 6 + (128 + c / 64 mod 64) mod 64) * 2 ^ 6 + (128 + c mod 64) mod 64) = c)
    by (change (2 ^ 6) with 64; change (2 ^ 18) with 262144; lia).
  rewrite Hc. rewrite Hsc. repeat f_equal; lia.
Qed.

(* ---- (U3) UTF-8 is self-synchronising: an encoded pattern occurs in an encoded text only at
   character boundaries, and there it is an occurrence of the pattern's characters ------------- *)
From DV Require Import Model.Spec.

Definition boff (w : list N) : nat := length (encode_utf8 w).

Definition lead_byte (b : N) : Prop := b < 128 \/ 192 <= b.

Lemma encode_char_shape c : scalar c ->
  exists b0 tl, encode_char c = b0 :: tl /\ lead_byte b0 /\ Forall (fun b => is_cont b = true) tl.
Proof.
  intros Hs. apply scalar_range in Hs. unfold encode_char, lead_byte, is_cont.
  destruct (c <? 128) eqn:E1; [exists c, []; repeat split; [lia|constructor]|].
  destruct (c <? 2048) eqn:E2.
  { eexists. eexists. split; [reflexivity|]. split; [lia|]. repeat constructor; lia. }
  destruct (c <? 65536) eqn:E3.
  { eexists. eexists. split; [reflexivity|]. split; [lia|]. repeat constructor; lia. }
  eexists. eexists. split; [reflexivity|]. split; [lia|]. repeat constructor; lia.
Qed.

Lemma is_prefix_app_same (a x y : list N) : is_prefix (a ++ x) (a ++ y) = is_prefix x y.
Proof. induction a as [|b a IH]; cbn [app is_prefix]; [reflexivity|]. rewrite N.eqb_refl. exact IH. Qed.

Lemma is_prefix_nil_r (p : list N) : is_prefix p [] = true -> p = [].
Proof. destruct p; [reflexivity|discriminate]. Qed.

Lemma is_prefix_ex p t : is_prefix p t = true <-> exists r, t = p ++ r.
Proof.
  revert t; induction p as [|x p IH]; intros t; cbn [is_prefix].
  - split; [intros _; exists t; reflexivity|reflexivity].
  - destruct t as [|y t]; [split; [discriminate|intros [r H]; discriminate]|].
    rewrite andb_true_iff, IH, N.eqb_eq. split.
    + intros [-> [r ->]]. exists r. reflexivity.
    + intros [r H]. cbn [app] in H. inversion H; subst. split; [reflexivity|eauto].
Qed.

(* the encoding is a prefix code: an encoded string that is a prefix of an encoded text is the
   encoding of a prefix of its characters *)
Lemma encode_prefix_chars : forall p cs, Forall scalar p -> Forall scalar cs ->
  is_prefix (encode_utf8 p) (encode_utf8 cs) = true -> is_prefix p cs = true.
Proof.
  induction p as [|q p IH]; intros cs Hp Hcs H; [reflexivity|].
  inversion Hp as [|? ? Hq Hp']; subst.
  apply is_prefix_ex in H as [r Hr]. cbn [encode_utf8 flat_map] in Hr. fold (encode_utf8 p) in Hr.
  destruct cs as [|c cs].
  - cbn in Hr. symmetry in Hr. apply app_eq_nil in Hr as [Hr _]. apply app_eq_nil in Hr as [Hr _].
    exfalso. exact (encode_char_nonempty q Hr).
  - inversion Hcs as [|? ? Hc Hcs']; subst. cbn [encode_utf8 flat_map] in Hr. fold (encode_utf8 cs) in Hr.
    pose proof (decode_encode_char c (encode_utf8 cs) Hc) as D1.
    rewrite Hr, <- !app_assoc in D1. rewrite (decode_encode_char q _ Hq) in D1. inversion D1; subst.
    cbn [is_prefix]. rewrite N.eqb_refl. cbn [andb]. apply IH; try assumption.
    apply is_prefix_ex. exists r. symmetry. assumption.
Qed.

Lemma chars_prefix_encode p cs : is_prefix p cs = true -> is_prefix (encode_utf8 p) (encode_utf8 cs) = true.
Proof.
  intros H. apply is_prefix_ex in H as [r ->]. rewrite encode_utf8_app. apply is_prefix_ex. eauto.
Qed.

Lemma is_prefix_cont_start p b t : p <> [] -> Forall scalar p -> is_cont b = true ->
  is_prefix (encode_utf8 p) (b :: t) = false.
Proof.
  intros Hne Hp Hb. destruct p as [|q p]; [congruence|]. inversion Hp as [|? ? Hq _]; subst.
  destruct (encode_char_shape q Hq) as (b0 & tl & E & Hl & _).
  cbn [encode_utf8 flat_map]. rewrite E. cbn [app is_prefix].
  destruct (b0 =? b) eqn:Eb; [|reflexivity]. apply N.eqb_eq in Eb. subst b0.
  unfold lead_byte in Hl. unfold is_cont in Hb. lia.
Qed.

Lemma skipn_cont_start (tl rest : list N) s : Forall (fun b => is_cont b = true) tl -> (s < length tl)%nat ->
  exists b t, skipn s (tl ++ rest) = b :: t /\ is_cont b = true.
Proof.
  revert s; induction tl as [|x tl IH]; intros s Ht Hs; [cbn in Hs; lia|].
  inversion Ht as [|? ? Hx Ht']; subst. destruct s as [|s].
  - cbn. eauto.
  - cbn [app skipn]. apply IH; [exact Ht'|cbn [length] in Hs; lia].
Qed.

Theorem utf8_occ_sync : forall cs p s, Forall scalar cs -> Forall scalar p -> p <> [] ->
  is_prefix (encode_utf8 p) (skipn s (encode_utf8 cs)) = true ->
  exists i, (i <= length cs)%nat /\ s = boff (firstn i cs) /\ is_prefix p (skipn i cs) = true.
Proof.
  induction cs as [|c cs IH]; intros p s Hcs Hp Hne H.
  - cbn [encode_utf8 flat_map] in H. rewrite skipn_nil in H. apply is_prefix_nil_r in H.
    destruct p as [|q p]; [congruence|]. cbn [encode_utf8 flat_map] in H. apply app_eq_nil in H as [H _].
    exfalso. exact (encode_char_nonempty q H).
  - inversion Hcs as [|? ? Hc Hcs']; subst.
    destruct (encode_char_shape c Hc) as (b0 & tl & E & Hl & Htl).
    cbn [encode_utf8 flat_map] in H. fold (encode_utf8 cs) in H.
    destruct s as [|s].
    + (* at the start of the text *)
      cbn [skipn] in H. exists 0%nat. split; [lia|]. split; [reflexivity|]. cbn [skipn].
      apply (encode_prefix_chars p (c :: cs) Hp Hcs). exact H.
    + destruct (le_lt_dec (length (encode_char c)) (S s)) as [Hge|Hlt].
      * (* beyond the first character *)
        rewrite skipn_app, skipn_all2 in H by exact Hge. cbn [app] in H.
        destruct (IH p (S s - length (encode_char c))%nat Hcs' Hp Hne H) as (i & Hi & Hs & Hpre).
        exists (S i). split; [cbn [length]; lia|]. split; [|exact Hpre].
        cbn [firstn]. unfold boff in *. cbn [encode_utf8 flat_map]. fold (encode_utf8 (firstn i cs)).
        rewrite app_length. lia.
      * (* inside the first character: the text continues with a continuation byte *)
        exfalso. rewrite E in H, Hlt. cbn [length] in Hlt. cbn [app skipn] in H.
        destruct (skipn_cont_start tl (encode_utf8 cs) s Htl ltac:(lia)) as (b & t & Hsk & Hb).
        rewrite Hsk in H. rewrite (is_prefix_cont_start p b t Hne Hp Hb) in H. discriminate.
Qed.

(* conversely every character-level occurrence is a byte-level occurrence at its boundary *)
Theorem utf8_occ_sync_conv cs p i : (i <= length cs)%nat -> is_prefix p (skipn i cs) = true ->
  is_prefix (encode_utf8 p) (skipn (boff (firstn i cs)) (encode_utf8 cs)) = true.
Proof.
  intros Hi H. rewrite <- (firstn_skipn i cs) at 2. rewrite encode_utf8_app. unfold boff.
  rewrite skipn_app, skipn_all, Nat.sub_diag. cbn [app skipn]. apply chars_prefix_encode. exact H.
Qed.
