(* Iso.v — C14: construction does not depend on how the NFA states are numbered.  Two NFAs that
   are isomorphic through a renaming phi of the state ids (same labels on corresponding edges,
   corresponding fail links, equal outputs) stay isomorphic through finish_nfa (fail links by
   breadth-first search, output chains), step by step, with the same outcome (Ok / the same error
   / the same panic). *)
From DV Require Import Model.Base Model.Nfa.
From Coq Require Import ZifyN ZifyNat ZifyBool.
Local Open Scope N_scope.

Definition rmap {X Y} (f : X -> Y) (r : res X) : res Y :=
  match r with Ok x => Ok (f x) | Err e => Err e | Panic t => Panic t | UB t => UB t | OutOfFuel => OutOfFuel end.

Definition rres {X Y} (R : X -> Y -> Prop) (r : res X) (r' : res Y) : Prop :=
  match r, r' with
  | Ok x, Ok y => R x y
  | Err e, Err e' => e = e'
  | Panic t, Panic t' => t = t'
  | UB t, UB t' => t = t'
  | OutOfFuel, OutOfFuel => True
  | _, _ => False
  end.

Lemma rres_bind {X Y X2 Y2} (R : X -> Y -> Prop) (S : X2 -> Y2 -> Prop) r r' (f : X -> res X2) (g : Y -> res Y2) :
  rres R r r' -> (forall x y, R x y -> rres S (f x) (g y)) -> rres S (bind r f) (bind r' g).
Proof.
  destruct r, r'; cbn [rres bind]; intros H Hf; try contradiction; try exact H. apply Hf. exact H.
Qed.

Lemma rres_rmap {X Y} (f : X -> Y) (r : res X) : rres (fun x y => y = f x) r (rmap f r).
Proof. destruct r; cbn; auto. Qed.

Lemma rres_eq_eq {X} (r r' : res X) : rres eq r r' -> r = r'.
Proof. destruct r, r'; cbn; intros H; try contradiction; congruence. Qed.

Section Sim.
Variable V : Type.
Variables phi psi : N -> N.
Hypothesis phi_psi : forall x, phi (psi x) = x.
Hypothesis psi_phi : forall x, psi (phi x) = x.
Hypothesis phi_root : phi ROOT = ROOT.
Hypothesis phi_dead : phi DEAD = DEAD.

Lemma phi_inj a b : phi a = phi b -> a = b.
Proof. intros H. rewrite <- (psi_phi a), <- (psi_phi b), H. reflexivity. Qed.
Lemma phi_eqb a b : (phi a =? phi b) = (a =? b).
Proof.
  destruct (a =? b) eqn:E; [apply N.eqb_eq in E; subst; apply N.eqb_refl|].
  apply N.eqb_neq. intros H. apply phi_inj in H. apply N.eqb_neq in E. contradiction.
Qed.
Lemma phi_eqb_root a : (phi a =? ROOT) = (a =? ROOT).
Proof. rewrite <- phi_root at 1. apply phi_eqb. Qed.
Lemma phi_eqb_dead a : (phi a =? DEAD) = (a =? DEAD).
Proof. rewrite <- phi_dead at 1. apply phi_eqb. Qed.

Definition redges (es : list (N * N)) : list (N * N) := map (fun e => (fst e, phi (snd e))) es.
Definition rst (st : nstate V) : nstate V :=
  {| n_edges := redges (n_edges st); n_fail := phi (n_fail st); n_output := n_output st; n_outpos := n_outpos st |}.

Definition iso (n n' : nfa V) : Prop :=
  n_nstates n' = n_nstates n /\ n_kind n' = n_kind n /\ n_outputs n' = n_outputs n /\ n_len n' = n_len n
  /\ (forall i, (phi i <? n_nstates n) = (i <? n_nstates n))
  /\ forall i, i < n_nstates n -> nget (phi i) (n_states n') = option_map rst (nget i (n_states n)).

Lemma edge_get_iso es c : edge_get (redges es) c = option_map phi (edge_get es c).
Proof.
  induction es as [|[k v] r IH]; cbn [redges map edge_get fst snd]; [reflexivity|]. destruct (k =? c); [reflexivity|exact IH].
Qed.

Lemma nfa_get_iso n n' i : iso n n' -> nfa_get V n' (phi i) = rmap rst (nfa_get V n i).
Proof.
  intros (Hn & _ & _ & _ & Hr & Hs). unfold nfa_get. rewrite Hn, Hr. destruct (i <? n_nstates n) eqn:E; [|reflexivity].
  apply N.ltb_lt in E. rewrite (Hs i E). destruct (nget i (n_states n)); reflexivity.
Qed.

Lemma child_id_iso n n' s c : iso n n' -> child_id V n' (phi s) c = rmap (option_map phi) (child_id V n s c).
Proof.
  intros H. unfold child_id. rewrite (nfa_get_iso n n' s H). destruct (nfa_get V n s); cbn [rmap bind]; try reflexivity.
  cbn [rst n_edges]. rewrite edge_get_iso. reflexivity.
Qed.

Lemma nfa_set_iso n n' i st : iso n n' -> iso (nfa_set V n i st) (nfa_set V n' (phi i) (rst st)).
Proof.
  intros (Hn & Hk & Ho & Hl & Hr & Hs). unfold iso, nfa_set. cbn [n_nstates n_kind n_outputs n_len n_states].
  repeat (split; [assumption|]). intros j Hj. destruct (N.eq_dec j i) as [->|Hne].
  - rewrite !ngss. reflexivity.
  - rewrite !ngso; [apply Hs; exact Hj|exact Hne|]. intros E. apply phi_inj in E. contradiction.
Qed.

Lemma set_fail_iso n n' i f : iso n n' -> rres iso (set_fail V n i f) (set_fail V n' (phi i) (phi f)).
Proof.
  intros H. unfold set_fail. rewrite (nfa_get_iso n n' i H). destruct (nfa_get V n i) as [st| | | |]; cbn [rmap bind rres]; auto.
  apply (nfa_set_iso n n' i {| n_edges := n_edges st; n_fail := f; n_output := n_output st; n_outpos := n_outpos st |} H).
Qed.

Lemma iso_nstates n n' : iso n n' -> n_nstates n' = n_nstates n.
Proof. intros (H & _). exact H. Qed.

Lemma fail_loop_iso : forall fuel n n' f c, iso n n' ->
  fail_loop V fuel n' (phi f) c = rmap phi (fail_loop V fuel n f c).
Proof.
  induction fuel as [|fuel IH]; intros n n' f c H; cbn [fail_loop]; [reflexivity|].
  rewrite (child_id_iso n n' f c H). destruct (child_id V n f c) as [[t|]| | | |]; cbn [rmap bind option_map]; try reflexivity.
  rewrite (nfa_get_iso n n' f H). destruct (nfa_get V n f) as [fs| | | |]; cbn [rmap bind]; try reflexivity.
  cbn [rst n_fail]. rewrite phi_eqb_root, phi_eqb_root. destruct ((f =? ROOT) && (n_fail fs =? ROOT)); [cbn; rewrite phi_root; reflexivity|].
  apply IH. exact H.
Qed.

Definition rnq (x : nfa V * list N) (y : nfa V * list N) : Prop := iso (fst x) (fst y) /\ snd y = map phi (snd x).

Lemma fails_edges_iso : forall es n n' sid sfail newq, iso n n' ->
  rres rnq (fails_edges V n sid sfail es newq) (fails_edges V n' (phi sid) (phi sfail) (redges es) (map phi newq)).
Proof.
  induction es as [|[c child] es IH]; intros n n' sid sfail newq H; cbn [redges map fails_edges fst snd].
  - cbn [rres]. split; [exact H|reflexivity].
  - rewrite (iso_nstates n n' H), (fail_loop_iso _ n n' sfail c H).
    destruct (fail_loop V _ n sfail c) as [nf| | | |]; cbn [rmap bind rres]; auto.
    rewrite phi_eqb. destruct (child =? sid); [reflexivity|].
    apply (rres_bind iso rnq); [apply set_fail_iso; exact H|].
    intros n1 n1' H1. specialize (IH n1 n1' sid sfail (newq ++ [child]) H1). rewrite map_app in IH. exact IH.
Qed.

Lemma fails_bfs_iso : forall fuel n n' pending done, iso n n' ->
  rres rnq (fails_bfs V fuel n pending done) (fails_bfs V fuel n' (map phi pending) (map phi done)).
Proof.
  induction fuel as [|fuel IH]; intros n n' pending done H; destruct pending as [|sid pending]; cbn [map fails_bfs rres].
  - split; [exact H|]. cbn [snd]. rewrite map_rev. reflexivity.
  - exact I.
  - split; [exact H|]. cbn [snd]. rewrite map_rev. reflexivity.
  - rewrite (nfa_get_iso n n' sid H). destruct (nfa_get V n sid) as [st| | | |]; cbn [rmap bind rres]; auto.
    cbn [rst n_fail n_edges].
    apply (rres_bind rnq rnq); [apply (fails_edges_iso (n_edges st) n n' sid (n_fail st) [] H)|].
    intros [n1 news] [n1' news'] [H1 Hq]. cbn [fst snd] in *. subst news'.
    specialize (IH n1 n1' (pending ++ news) (sid :: done) H1). rewrite map_app in IH. exact IH.
Qed.

Lemma build_fails_iso n n' : iso n n' -> rres rnq (build_fails V n) (build_fails V n').
Proof.
  intros H. unfold build_fails. rewrite <- phi_root at 2. rewrite (nfa_get_iso n n' ROOT H).
  destruct (nfa_get V n ROOT) as [root| | | |]; cbn [rmap bind rres]; auto.
  rewrite (iso_nstates n n' H). cbn [rst n_edges]. unfold redges. rewrite map_map. cbn [snd].
  pose proof (fails_bfs_iso (S (N.to_nat (n_nstates n))) n n' (map snd (n_edges root)) [] H) as X. rewrite map_map in X. exact X.
Qed.

(* ---- leftmost --------------------------------------------------------------------------------- *)
Lemma fail_loop_lm_iso : forall fuel n n' holder f c, iso n n' ->
  fail_loop_lm V fuel n' (phi holder) (phi f) c = rmap phi (fail_loop_lm V fuel n holder f c).
Proof.
  induction fuel as [|fuel IH]; intros n n' holder f c H; cbn [fail_loop_lm]; [reflexivity|].
  rewrite phi_eqb. destruct (f =? holder); [reflexivity|].
  rewrite (child_id_iso n n' f c H). destruct (child_id V n f c) as [[t|]| | | |]; cbn [rmap bind option_map]; try reflexivity.
  rewrite (nfa_get_iso n n' f H). destruct (nfa_get V n f) as [fs| | | |]; cbn [rmap bind]; try reflexivity.
  cbn [rst n_fail]. rewrite phi_eqb_dead. destruct (n_fail fs =? DEAD); [cbn; rewrite phi_dead; reflexivity|].
  rewrite phi_eqb_root, phi_eqb_root. destruct ((f =? ROOT) && (n_fail fs =? ROOT)); [cbn; rewrite phi_root; reflexivity|].
  apply IH. exact H.
Qed.

Lemma fails_edges_lm_iso : forall es n n' sid sfail newq, iso n n' ->
  rres rnq (fails_edges_lm V n sid sfail es newq) (fails_edges_lm V n' (phi sid) (phi sfail) (redges es) (map phi newq)).
Proof.
  induction es as [|[c child] es IH]; intros n n' sid sfail newq H; cbn [redges map fails_edges_lm fst snd].
  - cbn [rres]. split; [exact H|reflexivity].
  - rewrite phi_eqb_dead.
    assert (Hnf : (if sfail =? DEAD then Ok DEAD else fail_loop_lm V (S (N.to_nat (n_nstates n'))) n' (phi sid) (phi sfail) c)
                  = rmap phi (if sfail =? DEAD then Ok DEAD else fail_loop_lm V (S (N.to_nat (n_nstates n))) n sid sfail c)).
    { destruct (sfail =? DEAD); [cbn; rewrite phi_dead; reflexivity|]. rewrite (iso_nstates n n' H). apply fail_loop_lm_iso. exact H. }
    rewrite Hnf. destruct (if sfail =? DEAD then Ok DEAD else fail_loop_lm V _ n sid sfail c) as [nf| | | |]; cbn [rmap bind rres]; auto.
    rewrite phi_eqb. destruct (child =? sid); [reflexivity|].
    apply (rres_bind iso rnq); [apply set_fail_iso; exact H|].
    intros n1 n1' H1. specialize (IH n1 n1' sid sfail (newq ++ [child]) H1). rewrite map_app in IH. exact IH.
Qed.

Lemma fails_bfs_lm_iso : forall fuel n n' pending done, iso n n' ->
  rres rnq (fails_bfs_lm V fuel n pending done) (fails_bfs_lm V fuel n' (map phi pending) (map phi done)).
Proof.
  induction fuel as [|fuel IH]; intros n n' pending done H; destruct pending as [|sid pending]; cbn [map fails_bfs_lm rres].
  - split; [exact H|]. cbn [snd]. rewrite map_rev. reflexivity.
  - exact I.
  - split; [exact H|]. cbn [snd]. rewrite map_rev. reflexivity.
  - rewrite (nfa_get_iso n n' sid H). destruct (nfa_get V n sid) as [st| | | |]; cbn [rmap bind rres]; auto.
    cbn [rst n_fail n_edges n_output].
    assert (Hf : (if isSome (n_output st) then DEAD else phi (n_fail st)) = phi (if isSome (n_output st) then DEAD else n_fail st))
      by (destruct (isSome (n_output st)); [rewrite phi_dead|]; reflexivity).
    rewrite Hf. set (f := if isSome (n_output st) then DEAD else n_fail st).
    apply (rres_bind iso rnq); [apply set_fail_iso; exact H|]. intros n1 n1' H1.
    apply (rres_bind rnq rnq); [apply (fails_edges_lm_iso (n_edges st) n1 n1' sid f [] H1)|].
    intros [n2 news] [n2' news'] [H2 Hq]. cbn [fst snd] in *. subst news'.
    specialize (IH n2 n2' (pending ++ news) (sid :: done) H2). rewrite map_app in IH. exact IH.
Qed.

Lemma build_fails_leftmost_iso n n' : iso n n' -> rres rnq (build_fails_leftmost V n) (build_fails_leftmost V n').
Proof.
  intros H. unfold build_fails_leftmost. rewrite <- phi_root at 2. rewrite (nfa_get_iso n n' ROOT H).
  destruct (nfa_get V n ROOT) as [root| | | |]; cbn [rmap bind rres]; auto.
  rewrite (iso_nstates n n' H). cbn [rst n_edges]. unfold redges. rewrite map_map. cbn [snd].
  pose proof (fails_bfs_lm_iso (S (N.to_nat (n_nstates n))) n n' (map snd (n_edges root)) [] H) as X. rewrite map_map in X. exact X.
Qed.

(* ---- outputs ------------------------------------------------------------------------------------ *)
Lemma outputs_loop_iso : forall q n n', iso n n' -> rres iso (outputs_loop V n q) (outputs_loop V n' (map phi q)).
Proof.
  induction q as [|sid q IH]; intros n n' H; cbn [map outputs_loop]; [exact H|].
  rewrite (nfa_get_iso n n' sid H). destruct (nfa_get V n sid) as [st| | | |]; cbn [rmap bind rres]; auto.
  cbn [rst n_fail n_output n_edges]. rewrite phi_eqb. destruct (n_fail st =? sid); [reflexivity|].
  rewrite (nfa_get_iso n n' (n_fail st) H). destruct (nfa_get V n (n_fail st)) as [fs| | | |]; cbn [rmap bind rres]; auto.
  cbn [rst n_outpos]. pose proof H as (Hn & Hk & Ho & Hl & Hr & Hs).
  destruct (n_output st) as [[v len]|].
  - rewrite Ho. destruct (U32_MAX <? N.of_nat (length (n_outputs n)) + 1); [reflexivity|].
    apply IH.
    pose proof (nfa_set_iso n n' sid {| n_edges := n_edges st; n_fail := n_fail st; n_output := Some (v, len);
                                         n_outpos := N.of_nat (length (n_outputs n)) + 1 |} H) as (Hn1 & Hk1 & Ho1 & Hl1 & Hr1 & Hs1).
    unfold iso, nfa_set in *. cbn [n_nstates n_kind n_outputs n_len n_states] in *.
    split; [exact Hn1|]. split; [exact Hk1|]. split; [rewrite Ho; reflexivity|]. split; [exact Hl1|]. split; [exact Hr1|exact Hs1].
  - apply IH. exact (nfa_set_iso n n' sid {| n_edges := n_edges st; n_fail := n_fail st; n_output := None; n_outpos := n_outpos fs |} H).
Qed.

Lemma build_outputs_iso n n' q : iso n n' -> rres iso (build_outputs V n q) (build_outputs V n' (map phi q)).
Proof.
  intros H. unfold build_outputs. destruct q as [|q0 q]; cbn [map]; [reflexivity|]. rewrite phi_eqb_root.
  destruct (q0 =? ROOT); [reflexivity|]. exact (outputs_loop_iso (q0 :: q) n n' H).
Qed.

Theorem finish_nfa_iso n n' : iso n n' -> rres iso (finish_nfa V n) (finish_nfa V n').
Proof.
  intros H. unfold finish_nfa. pose proof H as (_ & Hk & _). rewrite Hk.
  apply (rres_bind rnq iso).
  - destruct (n_kind n); [apply build_fails_iso|apply build_fails_leftmost_iso|apply build_fails_leftmost_iso]; exact H.
  - intros [n1 q] [n1' q'] [H1 Hq]. cbn [fst snd] in *. subst q'. apply build_outputs_iso. exact H1.
Qed.

End Sim.
