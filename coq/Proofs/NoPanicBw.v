(* NoPanicBw.v — C10, the layout phase of the byte-wise builder never panics: with the invariant DI
   of DaRefine.v and the vacant-list invariant HL of HelperList.v every step of
   build_double_array (init_array, find_base, extend_array with remove_invalid_checks and
   push_block, the child placement, set_fails, the final remove_invalid_checks) returns Ok, or the
   documented Err AutomatonScale when the array would outgrow u32 — never a failed assertion, a
   failed unwrap, an out-of-range index or fuel exhaustion. *)
From DV Require Import Model.Base Model.Nfa Model.Helper Model.BwBuild Proofs.TrieInv Proofs.BuildSafe
     Proofs.HelperList Proofs.HelperFlags Proofs.DaRefine.
From Coq Require Import Sorted ZifyN ZifyNat ZifyBool.
Local Open Scope N_scope.

Ltac feed X := repeat match type of X with ?A -> _ => let a := fresh in assert (a : A) by assumption; specialize (X a); clear a end.

Definition okwith {X} (P : X -> Prop) (r : res X) : Prop :=
  match r with Ok x => P x | Err AutomatonScale => True | _ => False end.

Definition okscale {X} (r : res X) : Prop :=
  match r with Ok _ => True | Err AutomatonScale => True | _ => False end.

Lemma okscale_bind {X Y} (r : res X) (f : X -> res Y) :
  okscale r -> (forall x, r = Ok x -> okscale (f x)) -> okscale (bind r f).
Proof. destruct r as [x|e| | |]; cbn [bind okscale]; intros H Hf; try contradiction; [apply Hf; reflexivity|exact H]. Qed.

Notation HLb := (HL).
Notation HWg := (HelperFlagsG.HW 256).

Lemma HW_conv h : HW h <-> HWg h.
Proof. split; intros H; exact H. Qed.
Lemma bl256_pos : 0 < 256. Proof. reflexivity. Qed.

Lemma act_conv h i : act h i <-> HelperFlagsG.act h i.
Proof. split; intros H; exact H. Qed.
Lemma ui_conv h i : ui h i = HelperFlagsG.ui h i.
Proof. reflexivity. Qed.
Lemma ub_conv h i : ub h i = HelperFlagsG.ub h i.
Proof. reflexivity. Qed.

Lemma act_blk h i : HW h -> (act h i <-> active_block_start h <= i / 256 < h_nblocks h).
Proof.
  intros (B & _). unfold act, active_index_start, active_index_end. rewrite B. split.
  - intros [L U]. split; [apply N.div_le_lower_bound; lia|apply N.div_lt_upper_bound; lia].
  - intros [L U]. pose proof (N.div_mod i 256 ltac:(discriminate)). pose proof (N.mod_lt i 256 ltac:(discriminate)). split; nia.
Qed.

Lemma act_xor h i c : HW h -> act h i -> c < 256 -> act h (N.lxor i c).
Proof. intros W A Hc. apply (act_blk h _ W). rewrite (xor_div i c Hc). apply (act_blk h i W). exact A. Qed.

(* membership of the vacant list, in DaRefine's vocabulary *)
Lemma HL_mem h L i : HL h L -> (In i L <-> act h i /\ ui h i = false).
Proof. intros H. exact (hl_mem h L H i). Qed.

(* ---- find_base ------------------------------------------------------------------------------------ *)
Lemma all_indices_free_total h base : HW h -> act h base -> forall labels, (forall c, In c labels -> c < 256) ->
  exists b, all_indices_free h base labels = Ok b.
Proof.
  intros W A. induction labels as [|c r IH]; intros Hl; cbn [all_indices_free]; [eauto|].
  rewrite (is_used_index_act h (N.lxor base c)) by (apply act_conv; apply act_xor; [exact W|exact A|apply Hl; left; reflexivity]).
  cbn [bind]. destruct (HelperFlagsG.ui h (N.lxor base c)); [eauto|]. apply IH. intros c' Hc'. apply Hl. right. exact Hc'.
Qed.

Lemma check_valid_base_total h base labels : HW h -> act h base -> (forall c, In c labels -> c < 256) ->
  exists r, check_valid_base h base labels = Ok r.
Proof.
  intros W A Hl. unfold check_valid_base. rewrite (is_used_base_act h base (proj1 (act_conv h base) A)). cbn [bind].
  destruct (HelperFlagsG.ub h base); [eauto|]. destruct (all_indices_free_total h base W A labels Hl) as [b ->]. cbn [bind].
  destruct b; eauto.
Qed.

Lemma find_base_loop_total h l0 labels : HW h -> l0 < 256 -> (forall c, In c labels -> c < 256) ->
  forall l2 l1 fuel, HL h (l1 ++ l2) -> (length l2 <= fuel)%nat ->
  exists r, find_base_loop fuel h (hd_error l2) l0 labels = Ok r.
Proof.
  intros W Hl0 Hl. induction l2 as [|idx r IH]; intros l1 fuel H Hf.
  - destruct fuel; cbn [hd_error find_base_loop]; eauto.
  - cbn [hd_error]. destruct fuel as [|fuel]; [cbn [length] in Hf; lia|]. cbn [find_base_loop].
  rewrite (vacant_next_spec 256 bl256_pos h l1 idx r H). cbn [bind].
  assert (Ai : act h idx) by (apply (HL_mem h _ idx H); apply in_or_app; right; left; reflexivity).
  destruct (check_valid_base_total h (N.lxor idx l0) labels W (act_xor h idx l0 W Ai Hl0) Hl) as [rv ->]. cbn [bind].
  destruct rv as [b|]; [eauto|].
  apply (IH (l1 ++ [idx]) fuel); [rewrite <- app_assoc; exact H|cbn [length] in Hf; lia].
Qed.

Lemma HL_length h L : HW h -> HL h L -> (length L <= N.to_nat (h_cap h))%nat.
Proof.
  intros W H. destruct W as (Wb & Wc & Wd).
  apply (range_length L (active_index_start h)); [apply (sorted_nodup 256 bl256_pos); exact (hl_sorted h L H)|].
  intros x Hx. apply (HL_mem h L x H) in Hx as [[A B] _]. rewrite N2Nat.id. split; [exact A|].
  unfold active_index_start, active_index_end, active_block_start in *. rewrite Wb, Wc in *.
  destruct (N.le_gt_cases (h_nblocks h) (h_nfb h)) as [Hle|Hgt].
  - replace (h_nblocks h - h_nfb h) with 0 by lia. pose proof (N.mul_le_mono_r _ _ 256 Hle). lia.
  - replace (h_nblocks h) with ((h_nblocks h - h_nfb h) + h_nfb h) in B at 1 by lia. lia.
Qed.

Lemma find_base_total a h L labels : HW h -> HL h L -> labels <> [] -> (forall c, In c labels -> c < 256) ->
  ba_len a <= U32_MAX -> ba_len a <> 0 -> exists b, find_base a h labels = Ok b.
Proof.
  intros W H Hne Hl Hle Hnz. unfold find_base. destruct labels as [|l0 r]; [congruence|].
  pose proof (hl_head h L H) as Hh. rewrite Hh.
  destruct (find_base_loop_total h l0 (l0 :: r) W (Hl l0 (or_introl eq_refl)) Hl L [] (S (N.to_nat (h_cap h))) H) as [rv ->].
  { pose proof (HL_length h L W H). lia. }
  cbn [bind]. destruct rv as [b|]; [eauto|].
  assert ((U32_MAX <? ba_len a) = false) as -> by (apply N.ltb_ge; exact Hle).
  assert ((ba_len a =? 0) = false) as -> by (apply N.eqb_neq; exact Hnz). eauto.
Qed.

(* ---- the array ------------------------------------------------------------------------------------ *)
Lemma ba_upd_total a i f : i < ba_len a -> exists a', ba_upd a i f = Ok a' /\ ba_len a' = ba_len a.
Proof.
  intros Hi. unfold ba_upd, ba_get. apply N.ltb_lt in Hi. rewrite Hi. cbn [bind]. eexists. split; reflexivity.
Qed.

Lemma act_lt_len a h i : HW h -> ba_len a = h_nblocks h * 256 -> act h i -> i < ba_len a.
Proof. intros (B & _) Hcp [_ U]. unfold active_index_end in U. rewrite B in U. lia. Qed.

(* ---- remove_invalid_checks ------------------------------------------------------------------------ *)
Lemma find_unused_base_total h : forall cands, (forall b, In b cands -> act h b) ->
  exists r, find_unused_base h cands = Ok r /\ (forall u, r = Some u -> In u cands).
Proof.
  induction cands as [|b r IH]; intros Ha; cbn [find_unused_base].
  - exists None. split; [reflexivity|discriminate].
  - rewrite (is_used_base_act h b (Ha b (or_introl eq_refl))). cbn [bind]. destruct (HelperFlagsG.ub h b).
    + destruct (IH (fun x Hx => Ha x (or_intror Hx))) as (rv & E & Hin). exists rv. split; [exact E|]. intros u Hu. right. exact (Hin u Hu).
    + exists (Some b). split; [reflexivity|]. intros u Hu. inversion Hu. left. reflexivity.
Qed.

Lemma ric_loop_total h u : HW h -> act h u -> forall cs a, (forall c, In c cs -> c < 256) -> ba_len a = h_nblocks h * 256 ->
  exists a', ric_loop a h u cs = Ok a' /\ ba_len a' = ba_len a.
Proof.
  intros W Au. induction cs as [|c r IH]; intros a Hl Hcp; cbn [ric_loop]; [eauto|].
  assert (Ai : act h (N.lxor u c)) by (apply act_xor; [exact W|exact Au|apply Hl; left; reflexivity]).
  assert (Hd : exists d, (if (N.lxor u c =? ROOT) || (N.lxor u c =? DEAD) then Ok true
                          else u0 <- is_used_index h (N.lxor u c);; Ok (negb u0)) = Ok d).
  { destruct ((N.lxor u c =? ROOT) || (N.lxor u c =? DEAD)); [eauto|]. rewrite (is_used_index_act h _ Ai). cbn [bind]. eauto. }
  destruct Hd as [d ->]. cbn [bind]. destruct d.
  - destruct (ba_upd_total a (N.lxor u c) (set_check c) (act_lt_len a h _ W Hcp Ai)) as (a1 & -> & L1). cbn [bind].
    destruct (IH a1 (fun x Hx => Hl x (or_intror Hx)) ltac:(congruence)) as (a' & E & L'). exists a'. split; [exact E|congruence].
  - apply IH; [intros x Hx; apply Hl; right; exact Hx|exact Hcp].
Qed.

Lemma nseq_lt256 : forall c, In c (nseq 0 256) -> c < 256.
Proof. intros c Hc. apply nseq_in_c in Hc. change (N.of_nat 256) with 256 in Hc. lia. Qed.

Lemma remove_invalid_checks_total a h B : HW h -> active_block_start h <= B < h_nblocks h -> ba_len a = h_nblocks h * 256 ->
  exists a', remove_invalid_checks a h B = Ok a' /\ ba_len a' = ba_len a.
Proof.
  intros W HB Hcp. unfold remove_invalid_checks, unused_base_in_block. pose proof W as (Wb & _). rewrite Wb. change (N.to_nat 256) with 256%nat.
  assert (Hblk : forall x, In x (nseq (B * 256) 256) -> act h x).
  { intros x Hx. apply nseq_in_c in Hx. change (N.of_nat 256) with 256 in Hx. apply (act_blk h x W).
    assert (x / 256 = B) as -> by (symmetry; apply N.div_unique with (x - B * 256); lia). exact HB. }
  destruct (find_unused_base_total h _ Hblk) as (rv & -> & Hin). cbn [bind]. destruct rv as [u|]; [|eauto].
  apply (ric_loop_total h u W (Hblk u (Hin u eq_refl)) _ a nseq_lt256 Hcp).
Qed.

Lemma ric_blocks_total h : HW h -> forall bls a, (forall B, In B bls -> active_block_start h <= B < h_nblocks h) ->
  ba_len a = h_nblocks h * 256 -> exists a', ric_blocks a h bls = Ok a'.
Proof.
  intros W. induction bls as [|B r IH]; intros a HB Hcp; cbn [ric_blocks]; [eauto|].
  destruct (remove_invalid_checks_total a h B W (HB B (or_introl eq_refl)) Hcp) as (a1 & -> & L1). cbn [bind].
  apply IH; [intros B' HB'; apply HB; right; exact HB'|congruence].
Qed.

(* ---- extend_array ----------------------------------------------------------------------------------- *)
Lemma extend_array_total a h L : HW h -> HL h L -> ba_len a = h_nblocks h * 256 ->
  extend_array a h = Err AutomatonScale \/ exists a1 h1 L1, extend_array a h = Ok (a1, h1) /\ HL h1 L1.
Proof.
  intros W H Hcp. unfold extend_array. destruct (U32_MAX - BLOCK_LEN <? ba_len a) eqn:Esc; [left; reflexivity|right].
  pose proof W as (Wb & Wc & Wd).
  assert (Hric : exists a1, match dropped_block h with Some cb => remove_invalid_checks a h cb | None => Ok a end = Ok a1).
  { unfold dropped_block. destruct (h_cap h <=? num_elements h) eqn:Ec; [|eauto].
    apply N.leb_le in Ec. unfold num_elements in Ec. rewrite Wb, Wc in Ec.
    assert (h_nfb h <= h_nblocks h) by lia.
    destruct (remove_invalid_checks_total a h (active_block_start h) W) as (a1 & E & _); [unfold active_block_start; lia|exact Hcp|eauto]. }
  destruct Hric as [a1 ->]. cbn [bind].
  destruct (push_block_total 256 bl256_pos h L W H) as (h1 & L1 & -> & H1).
  { rewrite Wb. unfold num_elements. rewrite Wb, <- Hcp. exact Esc. }
  cbn [bind]. eauto.
Qed.

(* ---- use_base keeps the list ------------------------------------------------------------------------ *)
Lemma use_base_HL h b h' L : HW h -> HL h L -> use_base h b = Ok h' -> HL h' L.
Proof.
  intros W H E. unfold use_base in E. destruct (HelperFlagsG.upd_item_fl 256 bl256_pos h b mark_base h' W E) as (_ & M & Hd & F).
  assert (Hsame : forall j, act h j -> nxt h' j = nxt h j /\ prv h' j = prv h j /\ ui h' j = ui h j).
  { intros j Aj. unfold nxt, prv, ui, HelperFlags.ui. change (HelperFlags.fl h' j) with (HelperFlagsG.fl h' j). change (HelperFlags.fl h j) with (HelperFlagsG.fl h j).
    rewrite (F j Aj). destruct (j =? b) eqn:Ej; [|auto]. apply N.eqb_eq in Ej. subst j. auto. }
  assert (HinA : forall j, In j L -> act h j) by (intros j Hj; apply (HL_mem h L j H); exact Hj).
  constructor.
  - exact (hl_sorted h L H).
  - intros j. rewrite (HL_mem h L j H). split.
    + intros [Aj Uj]. split; [apply (HelperFlagsG.act_meta h h' j M); exact Aj|]. destruct (Hsame j Aj) as (_ & _ & U). change (HelperFlagsG.ui h' j) with (ui h' j). rewrite U. exact Uj.
    + intros [Aj Uj]. apply (HelperFlagsG.act_meta h h' j M) in Aj. split; [exact Aj|]. destruct (Hsame j Aj) as (_ & _ & U). change (HelperFlagsG.ui h' j) with (ui h' j) in Uj. rewrite U in Uj. exact Uj.
  - rewrite Hd. exact (hl_head h L H).
  - pose proof (hl_ring h L H) as Hr. destruct L as [|x r]; [exact I|]. destruct Hr as (Hl & Hn & Hp).
    assert (Hlast : In (last r x) (x :: r)) by apply last_in.
    split; [|split].
    + apply (links_frame h h'); [| |exact Hl].
      * intros i Hi. apply Hsame. apply HinA. apply in_removelast. exact Hi.
      * intros i Hi. apply Hsame. apply HinA. right. exact Hi.
    + destruct (Hsame _ (HinA _ Hlast)) as (-> & _). exact Hn.
    + destruct (Hsame x (HinA x (or_introl eq_refl))) as (_ & -> & _). exact Hp.
Qed.

(* ---- the child placement ---------------------------------------------------------------------------- *)
Lemma place_children_total : forall es a h L idmap nst base stack, HW h -> HL h L ->
  (forall c ch, In (c, ch) es -> act h (N.lxor base c) /\ ui h (N.lxor base c) = false /\ N.lxor base c < ba_len a /\ ch < nst) ->
  NoDup (map fst es) ->
  exists a' h' idmap' stack' L', place_children a h idmap nst base es stack = Ok (a', h', idmap', stack') /\ HL h' L'
                                  /\ ba_len a' = ba_len a /\ hmeta h h'.
Proof.
  induction es as [|[c ch] r IH]; intros a h L idmap nst base stack W H Hes Hnd; cbn [place_children].
  - exists a, h, idmap, stack, L. split; [reflexivity|]. split; [exact H|]. split; [reflexivity|apply hmeta_refl].
  - destruct (Hes c ch (or_introl eq_refl)) as (Ac & Uc & Lc & Hch).
    assert (Hin : In (N.lxor base c) L) by (apply (HL_mem h L _ H); split; assumption).
    apply in_split in Hin as (l1 & l2 & EL). subst L.
    destruct (use_index_total 256 bl256_pos h l1 _ l2 W H) as (h1 & E1 & H1). rewrite E1. cbn [bind].
    destruct (ba_upd_total a _ (set_check c) Lc) as (a1 & -> & La1). cbn [bind].
    apply N.ltb_lt in Hch. rewrite Hch.
    destruct (use_index_fl h _ h1 W E1) as (_ & _ & M & F).
    cbn [map fst] in Hnd. apply NoDup_cons_iff in Hnd as [Hc Hnd].
    destruct (IH a1 h1 (l1 ++ l2) (nset ch (N.lxor base c) idmap) nst base (ch :: stack) (HW_meta _ _ W M) H1) as (a' & h' & im' & st' & L' & E & H' & La' & M'); [|exact Hnd|].
    + intros c' ch' Hin'. destruct (Hes c' ch' (or_intror Hin')) as (A' & U' & L' & Hch').
      split; [apply (act_meta h h1 _ M); exact A'|]. split; [|split; [congruence|exact Hch']].
      destruct (F _ A') as [-> _]. rewrite U'.
      assert ((N.lxor base c' =? N.lxor base c) = false) as ->; [|reflexivity].
      apply N.eqb_neq. intros E. apply lxor_inj_r in E. subst c'. apply Hc. apply in_map_iff. exists (c, ch'). auto.
    + exists a', h', im', st', L'. split; [exact E|]. split; [exact H'|]. split; [congruence|exact (hmeta_trans _ _ _ M M')].
Qed.

(* ================================================================================================= *)
Section NP.
Variable V : Type.
Variable n : nfa V.
Notation node := (node V n).
Notation edges_of := (edges_of V n).
Notation DI := (DI V n).

Hypothesis wf_n : forall i, i < n_nstates n -> exists st, nget i (n_states n) = Some st.
Hypothesis edges_child : forall s c t, node s -> (In (c, t) (edges_of s) <-> tchild V n s c = Some t).
Hypothesis labels_byte : forall s c t, In (c, t) (edges_of s) -> c < 256.
Hypothesis child_node : forall s c t, node s -> tchild V n s c = Some t ->
  node t /\ t <> ROOT /\ t <> DEAD /\ t < n_nstates n.
Hypothesis uniq_parent : forall p1 p2 c1 c2 t, node p1 -> node p2 ->
  tchild V n p1 c1 = Some t -> tchild V n p2 c2 = Some t -> p1 = p2 /\ c1 = c2.
Hypothesis nonroot_parent : forall t, node t -> t <> ROOT -> exists p c, node p /\ tchild V n p c = Some t.
Hypothesis node_lt : forall t, node t -> t < n_nstates n.
Hypothesis edges_nodup : forall s, node s -> NoDup (map fst (edges_of s)).
Hypothesis root_node : node ROOT.
Hypothesis nstates_nodes : forall s, s < n_nstates n -> s <> DEAD -> node s.
Hypothesis dead_not_node : ~ node DEAD.
Hypothesis fail_node : forall s st, node s -> nfa_get V n s = Ok st -> n_fail st = DEAD \/ node (n_fail st).

Lemma nfa_get_node s : node s -> exists st, nfa_get V n s = Ok st /\ edges_of s = n_edges st.
Proof.
  intros Ns. pose proof (node_lt s Ns) as Hl. destruct (wf_n s Hl) as [st Hst]. exists st. unfold nfa_get, DaRefine.edges_of.
  apply N.ltb_lt in Hl. rewrite Hl, Hst. auto.
Qed.

Lemma DI_count a h idmap stack proc : DI a h idmap stack proc -> (length (proc ++ stack) <= N.to_nat (n_nstates n))%nat.
Proof.
  intros D. apply (range_length (proc ++ stack) 0); [exact (di_nodup _ _ _ _ _ _ _ D)|].
  intros x Hx. rewrite N2Nat.id. pose proof (node_lt x (di_node _ _ _ _ _ _ _ D x Hx)). lia.
Qed.

Lemma dfs_loop_total : forall fuel a h L idmap stack proc, DI a h idmap stack proc -> HL h L -> ba_len a <= U32_MAX ->
  (N.to_nat (n_nstates n) < fuel + length proc)%nat ->
  dfs_loop V fuel n a h idmap stack = Err AutomatonScale \/
  exists a' h' idmap' proc', dfs_loop V fuel n a h idmap stack = Ok (a', h', idmap') /\ DI a' h' idmap' [] proc'.
Proof.
  induction fuel as [|fuel IH]; intros a h L idmap stack proc D H Hmax Hf; destruct stack as [|sid stack]; cbn [dfs_loop];
    try (right; exists a, h, idmap, proc; split; [reflexivity|exact D]).
  - exfalso. pose proof (DI_count _ _ _ _ _ D) as Hc. rewrite app_length in Hc. cbn [length] in Hc. lia.
  - assert (Hsin : In sid (proc ++ sid :: stack)) by (apply in_app_iff; right; left; reflexivity).
    pose proof (di_node _ _ _ _ _ _ _ D sid Hsin) as Ns.
    assert ((sid =? DEAD) = false) as -> by (apply N.eqb_neq; intros ->; exact (dead_not_node Ns)).
    destruct (nfa_get_node sid Ns) as (st & -> & Hed). cbn [bind].
    destruct (proj2 (di_im _ _ _ _ _ _ _ D sid) Hsin) as [sidx Hsidx].
    unfold idmap_get. pose proof (node_lt sid Ns) as Hlt. apply N.ltb_lt in Hlt. rewrite Hlt, Hsidx. cbn [bind].
    destruct (di_im_rng _ _ _ _ _ _ _ D sid sidx Hsidx) as [Hsl Hs2].
    assert ((sidx =? DEAD) = false) as ->.
    { apply N.eqb_neq. intros ->. destruct (N.eq_dec sid ROOT) as [->|Hne].
      - rewrite (di_im_root _ _ _ _ _ _ _ D) in Hsidx. discriminate.
      - specialize (Hs2 Hne). unfold DEAD in Hs2. lia. }
    pose proof (di_hw _ _ _ _ _ _ _ D) as W. pose proof (di_cp _ _ _ _ _ _ _ D) as Hcp.
    destruct (n_edges st) as [|e0 es0] eqn:Ee.
    + apply (IH a h L idmap stack (sid :: proc)); [pose proof (DI_leaf V n) as X; feed X; apply X; [exact D|rewrite Hed; reflexivity]|exact H|exact Hmax|cbn [length]; lia].
    + rewrite <- Hed.
      assert (Hlab : forall c, In c (map fst (edges_of sid)) -> c < 256).
      { intros c Hc. apply in_map_iff in Hc as [[c' t] [<- Hin]]. exact (labels_byte sid c' t Hin). }
      assert (Hnz : ba_len a <> 0).
      { destruct (di_im_rng _ _ _ _ _ _ _ D ROOT ROOT (di_im_root _ _ _ _ _ _ _ D)) as [Hr _]. unfold ROOT in Hr. lia. }
      destruct (find_base_total a h L (map fst (edges_of sid)) W H ltac:(rewrite Hed; discriminate) Hlab Hmax Hnz) as [base Eb].
      rewrite Eb. cbn [bind].
      destruct (find_base_inv _ _ _ _ Eb) as (_ & Hb0 & Hcase).
      (* the array after the possible extension *)
      assert (Hext : (if ba_len a <=? base then extend_array a h else Ok (a, h)) = Err AutomatonScale \/
                     exists a1 h1 L1, (if ba_len a <=? base then extend_array a h else Ok (a, h)) = Ok (a1, h1) /\ HL h1 L1
                       /\ DI a1 h1 idmap (sid :: stack) proc /\ ba_len a1 <= U32_MAX /\ ba_len a <= ba_len a1
                       /\ act h1 base /\ ub h1 base = false
                       /\ forall c, c < 256 -> In c (map fst (edges_of sid)) -> act h1 (N.lxor base c) /\ ui h1 (N.lxor base c) = false).
      { destruct Hcase as [(Ab & Ub & Hfree) | ->].
        - pose proof (act_lt_len a h base W Hcp Ab) as Hbl.
          assert ((ba_len a <=? base) = false) as -> by (apply N.leb_gt; exact Hbl).
          right. exists a, h, L. split; [reflexivity|]. split; [exact H|]. split; [exact D|]. split; [exact Hmax|]. split; [lia|].
          split; [exact Ab|]. split; [exact Ub|]. intros c _ Hc. exact (Hfree c Hc).
        - rewrite N.leb_refl. destruct (extend_array_total a h L W H Hcp) as [->|(a1 & h1 & L1 & E1 & H1)]; [left; reflexivity|right].
          pose proof (DI_extend V n) as X. feed X. destruct (X _ _ _ _ _ _ _ D E1) as (D1 & L1' & _ & Hfresh). clear X.
          exists a1, h1, L1. split; [exact E1|]. split; [exact H1|]. split; [exact D1|].
          assert (Hsc : ba_len a + 256 <= U32_MAX).
          { unfold extend_array in E1. destruct (U32_MAX - BLOCK_LEN <? ba_len a) eqn:Es; [discriminate|]. apply N.ltb_ge in Es. unfold BLOCK_LEN, U32_MAX in *. lia. }
          split; [lia|]. split; [lia|].
          assert (Hblock : forall c, c < 256 -> ba_len a <= N.lxor (ba_len a) c < ba_len a + 256).
          { intros c Hc. pose proof (xor_div (ba_len a) c Hc) as Hd. destruct W as (Wb & _).
            assert (Hq : ba_len a / 256 = h_nblocks h) by (rewrite Hcp; apply N.div_mul; discriminate).
            rewrite Hq in Hd. pose proof (N.div_mod (N.lxor (ba_len a) c) 256 ltac:(discriminate)) as Hdm.
            pose proof (N.mod_lt (N.lxor (ba_len a) c) 256 ltac:(discriminate)). rewrite Hd in Hdm. lia. }
          assert (Hb : ba_len a <= ba_len a < ba_len a + 256) by lia.
          destruct (Hfresh _ Hb) as (A0 & _ & U0). split; [exact A0|]. split; [exact U0|].
          intros c Hc _. destruct (Hfresh _ (Hblock c Hc)) as (A1 & U1 & _). auto. }
      destruct Hext as [->|(a1 & h1 & L1 & -> & H1 & D1 & Hmax1 & Hgrow & Ab & Ub & Hfree)]; [left; reflexivity|]. cbn [bind].
      pose proof (di_hw _ _ _ _ _ _ _ D1) as W1. pose proof (di_cp _ _ _ _ _ _ _ D1) as Hcp1.
      destruct (place_children_total (edges_of sid) a1 h1 L1 idmap (n_nstates n) base stack W1 H1) as (a2 & h2 & idmap2 & stack2 & L2 & E2 & H2 & La2 & M2).
      { intros c ch Hin. pose proof (labels_byte sid c ch Hin) as Hc.
        destruct (Hfree c Hc ltac:(apply in_map_iff; exists (c, ch); auto)) as [A1 U1]. split; [exact A1|]. split; [exact U1|].
        split; [exact (act_lt_len a1 h1 _ W1 Hcp1 A1)|]. apply (edges_child sid c ch Ns) in Hin. exact (proj2 (proj2 (proj2 (child_node sid c ch Ns Hin)))). }
      { exact (edges_nodup sid Ns). }
      rewrite E2. cbn [bind].
      destruct (ba_upd_total a2 sidx (set_base base)) as (a3 & E3 & La3); [lia|]. rewrite E3. cbn [bind].
      destruct (use_base_total h2 base) as [h3 E4]; [apply act_conv; apply (act_meta h1 h2 base M2); exact Ab|]. rewrite E4. cbn [bind].
      apply (IH a3 h3 L2 idmap2 stack2 (sid :: proc)).
      * pose proof (DI_node V n) as X. feed X. apply (X a1 h1 idmap sid stack proc base sidx a2 h2 idmap2 stack2 a3 h3 D1); try assumption. rewrite Hed. discriminate.
      * exact (use_base_HL h2 base h3 L2 (HW_meta _ _ W1 M2) H2 E4).
      * lia.
      * cbn [length]. lia.
Qed.


(* ---- set_fails ---------------------------------------------------------------------------------------- *)
Lemma set_fails_loop_total idmap len :
  (forall s, node s -> exists i, nget s idmap = Some i /\ i < len /\ i <> DEAD) ->
  forall ids a, ba_len a = len -> (forall i, In i ids -> i < n_nstates n) ->
  okwith (fun a' => ba_len a' = len) (set_fails_loop V n a idmap ids).
Proof.
  intros Hpl. induction ids as [|i r IH]; intros a La Hids; cbn [set_fails_loop]; [exact La|].
  assert (Hr : forall j, In j r -> j < n_nstates n) by (intros j Hj; apply Hids; right; exact Hj).
  destruct (i =? DEAD) eqn:Ed; [exact (IH a La Hr)|]. apply N.eqb_neq in Ed.
  pose proof (Hids i (or_introl eq_refl)) as Hi. pose proof (nstates_nodes i Hi Ed) as Ni.
  destruct (Hpl i Ni) as (idx & Hidx & Hil & Hid).
  unfold idmap_get at 1. apply N.ltb_lt in Hi. rewrite Hi, Hidx. cbn [bind].
  assert ((idx =? DEAD) = false) as -> by (apply N.eqb_neq; exact Hid).
  destruct (nfa_get_node i Ni) as (st & Hst & _). rewrite Hst. cbn [bind].
  destruct (U24_MAX <? n_outpos st); [exact I|].
  destruct (ba_upd_total a idx (set_outpos (n_outpos st)) ltac:(lia)) as (a1 & -> & La1). cbn [bind].
  destruct (n_fail st =? DEAD) eqn:Ef.
  - destruct (ba_upd_total a1 idx (set_bfail DEAD) ltac:(lia)) as (a2 & -> & La2). cbn [bind]. apply IH; [congruence|exact Hr].
  - apply N.eqb_neq in Ef. destruct (fail_node i st Ni Hst) as [Hd|Nf]; [congruence|].
    destruct (Hpl _ Nf) as (fidx & Hfidx & Hfl & Hfd).
    unfold idmap_get. pose proof (node_lt _ Nf) as Hfl2. apply N.ltb_lt in Hfl2. rewrite Hfl2, Hfidx. cbn [bind].
    assert ((fidx =? DEAD) = false) as -> by (apply N.eqb_neq; exact Hfd).
    destruct (ba_upd_total a1 idx (set_bfail fidx) ltac:(lia)) as (a2 & -> & La2). cbn [bind]. apply IH; [congruence|exact Hr].
Qed.

(* ---- init_array ----------------------------------------------------------------------------------------- *)
Lemma HL_empty nfb : HL {| h_items := nempty; h_cap := BLOCK_LEN * nfb; h_block_len := BLOCK_LEN; h_nfb := nfb; h_nblocks := 0; h_head := None |} [].
Proof.
  constructor; [constructor| |reflexivity|exact I].
  intros i. split; [intros []|]. intros [[A B] _]. unfold active_index_start, active_index_end, active_block_start in *. cbn in *. lia.
Qed.

Lemma init_array_total nfb : 1 <= nfb ->
  init_array nfb = Err AutomatonScale \/ exists a0 h0 L0, init_array nfb = Ok (a0, h0) /\ HL h0 L0.
Proof.
  intros Hn. unfold init_array, helper_new. destruct (U32_MAX <? BLOCK_LEN * nfb); [left; reflexivity|right].
  assert ((BLOCK_LEN * nfb =? 0) = false) as -> by (apply N.eqb_neq; unfold BLOCK_LEN; lia). cbn [bind].
  set (hh0 := {| h_items := nempty; h_cap := BLOCK_LEN * nfb; h_block_len := BLOCK_LEN; h_nfb := nfb; h_nblocks := 0; h_head := None |}).
  assert (W0 : HW hh0) by (unfold HW, hh0, BLOCK_LEN; cbn; split; [reflexivity|split; [reflexivity|exact Hn]]).
  destruct (push_block_total 256 bl256_pos hh0 [] W0 (HL_empty nfb)) as (h1 & L1 & E1 & H1); [reflexivity|].
  rewrite E1. cbn [bind].
  destruct (push_block_fl hh0 h1 W0 E1) as (W1 & Nb1 & F1). cbn [h_nblocks hh0] in Nb1.
  assert (Hact1 : forall j, act h1 j <-> j < 256).
  { intros j. destruct W1 as (B1 & C1 & D1). unfold act, active_index_start, active_index_end, active_block_start. rewrite B1, Nb1.
    replace (0 + 1 - h_nfb h1) with 0 by lia. lia. }
  assert (Hfresh : forall j, j < 256 -> ui h1 j = false).
  { intros j Hj. destruct (F1 j (proj2 (Hact1 j) Hj)) as [G _]. apply G. unfold active_index_end, hh0. cbn. lia. }
  assert (Hr : In ROOT L1) by (apply (HL_mem h1 L1 ROOT H1); split; [apply Hact1; reflexivity|apply Hfresh; reflexivity]).
  apply in_split in Hr as (l1 & l2 & EL). subst L1.
  destruct (use_index_total 256 bl256_pos h1 l1 ROOT l2 W1 H1) as (h2 & E2 & H2). rewrite E2. cbn [bind].
  destruct (use_index_fl h1 ROOT h2 W1 E2) as (_ & _ & M2 & F2). pose proof (HW_meta _ _ W1 M2) as W2.
  assert (Hd : In DEAD (l1 ++ l2)).
  { apply (HL_mem h2 _ DEAD H2). assert (A1 : act h1 DEAD) by (apply Hact1; reflexivity). split; [apply (act_meta h1 h2 _ M2); exact A1|].
    destruct (F2 DEAD A1) as [-> _]. rewrite (Hfresh DEAD ltac:(reflexivity)). reflexivity. }
  apply in_split in Hd as (m1 & m2 & EM). rewrite EM in H2.
  destruct (use_index_total 256 bl256_pos h2 m1 DEAD m2 W2 H2) as (h3 & E3 & H3). rewrite E3. cbn [bind]. eauto.
Qed.

(* ---- the whole layout ----------------------------------------------------------------------------------- *)
Theorem build_double_array_total nfb : 1 <= nfb -> okscale (build_double_array V nfb n).
Proof.
  intros Hn. unfold build_double_array.
  destruct (init_array_total nfb Hn) as [->|(a0 & h0 & L0 & Ei & H0)]; [exact I|]. rewrite Ei. cbn [bind].
  pose proof (init_array_DI V n) as X. feed X. pose proof (X nfb a0 h0 Ei) as D0. clear X.
  assert (Hmax0 : ba_len a0 <= U32_MAX).
  { unfold init_array in Ei. bstep Ei. bstep Ei. bstep Ei. bstep Ei. inversion Ei. cbn. unfold BLOCK_LEN, U32_MAX. lia. }
  destruct (dfs_loop_total (S (N.to_nat (n_nstates n))) a0 h0 L0 _ [ROOT] [] D0 H0 Hmax0 ltac:(cbn [length]; lia))
    as [->|(a1 & h1 & idmap & proc & -> & D1)]; [exact I|]. cbn [bind].
  assert (Hplaced : forall s, node s -> In s proc).
  { intros s [w Hw]. revert s Hw. induction w as [|c w IHw] using rev_ind; intros s Hw.
    - cbn in Hw. inversion Hw; subst s. pose proof (di_im _ _ _ _ _ _ _ D1 ROOT) as Hx. rewrite app_nil_r in Hx. apply Hx. exists ROOT. exact (di_im_root _ _ _ _ _ _ _ D1).
    - rewrite twalk_snoc in Hw. destruct (twalk V n ROOT w) as [p|] eqn:Ep; [|discriminate].
      pose proof (di_chi _ _ _ _ _ _ _ D1 p c s (IHw p eq_refl) Hw) as Hx. rewrite app_nil_r in Hx. exact Hx. }
  assert (Hpl : forall s, node s -> exists i, nget s idmap = Some i /\ i < ba_len a1 /\ i <> DEAD).
  { intros s Ns. pose proof (Hplaced s Ns) as Hin. destruct (proj2 (di_im _ _ _ _ _ _ _ D1 s) ltac:(rewrite app_nil_r; exact Hin)) as [i Hi].
    destruct (di_im_rng _ _ _ _ _ _ _ D1 s i Hi) as [Hl H2]. exists i. split; [exact Hi|]. split; [exact Hl|].
    destruct (N.eq_dec s ROOT) as [->|Hne]; [rewrite (di_im_root _ _ _ _ _ _ _ D1) in Hi; inversion Hi; discriminate|].
    specialize (H2 Hne). unfold DEAD. lia. }
  pose proof (set_fails_loop_total idmap (ba_len a1) Hpl (nseq 0 (N.to_nat (n_nstates n))) a1 eq_refl) as Hsf.
  specialize (Hsf ltac:(intros i Hi; apply nseq_in_c in Hi; lia)).
  destruct (set_fails_loop V n a1 idmap _) as [a2|e| | |]; cbn [okwith] in Hsf; try contradiction; [|destruct e; try contradiction; exact I].
  rename Hsf into La2. cbn [bind]. pose proof (di_hw _ _ _ _ _ _ _ D1) as W1. pose proof (di_cp _ _ _ _ _ _ _ D1) as Hcp1.
  destruct (ric_blocks_total h1 W1 (nseq (active_block_start h1) (N.to_nat (h_nblocks h1 - active_block_start h1))) a2) as [a3 ->]; [|congruence|exact I].
  intros B HB. apply nseq_in_c in HB. lia.
Qed.

End NP.
