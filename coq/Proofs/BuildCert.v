(* BuildCert.v — the builder theorem for the byte-wise automaton, standard match kind:
   EVERY automaton that construction returns passes the certificate checker bw_cert_ok for the
   registered patterns.  Chain: trie invariant (TrieInv) -> fail links and output chains of the NFA
   (NfaFails) -> the double array is an isomorphic copy of the NFA (DaRefine) -> every check of the
   certificate succeeds (this file).  With Proofs/BwCert.v the search theorems of C01, C02, C05,
   C06, C11, C13 then hold for every built automaton, with no certificate hypothesis. *)
From DV Require Import Model.Base Model.Nfa Model.Helper Model.BwBuild Model.BwSearch Model.Spec Model.Cert
     Proofs.GenAC Proofs.TrieInv Proofs.BuildTrie Proofs.BuildSafe Proofs.NfaFails Proofs.DaRefine Proofs.BwSafe Proofs.BuildProps.
From Coq Require Import ZifyN ZifyNat ZifyBool.
Local Open Scope N_scope.

Ltac bstep H :=
  match type of H with
  | bind ?e _ = Ok _ => let E := fresh "E" in destruct e eqn:E; cbn [bind] in H; try discriminate
  end.

(* ---- the pattern loop keeps fail links at the root and edge labels distinct ------------------ *)
Section Pef.
Variable V : Type.
Definition PEF (st : nstate V) : Prop := n_fail st = ROOT /\ NoDup (map fst (n_edges st)).

Lemma edge_get_none_notin es c : edge_get es c = None -> ~ In c (map fst es).
Proof.
  induction es as [|[k v] r IH]; cbn [edge_get map fst]; [intros _ []|].
  destruct (k =? c) eqn:E; [discriminate|]. apply N.eqb_neq in E. intros H [Hk|Hin]; [congruence|exact (IH H Hin)].
Qed.

Lemma edge_insert_keys es c t k : In k (map fst (edge_insert es c t)) -> k = c \/ In k (map fst es).
Proof.
  intros H. apply in_map_iff in H as [[k' v] [<- Hin]]. cbn [fst]. apply edge_insert_in in Hin as [[-> _]|Hin]; [left; reflexivity|].
  right. apply in_map_iff. exists (k', v). auto.
Qed.

Lemma edge_insert_nodup es c t : ~ In c (map fst es) -> NoDup (map fst es) -> NoDup (map fst (edge_insert es c t)).
Proof.
  induction es as [|[k v] r IH]; intros Hc Hn; cbn [edge_insert map fst] in *.
  - constructor; [intros []|constructor].
  - apply NoDup_cons_iff in Hn as [Hk Hn]. destruct (c <? k); [cbn [map fst]; constructor; [exact Hc|constructor; assumption]|].
    destruct (c =? k) eqn:E; [apply N.eqb_eq in E; subst; exfalso; apply Hc; left; reflexivity|]. apply N.eqb_neq in E.
    cbn [map fst]. constructor.
    + intros Hin. apply edge_insert_keys in Hin as [->|Hin]; [congruence|contradiction].
    + apply IH; [intros Hin; apply Hc; right; exact Hin|exact Hn].
Qed.

Lemma PEF_default : PEF (nstate_default V).
Proof. split; [reflexivity|constructor]. Qed.

Lemma add_walk_PEF : forall rest (n : nfa V) sid n' fin, AllSt V PEF n -> add_walk V n sid rest = Ok (n', fin) -> AllSt V PEF n'.
Proof.
  induction rest as [|c rest IH]; intros n sid n' fin HA H; cbn [add_walk] in H; [inversion H; subst; exact HA|].
  bstep H. destruct (_ && _); [inversion H; subst; exact HA|].
  destruct (edge_get (n_edges a) c) as [nx|] eqn:Ee; [exact (IH _ _ _ _ HA H)|].
  destruct (U32_MAX <? n_nstates n); [discriminate|].
  refine (IH _ _ _ _ _ H). apply AllSt_push; [|exact PEF_default]. apply AllSt_set; [exact HA|].
  destruct (HA sid a (nfa_get_some V n sid a E)) as [H0 Hl]. split; [exact H0|]. cbn [n_edges].
  apply edge_insert_nodup; [apply edge_get_none_notin; exact Ee|exact Hl].
Qed.

Lemma add_PEF lb (n : nfa V) p v n' : AllSt V PEF n -> add V lb n p v = Ok n' -> AllSt V PEF n'.
Proof.
  intros HA H. unfold add in H. destruct (U32_MAX <? _); [discriminate|]. destruct (_ =? 0); [discriminate|].
  bstep H. destruct a as [n1 fin]. pose proof (add_walk_PEF _ _ _ _ _ HA E) as H1. destruct fin as [sid|].
  - bstep H. destruct (isSome (n_output a)); [discriminate|]. inversion H; subst. clear H.
    intros i st Hg. cbn [n_states] in Hg. revert i st Hg. apply AllSt_set; [exact H1|].
    destruct (H1 sid a (nfa_get_some V n1 sid a E0)) as [H0 Hl]. split; [exact H0|exact Hl].
  - unfold check_shadowed_duplicate in H. bstep H. bstep H. destruct (_ || _); [discriminate|]. inversion H; subst. exact H1.
Qed.

Lemma adds_PEF lb : forall pvs (n n' : nfa V), AllSt V PEF n -> adds V lb n pvs = Ok n' -> AllSt V PEF n'.
Proof.
  induction pvs as [|[p v] r IH]; intros n n' HA H; cbn [adds] in H; [inversion H; subst; exact HA|].
  bstep H. exact (IH a n' (add_PEF lb n p v a HA E) H).
Qed.

Lemma nfa_new_PEF k : AllSt V PEF (nfa_new V k).
Proof.
  intros i st Hg. unfold nfa_new in Hg. cbn [n_states] in Hg.
  destruct (N.eq_dec i 1) as [->|H1]; [rewrite ngss in Hg; inversion Hg; apply PEF_default|].
  rewrite ngso in Hg by exact H1. destruct (N.eq_dec i 0) as [->|H0]; [rewrite ngss in Hg; inversion Hg; apply PEF_default|].
  rewrite ngso in Hg by exact H0. rewrite nget_empty in Hg. discriminate.
Qed.
End Pef.

(* ---- the tree interface DaRefine asks for, from the trie invariant ----------------------------- *)
Section TreeFacts.
Variable V : Type.
Variable lbytes : N -> N.
Hypothesis lb_pos : forall c, 1 <= lbytes c.
Variables (n0 n2 : nfa V) (outs : list (list N * V)) (paths : list (list N)).
Hypothesis T0 : TI V lbytes n0 outs [] paths.
Hypothesis EK0 : forall i st, nget i (n_states n0) = Some st -> NoDup (map fst (n_edges st)).
Hypothesis Hns : n_nstates n2 = n_nstates n0.
Hypothesis Htc : forall s c, tchild V n2 s c = tchild V n0 s c.
Hypothesis Hst : forall i, i < n_nstates n0 -> exists st st0, nget i (n_states n2) = Some st /\ nget i (n_states n0) = Some st0
                                                   /\ n_edges st = n_edges st0 /\ n_output st = n_output st0.
Hypothesis Hlab : forall i st, nget i (n_states n2) = Some st -> forall c t, In (c, t) (n_edges st) -> c < 256.

Lemma tw2 : forall w s, twalk V n2 s w = twalk V n0 s w.
Proof. apply twalk_ext. exact Htc. Qed.

Lemma node2_iff t : node V n2 t <-> exists w, N0 V n0 w t.
Proof. unfold node, N0. split; intros [w H]; exists w; [rewrite <- tw2|rewrite tw2]; exact H. Qed.

Lemma tf_wf : forall i, i < n_nstates n2 -> exists st, nget i (n_states n2) = Some st.
Proof. intros i Hi. rewrite Hns in Hi. destruct (Hst i Hi) as (st & _ & H & _). eauto. Qed.

Lemma tf_edges_child : forall s c t, node V n2 s -> (In (c, t) (edges_of V n2 s) <-> tchild V n2 s c = Some t).
Proof.
  intros s c t Ns. apply node2_iff in Ns as [w Hw]. pose proof (N0_lt V lbytes lb_pos n0 outs paths T0 w s Hw) as Hl.
  destruct (Hst s Hl) as (st & st0 & H2 & H0 & He & _). unfold edges_of, tchild. rewrite H2. split.
  - apply edge_get_of_in. rewrite He. exact (EK0 s st0 H0).
  - apply edge_get_in.
Qed.

Lemma tf_labels : forall s c t, In (c, t) (edges_of V n2 s) -> c < 256.
Proof. intros s c t. unfold edges_of. destruct (nget s (n_states n2)) as [st|] eqn:E; [exact (Hlab s st E c t)|intros []]. Qed.

Lemma tf_child_node : forall s c t, node V n2 s -> tchild V n2 s c = Some t -> node V n2 t /\ t <> ROOT /\ t <> DEAD /\ t < n_nstates n2.
Proof.
  clear Hlab. intros s c t Ns Hc. apply node2_iff in Ns as [w Hw]. rewrite Htc in Hc.
  assert (Ht : N0 V n0 (w ++ [c]) t) by (apply (N0_snoc V n0); eauto).
  split; [apply node2_iff; eauto|]. destruct (ti_bwd _ _ _ _ _ _ T0 _ _ Ht) as [[E _]|[H2 _]].
  - apply app_eq_nil in E as [_ E]. discriminate.
  - unfold ROOT, DEAD. rewrite Hns. pose proof (N0_lt V lbytes lb_pos n0 outs paths T0 _ _ Ht). repeat split; lia.
Qed.

Lemma tf_uniq_parent : forall p1 p2 c1 c2 t, node V n2 p1 -> node V n2 p2 ->
  tchild V n2 p1 c1 = Some t -> tchild V n2 p2 c2 = Some t -> p1 = p2 /\ c1 = c2.
Proof.
  intros p1 p2 c1 c2 t N1 N2 H1 H2. apply node2_iff in N1 as [w1 Hw1]. apply node2_iff in N2 as [w2 Hw2]. rewrite Htc in H1, H2.
  assert (A1 : N0 V n0 (w1 ++ [c1]) t) by (apply (N0_snoc V n0); eauto).
  assert (A2 : N0 V n0 (w2 ++ [c2]) t) by (apply (N0_snoc V n0); eauto).
  pose proof (N0_inj V lbytes lb_pos n0 outs paths T0 _ _ _ A1 A2) as E. apply app_inj_tail in E as [-> ->].
  split; [unfold N0 in *; congruence|reflexivity].
Qed.

Lemma tf_nonroot_parent : forall t, node V n2 t -> t <> ROOT -> exists p c, node V n2 p /\ tchild V n2 p c = Some t.
Proof.
  intros t Nt Hr. apply node2_iff in Nt as [w Hw].
  assert (Hc : w = [] \/ exists w' c, w = w' ++ [c]) by (induction w using rev_ind; [left; reflexivity|right; eauto]).
  destruct Hc as [->|(w' & c & ->)]; [unfold N0 in Hw; cbn in Hw; congruence|].
  apply (N0_snoc V n0) in Hw as [p [Hp Hc]]. exists p, c. split; [apply node2_iff; eauto|rewrite Htc; exact Hc].
Qed.

Lemma tf_node_lt : forall t, node V n2 t -> t < n_nstates n2.
Proof. intros t Nt. apply node2_iff in Nt as [w Hw]. rewrite Hns. exact (N0_lt V lbytes lb_pos n0 outs paths T0 w t Hw). Qed.

Lemma tf_edges_nodup : forall s, node V n2 s -> NoDup (map fst (edges_of V n2 s)).
Proof.
  intros s Ns. apply node2_iff in Ns as [w Hw]. pose proof (N0_lt V lbytes lb_pos n0 outs paths T0 w s Hw) as Hl.
  destruct (Hst s Hl) as (st & st0 & H2 & H0 & He & _). unfold edges_of. rewrite H2, He. exact (EK0 s st0 H0).
Qed.

Lemma tf_nstates_nodes : forall s, s < n_nstates n2 -> s <> DEAD -> node V n2 s.
Proof.
  clear Hlab. intros s Hs Hd. apply node2_iff. rewrite Hns in Hs. destruct (N.eq_dec s ROOT) as [->|Hr]; [exists []; reflexivity|].
  pose proof (ti_cnt _ _ _ _ _ _ T0) as Hc. unfold ROOT, DEAD in *.
  destruct (nth_error paths (N.to_nat (s - 2))) as [p|] eqn:E; [|apply nth_error_None in E; lia].
  exists p. pose proof (ti_fwd _ _ _ _ _ _ T0 _ _ E) as Hf. unfold N0. rewrite Hf. f_equal. lia.
Qed.

End TreeFacts.

(* ---- every check of the certificate succeeds ---------------------------------------------------- *)
Section Complete.
Variable V : Type.
Variable veqb : V -> V -> bool.
Hypothesis veqb_refl : forall v, veqb v v = true.
Notation lb1 := (fun _ : N => 1).
Variables (n0 n2 : nfa V) (pvs : list (list N * V)) (paths : list (list N)).
Variables (sts : list bstate) (idmap : nmap N).
Hypothesis T0 : TI V lb1 n0 pvs [] paths.
Hypothesis Htc : forall s c, tchild V n2 s c = tchild V n0 s c.
Hypothesis RF : Refines V n2 sts idmap.
Hypothesis Hnode2 : forall t, node V n2 t <-> exists w, N0 V n0 w t.
Hypothesis Hlab2 : forall s c t, node V n2 s -> tchild V n2 s c = Some t -> c < 256.
Hypothesis Hne : forall p v, In (p, v) pvs -> p <> [].
Hypothesis EKc : forall i st, nget i (n_states n0) = Some st -> NoDup (map fst (n_edges st)).

Notation sget := (fun j : N => nget j (index_list sts)).
Notation oget := (fun j : N => nget j (index_list (n_outputs n2))).
Notation child := (bwc_child sget).
Notation c0 := (child0 V n0).
Notation nslots := (length sts).
Notation nouts := (length (n_outputs n2)).

Lemma one_pos' : forall c : N, 1 <= lb1 c. Proof. intros c. cbn. lia. Qed.

Lemma bw_child_sget i c : bw_child sget i c = bw_child (fun j => nth_error sts (N.to_nat j)) i c.
Proof. unfold bw_child, st_at. rewrite !index_list_get. destruct (nth_error sts (N.to_nat i)); [|reflexivity]. cbn [bind]. destruct (b_base b =? 0); [reflexivity|]. rewrite index_list_get. reflexivity. Qed.

Lemma child_spec s i c : node V n2 s -> nget s idmap = Some i ->
  child i c = Ok (match tchild V n2 s c with Some t => nget t idmap | None => None end).
Proof.
  intros Ns Hi. unfold bwc_child. destruct (c <? 256) eqn:Ec.
  - rewrite bw_child_sget. apply (rf_child _ _ _ _ RF s i c Ns Hi). lia.
  - destruct (tchild V n2 s c) as [t|] eqn:Et; [|reflexivity]. pose proof (Hlab2 s c t Ns Et). lia.
Qed.

Lemma walk_spec : forall w s i, node V n2 s -> nget s idmap = Some i ->
  Cert.walk child i w = match twalk V n0 s w with Some t => nget t idmap | None => None end.
Proof.
  induction w as [|c w IH]; intros s i Ns Hi; cbn [Cert.walk twalk]; [symmetry; exact Hi|].
  rewrite (child_spec s i c Ns Hi), <- Htc. destruct (tchild V n2 s c) as [t|] eqn:Et; [|reflexivity].
  assert (Nt : node V n2 t).
  { apply Hnode2 in Ns as [u Hu]. apply Hnode2. exists (u ++ [c]). apply (N0_snoc V n0). exists s. rewrite <- Htc. auto. }
  destruct (rf_tot _ _ _ _ RF t Nt) as (i' & Hi' & _). rewrite Hi'. exact (IH t i' Nt Hi').
Qed.

Lemma root_node2 : node V n2 ROOT. Proof. apply Hnode2. exists []. reflexivity. Qed.

Lemma walk_root w : Cert.walk child ROOT w = match twalk V n0 ROOT w with Some t => nget t idmap | None => None end.
Proof. exact (walk_spec w ROOT ROOT root_node2 (rf_root _ _ _ _ RF)). Qed.

Lemma inT_eq w : Cert.inT child w = Cert.inT c0 w.
Proof.
  unfold Cert.inT. rewrite walk_root, (walk0 V n0). destruct (twalk V n0 ROOT w) as [t|] eqn:E; [|reflexivity].
  assert (Nt : node V n2 t) by (apply Hnode2; exists w; exact E). destruct (rf_tot _ _ _ _ RF t Nt) as (i & Hi & _). rewrite Hi. reflexivity.
Qed.

Lemma lsuf_eq w : Cert.lsuf child w = Cert.lsuf c0 w.
Proof.
  unfold Cert.lsuf. assert (forall l, find (Cert.inT child) l = find (Cert.inT c0) l) as ->; [|reflexivity].
  induction l as [|x l IHl]; cbn [find]; [reflexivity|]. rewrite inT_eq, IHl. reflexivity.
Qed.

(* the output chain, as the checker follows it *)
Lemma Chain_len tbl pos l : Chain V tbl pos l -> N.of_nat (length l) <= pos /\ pos <= N.of_nat (length tbl).
Proof.
  induction 1 as [|pos o l Hp Hn Hlt _ IH]; [cbn; lia|]. cbn [length]. split; [lia|].
  assert (N.to_nat (pos - 1) < length tbl)%nat by (apply nth_error_Some; congruence). lia.
Qed.

Lemma chain_of_Chain pos l : Chain V (n_outputs n2) pos l -> forall fuel, (N.to_nat pos < fuel)%nat ->
  Cert.chain V (bwc_outat V oget) fuel pos = Ok l.
Proof.
  induction 1 as [|pos o l Hp Hn Hlt _ IH]; intros fuel Hf; destruct fuel as [|fuel]; try lia; cbn [Cert.chain].
  - reflexivity.
  - assert ((pos =? 0) = false) as -> by (apply N.eqb_neq; exact Hp).
    unfold bwc_outat, out_at. rewrite index_list_get, Hn. cbn [bind]. rewrite IH by lia. reflexivity.
Qed.

Lemma outs_eqb_refl : forall l ex, pairs V l = ex -> outs_eqb V veqb l ex = true.
Proof.
  induction l as [|o l IH]; intros ex E; cbn [pairs map] in E; subst ex; cbn [outs_eqb]; [reflexivity|].
  rewrite N.eqb_refl, veqb_refl. cbn [andb]. apply IH. reflexivity.
Qed.

Lemma sufpats_plen w : Cert.sufpats V bwc_plen pvs w = Cert.sufpats V (plen lb1) pvs w.
Proof.
  unfold Cert.sufpats, Cert.pats_eq. apply flat_map_ext. intros k. apply map_ext. intros [p v]. cbn [fst snd].
  unfold bwc_plen. rewrite (plen_one). reflexivity.
Qed.

Lemma max_plen_ge : forall p v, In (p, v) pvs -> (length p <= max_plen V pvs)%nat.
Proof.
  unfold max_plen. intros p v Hin.
  assert (forall l acc, (acc <= fold_left (fun m (pv : list N * V) => Nat.max m (length (fst pv))) l acc)%nat) as Hmono.
  { induction l as [|x l IHl]; intros acc; cbn [fold_left]; [lia|]. specialize (IHl (Nat.max acc (length (fst x)))). lia. }
  assert (forall l acc, In (p, v) l -> (length p <= fold_left (fun m (pv : list N * V) => Nat.max m (length (fst pv))) l acc)%nat) as H.
  { induction l as [|x l IHl]; intros acc Hl; [destruct Hl|]. cbn [fold_left]. destruct Hl as [->|Hl]; [|exact (IHl _ Hl)].
    cbn [fst]. specialize (Hmono l (Nat.max acc (length p))). lia. }
  exact (H pvs 0%nat Hin).
Qed.

Lemma node_depth w t : N0 V n0 w t -> (length w <= max_plen V pvs)%nat.
Proof.
  intros Hw. destruct w as [|a r]; [cbn; lia|].
  pose proof (ti_in_paths _ _ _ _ _ _ _ _ T0 Hw ltac:(discriminate)) as Hin.
  apply (ti_mem _ _ _ _ _ _ T0) in Hin as [_ [Hc|(q & v & Hq & [x ->])]]; [apply pref_nil_r in Hc; discriminate|].
  pose proof (max_plen_ge _ _ Hq) as Hm. rewrite app_length in Hm. lia.
Qed.

Lemma paths_le_slots : (length paths <= nslots)%nat.
Proof.
  set (ids := map (fun k => N.of_nat k + 2) (seq 0 (length paths))).
  assert (Hn : forall s, In s ids -> node V n2 s).
  { intros s Hs. unfold ids in Hs. apply in_map_iff in Hs as [k [<- Hk]]. apply in_seq in Hk.
    destruct (nth_error paths k) as [p|] eqn:E; [|apply nth_error_None in E; lia]. apply Hnode2. exists p. exact (ti_fwd _ _ _ _ _ _ T0 k p E). }
  set (f := fun s => match nget s idmap with Some i => N.to_nat i | None => 0%nat end).
  assert (Hl : length (map f ids) = length paths) by (unfold ids; rewrite !map_length, seq_length; reflexivity).
  rewrite <- Hl. rewrite <- (seq_length nslots 0). apply NoDup_incl_length.
  - apply nodup_map_in.
    + intros a b Ha Hb E. destruct (rf_tot _ _ _ _ RF a (Hn a Ha)) as (ia & Hia & _). destruct (rf_tot _ _ _ _ RF b (Hn b Hb)) as (ib & Hib & _).
      unfold f in E. rewrite Hia, Hib in E. assert (ia = ib) by lia. subst ib. exact (rf_inj _ _ _ _ RF a b ia Hia Hib).
    + unfold ids. apply nodup_map_in; [|apply seq_NoDup]. intros a b _ _ E. lia.
  - intros x Hx. apply in_map_iff in Hx as [s [<- Hs]]. destruct (rf_tot _ _ _ _ RF s (Hn s Hs)) as (i & Hi & Hlt & _).
    unfold f. rewrite Hi. apply in_seq. lia.
Qed.

Hypothesis Hget2 : forall s w, N0 V n0 w s -> exists st, nfa_get V n2 s = Ok st /\ n_fail st = failof V n2 s /\ n_outpos st = outposof V n2 s.
Hypothesis Hfail2 : forall w t, N0 V n0 w t -> N0 V n0 (Cert.lsuf (child0 V n0) (tl w)) (failof V n2 t).
Hypothesis Hout2 : forall w t, N0 V n0 w t -> OutOK V lb1 n0 pvs n2 t.

Lemma nseq_in_c : forall k a x, In x (nseq a k) -> a <= x < a + N.of_nat k.
Proof. induction k as [|k IH]; intros a x; cbn [nseq]; [intros []|]. intros [<-|H]; [lia|]. apply IH in H. lia. Qed.

Lemma tree_ok_complete : forall fuel w s i, N0 V n0 w s -> nget s idmap = Some i ->
  (max_plen V pvs - length w < fuel)%nat ->
  tree_ok V veqb child (bwc_failof sget) (bwc_outposof sget) (bwc_outat V oget) byte_labels bwc_plen pvs fuel (S nslots) nouts i w = true.
Proof.
  induction fuel as [|fuel IH]; intros w s i Hw Hi Hf; [lia|]. cbn [tree_ok].
  assert (Ns : node V n2 s) by (apply Hnode2; eauto).
  apply andb_true_iff. split.
  - (* the node itself *)
    unfold local_ok. rewrite !andb_true_iff. repeat split.
    + destruct w as [|a r]; [cbn; apply orb_true_r|]. cbn [is_nil]. rewrite orb_false_r.
      destruct (rf_tot _ _ _ _ RF s Ns) as (i' & Hi' & _ & H2). rewrite Hi in Hi'. inversion Hi'; subst i'.
      assert (s <> ROOT) by (intros ->; apply (N0_root V lb1 n0 pvs paths T0) in Hw; discriminate).
      specialize (H2 H). apply negb_true_iff. apply N.eqb_neq. unfold ROOT. lia.
    + apply Nat.ltb_lt. pose proof (dep_bound V lb1 one_pos' n0 pvs paths T0 EKc w s Hw). pose proof paths_le_slots. lia.
    + destruct w as [|a r]; [reflexivity|]. cbn [is_nil orb tl].
      destruct (Hget2 s _ Hw) as (st & Hg & Hfl & Hop).
      assert (Hd : s <> DEAD).
      { intros ->. destruct (ti_bwd _ _ _ _ _ _ T0 _ _ Hw) as [[E _]|[H2 _]]; [discriminate|unfold DEAD in H2; lia]. }
      destruct (rf_links _ _ _ _ RF s st i Ns Hd Hg Hi) as (sl & Hsl & Hfs & _).
      unfold bwc_failof, st_at. rewrite index_list_get, Hsl. cbn [bind].
      pose proof (Hfail2 _ _ Hw) as Hfw. cbn [tl] in Hfw.
      rewrite lsuf_eq, walk_root. unfold N0 in Hfw. rewrite Hfw, Hfs, Hfl. unfold fmap.
      assert (Nf : node V n2 (failof V n2 s)) by (apply Hnode2; eauto).
      assert ((failof V n2 s =? DEAD) = false) as ->.
      { apply N.eqb_neq. intros E. rewrite E in Hfw. destruct (ti_bwd _ _ _ _ _ _ T0 _ _ Hfw) as [[_ E']|[H2 _]]; [discriminate|unfold DEAD in H2; lia]. }
      destruct (rf_tot _ _ _ _ RF _ Nf) as (fi & Hfi & _). rewrite Hfi. cbn [optN_eqb]. apply N.eqb_refl.
    + destruct (Hget2 s _ Hw) as (st & Hg & Hfl & Hop).
      assert (Hd : s <> DEAD).
      { intros ->. destruct (ti_bwd _ _ _ _ _ _ T0 _ _ Hw) as [[_ E]|[H2 _]]; [discriminate|unfold DEAD in H2; lia]. }
      destruct (rf_links _ _ _ _ RF s st i Ns Hd Hg Hi) as (sl & Hsl & _ & Hos).
      unfold bwc_outposof, st_at. rewrite index_list_get, Hsl. cbn [bind]. rewrite Hos, Hop.
      destruct (Hout2 _ _ Hw w Hw) as (l & Hc & Hp). destruct (Chain_len _ _ _ Hc) as [Hl1 Hl2].
      rewrite (chain_of_Chain _ _ Hc) by lia. rewrite sufpats_plen. rewrite (outs_eqb_refl l _ Hp). cbn [andb].
      apply Nat.leb_le. lia.
  - (* its children *)
    apply forallb_forall. intros c Hc. apply nseq_in_c in Hc. change (N.of_nat 256) with 256 in Hc.
    rewrite (child_spec s i c Ns Hi). destruct (tchild V n2 s c) as [t|] eqn:Et; [|reflexivity].
    assert (Hwt : N0 V n0 (w ++ [c]) t) by (apply (N0_snoc V n0); exists s; rewrite <- Htc; auto).
    assert (Nt : node V n2 t) by (apply Hnode2; eauto). destruct (rf_tot _ _ _ _ RF t Nt) as (i' & Hi' & _). rewrite Hi'.
    apply (IH (w ++ [c]) t i' Hwt Hi'). pose proof (node_depth _ _ Hwt) as Hd. rewrite app_length in *. cbn [length] in *. lia.
Qed.

Theorem cert_ok_complete :
  cert_ok V veqb child (bwc_failof sget) (bwc_outposof sget) (bwc_outat V oget) byte_labels bwc_plen pvs nslots nouts = true.
Proof.
  unfold cert_ok. apply andb_true_iff. split.
  - apply (tree_ok_complete (S (max_plen V pvs)) [] ROOT ROOT); [reflexivity|exact (rf_root _ _ _ _ RF)|cbn [length]; lia].
  - apply forallb_forall. intros [p v] Hin. cbn [fst]. apply andb_true_iff. split.
    + pose proof (Hne p v Hin). destruct p; [congruence|reflexivity].
    + rewrite inT_eq. apply (inT0_iff V n0). pose proof (ti_sub _ _ _ _ _ _ T0 p v Hin) as Hp. apply In_nth_error in Hp as [k Hk].
      eexists. exact (ti_fwd _ _ _ _ _ _ T0 k p Hk).
Qed.
End Complete.

(* ---- the builder theorem ------------------------------------------------------------------------ *)
Lemma count_le_total_len {V} (pvs : list (list N * V)) : (forall p v, In (p, v) pvs -> p <> []) ->
  N.of_nat (length pvs) <= total_len V pvs.
Proof.
  induction pvs as [|[p v] r IH]; intros Hne; [cbn; lia|]. unfold total_len. cbn [fold_right fst length]. fold (total_len V r).
  assert (p <> []) by (apply (Hne p v); left; reflexivity). specialize (IH (fun q w Hq => Hne q w (or_intror Hq))).
  destruct p; [congruence|]. cbn [length]. lia.
Qed.

Theorem bw_build_cert_lemma (V : Type) (veqb : V -> V -> bool) (veqb_refl : forall v, veqb v v = true)
  nfb (pvs : list (list N * V)) A :
  (forall p v, In (p, v) pvs -> Forall (fun b => b < 256) p) -> 4 * total_len V pvs <= U32_MAX - 1 ->
  bw_build_with_values V Standard nfb pvs = Ok A -> bw_cert_ok veqb A pvs = true.
Proof.
  intros Hbytes Hsz H. unfold bw_build_with_values in H. destruct (nfb =? 0); [discriminate|].
  destruct (bw_build_sparse_nfa V Standard pvs) as [n2| | | |] eqn:En; cbn [bind] in H; try discriminate.
  destruct (build_double_array V nfb n2) as [sts| | | |] eqn:Ed; cbn [bind] in H; try discriminate.
  destruct (U32_MAX <? n_nstates n2 - 1); [discriminate|]. inversion H; subst A; clear H.
  pose proof (bw_sparse_nfa_inv V Standard pvs n2 Hbytes En) as [HA2 _].
  unfold bw_build_sparse_nfa in En. destruct (add_all V (fun _ => 1) (nfa_new V Standard) pvs) as [n0| | | |] eqn:Ea; cbn [bind] in En; try discriminate.
  destruct (n_len n0 =? 0) eqn:El; [discriminate|]. destruct (U24_MAX <? n_len n0); [discriminate|].
  rewrite add_all_adds in Ea.
  pose proof (adds_spec V (fun _ => 1) one_pos one_le4 Standard pvs Hsz) as S.
  destruct (first_offence [] (map fst pvs)) as [e|] eqn:Efo; [rewrite Ea in S; discriminate|].
  destruct S as (n0' & paths & S1 & T0 & Hk & Hlen & Hout). rewrite Ea in S1. inversion S1; subst n0'; clear S1.
  change (regd V Standard pvs) with pvs in *.
  apply first_offence_none in Efo as (Hne' & Hnd & _).
  assert (Hne : forall p v, In (p, v) pvs -> p <> []).
  { intros p v Hin. rewrite Forall_forall in Hne'. apply Hne'. apply in_map_iff. exists (p, v). auto. }
  pose proof (adds_PEF V (fun _ => 1) pvs _ n0 (nfa_new_PEF V Standard) Ea) as HPEF.
  assert (EK0 : forall i st, nget i (n_states n0) = Some st -> NoDup (map fst (n_edges st))) by (intros i st Hg; exact (proj2 (HPEF i st Hg))).
  assert (F0 : forall i st, nget i (n_states n0) = Some st -> n_fail st = ROOT) by (intros i st Hg; exact (proj1 (HPEF i st Hg))).
  rewrite <- add_all_adds in Ea.
  destruct (add_all_inv V pvs _ n0 Hbytes (nfa_new_PLO V Standard) eq_refl Ea) as [HPLO _].
  assert (OP0 : forall i st, nget i (n_states n0) = Some st -> n_outpos st = 0) by (intros i st Hg; exact (proj1 (HPLO i st Hg))).
  assert (NE0 : pvs <> []) by (intros ->; cbn in Hlen; rewrite Hlen in El; discriminate).
  assert (LEN0 : N.of_nat (length pvs) < U32_MAX) by (pose proof (count_le_total_len pvs Hne); unfold U32_MAX in *; lia).
  destruct (finish_nfa_std_ok V (fun _ => 1) one_pos n0 pvs paths T0 EK0 F0 Hnd LEN0 OP0 Hout NE0 Hk)
    as (n2' & Hf & Hns & Hk2 & Htc & Hfail & Hoks & Hol & Hst).
  rewrite En in Hf. inversion Hf; subst n2'; clear Hf.
  assert (Hlab : forall i st, nget i (n_states n2) = Some st -> forall c t, In (c, t) (n_edges st) -> c < 256).
  { intros i st Hg. exact (proj2 (HA2 i st Hg)). }
  assert (Hnode : forall t, node V n2 t <-> exists w, N0 V n0 w t) by (apply node2_iff; exact Htc).
  assert (RFx : exists idmap, Refines V n2 sts idmap).
  { eapply build_double_array_refines; [| | | | | | | | |exact Ed].
    - eapply tf_wf; eassumption.
    - eapply tf_edges_child; try eassumption; exact one_pos.
    - eapply tf_labels; eassumption.
    - eapply tf_child_node; try eassumption; exact one_pos.
    - eapply tf_uniq_parent; try eassumption; exact one_pos.
    - eapply tf_nonroot_parent; eassumption.
    - eapply tf_node_lt; try eassumption; exact one_pos.
    - eapply tf_edges_nodup; try eassumption; exact one_pos.
    - eapply tf_nstates_nodes; try eassumption; exact one_pos. }
  destruct RFx as [idmap RF].
  unfold bw_cert_ok. cbn [bw_kind bw_states bw_outputs is_standard mkind_eqb andb]. unfold bwc_cert_ok.
  apply (cert_ok_complete V veqb veqb_refl n0 n2 pvs paths sts idmap T0 Htc RF Hnode).
  - intros s c t Ns Hc.
    assert (Hin : In (c, t) (edges_of V n2 s)).
    { eapply tf_edges_child; try eassumption; exact one_pos. }
    eapply tf_labels; eassumption.
  - exact Hne.
  - exact EK0.
  - intros s w Hw. pose proof (N0_lt V _ one_pos n0 pvs paths T0 w s Hw) as Hl. destruct (Hst s Hl) as (st & _ & H2 & _).
    exists st. unfold nfa_get, failof, outposof. rewrite Hns. apply N.ltb_lt in Hl. rewrite Hl, H2. auto.
  - exact Hfail.
  - exact Hoks.
Qed.
