(* NfaFails.v — NfaBuilder::build_fails (nfa_builder.rs:124-156), for EVERY trie that satisfies the
   invariant of TrieInv.v: the breadth-first pass terminates without a panic, leaves the trie
   itself alone, and sets the fail link of every node w to the node of the longest proper suffix
   of w that is a node (the textbook failure function), returning the nodes in breadth-first
   order. *)
From DV Require Import Model.Base Model.Nfa Model.Spec Model.Cert Proofs.GenAC Proofs.TrieInv.
From Coq Require Import Sorted ZifyN ZifyNat ZifyBool.
Local Open Scope N_scope.

Ltac bstep H :=
  match type of H with
  | bind ?e _ = Ok _ => let E := fresh "E" in destruct e eqn:E; cbn [bind] in H; try discriminate
  end.

Lemma ssorted_app_iff {X} (R : X -> X -> Prop) (l1 l2 : list X) :
  StronglySorted R (l1 ++ l2) <-> StronglySorted R l1 /\ StronglySorted R l2 /\ (forall x y, In x l1 -> In y l2 -> R x y).
Proof.
  induction l1 as [|a l1 IH]; cbn [app].
  - split; [intros H; repeat split; [constructor|exact H|intros x y []]|intros (_ & H & _); exact H].
  - split.
    + intros H. inversion H as [|? ? Hs Hf]; subst. apply IH in Hs as (S1 & S2 & S3). rewrite Forall_forall in Hf.
      split; [constructor; [exact S1|apply Forall_forall; intros x Hx; apply Hf; apply in_app_iff; left; exact Hx]|].
      split; [exact S2|]. intros x y [<-|Hx] Hy; [apply Hf; apply in_app_iff; right; exact Hy|exact (S3 x y Hx Hy)].
    + intros (S1 & S2 & S3). inversion S1 as [|? ? Hs Hf]; subst. rewrite Forall_forall in Hf. constructor.
      * apply IH. split; [exact Hs|]. split; [exact S2|]. intros x y Hx Hy. apply S3; [right; exact Hx|exact Hy].
      * apply Forall_forall. intros x Hx. apply in_app_iff in Hx as [Hx|Hx]; [exact (Hf x Hx)|apply S3; [left; reflexivity|exact Hx]].
Qed.

Lemma edge_get_in es c t : edge_get es c = Some t -> In (c, t) es.
Proof.
  induction es as [|[k v] r IH]; cbn [edge_get]; [discriminate|].
  destruct (k =? c) eqn:E; [intros H; inversion H; apply N.eqb_eq in E; subst; left; reflexivity|intros H; right; exact (IH H)].
Qed.
Lemma edge_get_of_in es c t : NoDup (map fst es) -> In (c, t) es -> edge_get es c = Some t.
Proof.
  induction es as [|[k v] r IH]; intros Hn Hin; [destruct Hin|]. cbn [map fst] in Hn. inversion Hn as [|? ? Hnot Hn']; subst.
  cbn [edge_get]. destruct Hin as [E|Hin].
  - inversion E; subst. rewrite N.eqb_refl. reflexivity.
  - destruct (k =? c) eqn:E; [|exact (IH Hn' Hin)]. apply N.eqb_eq in E. subst k. exfalso. apply Hnot.
    apply in_map_iff. exists (c, t). auto.
Qed.

Lemma nodup_app_intro {X} (a b : list X) :
  NoDup a /\ NoDup b /\ (forall x, In x a -> In x b -> False) -> NoDup (a ++ b).
Proof.
  induction a as [|x a IH]; intros (Ha & Hb & Hd); cbn [app]; [exact Hb|].
  inversion Ha as [|? ? Hx Ha']; subst. constructor.
  - intros H. apply in_app_iff in H as [H|H]; [contradiction|]. apply (Hd x); [left; reflexivity|exact H].
  - apply IH. split; [exact Ha'|]. split; [exact Hb|]. intros y Hy. apply Hd. right. exact Hy.
Qed.

Lemma nodup_map_in {X Y} (f : X -> Y) (l : list X) :
  (forall a b, In a l -> In b l -> f a = f b -> a = b) -> NoDup l -> NoDup (map f l).
Proof.
  induction l as [|x l IH]; intros Hi Hn; cbn [map]; [constructor|]. inversion Hn as [|? ? Hx Hn']; subst. constructor.
  - intros H. apply in_map_iff in H as [y [E Hy]]. apply Hi in E; [subst; contradiction|right; exact Hy|left; reflexivity].
  - apply IH; [|exact Hn']. intros a b Ha Hb. apply Hi; right; assumption.
Qed.

Section NF.
Variable V : Type.
Variable lbytes : N -> N.
Hypothesis lb_pos : forall c, 1 <= lbytes c.
Variable n0 : nfa V.
Variable outs : list (list N * V).
Variable paths : list (list N).
Hypothesis T0 : TI V lbytes n0 outs [] paths.
(* every edge list has distinct labels (BTreeMap) *)
Hypothesis EK0 : forall i st, nget i (n_states n0) = Some st -> NoDup (map fst (n_edges st)).

Definition child0 (s c : N) : res (option N) := Ok (tchild V n0 s c).
Notation lsuf0 := (Cert.lsuf child0).
Notation inT0 := (Cert.inT child0).
Definition N0 (w : list N) (t : N) : Prop := twalk V n0 ROOT w = Some t.

Lemma walk0 : forall w s, Cert.walk child0 s w = twalk V n0 s w.
Proof.
  induction w as [|c w IH]; intros s; cbn [Cert.walk twalk]; [reflexivity|]. unfold child0 at 1.
  destruct (tchild V n0 s c); [apply IH|reflexivity].
Qed.

Lemma inT0_iff w : inT0 w = true <-> exists t, N0 w t.
Proof.
  unfold Cert.inT, N0. rewrite walk0. destruct (twalk V n0 ROOT w) as [t|]; cbn; split; try discriminate; eauto.
  intros [t H]. discriminate.
Qed.

Lemma lsuf0_node w : exists t, N0 (lsuf0 w) t.
Proof. apply inT0_iff. apply lsuf_inT. Qed.

Lemma lsuf0_len w : (length (lsuf0 w) <= length w)%nat.
Proof. destruct (lsuf_suffix child0 w) as [p Hp]. rewrite Hp at 2. rewrite app_length. lia. Qed.

(* the string of a state *)
Definition strof (t : N) : list N := if t <? 2 then [] else nth (N.to_nat (t - 2)) paths [].
Definition dep (t : N) : nat := length (strof t).

Lemma N0_strof w t : N0 w t -> strof t = w.
Proof.
  intros H. destruct (ti_bwd _ _ _ _ _ _ T0 w t H) as [[-> ->]|[H2 Hn]]; [reflexivity|].
  unfold strof. destruct (t <? 2) eqn:E; [lia|]. apply nth_error_nth. exact Hn.
Qed.

Lemma N0_root w : N0 w ROOT -> w = [].
Proof. intros H. destruct (ti_bwd _ _ _ _ _ _ T0 w _ H) as [[-> _]|[H2 _]]; [reflexivity|unfold ROOT in H2; lia]. Qed.

Lemma N0_lt w t : N0 w t -> t < n_nstates n0.
Proof. exact (ti_lt _ _ lb_pos _ _ _ _ _ _ T0). Qed.

Lemma N0_inj w1 w2 t : N0 w1 t -> N0 w2 t -> w1 = w2.
Proof. exact (ti_inj _ _ lb_pos _ _ _ _ _ _ _ T0). Qed.

Lemma N0_snoc w c t : N0 (w ++ [c]) t <-> exists s, N0 w s /\ tchild V n0 s c = Some t.
Proof.
  unfold N0. rewrite twalk_snoc. destruct (twalk V n0 ROOT w) as [s|]; split.
  - intros H. exists s. auto.
  - intros [s' [E H]]. inversion E; subst. exact H.
  - discriminate.
  - intros [s' [E _]]. discriminate.
Qed.

(* depth bound: a node's string is no longer than the number of non-root states *)
Lemma firstn_prefix_node w t k : N0 w t -> exists t', N0 (firstn k w) t'.
Proof.
  intros H. apply inT0_iff. apply (inT_app_l child0 (firstn k w) (skipn k w)). rewrite firstn_skipn. apply inT0_iff. eauto.
Qed.

Lemma dep_bound w t : N0 w t -> (length w <= length paths)%nat.
Proof.
  intros H.
  set (pre := map (fun k => firstn k w) (seq 1 (length w))).
  assert (Hl : length pre = length w) by (unfold pre; rewrite map_length, seq_length; reflexivity).
  rewrite <- Hl. apply NoDup_incl_length.
  - unfold pre. apply nodup_map_in; [|apply seq_NoDup].
    intros a b Ha Hb E. apply in_seq in Ha, Hb. apply (f_equal (@length N)) in E. rewrite !firstn_length in E. lia.
  - intros u Hu. unfold pre in Hu. apply in_map_iff in Hu as [k [<- Hk]]. apply in_seq in Hk.
    destruct (firstn_prefix_node w t k H) as [t' Ht']. apply (ti_in_paths _ _ _ _ _ _ _ _ T0 Ht').
    intros E. apply (f_equal (@length N)) in E. rewrite firstn_length in E. cbn in E. lia.
Qed.

(* ---- intermediate automata: only fail links differ from n0 --------------------------------- *)
Definition same_trie (n : nfa V) : Prop :=
  n_nstates n = n_nstates n0 /\ n_kind n = n_kind n0 /\ n_outputs n = n_outputs n0 /\
  forall i, match nget i (n_states n), nget i (n_states n0) with
            | Some st, Some st0 => n_edges st = n_edges st0 /\ n_output st = n_output st0 /\ n_outpos st = n_outpos st0
            | None, None => True
            | _, _ => False
            end.

Definition failof (n : nfa V) (t : N) : N :=
  match nget t (n_states n) with Some st => n_fail st | None => ROOT end.

Lemma same_trie_refl : same_trie n0.
Proof. unfold same_trie. repeat split; try reflexivity. intros i. destruct (nget i (n_states n0)); auto. Qed.

Lemma same_trie_tchild n : same_trie n -> forall s c, tchild V n s c = tchild V n0 s c.
Proof.
  intros (_ & _ & _ & H) s c. unfold tchild. specialize (H s).
  destruct (nget s (n_states n)), (nget s (n_states n0)); try contradiction; [|reflexivity]. destruct H as [-> _]. reflexivity.
Qed.

Lemma same_trie_get n i : same_trie n -> i < n_nstates n0 ->
  exists st st0, nfa_get V n i = Ok st /\ nget i (n_states n) = Some st /\ nget i (n_states n0) = Some st0
                 /\ n_edges st = n_edges st0 /\ n_output st = n_output st0 /\ n_outpos st = n_outpos st0.
Proof.
  intros (Hn & _ & _ & H) Hi. specialize (H i). destruct (ti_wf _ _ _ _ _ _ T0 i Hi) as [st0 Hst0]. rewrite Hst0 in H.
  destruct (nget i (n_states n)) as [st|] eqn:E; [|contradiction]. exists st, st0.
  unfold nfa_get. rewrite Hn. apply N.ltb_lt in Hi. rewrite Hi, E. repeat split; try reflexivity; try exact Hst0; apply H.
Qed.

Lemma same_trie_set_fail n i f n' : same_trie n -> set_fail V n i f = Ok n' ->
  same_trie n' /\ failof n' i = f /\ forall t, t <> i -> failof n' t = failof n t.
Proof.
  intros ST H. unfold set_fail in H. bstep H. inversion H; subst n'; clear H.
  assert (Hg : nget i (n_states n) = Some a).
  { unfold nfa_get in E. destruct (i <? n_nstates n); [|discriminate]. destruct (nget i (n_states n)); [inversion E; reflexivity|discriminate]. }
  destruct ST as (S1 & S2 & S3 & S4). split; [|split].
  - unfold same_trie, nfa_set. cbn [n_nstates n_kind n_outputs n_states]. repeat split; try assumption.
    intros j. destruct (N.eq_dec j i) as [->|Hne].
    + rewrite ngss. specialize (S4 i). rewrite Hg in S4. destruct (nget i (n_states n0)); [|contradiction]. cbn. exact S4.
    + rewrite ngso by exact Hne. exact (S4 j).
  - unfold failof, nfa_set. cbn [n_states]. rewrite ngss. reflexivity.
  - intros t Ht. unfold failof, nfa_set. cbn [n_states]. rewrite ngso by exact Ht. reflexivity.
Qed.

(* ---- the inner loop ------------------------------------------------------------------------ *)
Definition FailOK (n : nfa V) (t : N) : Prop := forall w, N0 w t -> N0 (lsuf0 (tl w)) (failof n t).

Lemma child_id_ok n s : same_trie n -> s < n_nstates n0 -> forall c, child_id V n s c = Ok (tchild V n0 s c).
Proof.
  intros ST Hs c. unfold child_id. destruct (same_trie_get n s ST Hs) as (st & st0 & Hg & H1 & H2 & He & _).
  rewrite Hg. cbn [bind]. unfold tchild. rewrite H2, He. reflexivity.
Qed.

Lemma lsuf0_single_nonnode c : tchild V n0 ROOT c = None -> lsuf0 [c] = [].
Proof.
  intros H. rewrite lsuf_cons. assert (inT0 [c] = false) as ->; [|apply lsuf_nil].
  destruct (inT0 [c]) eqn:E; [|reflexivity]. apply inT0_iff in E as [t Ht]. unfold N0 in Ht. cbn in Ht. rewrite H in Ht. discriminate.
Qed.

Lemma fail_loop_ok n c : same_trie n -> forall fuel u f, N0 u f -> (length u < fuel)%nat ->
  (forall v t, N0 v t -> (length v <= length u)%nat -> FailOK n t) ->
  exists r, fail_loop V fuel n f c = Ok r /\ N0 (lsuf0 (u ++ [c])) r.
Proof.
  intros ST. induction fuel as [|fuel IH]; intros u f Hu Hf Hall; [lia|]. cbn [fail_loop].
  rewrite (child_id_ok n f ST (N0_lt _ _ Hu)). cbn [bind].
  destruct (tchild V n0 f c) as [t|] eqn:Ec.
  - exists t. split; [reflexivity|]. assert (Hn : N0 (u ++ [c]) t) by (apply N0_snoc; eauto).
    rewrite lsuf_of_node; [exact Hn|]. apply inT0_iff. eauto.
  - destruct (same_trie_get n f ST (N0_lt _ _ Hu)) as (st & st0 & Hg & H1 & _). rewrite Hg. cbn [bind].
    assert (Hnext : n_fail st = failof n f) by (unfold failof; rewrite H1; reflexivity).
    pose proof (Hall u f Hu (Nat.le_refl _) u Hu) as Hfo. rewrite <- Hnext in Hfo.
    destruct (N.eq_dec f ROOT) as [->|Hne].
    + apply N0_root in Hu. subst u. cbn [tl app] in *. rewrite lsuf_nil in Hfo. unfold N0 in Hfo. cbn in Hfo. inversion Hfo as [Hr].
      rewrite !N.eqb_refl. cbn [andb]. exists ROOT. split; [reflexivity|].
      rewrite (lsuf0_single_nonnode c Ec). reflexivity.
    + assert ((f =? ROOT) = false) as -> by (apply N.eqb_neq; exact Hne). cbn [andb].
      destruct u as [|a u]; [unfold N0 in Hu; cbn in Hu; inversion Hu; congruence|]. cbn [tl] in Hfo.
      destruct (IH (lsuf0 u) (n_fail st) Hfo) as [r [Hr1 Hr2]].
      * pose proof (lsuf0_len u). cbn [length] in Hf. lia.
      * intros v t Hv Hl. apply (Hall v t Hv). pose proof (lsuf0_len u). cbn [length]. lia.
      * exists r. split; [exact Hr1|].
        assert (Hnn : inT0 ((a :: u) ++ [c]) = false).
        { destruct (inT0 ((a :: u) ++ [c])) eqn:E; [|reflexivity]. apply inT0_iff in E as [t Ht].
          apply N0_snoc in Ht as [s [Hs Hc]].
          assert (s = f) by (unfold N0 in *; congruence). subst s. congruence. }
        cbn [app]. rewrite lsuf_cons. cbn [app] in Hnn. rewrite Hnn. rewrite lsuf_snoc. exact Hr2.
Qed.

(* ---- the for-loop over the edges of one state ------------------------------------------------ *)
Lemma set_fail_ok n i f : same_trie n -> i < n_nstates n0 -> exists n', set_fail V n i f = Ok n'.
Proof.
  intros ST Hi. destruct (same_trie_get n i ST Hi) as (st & st0 & Hg & _). unfold set_fail. rewrite Hg. cbn [bind]. eauto.
Qed.

Lemma FailOK_ext n n' t : failof n' t = failof n t -> FailOK n t -> FailOK n' t.
Proof. intros E H w Hw. rewrite E. exact (H w Hw). Qed.

Lemma nstates_gt_paths : N.of_nat (length paths) < n_nstates n0.
Proof. pose proof (ti_cnt _ _ _ _ _ _ T0). lia. Qed.

Lemma fails_edges_ok w sid sfail : N0 w sid -> w <> [] -> N0 (lsuf0 (tl w)) sfail ->
  forall es n acc, same_trie n ->
  (forall c ch, In (c, ch) es -> tchild V n0 sid c = Some ch) -> NoDup (map fst es) ->
  (forall v t, N0 v t -> (length v < length w)%nat -> FailOK n t) ->
  exists n', fails_edges V n sid sfail es acc = Ok (n', acc ++ map snd es) /\ same_trie n'
    /\ (forall c ch, In (c, ch) es -> FailOK n' ch)
    /\ (forall t, ~ In t (map snd es) -> failof n' t = failof n t).
Proof.
  intros Hw Hne Hsf. induction es as [|[c ch] es IH]; intros n acc ST Hes Hnd Hall; cbn [fails_edges map snd].
  - exists n. rewrite app_nil_r. split; [reflexivity|]. split; [exact ST|]. split; [intros c ch []|reflexivity].
  - assert (Hch : N0 (w ++ [c]) ch) by (apply N0_snoc; exists sid; split; [exact Hw|apply Hes; left; reflexivity]).
    assert (Hlen : (length (lsuf0 (tl w)) < length w)%nat).
    { pose proof (lsuf0_len (tl w)). destruct w; [congruence|cbn [tl length] in *; lia]. }
    destruct (fail_loop_ok n c ST (S (N.to_nat (n_nstates n0))) (lsuf0 (tl w)) sfail Hsf) as [nf [Hfl Hnf]].
    { pose proof (dep_bound w sid Hw). pose proof nstates_gt_paths. lia. }
    { intros v t Hv Hl. apply (Hall v t Hv). lia. }
    assert (Hns : n_nstates n = n_nstates n0) by (destruct ST; assumption). rewrite Hns, Hfl. cbn [bind].
    assert (ch <> sid).
    { intros ->. pose proof (N0_inj _ _ _ Hch Hw) as E. apply (f_equal (@length N)) in E. rewrite app_length in E. cbn in E. lia. }
    assert ((ch =? sid) = false) as -> by (apply N.eqb_neq; assumption).
    destruct (set_fail_ok n ch nf ST (N0_lt _ _ Hch)) as [n1 Hs1]. rewrite Hs1. cbn [bind].
    destruct (same_trie_set_fail n ch nf n1 ST Hs1) as (ST1 & Hf1 & Hf1o).
    cbn [map fst] in Hnd. apply NoDup_cons_iff in Hnd as [Hnot Hnd'].
    destruct (IH n1 (acc ++ [ch]) ST1 (fun c0 ch0 H0 => Hes c0 ch0 (or_intror H0)) Hnd') as (n2 & H2a & ST2 & H2b & H2c).
    { intros v t Hv Hl. apply (FailOK_ext n n1 t); [|exact (Hall v t Hv Hl)]. apply Hf1o. intros ->.
      pose proof (N0_inj _ _ _ Hv Hch) as E. apply (f_equal (@length N)) in E. rewrite app_length in E. cbn in E. lia. }
    exists n2. rewrite <- app_assoc in H2a. split; [exact H2a|]. split; [exact ST2|]. split.
    + intros c0 ch0 [E|Hin]; [|exact (H2b c0 ch0 Hin)]. inversion E; subst c0 ch0.
      assert (Hnin : ~ In ch (map snd es)).
      { intros Hin. apply in_map_iff in Hin as [[c1 ch1] [E1 Hin1]]. cbn [snd] in E1. subst ch1.
        assert (Hch1 : N0 (w ++ [c1]) ch) by (apply N0_snoc; exists sid; split; [exact Hw|apply Hes; right; exact Hin1]).
        pose proof (N0_inj _ _ _ Hch Hch1) as E2. apply app_inj_tail in E2 as [_ E2]. subst c1.
        apply Hnot. apply in_map_iff. exists (c, ch). auto. }
      intros w' Hw'. rewrite (H2c ch Hnin), Hf1. rewrite (N0_inj _ _ _ Hw' Hch).
      replace (tl (w ++ [c])) with (tl w ++ [c]) by (destruct w; [congruence|reflexivity]).
      rewrite lsuf_snoc. exact Hnf.
    + intros t Ht. cbn [In] in Ht. rewrite (H2c t ltac:(tauto)). apply Hf1o. intros ->. apply Ht. left. reflexivity.
Qed.

(* ---- the queue ----------------------------------------------------------------------------------- *)
Record QI (n : nfa V) (pending done : list N) : Prop := {
  qi_st : same_trie n;
  qi_node : forall t, In t (rev done ++ pending) -> exists w, w <> [] /\ N0 w t;
  qi_sort : StronglySorted (fun a b => (dep a <= dep b)%nat) (rev done ++ pending);
  qi_closed : forall t, t = ROOT \/ In t done -> forall c t', tchild V n0 t c = Some t' -> In t' (rev done ++ pending);
  qi_parent : forall t, In t (rev done ++ pending) -> exists w c p, N0 w p /\ N0 (w ++ [c]) t /\ (p = ROOT \/ In p done);
  qi_nodup : NoDup (rev done ++ pending);
  qi_fail : forall t, t = ROOT \/ In t (rev done ++ pending) -> FailOK n t
}.

Lemma dep_N0 w t : N0 w t -> dep t = length w.
Proof. intros H. unfold dep. rewrite (N0_strof w t H). reflexivity. Qed.

Lemma shallow_done n sid p' done : QI n (sid :: p') done ->
  forall v t, N0 v t -> (length v < dep sid)%nat -> t = ROOT \/ In t done.
Proof.
  intros Q. induction v as [|c v IH] using rev_ind; intros t Hv Hl.
  - left. unfold N0 in Hv. cbn in Hv. inversion Hv. reflexivity.
  - apply N0_snoc in Hv as Hv'. destruct Hv' as [s [Hs Hc]]. rewrite app_length in Hl. cbn [length] in Hl.
    assert (Hsd : s = ROOT \/ In s done) by (apply (IH s Hs); lia).
    pose proof (qi_closed _ _ _ Q s Hsd c t Hc) as Hin. apply in_app_iff in Hin as [Hin|Hin].
    + right. apply in_rev. exact Hin.
    + exfalso. pose proof (qi_sort _ _ _ Q) as Hso. apply ssorted_app_iff in Hso as (_ & Hso & _).
      inversion Hso as [|? ? _ Hf]; subst. rewrite Forall_forall in Hf.
      pose proof (dep_N0 _ _ Hv) as Hd. rewrite app_length in Hd. cbn [length] in Hd.
      destruct Hin as [<-|Hin]; [lia|]. specialize (Hf t Hin). lia.
Qed.

Lemma q_len n pending done : QI n pending done -> (length (rev done ++ pending) <= length paths)%nat.
Proof.
  intros Q. rewrite <- (map_length strof). apply NoDup_incl_length.
  - apply nodup_map_in; [|exact (qi_nodup _ _ _ Q)]. intros a b Ha Hb E.
    destruct (qi_node _ _ _ Q a Ha) as (wa & _ & Hwa). destruct (qi_node _ _ _ Q b Hb) as (wb & _ & Hwb).
    rewrite (N0_strof _ _ Hwa), (N0_strof _ _ Hwb) in E. subst wb. unfold N0 in *. congruence.
  - intros u Hu. apply in_map_iff in Hu as [t [<- Ht]]. destruct (qi_node _ _ _ Q t Ht) as (w & Hne & Hw).
    rewrite (N0_strof _ _ Hw). exact (ti_in_paths _ _ _ _ _ _ _ _ T0 Hw Hne).
Qed.

Lemma QI_step n sid p' done n' : QI n (sid :: p') done ->
  forall st0, nget sid (n_states n0) = Some st0 ->
  same_trie n' ->
  (forall c ch, In (c, ch) (n_edges st0) -> FailOK n' ch) ->
  (forall t, ~ In t (map snd (n_edges st0)) -> failof n' t = failof n t) ->
  QI n' (p' ++ map snd (n_edges st0)) (sid :: done).
Proof.
  intros Q st0 Hst0 ST' Hnew Hold.
  set (news := map snd (n_edges st0)).
  assert (Hq : rev (sid :: done) ++ p' ++ news = (rev done ++ sid :: p') ++ news).
  { cbn [rev]. rewrite <- !app_assoc. reflexivity. }
  destruct (qi_node _ _ _ Q sid ltac:(apply in_app_iff; right; left; reflexivity)) as (w & Hwne & Hw).
  assert (Hedge : forall c ch, In (c, ch) (n_edges st0) <-> tchild V n0 sid c = Some ch).
  { intros c ch. unfold tchild. rewrite Hst0. split; [apply edge_get_of_in; exact (EK0 sid st0 Hst0)|apply edge_get_in]. }
  assert (Hnews : forall t, In t news <-> exists c, N0 (w ++ [c]) t).
  { intros t. unfold news. rewrite in_map_iff. split.
    - intros [[c ch] [E Hin]]. cbn [snd] in E. subst ch. exists c. apply N0_snoc. exists sid. split; [exact Hw|apply Hedge; exact Hin].
    - intros [c Hc]. apply N0_snoc in Hc as [s [Hs Hc]]. assert (s = sid) by (unfold N0 in *; congruence). subst s.
      exists (c, t). split; [reflexivity|apply Hedge; exact Hc]. }
  assert (Hdisj : forall t, In t news -> ~ In t (rev done ++ sid :: p')).
  { intros t Ht Hin. apply Hnews in Ht as [c Hc].
    destruct (qi_parent _ _ _ Q t Hin) as (w1 & c1 & p & Hp & Ht1 & Hpd).
    pose proof (N0_inj _ _ _ Hc Ht1) as E. apply app_inj_tail in E as [E _]. subst w1.
    assert (p = sid) by (unfold N0 in *; congruence). subst p.
    destruct Hpd as [Hr|Hd]; [subst sid; apply N0_root in Hw; congruence|].
    pose proof (qi_nodup _ _ _ Q) as Hnd. apply NoDup_remove_2 in Hnd. apply Hnd. apply in_app_iff. left. apply in_rev in Hd. exact Hd. }
  constructor.
  - exact ST'.
  - intros t Ht. rewrite Hq in Ht. apply in_app_iff in Ht as [Ht|Ht]; [exact (qi_node _ _ _ Q t Ht)|].
    apply Hnews in Ht as [c Hc]. exists (w ++ [c]). split; [intros E; apply app_eq_nil in E as [_ E]; discriminate|exact Hc].
  - rewrite Hq. apply ssorted_app_iff. split; [exact (qi_sort _ _ _ Q)|]. split.
    + assert (forall l, (forall t, In t l -> dep t = S (length w)) -> StronglySorted (fun a b => (dep a <= dep b)%nat) l) as Hss.
      { induction l as [|a l IHl]; intros Hl; constructor.
        - apply IHl. intros t Ht. apply Hl. right. exact Ht.
        - apply Forall_forall. intros t Ht. rewrite (Hl a (or_introl eq_refl)), (Hl t (or_intror Ht)). lia. }
      apply Hss. intros t Ht. apply Hnews in Ht as [c Hc]. rewrite (dep_N0 _ _ Hc), app_length. cbn. lia.
    + intros x y Hx Hy. apply Hnews in Hy as [c Hc]. rewrite (dep_N0 _ _ Hc), app_length. cbn [length].
      destruct (qi_parent _ _ _ Q x Hx) as (w1 & c1 & p & Hp & Hx1 & Hpd). rewrite (dep_N0 _ _ Hx1), app_length. cbn [length].
      assert (length w1 <= length w)%nat; [|lia].
      destruct Hpd as [->|Hd]; [apply N0_root in Hp; subst; cbn; lia|].
      pose proof (qi_sort _ _ _ Q) as Hso. apply ssorted_app_iff in Hso as (_ & _ & Hso).
      specialize (Hso p sid ltac:(apply in_rev in Hd; exact Hd) (or_introl eq_refl)).
      rewrite (dep_N0 _ _ Hp), (dep_N0 _ _ Hw) in Hso. exact Hso.
  - intros t Ht c t' Hc. rewrite Hq. apply in_app_iff. destruct Ht as [->|[<-|Hd]].
    + left. exact (qi_closed _ _ _ Q ROOT (or_introl eq_refl) c t' Hc).
    + right. apply Hnews. exists c. apply N0_snoc. eauto.
    + left. exact (qi_closed _ _ _ Q t (or_intror Hd) c t' Hc).
  - intros t Ht. rewrite Hq in Ht. apply in_app_iff in Ht as [Ht|Ht].
    + destruct (qi_parent _ _ _ Q t Ht) as (w1 & c1 & p & Hp & Ht1 & Hpd). exists w1, c1, p. split; [exact Hp|]. split; [exact Ht1|].
      destruct Hpd; [left; assumption|right; right; assumption].
    + apply Hnews in Ht as [c Hc]. exists w, c, sid. split; [exact Hw|]. split; [exact Hc|right; left; reflexivity].
  - rewrite Hq. apply nodup_app_intro. split; [exact (qi_nodup _ _ _ Q)|]. split.
    + unfold news. apply nodup_map_in.
      * intros [c1 t1] [c2 t2] H1 H2 E. cbn [snd] in E. subst t2. f_equal.
        apply Hedge in H1, H2.
        assert (A1 : N0 (w ++ [c1]) t1) by (apply N0_snoc; eauto). assert (A2 : N0 (w ++ [c2]) t1) by (apply N0_snoc; eauto).
        pose proof (N0_inj _ _ _ A1 A2) as E. apply app_inj_tail in E as [_ E]. exact E.
      * pose proof (EK0 sid st0 Hst0) as Hk. apply NoDup_map_inv in Hk. exact Hk.
    + intros x Hx Hy. exact (Hdisj x Hy Hx).
  - intros t Ht. rewrite Hq in Ht.
    assert (Hcase : In t news \/ (~ In t news /\ (t = ROOT \/ In t (rev done ++ sid :: p')))).
    { destruct (in_dec N.eq_dec t news) as [Hi|Hi]; [left; exact Hi|right]. split; [exact Hi|].
      destruct Ht as [->|Ht]; [left; reflexivity|]. apply in_app_iff in Ht as [Ht|Ht]; [right; exact Ht|contradiction]. }
    destruct Hcase as [Hi|[Hi Ho]].
    + unfold news in Hi. apply in_map_iff in Hi as [[c ch] [E Hin]]. cbn [snd] in E. subst ch. exact (Hnew c t Hin).
    + apply (FailOK_ext n n' t (Hold t Hi)). exact (qi_fail _ _ _ Q t Ho).
Qed.

Lemma fails_bfs_ok : forall fuel n pending done, QI n pending done ->
  (length paths + 1 <= length done + fuel)%nat ->
  exists n' done', fails_bfs V fuel n pending done = Ok (n', rev done') /\ QI n' [] done'.
Proof.
  induction fuel as [|fuel IH]; intros n pending done Q Hf; destruct pending as [|sid p'];
    try (cbn [fails_bfs]; exists n, done; split; [reflexivity|exact Q]).
  - exfalso. pose proof (q_len _ _ _ Q) as Hl. rewrite app_length, rev_length in Hl. cbn [length] in Hl. lia.
  - cbn [fails_bfs].
    destruct (qi_node _ _ _ Q sid ltac:(apply in_app_iff; right; left; reflexivity)) as (w & Hwne & Hw).
    pose proof (qi_st _ _ _ Q) as ST.
    destruct (same_trie_get n sid ST (N0_lt _ _ Hw)) as (st & st0 & Hg & H1 & H2 & He & _). rewrite Hg. cbn [bind].
    assert (Hsf : N0 (lsuf0 (tl w)) (n_fail st)).
    { pose proof (qi_fail _ _ _ Q sid ltac:(right; apply in_app_iff; right; left; reflexivity) w Hw) as Hx.
      unfold failof in Hx. rewrite H1 in Hx. exact Hx. }
    assert (Hes : forall c ch, In (c, ch) (n_edges st0) -> tchild V n0 sid c = Some ch).
    { intros c ch Hin. unfold tchild. rewrite H2. apply edge_get_of_in; [exact (EK0 sid st0 H2)|exact Hin]. }
    assert (Hall : forall v t, N0 v t -> (length v < length w)%nat -> FailOK n t).
    { intros v t Hv Hl. apply (qi_fail _ _ _ Q). rewrite <- (dep_N0 _ _ Hw) in Hl.
      destruct (shallow_done n sid p' done Q v t Hv Hl) as [->|Hd]; [left; reflexivity|right].
      apply in_app_iff. left. apply in_rev in Hd. exact Hd. }
    destruct (fails_edges_ok w sid (n_fail st) Hw Hwne Hsf (n_edges st0) n [] ST Hes (EK0 sid st0 H2) Hall) as (n1 & F1 & ST1 & F2 & F3).
    rewrite He, F1. cbn [bind app].
    apply (IH n1 (p' ++ map snd (n_edges st0)) (sid :: done)).
    + exact (QI_step n sid p' done n1 Q st0 H2 ST1 F2 F3).
    + cbn [length]. lia.
Qed.

(* ---- build_fails --------------------------------------------------------------------------------- *)
Hypothesis F0 : forall i st, nget i (n_states n0) = Some st -> n_fail st = ROOT.

Theorem build_fails_ok :
  exists n1 q, build_fails V n0 = Ok (n1, q) /\ same_trie n1
    /\ (forall w t, N0 w t -> N0 (lsuf0 (tl w)) (failof n1 t))
    /\ NoDup q /\ StronglySorted (fun a b => (dep a <= dep b)%nat) q
    /\ (forall t, In t q <-> exists w, w <> [] /\ N0 w t).
Proof.
  unfold build_fails.
  assert (Hr : N0 [] ROOT) by reflexivity.
  destruct (same_trie_get n0 ROOT same_trie_refl (N0_lt _ _ Hr)) as (st & st0 & Hg & H1 & H2 & _). rewrite Hg. cbn [bind].
  assert (st0 = st) by congruence. subst st0.
  assert (Hedge : forall c ch, In (c, ch) (n_edges st) <-> tchild V n0 ROOT c = Some ch).
  { intros c ch. unfold tchild. rewrite H1. split; [apply edge_get_of_in; exact (EK0 ROOT st H1)|apply edge_get_in]. }
  assert (Hfail0 : forall t, failof n0 t = ROOT).
  { intros t. unfold failof. destruct (nget t (n_states n0)) eqn:E; [exact (F0 t n E)|reflexivity]. }
  assert (Hq0 : forall t, In t (map snd (n_edges st)) <-> exists c, N0 [c] t).
  { intros t. rewrite in_map_iff. split.
    - intros [[c ch] [E Hin]]. cbn [snd] in E. subst ch. exists c. apply Hedge in Hin. unfold N0. cbn [twalk]. rewrite Hin. reflexivity.
    - intros [c Hc]. unfold N0 in Hc. cbn [twalk] in Hc. destruct (tchild V n0 ROOT c) as [t'|] eqn:Et; [|discriminate]. inversion Hc; subst t'.
      exists (c, t). split; [reflexivity|apply Hedge; exact Et]. }
  assert (Q0 : QI n0 (map snd (n_edges st)) []).
  { constructor; cbn [rev app].
    - exact same_trie_refl.
    - intros t Ht. apply Hq0 in Ht as [c Hc]. exists [c]. split; [discriminate|exact Hc].
    - assert (forall l, (forall t, In t l -> dep t = 1%nat) -> StronglySorted (fun a b => (dep a <= dep b)%nat) l) as Hss.
      { induction l as [|a l IHl]; intros Hl; constructor.
        - apply IHl. intros t Ht. apply Hl. right. exact Ht.
        - apply Forall_forall. intros t Ht. rewrite (Hl a (or_introl eq_refl)), (Hl t (or_intror Ht)). lia. }
      apply Hss. intros t Ht. apply Hq0 in Ht as [c Hc]. rewrite (dep_N0 _ _ Hc). reflexivity.
    - intros t [->|[]] c t' Hc. apply Hq0. exists c. unfold N0. cbn [twalk]. rewrite Hc. reflexivity.
    - intros t Ht. apply Hq0 in Ht as [c Hc]. exists [], c, ROOT. split; [exact Hr|]. split; [exact Hc|left; reflexivity].
    - apply nodup_map_in; [|pose proof (EK0 ROOT st H1) as Hk; apply NoDup_map_inv in Hk; exact Hk].
      intros [c1 t1] [c2 t2] A1 A2 E. cbn [snd] in E. subst t2. f_equal. apply Hedge in A1, A2.
      assert (B1 : N0 [c1] t1) by (unfold N0; cbn [twalk]; rewrite A1; reflexivity).
      assert (B2 : N0 [c2] t1) by (unfold N0; cbn [twalk]; rewrite A2; reflexivity).
      pose proof (N0_inj _ _ _ B1 B2) as E. inversion E. reflexivity.
    - intros t Ht w Hw. rewrite Hfail0. destruct Ht as [->|Ht].
      + apply N0_root in Hw. subst w. cbn [tl]. rewrite lsuf_nil. exact Hr.
      + apply Hq0 in Ht as [c Hc]. rewrite (N0_inj _ _ _ Hw Hc). cbn [tl]. rewrite lsuf_nil. exact Hr. }
  destruct (fails_bfs_ok (S (N.to_nat (n_nstates n0))) n0 _ [] Q0) as (n1 & done' & Hb & Q1).
  { pose proof nstates_gt_paths. cbn [length]. lia. }
  exists n1, (rev done'). split; [exact Hb|]. split; [exact (qi_st _ _ _ Q1)|].
  assert (Hall : forall w t, N0 w t -> t = ROOT \/ In t done').
  { induction w as [|c w IHw] using rev_ind; intros t Hw.
    - left. unfold N0 in Hw. cbn in Hw. inversion Hw. reflexivity.
    - right. apply N0_snoc in Hw as [s [Hs Hc]]. pose proof (qi_closed _ _ _ Q1 s (IHw s Hs) c t Hc) as Hin.
      rewrite app_nil_r in Hin. apply in_rev in Hin. exact Hin. }
  split; [|split; [|split]].
  - intros w t Hw. apply (qi_fail _ _ _ Q1); [|exact Hw]. rewrite app_nil_r.
    destruct (Hall w t Hw) as [->|Hd]; [left; reflexivity|right; apply in_rev in Hd; exact Hd].
  - pose proof (qi_nodup _ _ _ Q1) as Hn. rewrite app_nil_r in Hn. exact Hn.
  - pose proof (qi_sort _ _ _ Q1) as Hn. rewrite app_nil_r in Hn. exact Hn.
  - intros t. split.
    + intros Ht. apply (qi_node _ _ _ Q1). rewrite app_nil_r. exact Ht.
    + intros (w & Hne & Hw). destruct (Hall w t Hw) as [->|Hd]; [apply N0_root in Hw; congruence|apply in_rev in Hd; exact Hd].
Qed.

(* ---- build_outputs (nfa_builder.rs:209-226) -------------------------------------------------- *)
Notation plen := (TrieInv.plen lbytes).
Notation sufp := (Cert.sufpats V plen outs).
Notation pateq := (Cert.pats_eq V plen outs).
Hypothesis ND0 : NoDup (map fst outs).
Hypothesis LEN0 : N.of_nat (length outs) < U32_MAX.

Lemma pats_nodes0 : forall p v, In (p, v) outs -> inT0 p = true.
Proof.
  intros p v Hin. apply inT0_iff. pose proof (ti_sub _ _ _ _ _ _ T0 p v Hin) as Hp.
  apply In_nth_error in Hp as [i Hi]. eexists. exact (ti_fwd _ _ _ _ _ _ T0 i p Hi).
Qed.

Lemma sufp_cons a r : sufp (a :: r) = pateq (a :: r) ++ sufp r.
Proof.
  unfold Cert.sufpats. cbn [length]. rewrite seq_S. rewrite rev_app_distr. cbn [rev app flat_map].
  replace (1 + length r)%nat with (length (a :: r)) by reflexivity. rewrite lastn_all. f_equal.
  apply flat_map_ext_in'. intros k Hk. apply in_rev in Hk. apply in_seq in Hk.
  change (a :: r) with ([a] ++ r). rewrite lastn_app_r by lia. reflexivity.
Qed.

Lemma pateq_some w v : In (w, v) outs -> pateq w = [(plen w, v)].
Proof.
  intros Hin. unfold Cert.pats_eq. pose proof ND0 as Hnd. revert Hin Hnd. generalize outs as l.
  induction l as [|[p x] l IH]; intros Hin Hnd; [destruct Hin|]. cbn [filter fst map] in *.
  apply NoDup_cons_iff in Hnd as [Hnot Hnd]. destruct Hin as [E|Hin].
  - inversion E; subst p x. assert (list_eqb w w = true) as -> by (apply list_eqb_eq; reflexivity). cbn [map fst snd]. f_equal.
    assert (filter (fun pv : list N * V => list_eqb (fst pv) w) l = []) as ->; [|reflexivity].
    apply filter_nil. intros [q y] Hq. cbn [fst]. destruct (list_eqb q w) eqn:E1; [|reflexivity]. apply list_eqb_eq in E1. subst q.
    exfalso. apply Hnot. apply in_map_iff. exists (w, y). auto.
  - destruct (list_eqb p w) eqn:E1.
    + apply list_eqb_eq in E1. subst p. exfalso. apply Hnot. apply in_map_iff. exists (w, v). auto.
    + exact (IH Hin Hnd).
Qed.

Lemma pateq_none w : (forall v, ~ In (w, v) outs) -> pateq w = [].
Proof.
  intros Hn. unfold Cert.pats_eq. rewrite filter_nil; [reflexivity|]. intros [q y] Hq. cbn [fst].
  destruct (list_eqb q w) eqn:E1; [|reflexivity]. apply list_eqb_eq in E1. subst q. exfalso. exact (Hn y Hq).
Qed.

(* the output chain starting at a position, as a relation (positions strictly decrease) *)
Inductive Chain (tbl : list (output V)) : N -> list (output V) -> Prop :=
| Chain_nil : Chain tbl 0 []
| Chain_cons pos o l : pos <> 0 -> nth_error tbl (N.to_nat (pos - 1)) = Some o -> o_parent o < pos ->
    Chain tbl (o_parent o) l -> Chain tbl pos (o :: l).

Lemma Chain_app tbl x pos l : Chain tbl pos l -> Chain (tbl ++ x) pos l.
Proof.
  induction 1 as [|pos o l Hp Hn Hlt _ IH]; [constructor|]. econstructor; try eassumption.
  rewrite nth_error_app1; [exact Hn|]. apply nth_error_Some. congruence.
Qed.

Definition pairs (l : list (output V)) : list (N * V) := map (fun o => (o_length o, o_value o)) l.
Definition outposof (n : nfa V) (t : N) : N := match nget t (n_states n) with Some st => n_outpos st | None => 0 end.
Definition OutOK (n : nfa V) (t : N) : Prop :=
  forall w, N0 w t -> exists l, Chain (n_outputs n) (outposof n t) l /\ pairs l = sufp w.

(* what outputs_loop leaves alone: everything but output positions and the output table *)
Definition same_links (n1 n : nfa V) : Prop :=
  n_nstates n = n_nstates n1 /\ n_kind n = n_kind n1 /\
  forall i, match nget i (n_states n), nget i (n_states n1) with
            | Some st, Some st1 => n_edges st = n_edges st1 /\ n_output st = n_output st1 /\ n_fail st = n_fail st1
            | None, None => True
            | _, _ => False
            end.

Lemma same_links_refl n : same_links n n.
Proof. unfold same_links. repeat split. intros i. destruct (nget i (n_states n)); auto. Qed.

Section Outs.
Variable n1 : nfa V.
Hypothesis ST1 : same_trie n1.
Hypothesis F1 : forall w t, N0 w t -> N0 (lsuf0 (tl w)) (failof n1 t).

Record OI (n : nfa V) (qd : list N) : Prop := {
  oi_links : same_links n1 n;
  oi_ok : forall t, t = ROOT \/ In t qd -> OutOK n t;
  oi_root : outposof n ROOT = 0;
  oi_cnt : exists pushed : list (list N), length pushed = length (n_outputs n) /\ NoDup pushed /\ incl pushed (map fst outs)
             /\ forall p, In p pushed -> exists t, In t qd /\ N0 p t
}.

Lemma same_links_get n i : same_links n1 n -> i < n_nstates n0 ->
  exists st st0, nfa_get V n i = Ok st /\ nget i (n_states n) = Some st /\ nget i (n_states n0) = Some st0
     /\ n_output st = n_output st0 /\ n_fail st = failof n1 i.
Proof.
  intros (Hn & _ & H) Hi. destruct (same_trie_get n1 i ST1 Hi) as (s1 & s0 & _ & G1 & G0 & _ & Ho & _).
  specialize (H i). rewrite G1 in H. destruct (nget i (n_states n)) as [st|] eqn:E; [|contradiction].
  exists st, s0. unfold nfa_get. destruct ST1 as (Hn1 & _). rewrite Hn, Hn1. apply N.ltb_lt in Hi. rewrite Hi, E.
  repeat split; try reflexivity; try assumption; [destruct H as (_ & -> & _); exact Ho|].
  unfold failof. rewrite G1. apply H.
Qed.

Lemma outputs_loop_ok : forall q n qd, OI n qd ->
  NoDup (qd ++ q) -> StronglySorted (fun a b => (dep a <= dep b)%nat) (qd ++ q) ->
  (forall t, In t (qd ++ q) <-> exists w, w <> [] /\ N0 w t) ->
  exists n', outputs_loop V n q = Ok n' /\ OI n' (qd ++ q).
Proof.
  induction q as [|sid q IH]; intros n qd OIn Hnd Hso Hmem; cbn [outputs_loop].
  - exists n. rewrite app_nil_r. auto.
  - assert (Hsid : In sid (qd ++ sid :: q)) by (apply in_app_iff; right; left; reflexivity).
    destruct (proj1 (Hmem sid) Hsid) as (w & Hwne & Hw).
    pose proof (oi_links _ _ OIn) as SL.
    destruct (same_links_get n sid SL (N0_lt _ _ Hw)) as (st & st0 & Hg & G1 & G0 & Ho & Hf). rewrite Hg. cbn [bind].
    pose proof (F1 w sid Hw) as Hfw. rewrite <- Hf in Hfw.
    (* the fail target is the root or was processed earlier *)
    assert (Hfd : n_fail st = ROOT \/ In (n_fail st) qd).
    { destruct (N.eq_dec (n_fail st) ROOT) as [E|Hne]; [left; exact E|right].
      assert (Hin : In (n_fail st) (qd ++ sid :: q)).
      { apply Hmem. exists (lsuf0 (tl w)). split; [|exact Hfw]. intros E. rewrite E in Hfw. unfold N0 in Hfw. cbn in Hfw. congruence. }
      assert (Hdl : (dep (n_fail st) < dep sid)%nat).
      { rewrite (dep_N0 _ _ Hfw), (dep_N0 _ _ Hw). pose proof (lsuf0_len (tl w)). destruct w; [congruence|cbn [tl length] in *; lia]. }
      apply in_app_iff in Hin as [Hin|Hin]; [exact Hin|exfalso].
      apply ssorted_app_iff in Hso as (_ & Hso & _). inversion Hso as [|? ? _ Hfa]; subst. rewrite Forall_forall in Hfa.
      destruct Hin as [E|Hin]; [rewrite E in Hdl; lia|]. specialize (Hfa _ Hin). lia. }
    assert ((n_fail st =? sid) = false) as ->.
    { apply N.eqb_neq. intros E. destruct Hfd as [Hr|Hd]; [rewrite E in Hr; subst sid; apply N0_root in Hw; congruence|].
      rewrite E in Hd. apply NoDup_remove_2 in Hnd. apply Hnd. apply in_app_iff. left. exact Hd. }
    destruct (lsuf0_node (tl w)) as [tf Htf]. assert (tf = n_fail st) by (unfold N0 in *; congruence). subst tf.
    destruct (same_links_get n (n_fail st) SL (N0_lt _ _ Hfw)) as (fs & fs0 & Hgf & G1f & _). rewrite Hgf. cbn [bind].
    destruct (oi_ok _ _ OIn (n_fail st) Hfd _ Hfw) as (lf & Hcf & Hpf).
    assert (Hopf : outposof n (n_fail st) = n_outpos fs) by (unfold outposof; rewrite G1f; reflexivity).
    rewrite Hopf in Hcf.
    assert (Hsw : sufp w = pateq w ++ sufp (lsuf0 (tl w))).
    { destruct w as [|a r]; [congruence|]. rewrite sufp_cons. cbn [tl]. f_equal. apply (sufpats_lsuf V child0 plen outs pats_nodes0). }
    pose proof (ti_out _ _ _ _ _ _ T0 w sid st0 Hw G0) as Hto. rewrite <- Ho in Hto.
    replace (qd ++ sid :: q) with ((qd ++ [sid]) ++ q) in * by (rewrite <- app_assoc; reflexivity).
    destruct (oi_cnt _ _ OIn) as (pushed & Hpl & Hpn & Hpi & Hpq).
    destruct (n_output st) as [[v len]|] eqn:Eo.
    + destruct Hto as [Hin ->].
      assert (Hnew : ~ In w pushed).
      { intros Hi. destruct (Hpq w Hi) as (t & Ht & Hwt). assert (t = sid) by (unfold N0 in *; congruence). subst t.
        rewrite <- app_assoc in Hnd. apply NoDup_remove_2 in Hnd. apply Hnd. apply in_app_iff. left. exact Ht. }
      assert (Hbound : (length (w :: pushed) <= length outs)%nat).
      { rewrite <- (map_length fst outs). apply NoDup_incl_length; [constructor; assumption|].
        intros x [<-|Hx]; [apply in_map_iff; exists (w, v); auto|exact (Hpi x Hx)]. }
      cbn [length] in Hbound.
      assert ((U32_MAX <? N.of_nat (length (n_outputs n)) + 1) = false) as -> by (apply N.ltb_ge; lia).
      apply IH; try assumption. clear IH.
      set (no := {| o_value := v; o_length := plen w; o_parent := n_outpos fs |}).
      constructor.
      * destruct SL as (S1 & S2 & S3). unfold same_links, nfa_set. cbn [n_nstates n_kind n_states]. repeat split; try assumption.
        intros j. destruct (N.eq_dec j sid) as [->|Hne].
        -- rewrite ngss. specialize (S3 sid). rewrite G1 in S3. destruct (nget sid (n_states n1)); [|contradiction]. cbn. rewrite <- Eo. exact S3.
        -- rewrite ngso by exact Hne. exact (S3 j).
      * intros t Ht. assert (Hcase : t = sid \/ (t <> sid /\ (t = ROOT \/ In t qd))).
        { destruct (N.eq_dec t sid) as [->|Hne]; [left; reflexivity|right]. split; [exact Hne|].
          destruct Ht as [->|Ht]; [left; reflexivity|]. apply in_app_iff in Ht as [Ht|[E|[]]]; [right; exact Ht|congruence]. }
        destruct Hcase as [->|[Hne Ht']].
        -- intros w' Hw'. rewrite (N0_inj _ _ _ Hw' Hw). exists (no :: lf). cbn [n_outputs]. split.
           ++ unfold outposof, nfa_set. cbn [n_states n_outputs]. rewrite ngss. cbn [n_outpos].
              apply (Chain_cons _ _ no lf); [lia| | |].
              ** replace (N.to_nat (N.of_nat (length (n_outputs n)) + 1 - 1)) with (length (n_outputs n)) by lia.
                 rewrite nth_error_app2 by lia. rewrite Nat.sub_diag. reflexivity.
              ** cbn [o_parent no]. assert (n_outpos fs <= N.of_nat (length (n_outputs n))); [|lia].
                 inversion Hcf as [|pos o l Hp Hn _ _]; subst; [lia|]. assert (N.to_nat (n_outpos fs - 1) < length (n_outputs n))%nat by (apply nth_error_Some; congruence). lia.
              ** cbn [o_parent no]. apply Chain_app. exact Hcf.
           ++ unfold pairs in *. cbn [map o_length o_value no]. rewrite Hsw, (pateq_some w v Hin), Hpf. reflexivity.
        -- intros w' Hw'. destruct (oi_ok _ _ OIn t Ht' w' Hw') as (l & Hc & Hp). exists l. cbn [n_outputs]. split; [|exact Hp].
           unfold outposof, nfa_set in *. cbn [n_states]. rewrite ngso by exact Hne. apply Chain_app. exact Hc.
      * unfold outposof, nfa_set. cbn [n_states]. assert (ROOT <> sid) by (intros <-; apply N0_root in Hw; congruence).
        rewrite ngso by assumption. exact (oi_root _ _ OIn).
      * exists (pushed ++ [w]). unfold nfa_set. cbn [n_outputs]. rewrite !app_length. cbn [length]. split; [lia|]. split.
        -- apply nodup_app_intro. split; [exact Hpn|]. split; [constructor; [intros []|constructor]|]. intros x Hx [<-|[]]. exact (Hnew Hx).
        -- split.
           ++ intros x Hx. apply in_app_iff in Hx as [Hx|[<-|[]]]; [exact (Hpi x Hx)|apply in_map_iff; exists (w, v); auto].
           ++ intros x Hx. apply in_app_iff in Hx as [Hx|[<-|[]]].
              ** destruct (Hpq x Hx) as (t & Ht & Hxt). exists t. split; [apply in_app_iff; left; exact Ht|exact Hxt].
              ** exists sid. split; [apply in_app_iff; right; left; reflexivity|exact Hw].
    + apply IH; try assumption. clear IH.
      constructor.
      * destruct SL as (S1 & S2 & S3). unfold same_links, nfa_set. cbn [n_nstates n_kind n_states]. repeat split; try assumption.
        intros j. destruct (N.eq_dec j sid) as [->|Hne].
        -- rewrite ngss. specialize (S3 sid). rewrite G1 in S3. destruct (nget sid (n_states n1)); [|contradiction]. cbn. rewrite <- Eo. exact S3.
        -- rewrite ngso by exact Hne. exact (S3 j).
      * intros t Ht. assert (Hcase : t = sid \/ (t <> sid /\ (t = ROOT \/ In t qd))).
        { destruct (N.eq_dec t sid) as [->|Hne]; [left; reflexivity|right]. split; [exact Hne|].
          destruct Ht as [->|Ht]; [left; reflexivity|]. apply in_app_iff in Ht as [Ht|[E|[]]]; [right; exact Ht|congruence]. }
        destruct Hcase as [->|[Hne Ht']].
        -- intros w' Hw'. rewrite (N0_inj _ _ _ Hw' Hw). exists lf. split.
           ++ unfold outposof, nfa_set. cbn [n_states n_outputs]. rewrite ngss. cbn [n_outpos]. exact Hcf.
           ++ rewrite Hsw, (pateq_none w Hto), Hpf. reflexivity.
        -- intros w' Hw'. destruct (oi_ok _ _ OIn t Ht' w' Hw') as (l & Hc & Hp). exists l. split; [|exact Hp].
           unfold outposof, nfa_set in *. cbn [n_states n_outputs]. rewrite ngso by exact Hne. exact Hc.
      * unfold outposof, nfa_set. cbn [n_states]. assert (ROOT <> sid) by (intros <-; apply N0_root in Hw; congruence).
        rewrite ngso by assumption. exact (oi_root _ _ OIn).
      * exists pushed. cbn [n_outputs nfa_set]. split; [exact Hpl|]. split; [exact Hpn|]. split; [exact Hpi|].
        intros x Hx. destruct (Hpq x Hx) as (t & Ht & Hxt). exists t. split; [apply in_app_iff; left; exact Ht|exact Hxt].
Qed.
End Outs.

(* ---- finish_nfa, standard kind ------------------------------------------------------------------ *)
Hypothesis OP0 : forall i st, nget i (n_states n0) = Some st -> n_outpos st = 0.
Hypothesis OUT0 : n_outputs n0 = [].
Hypothesis NE0 : outs <> [].
Hypothesis STD0 : n_kind n0 = Standard.

Theorem finish_nfa_std_ok :
  exists n2, finish_nfa V n0 = Ok n2
    /\ n_nstates n2 = n_nstates n0 /\ n_kind n2 = Standard
    /\ (forall s c, tchild V n2 s c = tchild V n0 s c)
    /\ (forall w t, N0 w t -> N0 (lsuf0 (tl w)) (failof n2 t))
    /\ (forall w t, N0 w t -> OutOK n2 t)
    /\ (N.of_nat (length (n_outputs n2)) <= N.of_nat (length outs))
    /\ (forall i, i < n_nstates n0 -> exists st st0, nget i (n_states n2) = Some st /\ nget i (n_states n0) = Some st0
                                                   /\ n_edges st = n_edges st0 /\ n_output st = n_output st0).
Proof.
  unfold finish_nfa. rewrite STD0.
  destruct build_fails_ok as (n1 & q & Hb & ST1 & F1 & Hnd & Hso & Hmem). rewrite Hb. cbn [bind].
  assert (Hop1 : forall t, outposof n1 t = 0).
  { intros t. unfold outposof. destruct ST1 as (_ & _ & _ & H). specialize (H t).
    destruct (nget t (n_states n1)) as [st|] eqn:E; [|reflexivity]. destruct (nget t (n_states n0)) as [st0|] eqn:E0; [|contradiction].
    destruct H as (_ & _ & ->). exact (OP0 t st0 E0). }
  assert (OI1 : OI n1 n1 []).
  { constructor.
    - apply same_links_refl.
    - intros t [->|[]] w Hw. apply N0_root in Hw. subst w. exists []. rewrite Hop1. split; [constructor|reflexivity].
    - apply Hop1.
    - exists []. destruct ST1 as (_ & _ & -> & _). rewrite OUT0. cbn. repeat split; [constructor|intros x []|intros x []]. }
  destruct (outputs_loop_ok n1 ST1 F1 q n1 [] OI1 Hnd Hso Hmem) as (n2 & Ho & OI2). cbn [app] in OI2.
  (* the queue is not empty and does not start with the root *)
  assert (Hex : exists p v, In (p, v) outs).
  { pose proof NE0 as Hne. clear -Hne. destruct outs as [|[p v] r]; [congruence|]. exists p, v. left. reflexivity. }
  destruct Hex as (p & v & Hpv).
  assert (Hp : exists t, N0 p t /\ p <> []).
  { pose proof (ti_sub _ _ _ _ _ _ T0 p v Hpv) as Hin. pose proof (proj1 (ti_mem _ _ _ _ _ _ T0 p) Hin) as [Hpne _].
    apply In_nth_error in Hin as [i Hi]. eexists. split; [exact (ti_fwd _ _ _ _ _ _ T0 i p Hi)|exact Hpne]. }
  destruct Hp as (tp & Htp & Hpne). assert (Hinq : In tp q) by (apply Hmem; exists p; auto).
  unfold build_outputs. destruct q as [|q0 q']; [destruct Hinq|].
  assert ((q0 =? ROOT) = false) as ->.
  { apply N.eqb_neq. intros ->. destruct (proj1 (Hmem ROOT) (or_introl eq_refl)) as (w & Hwne & Hw). apply N0_root in Hw. congruence. }
  exists n2. split; [exact Ho|].
  destruct (oi_links _ _ _ OI2) as (L1 & L2 & L3). destruct ST1 as (S1 & S2 & S3 & S4).
  split; [congruence|]. split; [congruence|]. split; [|split; [|split; [|split]]].
  - intros s c. unfold tchild. specialize (L3 s). specialize (S4 s).
    destruct (nget s (n_states n2)), (nget s (n_states n1)), (nget s (n_states n0)); try contradiction; try reflexivity.
    destruct L3 as (-> & _). destruct S4 as (-> & _). reflexivity.
  - intros w t Hw. replace (failof n2 t) with (failof n1 t); [exact (F1 w t Hw)|].
    unfold failof. specialize (L3 t). destruct (nget t (n_states n2)), (nget t (n_states n1)); try contradiction; [|reflexivity].
    destruct L3 as (_ & _ & ->). reflexivity.
  - intros w t Hw. apply (oi_ok _ _ _ OI2). destruct (N.eq_dec t ROOT) as [->|Hne]; [left; reflexivity|right].
    apply Hmem. exists w. split; [|exact Hw]. intros ->. unfold N0 in Hw. cbn in Hw. congruence.
  - destruct (oi_cnt _ _ _ OI2) as (pushed & Hpl & Hpn & Hpi & _). rewrite <- Hpl.
    pose proof (NoDup_incl_length Hpn Hpi) as Hle. rewrite map_length in Hle. lia.
  - intros i Hi. destruct (ti_wf _ _ _ _ _ _ T0 i Hi) as [st0 Hst0]. specialize (L3 i). specialize (S4 i). rewrite Hst0 in S4.
    destruct (nget i (n_states n1)) as [st1|]; [|contradiction]. destruct (nget i (n_states n2)) as [st|]; [|contradiction].
    exists st, st0. destruct L3 as (A1 & A2 & _). destruct S4 as (B1 & B2 & _). repeat split; congruence.
Qed.

End NF.
