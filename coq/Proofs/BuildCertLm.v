(* BuildCertLm.v — the builder theorem for the leftmost kinds, both variants: every automaton that
   construction returns under leftmost-longest / leftmost-first semantics passes the leftmost
   certificate checker for the registered patterns (all patterns / the effective ones).
   Chain: TrieInv -> NfaFailsLm (leftmost fail links and output positions of the NFA) ->
   DaRefine / CwDaRefine (layout, kind-independent) -> every check of lm_cert_ok succeeds. *)
From DV Require Import Model.Base Model.Nfa Model.Helper Model.BwBuild Model.BwSearch Model.Utf8 Model.CwBuild Model.CwSearch
     Model.Spec Model.Cert
     Proofs.GenAC Proofs.TrieInv Proofs.BuildTrie Proofs.BuildSafe Proofs.CwBuildSafe Proofs.NfaFails Proofs.NfaFailsLm
     Proofs.DaRefine Proofs.CwDaRefine Proofs.BwSafe Proofs.BuildProps Proofs.BuildCert Proofs.CwBuildCert Proofs.BuildStats.
From Coq Require Import Sorted ZifyN ZifyNat ZifyBool.
Local Open Scope N_scope.

Ltac bstep H :=
  match type of H with
  | bind ?e _ = Ok _ => let E := fresh "E" in destruct e eqn:E; cbn [bind] in H; try discriminate
  end.

Lemma nodupb_true (l : list (list N)) : NoDup l -> nodupb l = true.
Proof.
  induction 1 as [|x l Hx Hn IH]; cbn [nodupb]; [reflexivity|]. rewrite IH, andb_true_r. apply negb_true_iff.
  destruct (existsb (list_eqb x) l) eqn:E; [|reflexivity]. apply existsb_list_eqb_iff in E. contradiction.
Qed.

Lemma max_plen_ge' {V} (pvs : list (list N * V)) : forall p v, In (p, v) pvs -> (length p <= max_plen V pvs)%nat.
Proof.
  unfold max_plen. intros p v Hin.
  assert (forall l acc, (acc <= fold_left (fun m (pv : list N * V) => Nat.max m (length (fst pv))) l acc)%nat) as Hmono.
  { induction l as [|x l IHl]; intros acc; cbn [fold_left]; [lia|]. specialize (IHl (Nat.max acc (length (fst x)))). lia. }
  assert (forall l acc, In (p, v) l -> (length p <= fold_left (fun m (pv : list N * V) => Nat.max m (length (fst pv))) l acc)%nat) as H.
  { induction l as [|x l IHl]; intros acc Hl; [destruct Hl|]. cbn [fold_left]. destruct Hl as [->|Hl]; [|exact (IHl _ Hl)].
    cbn [fst]. specialize (Hmono l (Nat.max acc (length p))). lia. }
  exact (H pvs 0%nat Hin).
Qed.

(* ---- the tree check, for any finished automaton that copies the NFA ---------------------------- *)
Section GLm.
Variable V : Type.
Variable veqb : V -> V -> bool.
Hypothesis veqb_refl : forall v, veqb v v = true.
Variable lbytes : N -> N.
Hypothesis lb_pos : forall c, 1 <= lbytes c.
Variables (n0 n2 : nfa V) (pvs : list (list N * V)) (paths : list (list N)).
Hypothesis T0 : TI V lbytes n0 pvs [] paths.
Hypothesis EKc : forall i st, nget i (n_states n0) = Some st -> NoDup (map fst (n_edges st)).
(* the finished automaton, abstractly *)
Variable child : N -> N -> res (option N).
Variable failof' : N -> res N.
Variable outposof' : N -> res N.
Variable outat : N -> res (output V).
Variable labels : list N.
Variable plen0 : list N -> N.
Variable idmap : nmap N.
Variable nslots : nat.
Notation c0 := (child0 V n0).
Notation N0 := (NfaFails.N0 V n0).

Hypothesis H_plen : forall p, plen0 p = plen lbytes p.
Hypothesis H_root : nget ROOT idmap = Some ROOT.
Hypothesis H_tot : forall w s, N0 w s -> exists i, nget s idmap = Some i /\ (s <> ROOT -> 2 <= i).
Hypothesis H_child : forall w s i c, N0 w s -> nget s idmap = Some i ->
  child i c = Ok (match tchild V n0 s c with Some t => nget t idmap | None => None end).
Hypothesis H_fail : forall w s i, N0 w s -> nget s idmap = Some i -> failof' i = Ok (fmap idmap (NfaFails.failof V n2 s)).
Hypothesis H_outpos : forall w s i, N0 w s -> nget s idmap = Some i -> outposof' i = Ok (NfaFails.outposof V n2 s).
Hypothesis H_outat : forall p o, p <> 0 -> nth_error (n_outputs n2) (N.to_nat (p - 1)) = Some o -> outat p = Ok o.
Hypothesis H_depth : forall w s, N0 w s -> (length w <= nslots)%nat.
Hypothesis Hfail2 : forall w t, N0 w t -> w <> [] -> lfail_spec V n0 pvs n2 t w.
Hypothesis Hout2 : forall w t, N0 w t -> LOutOK V lbytes n0 pvs n2 t.

Lemma gwalk : forall w u s i, N0 u s -> nget s idmap = Some i ->
  Cert.walk child i w = match twalk V n0 s w with Some t => nget t idmap | None => None end.
Proof.
  induction w as [|c w IH]; intros u s i Hu Hi; cbn [Cert.walk twalk]; [symmetry; exact Hi|].
  rewrite (H_child u s i c Hu Hi). destruct (tchild V n0 s c) as [t|] eqn:Et; [|reflexivity].
  assert (Ht : N0 (u ++ [c]) t) by (apply (N0_snoc V n0); eauto).
  destruct (H_tot _ _ Ht) as (i' & Hi' & _). rewrite Hi'. exact (IH (u ++ [c]) t i' Ht Hi').
Qed.

Lemma gwalk_root w : Cert.walk child ROOT w = match twalk V n0 ROOT w with Some t => nget t idmap | None => None end.
Proof. exact (gwalk w [] ROOT ROOT eq_refl H_root). Qed.

Lemma ginT w : Cert.inT child w = Cert.inT c0 w.
Proof.
  unfold Cert.inT. rewrite gwalk_root, (walk0 V n0). destruct (twalk V n0 ROOT w) as [t|] eqn:E; [|reflexivity].
  destruct (H_tot w t E) as (i & Hi & _). rewrite Hi. reflexivity.
Qed.

Lemma glsuf w : Cert.lsuf child w = Cert.lsuf c0 w.
Proof.
  unfold Cert.lsuf. assert (forall l, find (Cert.inT child) l = find (Cert.inT c0) l) as ->; [|reflexivity].
  induction l as [|x l IHl]; cbn [find]; [reflexivity|]. rewrite ginT, IHl. reflexivity.
Qed.

Lemma glmdead u : Cert.lm_dead V child pvs u = Cert.lm_dead V c0 pvs u.
Proof. unfold Cert.lm_dead. rewrite glsuf. reflexivity. Qed.

Lemma glmout u : Cert.lm_out V plen0 pvs u = Cert.lm_out V (plen lbytes) pvs u.
Proof.
  unfold Cert.lm_out. destruct (Cert.mu0 V pvs u) as [m|]; [|reflexivity].
  assert (Cert.pats_eq V plen0 pvs (skipn m u) = Cert.pats_eq V (plen lbytes) pvs (skipn m u)) as ->; [|reflexivity].
  unfold Cert.pats_eq. apply map_ext. intros [p v]. cbn [fst snd]. rewrite H_plen. reflexivity.
Qed.

Lemma gnode_depth w t : N0 w t -> (length w <= max_plen V pvs)%nat.
Proof.
  intros Hw. destruct w as [|a r]; [cbn; lia|].
  pose proof (ti_in_paths _ _ _ _ _ _ _ _ T0 Hw ltac:(discriminate)) as Hin.
  apply (ti_mem _ _ _ _ _ _ T0) in Hin as [_ [Hc|(q & v & Hq & [x ->])]]; [apply pref_nil_r in Hc; discriminate|].
  pose proof (max_plen_ge' pvs _ _ Hq) as Hm. rewrite app_length in Hm. lia.
Qed.

Lemma lm_tree_ok_complete : forall fuel w s i, N0 w s -> nget s idmap = Some i ->
  (max_plen V pvs - length w < fuel)%nat ->
  lm_tree_ok V veqb child failof' outposof' outat labels plen0 pvs fuel (S nslots) i w = true.
Proof.
  induction fuel as [|fuel IH]; intros w s i Hw Hi Hf; [lia|]. cbn [lm_tree_ok].
  apply andb_true_iff. split.
  - unfold lm_local_ok. rewrite !andb_true_iff.
    destruct (H_tot w s Hw) as (i' & Hi' & H2). rewrite Hi in Hi'. inversion Hi'; subst i'.
    assert (Hsr : w <> [] -> s <> ROOT) by (intros Hne ->; apply (N0_root V lbytes n0 pvs paths T0) in Hw; congruence).
    repeat split.
    + destruct w as [|a r]; [cbn; apply orb_true_r|]. cbn [is_nil]. rewrite orb_false_r. specialize (H2 (Hsr ltac:(discriminate))).
      apply negb_true_iff. apply N.eqb_neq. unfold ROOT. lia.
    + apply negb_true_iff. apply N.eqb_neq. unfold DEAD. destruct w as [|a r].
      * unfold NfaFails.N0 in Hw. cbn in Hw. inversion Hw; subst s. rewrite H_root in Hi. inversion Hi. unfold ROOT. lia.
      * specialize (H2 (Hsr ltac:(discriminate))). lia.
    + apply Nat.ltb_lt. pose proof (H_depth w s Hw). lia.
    + destruct w as [|a r]; [reflexivity|]. cbn [is_nil orb].
      rewrite (H_fail _ s i Hw Hi). rewrite glmdead. pose proof (Hfail2 _ _ Hw ltac:(discriminate)) as Hfs. unfold lfail_spec in Hfs.
      destruct (Cert.lm_dead V c0 pvs (a :: r)) eqn:Ed.
      * rewrite Hfs. unfold fmap. rewrite !N.eqb_refl. reflexivity.
      * cbn [tl] in *. rewrite glsuf, gwalk_root. unfold NfaFails.N0 in Hfs. rewrite Hfs. unfold fmap.
        assert ((NfaFails.failof V n2 s =? DEAD) = false) as ->.
        { apply N.eqb_neq. intros E. rewrite E in Hfs. destruct (ti_bwd _ _ _ _ _ _ T0 _ _ Hfs) as [[_ E']|[H2' _]]; [discriminate|unfold DEAD in H2'; lia]. }
        destruct (H_tot _ _ Hfs) as (fi & Hfi & _). rewrite Hfi. cbn [optN_eqb]. apply N.eqb_refl.
    + rewrite (H_outpos _ s i Hw Hi). rewrite glmout. pose proof (Hout2 _ _ Hw w Hw) as Ho.
      destruct (Cert.lm_out V (plen lbytes) pvs w) as [lv|].
      * destruct Ho as (Hz & o & Hn & Hl & Hv). apply andb_true_iff. split; [apply negb_true_iff, N.eqb_neq; exact Hz|].
        rewrite (H_outat _ o Hz Hn). rewrite Hl, Hv, N.eqb_refl, veqb_refl. reflexivity.
      * rewrite Ho. apply N.eqb_refl.
  - apply forallb_forall. intros c Hc.
    rewrite (H_child w s i c Hw Hi). destruct (tchild V n0 s c) as [t|] eqn:Et; [|reflexivity].
    assert (Hwt : N0 (w ++ [c]) t) by (apply (N0_snoc V n0); eauto).
    destruct (H_tot _ _ Hwt) as (i' & Hi' & _). rewrite Hi'.
    apply (IH (w ++ [c]) t i' Hwt Hi'). pose proof (gnode_depth _ _ Hwt) as Hd. rewrite app_length in *. cbn [length] in *. lia.
Qed.

Hypothesis Hne : forall p v, In (p, v) pvs -> p <> [].
Hypothesis Hnd : NoDup (map fst pvs).

Theorem lm_cert_ok_complete :
  lm_cert_ok V veqb child failof' outposof' outat labels plen0 pvs nslots = true.
Proof.
  unfold lm_cert_ok. rewrite !andb_true_iff. repeat split.
  - apply (lm_tree_ok_complete (S (max_plen V pvs)) [] ROOT ROOT); [reflexivity|exact H_root|cbn [length]; lia].
  - apply forallb_forall. intros [p v] Hin. cbn [fst]. apply andb_true_iff. split.
    + pose proof (Hne p v Hin). destruct p; [congruence|reflexivity].
    + rewrite ginT. apply (inT0_iff V n0). pose proof (ti_sub _ _ _ _ _ _ T0 p v Hin) as Hp. apply In_nth_error in Hp as [k Hk].
      eexists. exact (ti_fwd _ _ _ _ _ _ T0 k p Hk).
  - apply nodupb_true. exact Hnd.
Qed.
End GLm.

(* ---- what leftmost-first keeps is duplicate-free and non-empty when the input is ---------------- *)
Lemma effective_go_facts {V} : forall (l : list (list N * V)) seen,
  (forall x, In x (effective_go V seen l) -> In x l) /\ (NoDup (map fst l) -> NoDup (map fst (effective_go V seen l)))
  /\ (length (effective_go V seen l) <= length l)%nat.
Proof.
  induction l as [|[p v] r IH]; intros seen; cbn [effective_go]; [repeat split; auto|].
  destruct (IH (seen ++ [p])) as (I1 & I2 & I3). destruct (existsb _ seen).
  - split; [intros x Hx; right; exact (I1 x Hx)|]. split; [|cbn [length]; lia].
    intros Hn. cbn [map fst] in Hn. apply NoDup_cons_iff in Hn as [_ Hn]. exact (I2 Hn).
  - split; [intros x [<-|Hx]; [left; reflexivity|right; exact (I1 x Hx)]|]. split; [|cbn [length]; lia].
    intros Hn. cbn [map fst] in *. apply NoDup_cons_iff in Hn as [Hp Hn]. constructor; [|exact (I2 Hn)].
    intros Hin. apply Hp. apply in_map_iff in Hin as [[q w] [E Hq]]. cbn [fst] in E. subst q. apply in_map_iff. exists (p, w). split; [reflexivity|exact (I1 _ Hq)].
Qed.

Lemma regd_facts {V} k (pvs : list (list N * V)) :
  (forall x, In x (regd V k pvs) -> In x pvs) /\ (NoDup (map fst pvs) -> NoDup (map fst (regd V k pvs)))
  /\ (length (regd V k pvs) <= length pvs)%nat.
Proof.
  unfold regd, registered. destruct (is_leftmost_first k); [apply effective_go_facts|]. repeat split; auto.
Qed.

(* ---- byte-wise ----------------------------------------------------------------------------------- *)
Theorem bw_build_lm_cert_lemma (V : Type) (veqb : V -> V -> bool) (veqb_refl : forall v, veqb v v = true)
  k nfb (pvs : list (list N * V)) A : k <> Standard ->
  (forall p v, In (p, v) pvs -> Forall (fun b => b < 256) p) -> 4 * total_len V pvs <= U32_MAX - 1 ->
  bw_build_with_values V k nfb pvs = Ok A -> bw_lm_cert_ok veqb A (regd V k pvs) = true.
Proof.
  intros Hk0 Hbytes Hsz H. unfold bw_build_with_values in H. destruct (nfb =? 0); [discriminate|].
  destruct (bw_build_sparse_nfa V k pvs) as [n2| | | |] eqn:En; cbn [bind] in H; try discriminate.
  destruct (build_double_array V nfb n2) as [sts| | | |] eqn:Ed; cbn [bind] in H; try discriminate.
  destruct (U32_MAX <? n_nstates n2 - 1); [discriminate|]. inversion H; subst A; clear H.
  pose proof (bw_sparse_nfa_inv V k pvs n2 Hbytes En) as [HA2 _].
  unfold bw_build_sparse_nfa in En. destruct (add_all V (fun _ => 1) (nfa_new V k) pvs) as [n0| | | |] eqn:Ea; cbn [bind] in En; try discriminate.
  destruct (n_len n0 =? 0) eqn:El; [discriminate|]. destruct (U24_MAX <? n_len n0) eqn:E24; [discriminate|].
  rewrite add_all_adds in Ea.
  pose proof (adds_spec V (fun _ => 1) one_pos one_le4 k pvs Hsz) as S.
  destruct (first_offence [] (map fst pvs)) as [e|] eqn:Efo; [rewrite Ea in S; discriminate|].
  destruct S as (n0' & paths & S1 & T0 & Hk & Hlen & Hout). rewrite Ea in S1. inversion S1; subst n0'; clear S1.
  apply first_offence_none in Efo as (Hne' & Hnd & _).
  destruct (regd_facts k pvs) as (Rin & Rnd & Rlen).
  assert (Hne : forall p v, In (p, v) (regd V k pvs) -> p <> []).
  { intros p v Hin. rewrite Forall_forall in Hne'. apply Hne'. apply in_map_iff. exists (p, v). split; [reflexivity|exact (Rin _ Hin)]. }
  pose proof (Rnd Hnd) as Hnd'.
  pose proof (adds_PEF V (fun _ => 1) pvs _ n0 (nfa_new_PEF V k) Ea) as HPEF.
  assert (EK0 : forall i st, nget i (n_states n0) = Some st -> NoDup (map fst (n_edges st))) by (intros i st Hg; exact (proj2 (HPEF i st Hg))).
  assert (F0 : forall i st, nget i (n_states n0) = Some st -> n_fail st = ROOT) by (intros i st Hg; exact (proj1 (HPEF i st Hg))).
  rewrite <- add_all_adds in Ea.
  destruct (add_all_inv V pvs _ n0 Hbytes (nfa_new_PLO V k) eq_refl Ea) as [HPLO _].
  assert (OP0 : forall i st, nget i (n_states n0) = Some st -> n_outpos st = 0) by (intros i st Hg; exact (proj1 (HPLO i st Hg))).
  assert (NE0 : regd V k pvs <> []) by (intros E0; rewrite E0 in Hlen; cbn in Hlen; rewrite Hlen in El; discriminate).
  assert (LEN0 : N.of_nat (length (regd V k pvs)) < U32_MAX) by (unfold U24_MAX, U32_MAX in *; lia).
  assert (LM0 : n_kind n0 <> Standard) by congruence.
  destruct (build_fails_ok V (fun _ => 1) one_pos n0 _ paths T0 EK0 F0) as (ng & qg & _ & STg & Fg & _).
  destruct (finish_nfa_lm_ok V (fun _ => 1) one_pos n0 _ paths T0 EK0 F0 Hnd' ng STg Fg LEN0 OP0 Hout NE0 LM0)
    as (n2' & Hf & Hns & Hk2 & Htc & Hfail & Hoks & Hol & Hst & _).
  rewrite En in Hf. inversion Hf; subst n2'; clear Hf.
  assert (Hlab : forall i st, nget i (n_states n2) = Some st -> forall c t, In (c, t) (n_edges st) -> c < 256) by (intros i st Hg; exact (proj2 (HA2 i st Hg))).
  assert (Hnode : forall t, node V n2 t <-> exists w, N0 V n0 w t) by (apply node2_iff; exact Htc).
  assert (RFx : exists idmap, Refines V n2 sts idmap).
  { eapply build_double_array_refines; [| | | | | | | | |exact Ed].
    - eapply tf_wf; eassumption.
    - eapply tf_edges_child; try eassumption; exact one_pos.
    - eapply tf_labels; eassumption.
    - eapply tf_child_node; try eassumption; exact one_pos.
    - eapply tf_uniq_parent; try eassumption; exact one_pos.
    - eapply tf_nonroot_parent; eassumption.
    - eapply tf_node_lt; try eassumption; exact one_pos.
    - eapply tf_edges_nodup; try eassumption; exact one_pos.
    - eapply tf_nstates_nodes; try eassumption; exact one_pos. }
  destruct RFx as [idmap RF].
  assert (Hlab2 : forall s c t, node V n2 s -> tchild V n2 s c = Some t -> c < 256).
  { intros s c t Ns Hc. assert (Hin : In (c, t) (edges_of V n2 s)) by (eapply tf_edges_child; try eassumption; exact one_pos).
    eapply tf_labels; eassumption. }
  assert (Hget : forall s w, N0 V n0 w s -> exists st, nfa_get V n2 s = Ok st /\ n_fail st = failof V n2 s /\ n_outpos st = outposof V n2 s).
  { intros s w Hw. pose proof (N0_lt V _ one_pos n0 _ paths T0 w s Hw) as Hl. destruct (Hst s Hl) as (st & _ & H2 & _).
    exists st. unfold nfa_get, failof, outposof. rewrite Hns. apply N.ltb_lt in Hl. rewrite Hl, H2. auto. }
  assert (Hnd2 : forall w s, N0 V n0 w s -> s <> DEAD).
  { intros w s Hw ->. destruct (ti_bwd _ _ _ _ _ _ T0 _ _ Hw) as [[_ E]|[H2 _]]; [discriminate|unfold DEAD in H2; lia]. }
  unfold bw_lm_cert_ok. cbn [bw_kind bw_states bw_outputs]. apply andb_true_iff. split; [destruct k; [congruence|reflexivity|reflexivity]|].
  apply (lm_cert_ok_complete V veqb veqb_refl (fun _ => 1) one_pos n0 n2 (regd V k pvs) paths T0 EK0
           (bwc_child (fun j => nget j (index_list sts))) (bwc_failof (fun j => nget j (index_list sts)))
           (bwc_outposof (fun j => nget j (index_list sts))) (bwc_outat V (fun j => nget j (index_list (n_outputs n2))))
           byte_labels bwc_plen idmap (length sts)).
  - intros p. unfold bwc_plen. rewrite plen_one. reflexivity.
  - exact (rf_root _ _ _ _ RF).
  - intros w s Hw. destruct (rf_tot _ _ _ _ RF s (proj2 (Hnode s) (ex_intro _ w Hw))) as (i & Hi & _ & Hge). eauto.
  - intros w s i c Hw Hi. rewrite <- Htc. eapply BuildCert.child_spec; try eassumption. apply Hnode. eauto.
  - intros w s i Hw Hi. destruct (Hget s w Hw) as (st & Hg & Hfl & _).
    destruct (rf_links _ _ _ _ RF s st i (proj2 (Hnode s) (ex_intro _ w Hw)) (Hnd2 w s Hw) Hg Hi) as (sl & Hsl & Hfs & _).
    unfold bwc_failof, st_at. rewrite index_list_get, Hsl. cbn [bind]. rewrite Hfs, Hfl. reflexivity.
  - intros w s i Hw Hi. destruct (Hget s w Hw) as (st & Hg & _ & Hop).
    destruct (rf_links _ _ _ _ RF s st i (proj2 (Hnode s) (ex_intro _ w Hw)) (Hnd2 w s Hw) Hg Hi) as (sl & Hsl & _ & Hos).
    unfold bwc_outposof, st_at. rewrite index_list_get, Hsl. cbn [bind]. rewrite Hos, Hop. reflexivity.
  - intros p o Hp Hn. unfold bwc_outat, out_at. rewrite index_list_get, Hn. reflexivity.
  - intros w s Hw. pose proof (dep_bound V _ one_pos n0 _ paths T0 EK0 w s Hw) as Hd.
    assert (Hb : (length (nonroot_ids paths) + 1 <= length sts)%nat).
    { apply (slots_bound _ idmap); [apply nonroot_ids_nodup| | |exact (rf_inj _ _ _ _ RF)].
      - destruct (rf_tot _ _ _ _ RF ROOT (proj2 (Hnode ROOT) (ex_intro _ [] eq_refl))) as (i & _ & Hi & _). lia.
      - intros s' Hs'. destruct (nonroot_ids_node V _ n0 _ paths T0 s' Hs') as (p & Hp & H2).
        destruct (rf_tot _ _ _ _ RF s' (proj2 (Hnode s') (ex_intro _ p Hp))) as (i & Hi & Hlt & Hge). exists i. split; [exact Hi|].
        split; [apply Hge; unfold ROOT; lia|exact Hlt]. }
    rewrite nonroot_ids_len in Hb. lia.
  - exact Hfail.
  - exact Hoks.
  - exact Hne.
  - exact Hnd'.
Qed.

(* ---- character-wise ------------------------------------------------------------------------------ *)
Theorem cw_build_lm_cert_lemma (V : Type) (veqb : V -> V -> bool) (veqb_refl : forall v, veqb v v = true)
  kd nfb (pvs : list (list N * V)) A : kd <> Standard ->
  4 * total_len V pvs <= U32_MAX - 1 ->
  cw_build_with_values V kd nfb pvs = Ok A -> cw_lm_cert_ok veqb A (regd V kd pvs) = true.
Proof.
  intros Hk0 Hsz H. unfold cw_build_with_values in H. destruct (nfb =? 0); [discriminate|].
  destruct (cw_add_all V (nfa_new V kd) _ [] pvs) as [[[n0 f] pr]| | | |] eqn:Ea; cbn [bind] in H; try discriminate.
  destruct (n_len n0 =? 0) eqn:El; [discriminate|].
  destruct (finish_nfa V n0) as [n2| | | |] eqn:En; cbn [bind] in H; try discriminate.
  set (mp := mapper_new f pr) in *.
  destruct (cw_init_array (mp_alpha mp) nfb) as [[[a0 h0] b]| | | |] eqn:Ei; cbn [bind] in H; try discriminate.
  destruct (cw_dfs_loop V _ _ b n2 a0 h0 _ _) as [[[a1 h1] idmap]| | | |] eqn:Ed; cbn [bind] in H; try discriminate.
  destruct (cw_set_fails_loop V n2 a1 idmap _) as [a2| | | |] eqn:Es; cbn [bind] in H; try discriminate.
  destruct (U32_MAX <? n_nstates n2 - 1); [discriminate|]. inversion H; subst A; clear H.
  pose proof (cw_add_all_adds V pvs (nfa_new V kd) {| fq_map := nempty; fq_len := 0 |} []) as Hadds. rewrite Ea in Hadds.
  pose proof (adds_spec V len_utf8 len_utf8_pos len_utf8_le4 kd pvs Hsz) as S.
  destruct (first_offence [] (map fst pvs)) as [e|] eqn:Efo; [rewrite Hadds in S; discriminate|].
  destruct S as (n0' & paths & S1 & T0 & Hk & Hlen & Hout). rewrite Hadds in S1. inversion S1; subst n0'; clear S1.
  apply first_offence_none in Efo as (Hne' & Hnd & _).
  destruct (regd_facts kd pvs) as (Rin & Rnd & Rlen).
  assert (Hnep : forall p v, In (p, v) pvs -> p <> []).
  { intros p v Hin. rewrite Forall_forall in Hne'. apply Hne'. apply in_map_iff. exists (p, v). auto. }
  assert (Hne : forall p v, In (p, v) (regd V kd pvs) -> p <> []) by (intros p v Hin; exact (Hnep p v (Rin _ Hin))).
  pose proof (Rnd Hnd) as Hnd'.
  pose proof (adds_PEF V len_utf8 pvs _ n0 (nfa_new_PEF V kd) Hadds) as HPEF.
  assert (EK0 : forall i st, nget i (n_states n0) = Some st -> NoDup (map fst (n_edges st))) by (intros i st Hg; exact (proj2 (HPEF i st Hg))).
  assert (F0 : forall i st, nget i (n_states n0) = Some st -> n_fail st = ROOT) by (intros i st Hg; exact (proj1 (HPEF i st Hg))).
  destruct (cw_add_all_inv V pvs _ _ _ _ _ _ (nfa_new_PLO_any V kd) eq_refl Ea) as [HPLO _].
  assert (OP0 : forall i st, nget i (n_states n0) = Some st -> n_outpos st = 0) by (intros i st Hg; exact (proj1 (HPLO i st Hg))).
  assert (NE0 : regd V kd pvs <> []) by (intros E0; rewrite E0 in Hlen; cbn in Hlen; rewrite Hlen in El; discriminate).
  assert (LEN0 : N.of_nat (length (regd V kd pvs)) < U32_MAX) by (pose proof (count_le_total_len pvs Hnep); unfold U32_MAX in *; lia).
  assert (LM0 : n_kind n0 <> Standard) by congruence.
  destruct (build_fails_ok V len_utf8 len_utf8_pos n0 _ paths T0 EK0 F0) as (ng & qg & _ & STg & Fg & _).
  destruct (finish_nfa_lm_ok V len_utf8 len_utf8_pos n0 _ paths T0 EK0 F0 Hnd' ng STg Fg LEN0 OP0 Hout NE0 LM0)
    as (n2' & Hf & Hns & Hk2 & Htc & Hfail & Hoks & Hol & Hst & _).
  rewrite En in Hf. inversion Hf; subst n2'; clear Hf.
  assert (Hnode : forall t, node V n2 t <-> exists w, N0 V n0 w t) by (apply node2_iff; exact Htc).
  destruct (cw_init_array_inv _ _ _ _ _ Ei) as (Hb & Hbu & _).
  destruct (block_len_pow2 (mp_alpha mp)) as [k [Hbk Hk1]].
  assert (Hcode : forall c m, code_of (index_list (mp_table mp)) c = Some m -> m < 2 ^ k).
  { intros c m Hc. apply (code_of_lt (mp_table mp) (mp_alpha mp)) in Hc; [|intros x Hx; exact (mapper_new_codes f pr x Hx)].
    pose proof (block_len_ge (mp_alpha mp)) as Hge. rewrite <- Hb in Hge. specialize (Hge Hbu). rewrite Hb, Hbk in Hge. lia. }
  assert (Hprs : StronglySorted N.lt pr) by (apply (cw_add_all_present pvs _ _ _ _ _ _ (SSorted_nil _) Ea)).
  assert (RF : CRefines V n2 (index_list (mp_table mp)) (carr_to_list a2) idmap).
  { eapply (cw_layout_refines k Hk1 V n2 (index_list (mp_table mp))); [| | | | | | | | |exact Hbk|exact Ei|exact Ed|exact Es].
    - eapply tf_edges_child; try eassumption; exact len_utf8_pos.
    - eapply tf_child_node; try eassumption; exact len_utf8_pos.
    - eapply tf_uniq_parent; try eassumption; exact len_utf8_pos.
    - eapply tf_node_lt; try eassumption; exact len_utf8_pos.
    - eapply tf_edges_nodup; try eassumption; exact len_utf8_pos.
    - exact Hcode.
    - exact (mapper_code_inj f pr Hprs).
    - apply Hnode. exists []. reflexivity.
    - eapply tf_nstates_nodes; try eassumption; exact len_utf8_pos. }
  assert (Hget : forall s w, N0 V n0 w s -> exists st, nfa_get V n2 s = Ok st /\ n_fail st = failof V n2 s /\ n_outpos st = outposof V n2 s).
  { intros s w Hw. pose proof (N0_lt V _ len_utf8_pos n0 _ paths T0 w s Hw) as Hl. destruct (Hst s Hl) as (st & _ & H2 & _).
    exists st. unfold nfa_get, failof, outposof. rewrite Hns. apply N.ltb_lt in Hl. rewrite Hl, H2. auto. }
  assert (Hnd2 : forall w s, N0 V n0 w s -> s <> DEAD).
  { intros w s Hw ->. destruct (ti_bwd _ _ _ _ _ _ T0 _ _ Hw) as [[_ E]|[H2 _]]; [discriminate|unfold DEAD in H2; lia]. }
  unfold cw_lm_cert_ok. cbn [cw_kind cw_states cw_outputs cw_mapper]. apply andb_true_iff. split; [destruct kd; [congruence|reflexivity|reflexivity]|].
  apply (lm_cert_ok_complete V veqb veqb_refl len_utf8 len_utf8_pos n0 n2 (regd V kd pvs) paths T0 EK0
           (cwc_child (fun j => nget j (index_list (carr_to_list a2))) (fun c => nget c (index_list (mp_table mp))))
           (cwc_failof (fun j => nget j (index_list (carr_to_list a2))))
           (cwc_outposof (fun j => nget j (index_list (carr_to_list a2)))) (cwc_outat V (fun j => nget j (index_list (n_outputs n2))))
           (cwc_labels (fun c => nget c (index_list (mp_table mp))) (length (mp_table mp))) cwc_plen idmap (length (carr_to_list a2))).
  - intros p. reflexivity.
  - exact (crf_root _ _ _ _ _ RF).
  - intros w s Hw. destruct (crf_tot _ _ _ _ _ RF s (proj2 (Hnode s) (ex_intro _ w Hw))) as (i & Hi & _ & Hge). eauto.
  - intros w s i c Hw Hi. rewrite <- Htc. eapply CwBuildCert.child_spec; try eassumption. apply Hnode. eauto.
  - intros w s i Hw Hi. destruct (Hget s w Hw) as (st & Hg & Hfl & _).
    destruct (crf_links _ _ _ _ _ RF s st i (proj2 (Hnode s) (ex_intro _ w Hw)) (Hnd2 w s Hw) Hg Hi) as (sl & Hsl & Hfs & _).
    unfold cwc_failof, cst_at. rewrite index_list_get, Hsl. cbn [bind]. rewrite Hfs, Hfl. reflexivity.
  - intros w s i Hw Hi. destruct (Hget s w Hw) as (st & Hg & _ & Hop).
    destruct (crf_links _ _ _ _ _ RF s st i (proj2 (Hnode s) (ex_intro _ w Hw)) (Hnd2 w s Hw) Hg Hi) as (sl & Hsl & _ & Hos).
    unfold cwc_outposof, cst_at. rewrite index_list_get, Hsl. cbn [bind]. rewrite Hos, Hop. reflexivity.
  - intros p o Hp Hn. unfold cwc_outat, cout_at. rewrite index_list_get, Hn. reflexivity.
  - intros w s Hw. pose proof (dep_bound V _ len_utf8_pos n0 _ paths T0 EK0 w s Hw) as Hd.
    assert (Hb' : (length (nonroot_ids paths) + 1 <= length (carr_to_list a2))%nat).
    { apply (slots_bound _ idmap); [apply nonroot_ids_nodup| | |exact (crf_inj _ _ _ _ _ RF)].
      - destruct (crf_tot _ _ _ _ _ RF ROOT (proj2 (Hnode ROOT) (ex_intro _ [] eq_refl))) as (i & _ & Hi & _). lia.
      - intros s' Hs'. destruct (nonroot_ids_node V _ n0 _ paths T0 s' Hs') as (p & Hp & H2).
        destruct (crf_tot _ _ _ _ _ RF s' (proj2 (Hnode s') (ex_intro _ p Hp))) as (i & Hi & Hlt & Hge). exists i. split; [exact Hi|].
        split; [apply Hge; unfold ROOT; lia|exact Hlt]. }
    rewrite nonroot_ids_len in Hb'. lia.
  - exact Hfail.
  - exact Hoks.
  - exact Hne.
  - exact Hnd'.
Qed.
