(* CwBuildSafe.v — C07 for the character-wise BUILDER, universally: every automaton the model's
   construction returns passes the range check cw_safe_b (array length above 1 and a multiple of the
   power-of-two block length; every mapped code below the block length; bases, fails and output
   positions in range).  With Proofs/CwSafe.v: no search on a built automaton reaches an
   undefined-behaviour branch on any valid UTF-8 haystack. *)
From DV Require Import Model.Base Model.Nfa Model.Helper Model.BwBuild Model.Utf8 Model.CwBuild Model.Spec Model.Cert
     Proofs.BwSafe Proofs.BuildSafe.
From Coq Require Import ZifyN ZifyNat ZifyBool.
Local Open Scope N_scope.

Ltac bstep H :=
  match type of H with
  | bind ?e _ = Ok _ => let E := fresh "E" in destruct e eqn:E; cbn [bind] in H; try discriminate
  end.

(* ---- u32::next_power_of_two and the block length ---------------------------------------------- *)
Lemma npow2_loop_spec : forall fuel j x,
  (exists i, npow2_loop fuel (2 ^ j) x = 2 ^ i) /\ (x <= npow2_loop fuel (2 ^ j) x \/ npow2_loop fuel (2 ^ j) x = 2 ^ (j + N.of_nat fuel)).
Proof.
  induction fuel as [|fuel IH]; intros j x; cbn [npow2_loop].
  - split; [exists j; reflexivity|right; f_equal; lia].
  - destruct (x <=? 2 ^ j) eqn:E.
    + split; [exists j; reflexivity|left; lia].
    + replace (2 * 2 ^ j) with (2 ^ (j + 1)) by (rewrite N.pow_add_r; change (2 ^ 1) with 2; lia).
      destruct (IH (j + 1) x) as [H1 H2]. split; [exact H1|]. destruct H2 as [H2|H2]; [left; exact H2|right].
      rewrite H2. f_equal. lia.
Qed.

Definition block_len_of (alpha : N) : N := N.max (next_power_of_two alpha) 2.

Lemma block_len_pow2 alpha : exists k, block_len_of alpha = 2 ^ k /\ 1 <= k.
Proof.
  unfold block_len_of, next_power_of_two. destruct (npow2_loop_spec 33 0 alpha) as [[i Hi] _].
  change (2 ^ 0) with 1 in Hi. rewrite Hi. destruct (N.eq_dec i 0) as [->|Hne].
  - exists 1. split; [reflexivity|lia].
  - exists i. split; [|lia]. apply N.max_l. change 2 with (2 ^ 1) at 1. apply N.pow_le_mono_r; lia.
Qed.

Lemma block_len_ge alpha : block_len_of alpha <= U32_MAX -> alpha <= block_len_of alpha.
Proof.
  unfold block_len_of, next_power_of_two. destruct (npow2_loop_spec 33 0 alpha) as [_ H].
  change (2 ^ 0) with 1 in H. intros Hb. destruct H as [H|H]; [lia|]. exfalso.
  rewrite H in Hb. change (2 ^ (0 + N.of_nat 33)) with 8589934592 in Hb. unfold U32_MAX in Hb. lia.
Qed.

(* ---- the mapper: every code is below alpha ------------------------------------------------------ *)
Lemma assign_codes_lt : forall sorted i m,
  (forall c x, nget c m = Some x -> x < i) ->
  forall c x, nget c (assign_codes sorted i m) = Some x -> x < i + N.of_nat (length sorted).
Proof.
  induction sorted as [|[c0 f0] r IH]; intros i m Hm c x H; cbn [assign_codes length] in *.
  - specialize (Hm c x H). lia.
  - apply IH in H; [lia|]. intros c1 x1 Hg. destruct (N.eq_dec c1 c0) as [->|Hne].
    + rewrite ngss in Hg. inversion Hg. lia.
    + rewrite ngso in Hg by exact Hne. specialize (Hm c1 x1 Hg). lia.
Qed.

Lemma mapper_new_codes f present x : In x (mp_table (mapper_new f present)) ->
  x = INVALID_CODE \/ x < mp_alpha (mapper_new f present).
Proof.
  unfold mapper_new. cbn [mp_table mp_alpha]. intros H. apply in_map_iff in H as [c [<- _]].
  destruct (nget c _) as [y|] eqn:E; [right|left; reflexivity].
  apply assign_codes_lt in E; [lia|]. intros c1 x1 Hg. rewrite nget_empty in Hg. discriminate.
Qed.

Lemma code_of_lt (tblL : list N) alpha label code :
  (forall x, In x tblL -> x = INVALID_CODE \/ x < alpha) ->
  code_of (index_list tblL) label = Some code -> code < alpha.
Proof.
  intros Ht H. unfold code_of in H. rewrite index_list_get in H.
  destruct (nth_error tblL (N.to_nat label)) as [x|] eqn:E; [|discriminate].
  destruct (x =? INVALID_CODE) eqn:Ei; [discriminate|]. inversion H; subst code.
  apply nth_error_In in E. destruct (Ht x E) as [->|Hx]; [rewrite N.eqb_refl in Ei; discriminate|exact Hx].
Qed.

Lemma code_insert_in x l y : In y (code_insert x l) -> y = x \/ In y l.
Proof.
  induction l as [|z r IH]; cbn [code_insert]; [intros [E|[]]; auto|].
  destruct (fst x <? fst z); [intros [E|H]; auto|]. intros [E|H]; [right; left; exact E|].
  destruct (IH H) as [?|?]; [left; assumption|right; right; assumption].
Qed.

Lemma map_edges_codes tbl : forall es l, map_edges tbl es = Ok l ->
  forall c ch, In (c, ch) l -> exists label, code_of tbl label = Some c.
Proof.
  induction es as [|[label child] r IH]; intros l H c ch Hin; cbn [map_edges] in H.
  - inversion H; subst. destruct Hin.
  - destruct (code_of tbl label) as [code|] eqn:Ec; [|discriminate]. bstep H. inversion H; subst l.
    apply code_insert_in in Hin as [E0|Hin]; [inversion E0; subst; exists label; exact Ec|exact (IH a eq_refl c ch Hin)].
Qed.

Lemma map_edges_nonempty tbl es l : es <> [] -> map_edges tbl es = Ok l -> l <> [].
Proof.
  destruct es as [|[label child] r]; [congruence|]. intros _ H. cbn [map_edges] in H.
  destruct (code_of tbl label); [|discriminate]. bstep H. inversion H. destruct a; cbn; [discriminate|].
  destruct (_ <? _); discriminate.
Qed.

(* ---- the double array --------------------------------------------------------------------------- *)
Section CwDa.
Variable V : Type.
Variable nout : N.
Variable k : N.                       (* block length 2^k, k >= 1 *)
Hypothesis k_pos : 1 <= k.
Notation bl := (2 ^ k).

Lemma bl_ge2 : 2 <= bl.
Proof. change 2 with (2 ^ 1) at 1. apply N.pow_le_mono_r; lia. Qed.

Definition cslot_inv (len : N) (s : cstate) : Prop :=
  (c_base s = 0 \/ c_base s < len) /\ c_fail s < len /\ c_outpos s <= nout.
Definition CBI (a : carr) : Prop :=
  1 < ca_len a /\ ca_len a mod bl = 0
  /\ forall i s, nget i (ca_map a) = Some s -> cslot_inv (ca_len a) s.

Lemma cslot_inv_default len : 1 < len -> cslot_inv len cstate_default.
Proof. intros H. unfold cslot_inv, cstate_default, DEAD. cbn. repeat split; [left; reflexivity|exact H|lia]. Qed.

Lemma ca_upd_CBI a i f a' : CBI a -> (forall s, cslot_inv (ca_len a) s -> cslot_inv (ca_len a) (f s)) ->
  ca_upd a i f = Ok a' -> CBI a' /\ ca_len a' = ca_len a /\ i < ca_len a.
Proof.
  intros (H0 & Hm & Hs) Hf H. unfold ca_upd, ca_get in H. destruct (i <? ca_len a) eqn:Ei; [|discriminate].
  cbn [bind] in H. inversion H; subst a'; clear H. unfold CBI. cbn [ca_len ca_map]. split; [|split; [reflexivity|lia]].
  split; [exact H0|]. split; [exact Hm|]. intros j s Hg.
  destruct (N.eq_dec j i) as [->|Hne].
  - rewrite ngss in Hg. inversion Hg; subst s. apply Hf. destruct (nget i (ca_map a)) eqn:E; [exact (Hs i c E)|].
    apply cslot_inv_default. exact H0.
  - rewrite ngso in Hg by exact Hne. exact (Hs j s Hg).
Qed.

Lemma cset_check_inv len x s : cslot_inv len s -> cslot_inv len (cset_check x s).
Proof. intros H. exact H. Qed.
Lemma cset_base_inv len b s : b < len -> cslot_inv len s -> cslot_inv len (cset_base b s).
Proof. intros Hb (H1 & H2 & H3). unfold cslot_inv, cset_base in *. cbn. auto. Qed.
Lemma cset_fail_inv len f s : f < len -> cslot_inv len s -> cslot_inv len (cset_fail f s).
Proof. intros Hb (H1 & H2 & H3). unfold cslot_inv, cset_fail in *. cbn. auto. Qed.
Lemma cset_outpos_inv len p s : p <= nout -> cslot_inv len s -> cslot_inv len (cset_outpos p s).
Proof. intros Hb (H1 & H2 & H3). unfold cslot_inv, cset_outpos in *. cbn. auto. Qed.

Definition CCP (a : carr) (h : helper) : Prop := ca_len a = h_nblocks h * bl /\ h_block_len h = bl.

Lemma CCP_meta a h h' : CCP a h -> hmeta h h' -> CCP a h'.
Proof. unfold CCP, hmeta. intros [A B] (_ & C & _ & D). split; congruence. Qed.

Lemma cw_extend_array_inv a h a' h' : CBI a -> CCP a h -> cw_extend_array bl a h = Ok (a', h') ->
  CBI a' /\ CCP a' h' /\ ca_len a' = ca_len a + bl.
Proof.
  intros (H0 & Hm & Hs) [C1 C2] H. unfold cw_extend_array in H. destruct (_ <? ca_len a); [discriminate|]. bstep H.
  inversion H; subst a' h'; clear H. destruct (push_block_meta _ _ E) as (_ & P2 & _ & P4).
  pose proof bl_ge2 as Hbl.
  split; [|split; [|reflexivity]].
  - unfold CBI. cbn [ca_len ca_map]. split; [lia|]. split.
    + rewrite N.add_mod by lia. rewrite Hm, N.mod_same by lia. reflexivity.
    + intros i s Hg. destruct (Hs i s Hg) as (A & B & C). unfold cslot_inv. repeat split; [destruct A; [left; assumption|right; lia]|lia|exact C].
  - unfold CCP. cbn [ca_len]. split; [rewrite P4, C1; lia|congruence].
Qed.

Lemma cw_all_free_head h base c0 ch r b : cw_all_free h base ((c0, ch) :: r) = Ok b ->
  N.lxor base c0 < h_nblocks h * h_block_len h.
Proof.
  cbn [cw_all_free]. intros H. bstep H. unfold is_used_index in E. bstep E. exact (get_item_lt _ _ _ E0).
Qed.

Lemma lxor_cancel b c : N.lxor (N.lxor b c) c = b.
Proof. rewrite N.lxor_assoc, N.lxor_nilpotent, N.lxor_0_r. reflexivity. Qed.

Lemma cw_find_base_loop_lt : forall fuel h cur c0 ch r b, c0 < bl -> h_block_len h = bl ->
  cw_find_base_loop fuel h cur c0 ((c0, ch) :: r) = Ok (Some b) -> b < h_nblocks h * bl.
Proof.
  induction fuel as [|fuel IH]; intros h cur c0 ch r b Hc Hb H; destruct cur as [idx|]; cbn [cw_find_base_loop] in H; try discriminate.
  bstep H. bstep H. destruct a0 as [b'|].
  - inversion H; subst b'. unfold verify_base in E0. bstep E0. destruct a0; [|discriminate].
    destruct (N.lxor idx c0 =? 0); [discriminate|]. inversion E0; subst b. apply cw_all_free_head in E1. rewrite Hb in E1.
    rewrite <- (lxor_cancel (N.lxor idx c0) c0). apply xor_lt; assumption.
  - exact (IH _ _ _ _ _ _ Hc Hb H).
Qed.

Lemma cw_find_base_range a h es base : CBI a -> CCP a h -> (forall c ch, In (c, ch) es -> c < bl) ->
  cw_find_base a h es = Ok base -> base < ca_len a + bl.
Proof.
  intros (H0 & Hm & _) [C1 C2] Hc H. unfold cw_find_base in H. destruct es as [|[c0 ch] r]; [discriminate|]. bstep H.
  pose proof (Hc c0 ch (or_introl eq_refl)) as Hc0. destruct a0 as [b|].
  - inversion H; subst b. apply cw_find_base_loop_lt in E; [lia|exact Hc0|exact C2].
  - destruct (U32_MAX <? ca_len a); [discriminate|]. destruct (N.lxor (ca_len a) c0 =? 0); [discriminate|]. inversion H; subst base.
    replace (ca_len a + bl) with ((h_nblocks h + 1) * bl) by lia. apply xor_lt; [exact Hc0|lia].
Qed.

Lemma cw_place_children_inv : forall es a h idmap nst base sidx stack a' h' idmap' stack',
  CBI a -> IM idmap (ca_len a) ->
  cw_place_children a h idmap nst base sidx es stack = Ok (a', h', idmap', stack') ->
  CBI a' /\ ca_len a' = ca_len a /\ hmeta h h' /\ IM idmap' (ca_len a).
Proof.
  induction es as [|[c ch] es IH]; intros a h idmap nst base sidx stack a' h' idmap' stack' HB HI H; cbn [cw_place_children] in H.
  - inversion H; subst. split; [exact HB|]. split; [reflexivity|]. split; [apply hmeta_refl|exact HI].
  - bstep H. bstep H. destruct (ch <? nst); [|discriminate].
    destruct (ca_upd_CBI a _ _ a1 HB (fun s => cset_check_inv _ sidx s) E0) as (HB1 & L1 & Hlt).
    assert (HI1 : IM (nset ch (N.lxor base c) idmap) (ca_len a1)).
    { intros i x Hg. rewrite L1. destruct (N.eq_dec i ch) as [->|Hne]; [rewrite ngss in Hg; inversion Hg; subst; exact Hlt|].
      rewrite ngso in Hg by exact Hne. exact (HI i x Hg). }
    destruct (IH _ _ _ _ _ _ _ _ _ _ _ HB1 HI1 H) as (HB2 & L2 & M2 & HI2).
    split; [exact HB2|]. split; [congruence|]. split; [exact (hmeta_trans _ _ _ (use_index_meta _ _ _ E) M2)|].
    rewrite <- L1. exact HI2.
Qed.

Lemma cw_dfs_loop_inv tbl (n : nfa V) :
  (forall label code, code_of tbl label = Some code -> code < bl) ->
  forall fuel a h idmap stack a' h' idmap',
  CBI a -> CCP a h -> IM idmap (ca_len a) ->
  cw_dfs_loop V fuel tbl bl n a h idmap stack = Ok (a', h', idmap') -> CBI a' /\ IM idmap' (ca_len a').
Proof.
  intros Hcode. induction fuel as [|fuel IH]; intros a h idmap stack a' h' idmap' HB HC HI H;
    destruct stack as [|sid stack]; cbn [cw_dfs_loop] in H; try (inversion H; subst; auto; fail); try discriminate.
  destruct (sid =? DEAD); [discriminate|]. bstep H. bstep H. destruct (a1 =? DEAD); [discriminate|].
  destruct (n_edges a0) as [|e0 es0] eqn:Ee; [exact (IH _ _ _ _ _ _ _ HB HC HI H)|]. rewrite <- Ee in H.
  bstep H. bstep H. bstep H. destruct a4 as [a4 h4]. bstep H. destruct a5 as [[[a5 h5] idmap5] stack5]. bstep H.
  assert (Hmc : forall c ch, In (c, ch) a2 -> c < bl).
  { intros c ch Hin. destruct (map_edges_codes tbl _ _ E1 c ch Hin) as [label Hl]. exact (Hcode label c Hl). }
  pose proof (cw_find_base_range _ _ _ _ HB HC Hmc E2) as Hbase.
  assert (Hext : CBI a4 /\ CCP a4 h4 /\ ca_len a <= ca_len a4 /\ a3 < ca_len a4).
  { destruct (ca_len a <=? a3) eqn:El.
    - destruct (cw_extend_array_inv _ _ _ _ HB HC E3) as (X1 & X2 & X3). split; [exact X1|]. split; [exact X2|]. split; lia.
    - inversion E3; subst a4 h4. split; [exact HB|]. split; [exact HC|]. split; lia. }
  destruct Hext as (HB4 & HC4 & Hle & Hb).
  destruct (cw_place_children_inv _ _ _ _ _ _ _ _ _ _ _ _ HB4 (IM_mono _ _ _ Hle HI) E4) as (HB5 & L5 & M5 & HI5).
  assert (Hb5 : a3 < ca_len a5) by lia.
  destruct (ca_upd_CBI a5 _ _ a6 HB5 (fun s => cset_base_inv _ a3 s Hb5) E5) as (HB6 & L6 & _).
  apply (IH a6 h5 idmap5 stack5 a' h' idmap'); [exact HB6| |rewrite L6, L5; exact HI5|exact H].
  apply (CCP_meta a6 h4); [|exact M5]. destruct HC4 as [C1 C2]. split; [congruence|exact C2].
Qed.

Lemma cw_set_fails_loop_inv (n : nfa V) : AllSt V (PL2 V (fun _ => True) nout) n ->
  forall ids a idmap a', CBI a -> IM idmap (ca_len a) ->
  cw_set_fails_loop V n a idmap ids = Ok a' -> CBI a' /\ ca_len a' = ca_len a.
Proof.
  intros HN. induction ids as [|i ids IH]; intros a idmap a' HB HI H; cbn [cw_set_fails_loop] in H; [inversion H; subst; auto|].
  destruct (i =? DEAD); [exact (IH _ _ _ HB HI H)|]. bstep H. destruct (a0 =? DEAD); [discriminate|]. bstep H. bstep H.
  destruct (HN i a1 (nfa_get_some V n i a1 E0)) as [Hop _].
  destruct (ca_upd_CBI a _ _ a2 HB (fun s => cset_outpos_inv _ _ s Hop) E1) as (HB2 & L2 & _).
  assert (Hlen : 1 < ca_len a) by (destruct HB; assumption).
  destruct (n_fail a1 =? DEAD).
  - bstep H. assert (Hd : DEAD < ca_len a2) by (unfold DEAD; lia).
    destruct (ca_upd_CBI a2 _ _ a3 HB2 (fun s => cset_fail_inv _ _ s Hd) E2) as (HB3 & L3 & _).
    destruct (IH a3 idmap a' HB3 ltac:(rewrite L3, L2; exact HI) H) as [X1 X2]. split; [exact X1|congruence].
  - bstep H. destruct (a3 =? DEAD); [discriminate|]. bstep H.
    assert (Hf : a3 < ca_len a2).
    { unfold cidmap_get in E2. destruct (_ <? _); [|discriminate]. inversion E2; subst a3.
      destruct (nget (n_fail a1) idmap) eqn:Eg; [rewrite L2; exact (HI _ _ Eg)|unfold DEAD; lia]. }
    destruct (ca_upd_CBI a2 _ _ a4 HB2 (fun s => cset_fail_inv _ _ s Hf) E3) as (HB3 & L3 & _).
    destruct (IH a4 idmap a' HB3 ltac:(rewrite L3, L2; exact HI) H) as [X1 X2]. split; [exact X1|congruence].
Qed.

End CwDa.

(* ---- the pattern loop and the whole construction ---------------------------------------------- *)
Section CwTop.
Variable V : Type.
Notation anyl := (fun _ : N => True).

Lemma nfa_new_PLO_any kd : AllSt V (PLO V anyl) (nfa_new V kd).
Proof.
  intros i st Hg. unfold nfa_new in Hg. cbn [n_states] in Hg.
  destruct (N.eq_dec i 1) as [->|H1]; [rewrite ngss in Hg; inversion Hg; apply PLO_default|].
  rewrite ngso in Hg by exact H1. destruct (N.eq_dec i 0) as [->|H0]; [rewrite ngss in Hg; inversion Hg; apply PLO_default|].
  rewrite ngso in Hg by exact H0. rewrite nget_empty in Hg. discriminate.
Qed.

Lemma cw_add_all_inv : forall pvs (n : nfa V) f pr n' f' pr',
  AllSt V (PLO V anyl) n -> n_outputs n = [] ->
  cw_add_all V n f pr pvs = Ok (n', f', pr') -> AllSt V (PLO V anyl) n' /\ n_outputs n' = [].
Proof.
  induction pvs as [|[p v] r IH]; intros n f pr n' f' pr' HA Ho H; cbn [cw_add_all] in H; [inversion H; subst; auto|].
  bstep H. refine (IH a _ _ n' f' pr' _ _ H).
  - apply (add_PLO V len_utf8 anyl n p v a); [apply Forall_forall; intros; exact I|exact HA|exact E].
  - rewrite (add_outputs V _ _ _ _ _ E). exact Ho.
Qed.

Lemma cw_init_array_inv alpha nfb a h b : cw_init_array alpha nfb = Ok (a, h, b) ->
  b = block_len_of alpha /\ b <= U32_MAX /\
  forall k, b = 2 ^ k -> 1 <= k -> CBI 0 k a /\ CCP k a h /\ forall nout, CBI nout k a.
Proof.
  unfold cw_init_array. fold (block_len_of alpha). intros H. bstep H. bstep H. bstep H. bstep H. inversion H; subst a h b; clear H.
  unfold helper_new in E. destruct (U32_MAX <? block_len_of alpha * nfb) eqn:Eu; [discriminate|].
  destruct (block_len_of alpha * nfb =? 0) eqn:Ez; [discriminate|]. inversion E; subst a0; clear E.
  destruct (push_block _) as [hh| | | |] eqn:Ep; try discriminate. inversion E0; subst hh; clear E0.
  destruct (push_block_meta _ _ Ep) as (_ & P2 & _ & P4). cbn [h_block_len h_nblocks] in P2, P4.
  pose proof (hmeta_trans _ _ _ (use_index_meta _ _ _ E1) (use_index_meta _ _ _ E2)) as (_ & M2 & _ & M4).
  split; [reflexivity|]. split.
  { assert (nfb <> 0) by (intros ->; rewrite N.mul_0_r in Ez; discriminate).
    assert (block_len_of alpha * 1 <= block_len_of alpha * nfb) by (apply N.mul_le_mono_l; lia). lia. }
  intros k Hk Hk1.
  assert (HC : forall nout, CBI nout k {| ca_map := nempty; ca_len := block_len_of alpha |}).
  { intros nout. unfold CBI. cbn [ca_len ca_map]. rewrite Hk. pose proof (bl_ge2 k Hk1). split; [lia|]. split; [apply N.mod_same; lia|].
    intros i s Hg. rewrite nget_empty in Hg. discriminate. }
  split; [apply HC|]. split; [|exact HC].
  unfold CCP. cbn [ca_len]. rewrite M4, P4, M2, P2, Hk. split; [lia|reflexivity].
Qed.

Theorem cw_build_safe_lemma kd nfb (pvs : list (list N * V)) A :
  cw_build_with_values V kd nfb pvs = Ok A -> cw_safe_b A = true.
Proof.
  intros H. unfold cw_build_with_values in H. destruct (nfb =? 0); [discriminate|].
  destruct (cw_add_all V (nfa_new V kd) _ [] pvs) as [[[n0 f] pr]| | | |] eqn:Ea; cbn [bind] in H; try discriminate.
  destruct (n_len n0 =? 0); [discriminate|].
  destruct (finish_nfa V n0) as [n| | | |] eqn:Ef; cbn [bind] in H; try discriminate.
  set (mp := mapper_new f pr) in *.
  destruct (cw_init_array (mp_alpha mp) nfb) as [[[a0 h0] b]| | | |] eqn:Ei; cbn [bind] in H; try discriminate.
  destruct (cw_dfs_loop V _ _ b n a0 h0 _ _) as [[[a1 h1] idmap]| | | |] eqn:Ed; cbn [bind] in H; try discriminate.
  destruct (cw_set_fails_loop V n a1 idmap _) as [a2| | | |] eqn:Es; cbn [bind] in H; try discriminate.
  destruct (U32_MAX <? n_nstates n - 1); [discriminate|]. inversion H; subst A; clear H.
  destruct (cw_add_all_inv pvs _ _ _ _ _ _ (nfa_new_PLO_any kd) eq_refl Ea) as [HA0 Ho0].
  destruct (finish_nfa_inv V len_utf8 anyl n0 n HA0 Ho0 Ef) as [HA HO].
  set (nout := N.of_nat (length (n_outputs n))) in *.
  destruct (cw_init_array_inv _ _ _ _ _ Ei) as (Hb & Hbu & Hinit).
  destruct (block_len_pow2 (mp_alpha mp)) as [k [Hk Hk1]]. rewrite <- Hb in Hk.
  destruct (Hinit k Hk Hk1) as (_ & HC0 & HB0). specialize (HB0 nout).
  assert (Hcode : forall label code, code_of (index_list (mp_table mp)) label = Some code -> code < 2 ^ k).
  { intros label code Hc. apply (code_of_lt (mp_table mp) (mp_alpha mp)) in Hc; [|intros x Hx; exact (mapper_new_codes f pr x Hx)].
    pose proof (block_len_ge (mp_alpha mp)) as Hge. rewrite <- Hb in Hge. specialize (Hge Hbu). lia. }
  assert (HI0 : IM (nset ROOT ROOT nempty) (ca_len a0)).
  { intros i x Hg. destruct (N.eq_dec i ROOT) as [->|Hne]; [rewrite ngss in Hg; inversion Hg; destruct HB0; unfold ROOT; lia|].
    rewrite ngso in Hg by exact Hne. rewrite nget_empty in Hg. discriminate. }
  rewrite Hk in Ed.
  destruct (cw_dfs_loop_inv V nout k Hk1 _ n Hcode _ _ _ _ _ _ _ _ HB0 HC0 HI0 Ed) as [HB1 HI1].
  destruct (cw_set_fails_loop_inv V nout k Hk1 n HA _ _ _ _ HB1 HI1 Es) as [(H0 & Hm & Hs) L2].
  unfold cw_safe_b. cbn [cw_states cw_mapper cw_outputs]. fold mp. fold (block_len_of (mp_alpha mp)). rewrite <- Hb, Hk.
  unfold carr_to_list. rewrite map_length, nseq_len, N2Nat.id. rewrite !andb_true_iff. repeat split.
  - apply N.ltb_lt. exact H0.
  - apply N.eqb_eq. rewrite N.log2_pow2 by lia. reflexivity.
  - apply N.eqb_eq. exact Hm.
  - apply forallb_forall. intros code Hin. apply orb_true_iff. destruct (mapper_new_codes f pr code Hin) as [->|Hlt]; [left; apply N.eqb_refl|right].
    apply N.ltb_lt. pose proof (block_len_ge (mp_alpha mp)) as Hge. rewrite <- Hb in Hge. specialize (Hge Hbu). fold mp in Hlt. lia.
  - apply forallb_forall. intros s Hin. apply in_map_iff in Hin as [i [<- _]].
    assert (Hsi : cslot_inv nout (ca_len a2) (match nget i (ca_map a2) with Some s => s | None => cstate_default end)).
    { destruct (nget i (ca_map a2)) eqn:Eg; [exact (Hs i c Eg)|eapply cslot_inv_default; eassumption]. }
    destruct Hsi as (A1 & A2 & A3). unfold cw_slot_ok. rewrite !andb_true_iff. repeat split; [|apply N.ltb_lt; exact A2|apply N.leb_le; exact A3].
    apply orb_true_iff. destruct A1 as [A1|A1]; [left; apply N.eqb_eq; exact A1|right; apply N.ltb_lt; exact A1].
  - apply forallb_forall. intros o Hin. rewrite Forall_forall in HO. apply N.leb_le. exact (HO o Hin).
Qed.
End CwTop.
