(* NfaFailsLm.v — NfaBuilder::build_fails_leftmost and build_outputs for the leftmost kinds, for
   EVERY trie that satisfies the invariant of TrieInv.v: the breadth-first pass terminates without a
   panic and leaves at every node u exactly what the leftmost certificate asks for:
     fail(u) = DEAD          if following the textbook link would drop the start of the leftmost
                             pattern occurrence inside u (lm_dead u),
     fail(u) = node of the longest proper suffix of u that is a node, otherwise;
     output position of u    = 0 if no pattern is the suffix of u starting at that leftmost start,
                             else the position of that pattern's (length, value). *)
From DV Require Import Model.Base Model.Nfa Model.Spec Model.Cert Proofs.GenAC Proofs.TrieInv Proofs.NfaFails Proofs.Leftmost.
From Coq Require Import Sorted ZifyN ZifyNat ZifyBool.
Local Open Scope N_scope.

Ltac bstep H :=
  match type of H with
  | bind ?e _ = Ok _ => let E := fresh "E" in destruct e eqn:E; cbn [bind] in H; try discriminate
  end.

Lemma nodup_app_elim' {X} (a b : list X) : NoDup (a ++ b) -> NoDup a /\ NoDup b /\ (forall x, In x a -> In x b -> False).
Proof.
  induction a as [|x a IH]; cbn [app]; intros H; [repeat split; [constructor|exact H|intros x []]|].
  apply NoDup_cons_iff in H as [Hx H]. destruct (IH H) as (A & B & C). split; [|split; [exact B|]].
  - constructor; [|exact A]. intros Hin. apply Hx. apply in_app_iff. left. exact Hin.
  - intros y [<-|Hy] Hb; [apply Hx; apply in_app_iff; right; exact Hb|exact (C y Hy Hb)].
Qed.

Section LM.
Variable V : Type.
Variable lbytes : N -> N.
Hypothesis lb_pos : forall c, 1 <= lbytes c.
Variable n0 : nfa V.
Variable outs : list (list N * V).
Variable paths : list (list N).
Hypothesis T0 : TI V lbytes n0 outs [] paths.
Hypothesis EK0 : forall i st, nget i (n_states n0) = Some st -> NoDup (map fst (n_edges st)).
Hypothesis F0 : forall i st, nget i (n_states n0) = Some st -> n_fail st = ROOT.
Hypothesis ND0 : NoDup (map fst outs).

Notation N0 := (NfaFails.N0 V n0).
Notation c0 := (child0 V n0).
Notation lsuf0 := (Cert.lsuf c0).
Notation inT0 := (Cert.inT c0).
Notation occ := (Leftmost.occ V outs).
Notation lmdead := (Cert.lm_dead V c0 outs).
Notation lmstr := (Cert.lm_str V c0 outs).
Notation mu0 := (Cert.mu0 V outs).
Notation isPat := (Leftmost.isPat V outs).
Notation plen := (TrieInv.plen lbytes).
Notation lmout := (Cert.lm_out V plen outs).
Notation failof := (NfaFails.failof V).
Notation same_trie := (NfaFails.same_trie V n0).

(* ---- the lemmas of Leftmost.v, instantiated -------------------------------------------------- *)
Definition labels0 : list N := flat_map fst outs.

Lemma N0_inj' w1 w2 t : N0 w1 t -> N0 w2 t -> w1 = w2.
Proof. exact (N0_inj V lbytes lb_pos n0 outs paths T0 w1 w2 t). Qed.
Lemma N0_lt' w t : N0 w t -> t < n_nstates n0.
Proof. exact (N0_lt V lbytes lb_pos n0 outs paths T0 w t). Qed.
Lemma N0_root' w : N0 w ROOT -> w = [].
Proof. exact (N0_root V lbytes n0 outs paths T0 w). Qed.
Lemma dep_N0' w t : N0 w t -> dep paths t = length w.
Proof. exact (dep_N0 V lbytes lb_pos n0 outs paths T0 EK0 w t). Qed.

Lemma pats_ok0 : forall p v, In (p, v) outs -> p <> [] /\ inT0 p = true.
Proof.
  intros p v Hin. split; [|exact (pats_nodes0 V lbytes n0 outs paths T0 p v Hin)].
  pose proof (ti_sub _ _ _ _ _ _ T0 p v Hin) as Hp. apply (ti_mem _ _ _ _ _ _ T0) in Hp as [Hne _]. exact Hne.
Qed.

(* a node's label occurs in a pattern *)
Lemma node_label_in w c t : N0 (w ++ [c]) t -> In c labels0.
Proof.
  intros H. pose proof (ti_in_paths _ _ _ _ _ _ _ _ T0 H ltac:(intros E; apply app_eq_nil in E as [_ E]; discriminate)) as Hp.
  apply (ti_mem _ _ _ _ _ _ T0) in Hp as [_ [Hc|(q & v & Hq & [x Hx])]]; [apply pref_nil_r in Hc; apply app_eq_nil in Hc as [_ Hc]; discriminate|].
  unfold labels0. apply in_flat_map. exists (q, v). split; [exact Hq|]. cbn [fst]. rewrite Hx, <- app_assoc. apply in_app_iff. right. left. reflexivity.
Qed.

(* the child function restricted to real states: same walks, and silent outside the alphabet *)
Definition c1 (s c : N) : res (option N) :=
  if (s <? n_nstates n0) && negb (s =? DEAD) && existsb (N.eqb c) labels0 then Ok (tchild V n0 s c) else Ok None.

Lemma c1_labels : forall s c, ~ In c labels0 -> c1 s c = Ok None.
Proof.
  intros s c Hn. unfold c1. assert (existsb (N.eqb c) labels0 = false) as ->; [|rewrite andb_false_r; reflexivity].
  destruct (existsb (N.eqb c) labels0) eqn:E; [|reflexivity]. apply existsb_exists in E as [x [Hx Ex]]. apply N.eqb_eq in Ex. subst x. contradiction.
Qed.

Lemma walk_c1 : forall w u s, N0 u s -> Cert.walk c1 s w = Cert.walk c0 s w.
Proof.
  induction w as [|c w IH]; intros u s Hu; cbn [Cert.walk]; [reflexivity|].
  unfold c1 at 1, child0 at 1. pose proof (N0_lt' u s Hu) as Hl.
  assert (Hd : s <> DEAD).
  { intros ->. destruct (ti_bwd _ _ _ _ _ _ T0 u _ Hu) as [[_ E]|[H2 _]]; [discriminate|unfold DEAD in H2; lia]. }
  assert ((s <? n_nstates n0) && negb (s =? DEAD) = true) as -> by (apply andb_true_iff; split; [apply N.ltb_lt; exact Hl|apply negb_true_iff, N.eqb_neq; exact Hd]).
  cbn [andb]. destruct (tchild V n0 s c) as [t|] eqn:Et.
  - assert (Ht : N0 (u ++ [c]) t) by (apply (N0_snoc V n0); eauto).
    assert (existsb (N.eqb c) labels0 = true) as ->.
    { apply existsb_exists. exists c. split; [exact (node_label_in u c t Ht)|apply N.eqb_refl]. }
    exact (IH (u ++ [c]) t Ht).
  - destruct (existsb (N.eqb c) labels0); reflexivity.
Qed.

Lemma inT_c1 w : Cert.inT c1 w = inT0 w.
Proof. unfold Cert.inT. rewrite (walk_c1 w [] ROOT eq_refl). reflexivity. Qed.

Lemma lsuf_c1 w : Cert.lsuf c1 w = lsuf0 w.
Proof.
  unfold Cert.lsuf. assert (forall l, find (Cert.inT c1) l = find inT0 l) as ->; [|reflexivity].
  induction l as [|x l IHl]; cbn [find]; [reflexivity|]. rewrite inT_c1, IHl. reflexivity.
Qed.

Lemma lmdead_c1 u : Cert.lm_dead V c1 outs u = lmdead u.
Proof. unfold Cert.lm_dead. rewrite lsuf_c1. reflexivity. Qed.

Lemma lmstr_c1 : forall fuel u c, Cert.lm_str V c1 outs fuel u c = lmstr fuel u c.
Proof.
  induction fuel as [|fuel IH]; intros u c; cbn [Cert.lm_str]; [reflexivity|]. rewrite inT_c1.
  destruct (inT0 (u ++ [c])); [reflexivity|]. destruct u as [|a r]; [reflexivity|]. rewrite lmdead_c1, lsuf_c1, IH. reflexivity.
Qed.

Lemma pats_ok1 : forall p v, In (p, v) outs -> p <> [] /\ Cert.inT c1 p = true.
Proof. intros p v Hin. rewrite inT_c1. exact (pats_ok0 p v Hin). Qed.

Definition K0 (w : list N) : Prop := starts_ge V outs w (length w - length (lsuf0 w)).

Lemma K_c1 w : Leftmost.K V c1 outs w <-> K0 w.
Proof. unfold Leftmost.K, K0. rewrite lsuf_c1. reflexivity. Qed.

Lemma lm_step0 c w fuel : K0 w -> (length (lsuf0 w) < fuel)%nat ->
  match lmstr fuel (lsuf0 w) c with
  | Some z => z = lsuf0 (w ++ [c]) /\ K0 (w ++ [c])
  | None => (exists s0 e0, occ w s0 e0) /\
            forall z s e, occ (w ++ c :: z) s e -> (length w < e)%nat -> exists s0 e0, occ w s0 e0 /\ (s0 < s)%nat
  end.
Proof.
  intros HK Hf.
  pose proof (lm_step V (fun _ _ => false) (fun a b (H : false = true) => match Bool.diff_false_true H with end) c1 labels0 outs c1_labels 0%nat pats_ok1 c w fuel) as H.
  rewrite lsuf_c1, lmstr_c1 in H. specialize (H (proj2 (K_c1 w) HK) Hf).
  destruct (lmstr fuel (lsuf0 w) c) as [z|]; [|exact H]. destruct H as [Hz HKz]. rewrite lsuf_c1 in Hz. split; [exact Hz|apply K_c1; exact HKz].
Qed.

Lemma lm_dead_false0 v : lmdead v = false -> starts_ge V outs v (length v - length (lsuf0 (tl v))).
Proof.
  intros H. rewrite <- lmdead_c1 in H.
  pose proof (lm_dead_false V (fun _ _ => false) (fun a b (E : false = true) => match Bool.diff_false_true E with end) c1 labels0 outs c1_labels pats_ok1 v H) as R.
  rewrite lsuf_c1 in R. exact R.
Qed.

Lemma lm_dead_true0 v : lmdead v = true -> exists s e, occ v s e /\ (s < length v - length (lsuf0 (tl v)))%nat.
Proof.
  intros H. rewrite <- lmdead_c1 in H.
  pose proof (lm_dead_true V (fun _ _ => false) (fun a b (E : false = true) => match Bool.diff_false_true E with end) c1 labels0 outs c1_labels pats_ok1 v H) as R.
  rewrite lsuf_c1 in R. exact R.
Qed.

(* an occurrence that starts before the textbook suffix makes the node dead *)
Lemma lm_dead_intro v s e : occ v s e -> (s < length v - length (lsuf0 (tl v)))%nat -> lmdead v = true.
Proof.
  intros Ho Hs. destruct (lmdead v) eqn:E; [reflexivity|]. pose proof (lm_dead_false0 v E s e Ho). lia.
Qed.

(* ---- occurrences under extension ---------------------------------------------------------------- *)
Lemma sub_prefix (w z : list N) s e : (e <= length w)%nat -> sub (w ++ z) s e = sub w s e.
Proof.
  intros H. unfold sub. destruct (le_lt_dec s (length w)) as [Hs|Hs].
  - rewrite skipn_app. replace (s - length w)%nat with 0%nat by lia. cbn [skipn]. rewrite firstn_app, skipn_length.
    replace (e - s - (length w - s))%nat with 0%nat by lia. cbn [firstn]. apply app_nil_r.
  - replace (e - s)%nat with 0%nat by lia. reflexivity.
Qed.

Lemma occ_app_l w z s e : occ w s e -> occ (w ++ z) s e.
Proof. intros [H1 H2]. split; [rewrite app_length; lia|]. rewrite sub_prefix by lia. exact H2. Qed.

Lemma occ_of_prefix w z s e : occ (w ++ z) s e -> (e <= length w)%nat -> occ w s e.
Proof. intros [H1 H2] He. split; [lia|]. rewrite sub_prefix in H2 by lia. exact H2. Qed.

Lemma occ_cons a w s e : occ (a :: w) (S s) (S e) <-> occ w s e.
Proof. unfold Leftmost.occ, sub. cbn [skipn length]. replace (S e - S s)%nat with (e - s)%nat by lia. split; intros [H1 H2]; (split; [lia|exact H2]). Qed.

Lemma occ_whole u : u <> [] -> isPat u = true -> occ u 0 (length u).
Proof.
  intros Hu Hp. split; [destruct u; [congruence|cbn; lia]|]. unfold sub. cbn [skipn]. rewrite Nat.sub_0_r, firstn_all. exact Hp.
Qed.

Lemma lsuf0_snoc_len x c : (length (lsuf0 (x ++ [c])) <= length (lsuf0 x) + 1)%nat.
Proof. rewrite lsuf_snoc. pose proof (lsuf0_len V n0 (lsuf0 x ++ [c])) as H. rewrite app_length in H. cbn in H. exact H. Qed.

(* S0: a pattern node is dead *)
Lemma lmdead_pattern u : u <> [] -> isPat u = true -> lmdead u = true.
Proof.
  intros Hu Hp. apply (lm_dead_intro u 0 (length u) (occ_whole u Hu Hp)).
  pose proof (lsuf0_len V n0 (tl u)). destruct u; [congruence|cbn [tl length] in *; lia].
Qed.

(* S2: death propagates to the children *)
Lemma lmdead_child w c : w <> [] -> lmdead w = true -> lmdead (w ++ [c]) = true.
Proof.
  intros Hw Hd. destruct (lm_dead_true0 w Hd) as (s & e & Ho & Hs).
  apply (lm_dead_intro (w ++ [c]) s e (occ_app_l w [c] s e Ho)).
  replace (tl (w ++ [c])) with (tl w ++ [c]) by (destruct w; [congruence|reflexivity]).
  pose proof (lsuf0_snoc_len (tl w) c). rewrite app_length. cbn [length]. lia.
Qed.

Lemma K0_tl w : w <> [] -> lmdead w = false -> K0 (tl w).
Proof.
  intros Hw Hd. destruct w as [|a w']; [congruence|]. cbn [tl]. intros s e Ho.
  pose proof (lm_dead_false0 (a :: w') Hd (S s) (S e) (proj2 (occ_cons a w' s e) Ho)) as H. cbn [tl length] in H. lia.
Qed.

Lemma node_extends z t : N0 z t -> z <> [] -> exists y v, In (z ++ y, v) outs.
Proof.
  intros Hz Hne. pose proof (ti_in_paths _ _ _ _ _ _ _ _ T0 Hz Hne) as Hp.
  apply (ti_mem _ _ _ _ _ _ T0) in Hp as [_ [Hc|(q & v & Hq & [y ->])]]; [apply pref_nil_r in Hc; congruence|]. eauto.
Qed.

(* S3: the chain walked by fail_loop_lm decides whether a non-pattern child of a live node dies *)
Lemma lmstr_child w c fuel : w <> [] -> lmdead w = false -> isPat (w ++ [c]) = false -> (length (lsuf0 (tl w)) < fuel)%nat ->
  match lmstr fuel (lsuf0 (tl w)) c with
  | Some z => z = lsuf0 (tl (w ++ [c])) /\ lmdead (w ++ [c]) = false
  | None => lmdead (w ++ [c]) = true
  end.
Proof.
  intros Hw Hd Hnp Hf. destruct w as [|a w']; [congruence|]. cbn [tl app] in *.
  pose proof (lm_step0 c w' fuel (K0_tl (a :: w') ltac:(discriminate) Hd) Hf) as H.
  destruct (lmstr fuel (lsuf0 w') c) as [z|].
  - destruct H as [Hz HK]. split; [exact Hz|].
    destruct (lmdead (a :: w' ++ [c])) eqn:E; [|reflexivity]. exfalso.
    destruct (lm_dead_true0 _ E) as (s & e & Ho & Hs). cbn [tl length] in Hs. destruct s as [|s].
    + (* an occurrence at 0 is a pattern that is a prefix of w.c *)
      destruct (Nat.eq_dec e (length (a :: w' ++ [c]))) as [->|Hne].
      * destruct Ho as [_ Ho]. unfold sub in Ho. cbn [skipn] in Ho. rewrite Nat.sub_0_r, firstn_all in Ho. cbn [app] in Hnp. congruence.
      * assert (He : (e <= length (a :: w'))%nat).
        { destruct Ho as [[_ H2] _]. cbn [length] in *. rewrite app_length in *. cbn [length] in *. lia. }
        pose proof (occ_of_prefix (a :: w') [c] 0 e Ho He) as Ho'.
        pose proof (lm_dead_false0 (a :: w') Hd 0%nat e Ho') as Hge. cbn [tl length] in Hge. pose proof (lsuf0_len V n0 w'). lia.
    + destruct e as [|e]; [destruct Ho as [[? ?] _]; lia|]. apply (proj1 (occ_cons a (w' ++ [c]) s e)) in Ho. pose proof (HK s e Ho) as Hge. rewrite app_length in *. cbn [length] in *. lia.
  - destruct H as [(s0 & e0 & Ho0) Hall].
    destruct (lsuf0_node V n0 (w' ++ [c])) as [tz Htz]. set (z := lsuf0 (w' ++ [c])) in *.
    destruct z as [|z0 zr] eqn:Ez.
    + apply (lm_dead_intro (a :: w' ++ [c]) (S s0) (S e0)); [apply occ_cons; apply occ_app_l; exact Ho0|].
      cbn [tl length]. fold z. rewrite Ez. cbn [length]. destruct Ho0 as [[? ?] _]. rewrite app_length. cbn. lia.
    + destruct (node_extends (z0 :: zr) tz Htz ltac:(discriminate)) as (y & v & Hq).
      destruct (lsuf_suffix c0 (w' ++ [c])) as [x Hx]. fold z in Hx. rewrite Ez in Hx.
      assert (Hocc : occ (w' ++ c :: y) (length x) (length x + length (z0 :: zr) + length y)).
      { replace (w' ++ c :: y) with (x ++ (z0 :: zr) ++ y) by (rewrite app_assoc, <- Hx, <- app_assoc; reflexivity).
        split; [rewrite !app_length; cbn [length]; lia|].
        unfold sub. rewrite skipn_app, skipn_all, Nat.sub_diag. cbn [skipn app].
        replace (length x + length (z0 :: zr) + length y - length x)%nat with (length ((z0 :: zr) ++ y)) by (rewrite app_length; lia).
        rewrite firstn_all. apply isPat_iff. eauto. }
      assert (Hlen : length (w' ++ [c]) = (length x + length (z0 :: zr))%nat) by (rewrite Hx, app_length; reflexivity).
      rewrite app_length in Hlen. cbn [length] in Hlen.
      destruct (Hall y _ _ Hocc ltac:(cbn [length] in *; lia)) as (s1 & e1 & Ho1 & Hlt).
      apply (lm_dead_intro (a :: w' ++ [c]) (S s1) (S e1)); [apply occ_cons; apply occ_app_l; exact Ho1|].
      cbn [tl length]. fold z. rewrite Ez. rewrite app_length. cbn [length] in *. lia.
Qed.

(* ---- the inner loop ---------------------------------------------------------------------------- *)
Definition lfail_spec (n : nfa V) (t : N) (w : list N) : Prop :=
  if lmdead w then failof n t = DEAD else N0 (lsuf0 (tl w)) (failof n t).
Definition LFinal (n : nfa V) (t : N) : Prop := forall w, N0 w t -> w <> [] -> lfail_spec n t w.
Definition LPre (n : nfa V) (t : N) : Prop := forall w, N0 w t -> w <> [] -> isPat w = false -> lfail_spec n t w.

Lemma node_not_dead w t : N0 w t -> t <> DEAD.
Proof. intros H ->. destruct (ti_bwd _ _ _ _ _ _ T0 w _ H) as [[_ E]|[H2 _]]; [discriminate|unfold DEAD in H2; lia]. Qed.

Lemma inT0_child u f c : N0 u f -> inT0 (u ++ [c]) = true <-> exists t, tchild V n0 f c = Some t.
Proof.
  intros Hu. rewrite (inT0_iff V n0). split.
  - intros [t Ht]. apply (N0_snoc V n0) in Ht as [s [Hs Hc]]. assert (s = f) by (unfold NfaFails.N0 in *; congruence). subst s. eauto.
  - intros [t Ht]. exists t. apply (N0_snoc V n0). eauto.
Qed.

Lemma fail_loop_lm_ok n holder c : same_trie n -> failof n ROOT = ROOT ->
  forall fuel u f, N0 u f -> (length u < fuel)%nat ->
  (forall v t, N0 v t -> (length v <= length u)%nat -> t <> holder /\ (v <> [] -> lfail_spec n t v)) ->
  exists r, fail_loop_lm V fuel n holder f c = Ok r /\
            match lmstr fuel u c with None => r = DEAD | Some z => N0 z r end.
Proof.
  intros ST Hroot. induction fuel as [|fuel IH]; intros u f Hu Hf Hall; [lia|]. cbn [fail_loop_lm Cert.lm_str].
  destruct (Hall u f Hu (Nat.le_refl _)) as [Hh Hspec].
  assert ((f =? holder) = false) as -> by (apply N.eqb_neq; exact Hh).
  rewrite (child_id_ok V lbytes n0 outs paths T0 n f ST (N0_lt' _ _ Hu)). cbn [bind].
  destruct (tchild V n0 f c) as [t|] eqn:Ec.
  - assert (inT0 (u ++ [c]) = true) as -> by (apply (inT0_child u f c Hu); eauto).
    exists t. split; [reflexivity|]. apply (N0_snoc V n0). eauto.
  - assert (inT0 (u ++ [c]) = false) as ->.
    { destruct (inT0 (u ++ [c])) eqn:E; [|reflexivity]. apply (inT0_child u f c Hu) in E as [t Ht]. congruence. }
    destruct (same_trie_get V lbytes n0 outs paths T0 n f ST (N0_lt' _ _ Hu)) as (st & st0 & Hg & H1 & _). rewrite Hg. cbn [bind].
    assert (Hnext : n_fail st = failof n f) by (unfold NfaFails.failof; rewrite H1; reflexivity). rewrite Hnext.
    destruct u as [|a r].
    + unfold NfaFails.N0 in Hu. cbn in Hu. inversion Hu; subst f. rewrite Hroot.
      assert ((ROOT =? DEAD) = false) as -> by reflexivity. rewrite N.eqb_refl. cbn [andb]. exists ROOT. split; reflexivity.
    + specialize (Hspec ltac:(discriminate)). unfold lfail_spec in Hspec. cbn [tl] in Hspec.
      destruct (lmdead (a :: r)) eqn:Ed.
      * rewrite Hspec, N.eqb_refl. exists DEAD. split; reflexivity.
      * assert ((failof n f =? DEAD) = false) as -> by (apply N.eqb_neq; exact (node_not_dead _ _ Hspec)).
        assert ((f =? ROOT) = false) as ->.
        { apply N.eqb_neq. intros ->. apply N0_root' in Hu. discriminate. }
        cbn [andb]. apply (IH (lsuf0 r) (failof n f) Hspec).
        -- pose proof (lsuf0_len V n0 r). cbn [length] in Hf. lia.
        -- intros v t Hv Hl. apply (Hall v t Hv). pose proof (lsuf0_len V n0 r). cbn [length]. lia.
Qed.

(* ---- the for-loop over the edges of one state ------------------------------------------------ *)
Lemma lfail_ext n n' t w : failof n' t = failof n t -> lfail_spec n t w -> lfail_spec n' t w.
Proof. unfold lfail_spec. intros ->. auto. Qed.

Lemma fails_edges_lm_ok w sid sfail : N0 w sid -> w <> [] ->
  (if lmdead w then sfail = DEAD else N0 (lsuf0 (tl w)) sfail) ->
  forall es n acc, same_trie n -> failof n ROOT = ROOT ->
  (forall c ch, In (c, ch) es -> tchild V n0 sid c = Some ch) -> NoDup (map fst es) ->
  (forall v t, N0 v t -> (length v < length w)%nat -> v <> [] -> lfail_spec n t v) ->
  exists n', fails_edges_lm V n sid sfail es acc = Ok (n', acc ++ map snd es) /\ same_trie n' /\ failof n' ROOT = ROOT
    /\ (forall c ch, In (c, ch) es -> LPre n' ch)
    /\ (forall t, ~ In t (map snd es) -> failof n' t = failof n t).
Proof.
  intros Hw Hne Hsf. induction es as [|[c ch] es IH]; intros n acc ST Hroot Hes Hnd Hall; cbn [fails_edges_lm map snd].
  - exists n. rewrite app_nil_r. split; [reflexivity|]. split; [exact ST|]. split; [exact Hroot|]. split; [intros c ch []|reflexivity].
  - assert (Hch : N0 (w ++ [c]) ch) by (apply (N0_snoc V n0); exists sid; split; [exact Hw|apply Hes; left; reflexivity]).
    assert (Hns : n_nstates n = n_nstates n0) by (destruct ST; assumption).
    (* the value computed for this child *)
    assert (Hnf : exists nf, (if sfail =? DEAD then Ok DEAD else fail_loop_lm V (S (N.to_nat (n_nstates n))) n sid sfail c) = Ok nf
                  /\ (isPat (w ++ [c]) = false -> if lmdead (w ++ [c]) then nf = DEAD else N0 (lsuf0 (tl (w ++ [c]))) nf)).
    { destruct (lmdead w) eqn:Ed.
      - subst sfail. rewrite N.eqb_refl. exists DEAD. split; [reflexivity|]. intros _. rewrite (lmdead_child w c Hne Ed). reflexivity.
      - assert ((sfail =? DEAD) = false) as -> by (apply N.eqb_neq; exact (node_not_dead _ _ Hsf)).
        assert (Hlen : (length (lsuf0 (tl w)) < length w)%nat).
        { pose proof (lsuf0_len V n0 (tl w)). destruct w; [congruence|cbn [tl length] in *; lia]. }
        destruct (fail_loop_lm_ok n sid c ST Hroot (S (N.to_nat (n_nstates n))) (lsuf0 (tl w)) sfail Hsf) as [nf [Hfl Hr]].
        { pose proof (dep_bound V lbytes lb_pos n0 outs paths T0 EK0 w sid Hw). pose proof (nstates_gt_paths V lbytes n0 outs paths T0). lia. }
        { intros v t Hv Hl. split.
          - intros ->. pose proof (N0_inj' _ _ _ Hv Hw) as E. subst v. lia.
          - intros Hvne. apply (Hall v t Hv); [lia|exact Hvne]. }
        exists nf. split; [exact Hfl|]. intros Hnp.
        pose proof (lmstr_child w c (S (N.to_nat (n_nstates n))) Hne Ed Hnp) as Hs.
        assert (Hfu : (length (lsuf0 (tl w)) < S (N.to_nat (n_nstates n)))%nat).
        { pose proof (dep_bound V lbytes lb_pos n0 outs paths T0 EK0 w sid Hw). pose proof (nstates_gt_paths V lbytes n0 outs paths T0). lia. }
        specialize (Hs Hfu). destruct (lmstr _ (lsuf0 (tl w)) c) as [z|].
        + destruct Hs as [-> ->]. exact Hr.
        + rewrite Hs. exact Hr. }
    destruct Hnf as (nf & -> & Hnfs). cbn [bind].
    assert (ch <> sid).
    { intros ->. pose proof (N0_inj' _ _ _ Hch Hw) as E. apply (f_equal (@length N)) in E. rewrite app_length in E. cbn in E. lia. }
    assert ((ch =? sid) = false) as -> by (apply N.eqb_neq; assumption).
    destruct (set_fail_ok V lbytes n0 outs paths T0 n ch nf ST (N0_lt' _ _ Hch)) as [n1 Hs1]. rewrite Hs1. cbn [bind].
    destruct (same_trie_set_fail V n0 n ch nf n1 ST Hs1) as (ST1 & Hf1 & Hf1o).
    cbn [map fst] in Hnd. apply NoDup_cons_iff in Hnd as [Hnot Hnd'].
    assert (Hroot1 : failof n1 ROOT = ROOT).
    { rewrite Hf1o; [exact Hroot|]. intros E. rewrite <- E in Hch. apply N0_root' in Hch. apply app_eq_nil in Hch as [_ Hch]. discriminate. }
    destruct (IH n1 (acc ++ [ch]) ST1 Hroot1 (fun c0 ch0 H0 => Hes c0 ch0 (or_intror H0)) Hnd') as (n2 & H2a & ST2 & Hr2 & H2b & H2c).
    { intros v t Hv Hl Hvne. apply (lfail_ext n n1 t v); [|exact (Hall v t Hv Hl Hvne)]. apply Hf1o. intros ->.
      pose proof (N0_inj' _ _ _ Hv Hch) as E. apply (f_equal (@length N)) in E. rewrite app_length in E. cbn in E. lia. }
    exists n2. rewrite <- app_assoc in H2a. split; [exact H2a|]. split; [exact ST2|]. split; [exact Hr2|]. split.
    + intros c0 ch0 [E|Hin]; [|exact (H2b c0 ch0 Hin)]. inversion E; subst c0 ch0.
      assert (Hnin : ~ In ch (map snd es)).
      { intros Hin. apply in_map_iff in Hin as [[c1 ch1] [E1 Hin1]]. cbn [snd] in E1. subst ch1.
        assert (Hch1 : N0 (w ++ [c1]) ch) by (apply (N0_snoc V n0); exists sid; split; [exact Hw|apply Hes; right; exact Hin1]).
        pose proof (N0_inj' _ _ _ Hch Hch1) as E2. apply app_inj_tail in E2 as [_ E2]. subst c1.
        apply Hnot. apply in_map_iff. exists (c, ch). auto. }
      intros w' Hw' Hw'ne Hnp. rewrite (N0_inj' _ _ _ Hw' Hch) in *. unfold lfail_spec. rewrite (H2c ch Hnin), Hf1. exact (Hnfs Hnp).
    + intros t Ht. cbn [In] in Ht. rewrite (H2c t ltac:(tauto)). apply Hf1o. intros ->. apply Ht. left. reflexivity.
Qed.

(* ---- the queue: its structure is that of the standard pass, carried as a ghost ----------------- *)
Variable ng : nfa V.
Hypothesis STg : same_trie ng.
Hypothesis Fg : forall w t, N0 w t -> N0 (lsuf0 (tl w)) (failof ng t).
Notation QIg := (QI V n0 paths ng).

Record LQ (n : nfa V) (pending done : list N) : Prop := {
  lq_qi : QIg pending done;
  lq_st : same_trie n;
  lq_root : failof n ROOT = ROOT;
  lq_done : forall t, In t done -> LFinal n t;
  lq_pend : forall t, In t pending -> LPre n t
}.

Lemma isPat_output w sid st0 : N0 w sid -> nget sid (n_states n0) = Some st0 -> isSome (n_output st0) = isPat w.
Proof.
  intros Hw Hg. pose proof (ti_out _ _ _ _ _ _ T0 w sid st0 Hw Hg) as Ho. destruct (n_output st0) as [[v l]|]; cbn [isSome].
  - symmetry. apply isPat_iff. exists v. exact (proj1 Ho).
  - destruct (isPat w) eqn:E; [|reflexivity]. apply isPat_iff in E as [v Hv]. exfalso. exact (Ho v Hv).
Qed.

Lemma fails_bfs_lm_ok : forall fuel n pending done, LQ n pending done ->
  (length paths + 1 <= length done + fuel)%nat ->
  exists n' done', fails_bfs_lm V fuel n pending done = Ok (n', rev done') /\ LQ n' [] done'.
Proof.
  induction fuel as [|fuel IH]; intros n pending done Q Hf; destruct pending as [|sid p'];
    try (cbn [fails_bfs_lm]; exists n, done; split; [reflexivity|exact Q]).
  - exfalso. pose proof (q_len V lbytes lb_pos n0 outs paths T0 EK0 ng _ _ (lq_qi _ _ _ Q)) as Hl. rewrite app_length, rev_length in Hl. cbn [length] in Hl. lia.
  - cbn [fails_bfs_lm]. pose proof (lq_qi _ _ _ Q) as QG. pose proof (lq_st _ _ _ Q) as ST.
    destruct (qi_node _ _ _ _ _ _ QG sid ltac:(apply in_app_iff; right; left; reflexivity)) as (w & Hwne & Hw).
    destruct (same_trie_get V lbytes n0 outs paths T0 n sid ST (N0_lt' _ _ Hw)) as (st & st0 & Hg & H1 & H2 & He & Ho & _). rewrite Hg. cbn [bind].
    set (f := if isSome (n_output st) then DEAD else n_fail st).
    destruct (set_fail_ok V lbytes n0 outs paths T0 n sid f ST (N0_lt' _ _ Hw)) as [n1 Hs1]. rewrite Hs1. cbn [bind].
    destruct (same_trie_set_fail V n0 n sid f n1 ST Hs1) as (ST1 & Hf1 & Hf1o).
    assert (Hsr : sid <> ROOT) by (intros ->; apply N0_root' in Hw; congruence).
    assert (Hroot1 : failof n1 ROOT = ROOT) by (rewrite Hf1o by congruence; exact (lq_root _ _ _ Q)).
    (* the final fail link of sid *)
    assert (Hfin : if lmdead w then f = DEAD else N0 (lsuf0 (tl w)) f).
    { unfold f. rewrite Ho, (isPat_output w sid st0 Hw H2). destruct (isPat w) eqn:Ep.
      - rewrite (lmdead_pattern w Hwne Ep). reflexivity.
      - pose proof (lq_pend _ _ _ Q sid (or_introl eq_refl) w Hw Hwne Ep) as Hp. unfold lfail_spec, NfaFails.failof in Hp. rewrite H1 in Hp. exact Hp. }
    assert (Hes : forall c ch, In (c, ch) (n_edges st0) -> tchild V n0 sid c = Some ch).
    { intros c ch Hin. unfold tchild. rewrite H2. apply edge_get_of_in; [exact (EK0 sid st0 H2)|exact Hin]. }
    assert (Hall : forall v t, N0 v t -> (length v < length w)%nat -> v <> [] -> lfail_spec n1 t v).
    { intros v t Hv Hl Hvne. rewrite <- (dep_N0' _ _ Hw) in Hl.
      destruct (shallow_done V lbytes lb_pos n0 outs paths T0 EK0 ng sid p' done QG v t Hv Hl) as [->|Hd]; [apply N0_root' in Hv; congruence|].
      apply (lfail_ext n n1 t v); [|exact (lq_done _ _ _ Q t Hd v Hv Hvne)]. apply Hf1o. intros ->.
      pose proof (N0_inj' _ _ _ Hv Hw) as E. subst v. rewrite (dep_N0' _ _ Hw) in Hl. lia. }
    destruct (fails_edges_lm_ok w sid f Hw Hwne Hfin (n_edges st0) n1 [] ST1 Hroot1 Hes (EK0 sid st0 H2) Hall) as (n2 & F1 & ST2 & Hr2 & F2 & F3).
    rewrite He, F1. cbn [bind app].
    apply (IH n2 (p' ++ map snd (n_edges st0)) (sid :: done)); [|cbn [length]; lia].
    assert (Hsid_nin : ~ In sid (map snd (n_edges st0))).
    { intros Hin. apply in_map_iff in Hin as [[c ch] [E Hin]]. cbn [snd] in E. subst ch. apply Hes in Hin.
      assert (Hc : N0 (w ++ [c]) sid) by (apply (N0_snoc V n0); eauto). pose proof (N0_inj' _ _ _ Hc Hw) as E. apply (f_equal (@length N)) in E. rewrite app_length in E. cbn in E. lia. }
    constructor.
    + apply (QI_step V lbytes lb_pos n0 outs paths T0 EK0 ng sid p' done ng QG st0 H2 STg); [|reflexivity].
      intros c ch Hin w' Hw'. exact (Fg w' ch Hw').
    + exact ST2.
    + exact Hr2.
    + intros t [<-|Hd] u Hu Hune.
      * rewrite (N0_inj' _ _ _ Hu Hw). unfold lfail_spec. rewrite (F3 sid Hsid_nin), Hf1. exact Hfin.
      * assert (Hnin : ~ In t (map snd (n_edges st0))).
        { intros Hin. pose proof (qi_nodup _ _ _ _ _ _ (QI_step V lbytes lb_pos n0 outs paths T0 EK0 ng sid p' done ng QG st0 H2 STg (fun c ch Hin w' Hw' => Fg w' ch Hw') (fun t _ => eq_refl))) as Hnd.
          cbn [rev] in Hnd. rewrite <- !app_assoc in Hnd. cbn [app] in Hnd.
          apply (proj2 (proj2 (nodup_app_elim' _ _ Hnd)) t); [apply in_rev in Hd; exact Hd|]. right. apply in_app_iff. right. exact Hin. }
        apply (lfail_ext n1 n2 t u (F3 t Hnin)). apply (lfail_ext n n1 t u); [|exact (lq_done _ _ _ Q t Hd u Hu Hune)].
        apply Hf1o. intros ->. pose proof (qi_nodup _ _ _ _ _ _ QG) as Hnd. apply NoDup_remove_2 in Hnd. apply Hnd. apply in_app_iff. left. apply in_rev in Hd. exact Hd.
    + intros t Ht. apply in_app_iff in Ht as [Ht|Ht].
      * assert (Hnin : ~ In t (map snd (n_edges st0))).
        { intros Hin. pose proof (qi_nodup _ _ _ _ _ _ (QI_step V lbytes lb_pos n0 outs paths T0 EK0 ng sid p' done ng QG st0 H2 STg (fun c ch Hin w' Hw' => Fg w' ch Hw') (fun t _ => eq_refl))) as Hnd.
          cbn [rev] in Hnd. rewrite <- !app_assoc in Hnd. cbn [app] in Hnd.
          destruct (nodup_app_elim' _ _ Hnd) as (_ & Hnd2 & _). apply NoDup_cons_iff in Hnd2 as [_ Hnd2].
          apply (proj2 (proj2 (nodup_app_elim' _ _ Hnd2)) t Ht Hin). }
        intros u Hu Hune Hnp. apply (lfail_ext n1 n2 t u (F3 t Hnin)). apply (lfail_ext n n1 t u); [|exact (lq_pend _ _ _ Q t (or_intror Ht) u Hu Hune Hnp)].
        apply Hf1o. intros ->. pose proof (qi_nodup _ _ _ _ _ _ QG) as Hnd. apply NoDup_remove_2 in Hnd. apply Hnd. apply in_app_iff. right. exact Ht.
      * apply in_map_iff in Ht as [[c ch] [E Hin]]. cbn [snd] in E. subst ch. exact (F2 c t Hin).
Qed.

(* ---- build_fails_leftmost ------------------------------------------------------------------------ *)
Lemma lmdead_single c : isPat [c] = false -> lmdead [c] = false.
Proof.
  intros Hp. destruct (lmdead [c]) eqn:E; [|reflexivity]. destruct (lm_dead_true0 _ E) as (s & e & [[H1 H2] Hp'] & Hs).
  cbn [tl length] in *. rewrite lsuf_nil in Hs. cbn in Hs. assert (s = 0%nat /\ e = 1%nat) as [-> ->] by lia.
  unfold sub in Hp'. cbn in Hp'. congruence.
Qed.

Theorem build_fails_lm_ok :
  exists n1 q, build_fails_leftmost V n0 = Ok (n1, q) /\ same_trie n1
    /\ failof n1 ROOT = ROOT
    /\ (forall w t, N0 w t -> w <> [] -> lfail_spec n1 t w)
    /\ NoDup q /\ StronglySorted (fun a b => (dep paths a <= dep paths b)%nat) q
    /\ (forall t, In t q <-> exists w, w <> [] /\ N0 w t).
Proof.
  unfold build_fails_leftmost.
  assert (Hr : N0 [] ROOT) by reflexivity.
  destruct (same_trie_get V lbytes n0 outs paths T0 n0 ROOT (same_trie_refl V n0) (N0_lt' _ _ Hr)) as (st & st0 & Hg & H1 & H2 & _). rewrite Hg. cbn [bind].
  assert (st0 = st) by congruence. subst st0.
  assert (Hedge : forall c ch, In (c, ch) (n_edges st) <-> tchild V n0 ROOT c = Some ch).
  { intros c ch. unfold tchild. rewrite H1. split; [apply edge_get_of_in; exact (EK0 ROOT st H1)|apply edge_get_in]. }
  assert (Hfail0 : forall t, failof n0 t = ROOT).
  { intros t. unfold NfaFails.failof. destruct (nget t (n_states n0)) eqn:E; [exact (F0 t n E)|reflexivity]. }
  assert (Hq0 : forall t, In t (map snd (n_edges st)) <-> exists c, N0 [c] t).
  { intros t. rewrite in_map_iff. split.
    - intros [[c ch] [E Hin]]. cbn [snd] in E. subst ch. exists c. apply Hedge in Hin. unfold NfaFails.N0. cbn [twalk]. rewrite Hin. reflexivity.
    - intros [c Hc]. unfold NfaFails.N0 in Hc. cbn [twalk] in Hc. destruct (tchild V n0 ROOT c) as [t'|] eqn:Et; [|discriminate]. inversion Hc; subst t'.
      exists (c, t). split; [reflexivity|apply Hedge; exact Et]. }
  assert (QG0 : QIg (map snd (n_edges st)) []).
  { constructor; cbn [rev app].
    - exact STg.
    - intros t Ht. apply Hq0 in Ht as [c Hc]. exists [c]. split; [discriminate|exact Hc].
    - assert (forall l, (forall t, In t l -> dep paths t = 1%nat) -> StronglySorted (fun a b => (dep paths a <= dep paths b)%nat) l) as Hss.
      { induction l as [|a l IHl]; intros Hl; constructor.
        - apply IHl. intros t Ht. apply Hl. right. exact Ht.
        - apply Forall_forall. intros t Ht. rewrite (Hl a (or_introl eq_refl)), (Hl t (or_intror Ht)). lia. }
      apply Hss. intros t Ht. apply Hq0 in Ht as [c Hc]. rewrite (dep_N0' _ _ Hc). reflexivity.
    - intros t [->|[]] c t' Hc. apply Hq0. exists c. unfold NfaFails.N0. cbn [twalk]. rewrite Hc. reflexivity.
    - intros t Ht. apply Hq0 in Ht as [c Hc]. exists [], c, ROOT. split; [exact Hr|]. split; [exact Hc|left; reflexivity].
    - apply nodup_map_in; [|pose proof (EK0 ROOT st H1) as Hk; apply NoDup_map_inv in Hk; exact Hk].
      intros [c1 t1] [c2 t2] A1 A2 E. cbn [snd] in E. subst t2. f_equal. apply Hedge in A1, A2.
      assert (B1 : N0 [c1] t1) by (unfold NfaFails.N0; cbn [twalk]; rewrite A1; reflexivity).
      assert (B2 : N0 [c2] t1) by (unfold NfaFails.N0; cbn [twalk]; rewrite A2; reflexivity).
      pose proof (N0_inj' _ _ _ B1 B2) as E. inversion E. reflexivity.
    - intros t Ht w Hw. exact (Fg w t Hw). }
  assert (Q0 : LQ n0 (map snd (n_edges st)) []).
  { constructor.
    - exact QG0.
    - exact (same_trie_refl V n0).
    - apply Hfail0.
    - intros t [].
    - intros t Ht u Hu Hune Hnp. apply Hq0 in Ht as [c Hc]. rewrite (N0_inj' _ _ _ Hu Hc) in *. unfold lfail_spec.
      rewrite (lmdead_single c Hnp), Hfail0. cbn [tl]. rewrite lsuf_nil. exact Hr. }
  destruct (fails_bfs_lm_ok (S (N.to_nat (n_nstates n0))) n0 _ [] Q0) as (n1 & done' & Hb & Q1).
  { pose proof (nstates_gt_paths V lbytes n0 outs paths T0). cbn [length]. lia. }
  exists n1, (rev done'). split; [exact Hb|]. split; [exact (lq_st _ _ _ Q1)|]. split; [exact (lq_root _ _ _ Q1)|].
  pose proof (lq_qi _ _ _ Q1) as QG1.
  assert (Hall : forall w t, N0 w t -> t = ROOT \/ In t done').
  { induction w as [|c w IHw] using rev_ind; intros t Hw.
    - left. unfold NfaFails.N0 in Hw. cbn in Hw. inversion Hw. reflexivity.
    - right. apply (N0_snoc V n0) in Hw as [s [Hs Hc]]. pose proof (qi_closed _ _ _ _ _ _ QG1 s (IHw s Hs) c t Hc) as Hin.
      rewrite app_nil_r in Hin. apply in_rev in Hin. exact Hin. }
  split; [|split; [|split]].
  - intros w t Hw Hne. destruct (Hall w t Hw) as [->|Hd]; [apply N0_root' in Hw; congruence|]. exact (lq_done _ _ _ Q1 t Hd w Hw Hne).
  - pose proof (qi_nodup _ _ _ _ _ _ QG1) as Hn. rewrite app_nil_r in Hn. exact Hn.
  - pose proof (qi_sort _ _ _ _ _ _ QG1) as Hn. rewrite app_nil_r in Hn. exact Hn.
  - intros t. split.
    + intros Ht. apply (qi_node _ _ _ _ _ _ QG1). rewrite app_nil_r. exact Ht.
    + intros (w & Hne & Hw). destruct (Hall w t Hw) as [->|Hd]; [apply N0_root' in Hw; congruence|apply in_rev in Hd; exact Hd].
Qed.

(* ---- the output of a node under the leftmost kinds ------------------------------------------- *)
Lemma find_first (f : nat -> bool) : forall n a m, find f (seq a n) = Some m ->
  f m = true /\ (a <= m < a + n)%nat /\ forall k, (a <= k < m)%nat -> f k = false.
Proof.
  induction n as [|n IH]; intros a m H; cbn [seq find] in H; [discriminate|]. destruct (f a) eqn:E.
  - inversion H; subst. split; [exact E|]. split; [lia|]. intros k Hk. lia.
  - destruct (IH (S a) m H) as (H1 & H2 & H3). split; [exact H1|]. split; [lia|].
    intros k Hk. destruct (Nat.eq_dec k a) as [->|Hne]; [exact E|apply H3; lia].
Qed.
Lemma find_none' (f : nat -> bool) n a : find f (seq a n) = None -> forall k, (a <= k < a + n)%nat -> f k = false.
Proof. intros H k Hk. apply (find_none _ _ H). apply in_seq. lia. Qed.

Lemma occurs_at_iff0 u k : Cert.occurs_at V outs u k = true <-> exists e, occ u k e.
Proof.
  unfold Cert.occurs_at. rewrite existsb_exists. split.
  - intros [[p v] [Hin Hp]]. cbn [fst] in Hp. apply is_prefix_iff_ex in Hp as [r Hr].
    destruct (pats_ok0 p v Hin) as [Hne _]. exists (k + length p)%nat.
    assert (Hl : length (skipn k u) = (length p + length r)%nat) by (rewrite Hr, app_length; reflexivity). rewrite skipn_length in Hl.
    split; [destruct p; [congruence|cbn [length] in *; lia]|]. unfold sub. replace (k + length p - k)%nat with (length p) by lia.
    rewrite Hr, firstn_app, Nat.sub_diag, firstn_all. cbn [firstn]. rewrite app_nil_r. apply isPat_iff. eauto.
  - intros [e [[H1 H2] Hp]]. apply isPat_iff in Hp as [v Hv]. exists (sub u k e, v). split; [exact Hv|]. cbn [fst].
    apply is_prefix_iff_ex. exists (skipn (e - k) (skipn k u)). unfold sub. symmetry. apply firstn_skipn.
Qed.

Lemma mu0_some u m : mu0 u = Some m -> (exists e, occ u m e) /\ forall k e, occ u k e -> (m <= k)%nat.
Proof.
  unfold Cert.mu0. intros H. apply find_first in H as (H1 & H2 & H3). split; [apply occurs_at_iff0; exact H1|].
  intros k e Ho. destruct (le_lt_dec m k) as [L|L]; [exact L|]. assert (Cert.occurs_at V outs u k = true) by (apply occurs_at_iff0; eauto).
  rewrite (H3 k ltac:(lia)) in H. discriminate.
Qed.
Lemma mu0_none u : mu0 u = None -> forall k e, ~ occ u k e.
Proof.
  unfold Cert.mu0. intros H k e Ho. assert (Hk : Cert.occurs_at V outs u k = true) by (apply occurs_at_iff0; eauto).
  rewrite (find_none' _ _ _ H k) in Hk; [discriminate|]. destruct Ho as [[? ?] _]. lia.
Qed.
Lemma mu0_intro u m : (exists e, occ u m e) -> (forall k e, occ u k e -> (m <= k)%nat) -> mu0 u = Some m.
Proof.
  intros [e He] Hmin. destruct (mu0 u) as [m'|] eqn:E.
  - destruct (mu0_some u m' E) as [[e' He'] Hmin']. f_equal. pose proof (Hmin m' e' He'). pose proof (Hmin' m e He). lia.
  - exfalso. exact (mu0_none u E m e He).
Qed.

Lemma pats_eq_isPat x lv r : Cert.pats_eq V plen outs x = lv :: r -> isPat x = true.
Proof.
  unfold Cert.pats_eq. intros H. destruct (filter (fun pv => list_eqb (fst pv) x) outs) as [|[p v] l] eqn:E; [discriminate|].
  assert (Hin : In (p, v) (filter (fun pv => list_eqb (fst pv) x) outs)) by (rewrite E; left; reflexivity).
  apply filter_In in Hin as [Hin Hp]. cbn [fst] in Hp. apply list_eqb_eq in Hp. subst p. apply isPat_iff. eauto.
Qed.

(* O1 *)
Lemma lmout_pattern u v : u <> [] -> In (u, v) outs -> lmout u = Some (plen u, v).
Proof.
  intros Hu Hin. unfold Cert.lm_out. assert (isPat u = true) as Hp by (apply isPat_iff; eauto).
  rewrite (mu0_intro u 0 (ex_intro _ _ (occ_whole u Hu Hp)) ltac:(intros; lia)). cbn [skipn].
  rewrite (pateq_some V lbytes outs ND0 u v Hin). reflexivity.
Qed.

(* O2 *)
Lemma lmout_dead u : u <> [] -> isPat u = false -> lmdead u = true -> lmout u = None.
Proof.
  intros Hu Hnp Hd. unfold Cert.lm_out. unfold Cert.lm_dead in Hd. destruct (mu0 u) as [m|] eqn:Em; [|reflexivity].
  apply Nat.ltb_lt in Hd. destruct (Cert.pats_eq V plen outs (skipn m u)) as [|lv r] eqn:Ep; [reflexivity|]. exfalso.
  apply pats_eq_isPat in Ep. destruct m as [|m]; [cbn [skipn] in Ep; congruence|].
  apply isPat_iff in Ep as [v Hv]. destruct (pats_ok0 _ v Hv) as [_ Hnode].
  destruct u as [|a r']; [congruence|]. cbn [skipn tl length] in *.
  destruct (lsuf_longest c0 r' (firstn m r') (skipn m r') (eq_sym (firstn_skipn m r')) Hnode) as [q Hq].
  apply (f_equal (@length N)) in Hq. rewrite app_length, skipn_length in Hq. lia.
Qed.

Lemma occ_skip y x s e : (length y <= s)%nat -> occ (y ++ x) s e <-> occ x (s - length y) (e - length y).
Proof.
  intros Hs. unfold Leftmost.occ, sub. rewrite skipn_app, skipn_all2 by lia. cbn [app]. rewrite app_length.
  replace (e - length y - (s - length y))%nat with (e - s)%nat by lia. split; intros [H1 H2]; (split; [lia|exact H2]).
Qed.

(* O3 *)
Lemma lmout_live u : u <> [] -> isPat u = false -> lmdead u = false -> lmout u = lmout (lsuf0 (tl u)).
Proof.
  intros Hu Hnp Hd. pose proof (lm_dead_false0 u Hd) as Hge. set (x := lsuf0 (tl u)) in *.
  destruct (lsuf_suffix c0 (tl u)) as [p Hp]. fold x in Hp. destruct u as [|a r]; [congruence|]. cbn [tl] in *.
  set (y := a :: p). assert (Hux : a :: r = y ++ x) by (unfold y; cbn [app]; rewrite <- Hp; reflexivity).
  assert (Hyl : (length (a :: r) - length x)%nat = length y) by (rewrite Hux, app_length; lia). rewrite Hyl in Hge.
  unfold Cert.lm_out. destruct (mu0 x) as [mx|] eqn:Ex.
  - destruct (mu0_some x mx Ex) as [[e He] Hmin].
    rewrite (mu0_intro (a :: r) (length y + mx)).
    + rewrite Hux, skipn_app, skipn_all2 by lia. cbn [app]. replace (length y + mx - length y)%nat with mx by lia. reflexivity.
    + exists (length y + e)%nat. rewrite Hux. apply (occ_skip y x); [lia|]. replace (length y + mx - length y)%nat with mx by lia. replace (length y + e - length y)%nat with e by lia. exact He.
    + intros k e' Ho. pose proof (Hge k e' Ho) as Hk. rewrite Hux in Ho. apply (occ_skip y x k e' Hk) in Ho. pose proof (Hmin _ _ Ho). lia.
  - destruct (mu0 (a :: r)) as [m|] eqn:Em; [|reflexivity]. exfalso. destruct (mu0_some _ m Em) as [[e He] _].
    pose proof (Hge m e He) as Hk. rewrite Hux in He. apply (occ_skip y x m e Hk) in He. exact (mu0_none x Ex _ _ He).
Qed.

(* ---- build_outputs under the leftmost kinds ------------------------------------------------------ *)
Hypothesis LEN0 : N.of_nat (length outs) < U32_MAX.
Notation outposof := (NfaFails.outposof V).
Notation same_links := (NfaFails.same_links V).

Definition LOutOK (n : nfa V) (t : N) : Prop :=
  forall u, N0 u t ->
    match lmout u with
    | None => outposof n t = 0
    | Some lv => outposof n t <> 0 /\ exists o, nth_error (n_outputs n) (N.to_nat (outposof n t - 1)) = Some o
                                             /\ o_length o = fst lv /\ o_value o = snd lv
    end.

Section LOuts.
Variable n1 : nfa V.
Hypothesis ST1 : same_trie n1.
Hypothesis F1 : forall w t, N0 w t -> w <> [] -> lfail_spec n1 t w.
Hypothesis R1 : failof n1 ROOT = ROOT.

Record LOI (n : nfa V) (qd : list N) : Prop := {
  loi_links : same_links n1 n;
  loi_ok : forall t, t = ROOT \/ In t qd -> LOutOK n t;
  loi_dead : outposof n DEAD = 0;
  loi_cnt : exists pushed : list (list N), length pushed = length (n_outputs n) /\ NoDup pushed /\ incl pushed (map fst outs)
             /\ forall p, In p pushed -> exists t, In t qd /\ N0 p t
}.

Lemma LOutOK_app n n' t x : outposof n' t = outposof n t -> n_outputs n' = n_outputs n ++ x -> LOutOK n t -> LOutOK n' t.
Proof.
  intros Hp Ho H u Hu. specialize (H u Hu). rewrite Hp, Ho. destruct (lmout u) as [lv|]; [|exact H].
  destruct H as (Hz & o & Hn & Hl & Hv). split; [exact Hz|]. exists o. split; [|auto]. rewrite nth_error_app1; [exact Hn|]. apply nth_error_Some. congruence.
Qed.

Lemma loutputs_loop_ok : forall q n qd, LOI n qd ->
  NoDup (qd ++ q) -> StronglySorted (fun a b => (dep paths a <= dep paths b)%nat) (qd ++ q) ->
  (forall t, In t (qd ++ q) <-> exists w, w <> [] /\ N0 w t) ->
  exists n', outputs_loop V n q = Ok n' /\ LOI n' (qd ++ q).
Proof.
  induction q as [|sid q IH]; intros n qd OIn Hnd Hso Hmem; cbn [outputs_loop].
  - exists n. rewrite app_nil_r. auto.
  - assert (Hsid : In sid (qd ++ sid :: q)) by (apply in_app_iff; right; left; reflexivity).
    destruct (proj1 (Hmem sid) Hsid) as (w & Hwne & Hw).
    pose proof (loi_links _ _ OIn) as SL.
    destruct (same_links_get V lbytes n0 outs paths T0 n1 ST1 n sid SL (N0_lt' _ _ Hw)) as (st & st0 & Hg & G1 & G0 & Ho & Hf). rewrite Hg. cbn [bind].
    pose proof (F1 w sid Hw Hwne) as Hfw. unfold lfail_spec in Hfw. rewrite <- Hf in Hfw.
    assert (Hsd : sid <> DEAD) by exact (node_not_dead _ _ Hw).
    assert (Hsr : sid <> ROOT) by (intros ->; apply N0_root' in Hw; congruence).
    (* the state behind the fail link: dead, the root, or a node processed earlier *)
    assert (Hfs : exists fs, nfa_get V n (n_fail st) = Ok fs /\ nget (n_fail st) (n_states n) = Some fs /\ n_fail st <> sid
                   /\ (if lmdead w then n_outpos fs = 0 else LOutOK n (n_fail st) /\ N0 (lsuf0 (tl w)) (n_fail st))).
    { destruct (lmdead w) eqn:Ed.
      - rewrite Hfw. assert (Hdl : DEAD < n_nstates n0) by (pose proof (ti_cnt _ _ _ _ _ _ T0); unfold DEAD; lia).
        destruct (same_links_get V lbytes n0 outs paths T0 n1 ST1 n DEAD SL Hdl) as (fs & _ & Hgf & G1f & _). exists fs. split; [exact Hgf|]. split; [exact G1f|]. split; [congruence|].
        pose proof (loi_dead _ _ OIn) as Hd0. unfold NfaFails.outposof in Hd0. rewrite G1f in Hd0. exact Hd0.
      - destruct (same_links_get V lbytes n0 outs paths T0 n1 ST1 n (n_fail st) SL (N0_lt' _ _ Hfw)) as (fs & _ & Hgf & G1f & _). exists fs. split; [exact Hgf|]. split; [exact G1f|].
        assert (Hdl : (dep paths (n_fail st) < dep paths sid)%nat).
        { rewrite (dep_N0' _ _ Hfw), (dep_N0' _ _ Hw). pose proof (lsuf0_len V n0 (tl w)). destruct w; [congruence|cbn [tl length] in *; lia]. }
        split; [intros E; rewrite E in Hdl; lia|]. split; [|exact Hfw].
        apply (loi_ok _ _ OIn). destruct (N.eq_dec (n_fail st) ROOT) as [E|Hne]; [left; exact E|right].
        assert (Hin : In (n_fail st) (qd ++ sid :: q)).
        { apply Hmem. exists (lsuf0 (tl w)). split; [|exact Hfw]. intros E. rewrite E in Hfw. unfold NfaFails.N0 in Hfw. cbn in Hfw. congruence. }
        apply in_app_iff in Hin as [Hin|Hin]; [exact Hin|exfalso].
        apply ssorted_app_iff in Hso as (_ & Hso & _). inversion Hso as [|? ? _ Hfa]; subst. rewrite Forall_forall in Hfa.
        destruct Hin as [E|Hin]; [rewrite E in Hdl; lia|]. specialize (Hfa _ Hin). lia. }
    destruct Hfs as (fs & Hgf & G1f & Hfne & Hfcase).
    assert ((n_fail st =? sid) = false) as -> by (apply N.eqb_neq; exact Hfne). rewrite Hgf. cbn [bind].
    pose proof (ti_out _ _ _ _ _ _ T0 w sid st0 Hw G0) as Hto. rewrite <- Ho in Hto.
    replace (qd ++ sid :: q) with ((qd ++ [sid]) ++ q) in * by (rewrite <- app_assoc; reflexivity).
    destruct (loi_cnt _ _ OIn) as (pushed & Hpl & Hpn & Hpi & Hpq).
    assert (Hcase : forall t, t = ROOT \/ In t (qd ++ [sid]) -> t = sid \/ (t <> sid /\ (t = ROOT \/ In t qd))).
    { intros t Ht. destruct (N.eq_dec t sid) as [->|Hne]; [left; reflexivity|right]. split; [exact Hne|].
      destruct Ht as [->|Ht]; [left; reflexivity|]. apply in_app_iff in Ht as [Ht|[E|[]]]; [right; exact Ht|congruence]. }
    destruct (n_output st) as [[v len]|] eqn:Eo.
    + destruct Hto as [Hin ->].
      assert (Hpat : isPat w = true) by (apply isPat_iff; eauto).
      rewrite (lmdead_pattern w Hwne Hpat) in Hfcase.
      assert (Hnew : ~ In w pushed).
      { intros Hi. destruct (Hpq w Hi) as (t & Ht & Hwt). assert (t = sid) by (unfold NfaFails.N0 in *; congruence). subst t.
        rewrite <- app_assoc in Hnd. apply NoDup_remove_2 in Hnd. apply Hnd. apply in_app_iff. left. exact Ht. }
      assert (Hbound : (length (w :: pushed) <= length outs)%nat).
      { rewrite <- (map_length fst outs). apply NoDup_incl_length; [constructor; assumption|].
        intros x [<-|Hx]; [apply in_map_iff; exists (w, v); auto|exact (Hpi x Hx)]. }
      cbn [length] in Hbound.
      assert ((U32_MAX <? N.of_nat (length (n_outputs n)) + 1) = false) as -> by (apply N.ltb_ge; lia).
      apply IH; try assumption. clear IH.
      set (no := {| o_value := v; o_length := plen w; o_parent := n_outpos fs |}).
      constructor.
      * destruct SL as (S1 & S2 & S3). unfold NfaFails.same_links, nfa_set. cbn [n_nstates n_kind n_states]. repeat split; try assumption.
        intros j. destruct (N.eq_dec j sid) as [->|Hne].
        -- rewrite ngss. specialize (S3 sid). rewrite G1 in S3. destruct (nget sid (n_states n1)); [|contradiction]. cbn. rewrite <- Eo. exact S3.
        -- rewrite ngso by exact Hne. exact (S3 j).
      * intros t Ht. destruct (Hcase t Ht) as [->|[Hne Ht']].
        -- intros u Hu. rewrite (N0_inj' _ _ _ Hu Hw). rewrite (lmout_pattern w v Hwne Hin).
           unfold NfaFails.outposof, nfa_set. cbn [n_states n_outputs]. rewrite ngss. cbn [n_outpos]. split; [lia|].
           exists no. split; [|split; reflexivity].
           replace (N.to_nat (N.of_nat (length (n_outputs n)) + 1 - 1)) with (length (n_outputs n)) by lia.
           rewrite nth_error_app2 by lia. rewrite Nat.sub_diag. reflexivity.
        -- apply (LOutOK_app n _ t [no]); [| reflexivity |exact (loi_ok _ _ OIn t Ht')].
           unfold NfaFails.outposof, nfa_set. cbn [n_states]. rewrite ngso by exact Hne. reflexivity.
      * unfold NfaFails.outposof, nfa_set. cbn [n_states]. rewrite ngso by congruence. exact (loi_dead _ _ OIn).
      * exists (pushed ++ [w]). unfold nfa_set. cbn [n_outputs]. rewrite !app_length. cbn [length]. split; [lia|]. split.
        -- apply nodup_app_intro. split; [exact Hpn|]. split; [constructor; [intros []|constructor]|]. intros x Hx [<-|[]]. exact (Hnew Hx).
        -- split.
           ++ intros x Hx. apply in_app_iff in Hx as [Hx|[<-|[]]]; [exact (Hpi x Hx)|apply in_map_iff; exists (w, v); auto].
           ++ intros x Hx. apply in_app_iff in Hx as [Hx|[<-|[]]].
              ** destruct (Hpq x Hx) as (t & Ht & Hxt). exists t. split; [apply in_app_iff; left; exact Ht|exact Hxt].
              ** exists sid. split; [apply in_app_iff; right; left; reflexivity|exact Hw].
    + assert (Hnp : isPat w = false).
      { destruct (isPat w) eqn:E; [|reflexivity]. apply isPat_iff in E as [v Hv]. exfalso. exact (Hto v Hv). }
      apply IH; try assumption. clear IH.
      constructor.
      * destruct SL as (S1 & S2 & S3). unfold NfaFails.same_links, nfa_set. cbn [n_nstates n_kind n_states]. repeat split; try assumption.
        intros j. destruct (N.eq_dec j sid) as [->|Hne].
        -- rewrite ngss. specialize (S3 sid). rewrite G1 in S3. destruct (nget sid (n_states n1)); [|contradiction]. cbn. rewrite <- Eo. exact S3.
        -- rewrite ngso by exact Hne. exact (S3 j).
      * intros t Ht. destruct (Hcase t Ht) as [->|[Hne Ht']].
        -- intros u Hu. rewrite (N0_inj' _ _ _ Hu Hw).
           assert (Hop : outposof (nfa_set V n sid {| n_edges := n_edges st; n_fail := n_fail st; n_output := None; n_outpos := n_outpos fs |}) sid = n_outpos fs)
             by (unfold NfaFails.outposof, nfa_set; cbn [n_states]; rewrite ngss; reflexivity).
           rewrite Hop. cbn [n_outputs nfa_set]. destruct (lmdead w) eqn:Ed.
           ++ rewrite (lmout_dead w Hwne Hnp Ed). exact Hfcase.
           ++ destruct Hfcase as [Hfo Hfn]. rewrite (lmout_live w Hwne Hnp Ed). specialize (Hfo _ Hfn).
              unfold NfaFails.outposof in Hfo. rewrite G1f in Hfo. exact Hfo.
        -- intros u Hu. pose proof (loi_ok _ _ OIn t Ht' u Hu) as H. unfold NfaFails.outposof, nfa_set in *. cbn [n_states n_outputs]. rewrite ngso by exact Hne. exact H.
      * unfold NfaFails.outposof, nfa_set. cbn [n_states]. rewrite ngso by congruence. exact (loi_dead _ _ OIn).
      * exists pushed. cbn [n_outputs nfa_set]. split; [exact Hpl|]. split; [exact Hpn|]. split; [exact Hpi|].
        intros x Hx. destruct (Hpq x Hx) as (t & Ht & Hxt). exists t. split; [apply in_app_iff; left; exact Ht|exact Hxt].
Qed.
End LOuts.

(* ---- finish_nfa, leftmost kinds --------------------------------------------------------------- *)
Hypothesis OP0 : forall i st, nget i (n_states n0) = Some st -> n_outpos st = 0.
Hypothesis OUT0 : n_outputs n0 = [].
Hypothesis NE0 : outs <> [].
Hypothesis LM0 : n_kind n0 <> Standard.

Theorem finish_nfa_lm_ok :
  exists n2, finish_nfa V n0 = Ok n2
    /\ n_nstates n2 = n_nstates n0 /\ n_kind n2 = n_kind n0
    /\ (forall s c, tchild V n2 s c = tchild V n0 s c)
    /\ (forall w t, N0 w t -> w <> [] -> lfail_spec n2 t w)
    /\ (forall w t, N0 w t -> LOutOK n2 t)
    /\ (N.of_nat (length (n_outputs n2)) <= N.of_nat (length outs))
    /\ (forall i, i < n_nstates n0 -> exists st st0, nget i (n_states n2) = Some st /\ nget i (n_states n0) = Some st0
                                                   /\ n_edges st = n_edges st0 /\ n_output st = n_output st0)
    /\ failof n2 ROOT = ROOT.
Proof.
  unfold finish_nfa.
  destruct build_fails_lm_ok as (n1 & q & Hb & ST1 & R1 & F1 & Hnd & Hso & Hmem).
  assert (Hbf : (match n_kind n0 with Standard => build_fails V n0 | _ => build_fails_leftmost V n0 end) = Ok (n1, q)).
  { destruct (n_kind n0); [congruence|exact Hb|exact Hb]. }
  rewrite Hbf. cbn [bind].
  assert (Hop1 : forall t, outposof n1 t = 0).
  { intros t. unfold NfaFails.outposof. destruct ST1 as (_ & _ & _ & H). specialize (H t).
    destruct (nget t (n_states n1)) as [st|] eqn:E; [|reflexivity]. destruct (nget t (n_states n0)) as [st0|] eqn:E0; [|contradiction].
    destruct H as (_ & _ & ->). exact (OP0 t st0 E0). }
  assert (OI1 : LOI n1 n1 []).
  { constructor.
    - apply same_links_refl.
    - intros t [->|[]] u Hu. apply N0_root' in Hu. subst u. rewrite Hop1. reflexivity.
    - apply Hop1.
    - exists []. destruct ST1 as (_ & _ & -> & _). rewrite OUT0. cbn. repeat split; [constructor|intros x []|intros x []]. }
  destruct (loutputs_loop_ok n1 ST1 F1 R1 q n1 [] OI1 Hnd Hso Hmem) as (n2 & Ho & OI2). cbn [app] in OI2.
  assert (Hex : exists p v, In (p, v) outs).
  { pose proof NE0 as Hne. clear -Hne. destruct outs as [|[p v] r]; [congruence|]. exists p, v. left. reflexivity. }
  destruct Hex as (p & v & Hpv).
  assert (Hp : exists t, N0 p t /\ p <> []).
  { pose proof (ti_sub _ _ _ _ _ _ T0 p v Hpv) as Hin. pose proof (proj1 (ti_mem _ _ _ _ _ _ T0 p) Hin) as [Hpne _].
    apply In_nth_error in Hin as [i Hi]. eexists. split; [exact (ti_fwd _ _ _ _ _ _ T0 i p Hi)|exact Hpne]. }
  destruct Hp as (tp & Htp & Hpne). assert (Hinq : In tp q) by (apply Hmem; exists p; auto).
  unfold build_outputs. destruct q as [|q0 q']; [destruct Hinq|].
  assert ((q0 =? ROOT) = false) as ->.
  { apply N.eqb_neq. intros ->. destruct (proj1 (Hmem ROOT) (or_introl eq_refl)) as (w & Hwne & Hw). apply N0_root' in Hw. congruence. }
  exists n2. split; [exact Ho|].
  destruct (loi_links _ _ _ OI2) as (L1 & L2 & L3). destruct ST1 as (S1 & S2 & S3 & S4).
  split; [congruence|]. split; [congruence|]. split; [|split; [|split; [|split; [|split]]]].
  - intros s c. unfold tchild. specialize (L3 s). specialize (S4 s).
    destruct (nget s (n_states n2)), (nget s (n_states n1)), (nget s (n_states n0)); try contradiction; try reflexivity.
    destruct L3 as (-> & _). destruct S4 as (-> & _). reflexivity.
  - intros w t Hw Hne. replace (failof n2 t) with (failof n1 t) in *.
    + unfold lfail_spec. replace (failof n2 t) with (failof n1 t); [exact (F1 w t Hw Hne)|].
      unfold NfaFails.failof. specialize (L3 t). destruct (nget t (n_states n2)), (nget t (n_states n1)); try contradiction; [|reflexivity].
      destruct L3 as (_ & _ & ->). reflexivity.
    + unfold NfaFails.failof. specialize (L3 t). destruct (nget t (n_states n2)), (nget t (n_states n1)); try contradiction; [|reflexivity].
      destruct L3 as (_ & _ & ->). reflexivity.
  - intros w t Hw. apply (loi_ok _ _ _ OI2). destruct (N.eq_dec t ROOT) as [->|Hne]; [left; reflexivity|right].
    apply Hmem. exists w. split; [|exact Hw]. intros ->. unfold NfaFails.N0 in Hw. cbn in Hw. congruence.
  - destruct (loi_cnt _ _ _ OI2) as (pushed & Hpl & Hpn & Hpi & _). rewrite <- Hpl.
    pose proof (NoDup_incl_length Hpn Hpi) as Hle. rewrite map_length in Hle. lia.
  - intros i Hi. destruct (ti_wf _ _ _ _ _ _ T0 i Hi) as [st0 Hst0]. specialize (L3 i). specialize (S4 i). rewrite Hst0 in S4.
    destruct (nget i (n_states n1)) as [st1|]; [|contradiction]. destruct (nget i (n_states n2)) as [st|]; [|contradiction].
    exists st, st0. destruct L3 as (A1 & A2 & _). destruct S4 as (B1 & B2 & _). repeat split; congruence.
  - transitivity (failof n1 ROOT); [|exact R1]. unfold NfaFails.failof. specialize (L3 ROOT). destruct (nget ROOT (n_states n2)), (nget ROOT (n_states n1)); try contradiction; [|reflexivity].
    destruct L3 as (_ & _ & ->). reflexivity.
Qed.

End LM.
