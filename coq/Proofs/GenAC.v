(* GenAC.v — soundness of the certificate checker (Model/Cert.v), generic part.
   From [cert_ok = true] we derive, for ALL strings:
     - [g_next] from the state of a node u on label c ends in the state of lsuf (u ++ [c])
       (the longest suffix that is a node), within |u| + 1 iterations;
     - the output chain of the state of lsuf w lists exactly the patterns that are suffixes of w,
       longest first.
   Everything is id-free: states are identified with the strings that reach them from the root. *)
From DV Require Import Model.Base Model.Nfa Model.Cert.
From Coq Require Import ZifyN ZifyNat ZifyBool.

Local Open Scope N_scope.

(* ---- lists ------------------------------------------------------------------------------ *)
Lemma list_eqb_eq (a b : list N) : list_eqb a b = true <-> a = b.
Proof.
  revert b; induction a as [|x a IH]; intros [|y b]; cbn; split; intros H; try reflexivity;
    try discriminate.
  - apply andb_true_iff in H as [H1 H2]. apply N.eqb_eq in H1. apply IH in H2. congruence.
  - inversion H; subst. apply andb_true_iff. split; [apply N.eqb_refl|]. apply IH. reflexivity.
Qed.

Lemma tails_cons a r : tails (a :: r) = (a :: r) :: tails r.
Proof. reflexivity. Qed.

Lemma In_tails u w : In u (tails w) <-> exists p, w = p ++ u.
Proof.
  revert u; induction w as [|a w IH]; intros u.
  - cbn. split.
    + intros [H|[]]. subst. exists []. reflexivity.
    + intros [p H]. symmetry in H. apply app_eq_nil in H as [_ H]. auto.
  - rewrite tails_cons. cbn [In]. rewrite IH. split.
    + intros [H|[p H]]; [subst; exists []; reflexivity|]. exists (a :: p). cbn. congruence.
    + intros [[|b p] H]; cbn in H; [left; congruence|]. right. exists p. congruence.
Qed.

Lemma lastn_all w : lastn (length w) w = w.
Proof. unfold lastn. rewrite Nat.sub_diag. reflexivity. Qed.

Lemma lastn_app_r (k : nat) p u : (k <= length u)%nat -> lastn k (p ++ u) = lastn k u.
Proof.
  intros H. unfold lastn. rewrite app_length.
  replace (length p + length u - k)%nat with (length p + (length u - k))%nat by lia.
  rewrite skipn_app. rewrite skipn_all2 by lia. cbn [app].
  replace (length p + (length u - k) - length p)%nat with (length u - k)%nat by lia. reflexivity.
Qed.

Lemma lastn_length k w : (k <= length w)%nat -> length (lastn k w) = k.
Proof. intros H. unfold lastn. rewrite skipn_length. lia. Qed.

Lemma lastn_suffix k w : exists p, w = p ++ lastn k w.
Proof. unfold lastn. exists (firstn (length w - k) w). symmetry. apply firstn_skipn. Qed.

Section Gen.
Variable V : Type.
Variable veqb : V -> V -> bool.
Hypothesis veqb_sound : forall a b, veqb a b = true -> a = b.
Variable child : N -> N -> res (option N).
Variable failof : N -> res N.
Variable outposof : N -> res N.
Variable outat : N -> res (output V).
Variable labels : list N.
Variable plen : list N -> N.
Variable pvs : list (list N * V).
(* outside [labels] the goto function answers None *)
Hypothesis child_labels : forall s c, ~ In c labels -> child s c = Ok None.

Notation walk := (walk child).
Notation inT := (inT child).
Notation lsuf := (lsuf child).
Notation chain := (chain V outat).
Notation sufpats := (sufpats V plen pvs).
Notation g_next := (g_next child failof).

(* ---- walk -------------------------------------------------------------------------------- *)
Lemma walk_app s u w : walk s (u ++ w) = match walk s u with Some t => walk t w | None => None end.
Proof.
  revert s; induction u as [|c u IH]; intros s; cbn [app Cert.walk]; [reflexivity|].
  destruct (child s c) as [[t|]| | | |]; try reflexivity. apply IH.
Qed.

Lemma walk_snoc s u c :
  walk s (u ++ [c]) = match walk s u with
                      | Some t => match child t c with Ok (Some t') => Some t' | _ => None end
                      | None => None
                      end.
Proof. rewrite walk_app. destruct (walk s u); [|reflexivity]. cbn. destruct (child n c) as [[?|]| | | |]; reflexivity. Qed.

(* the node set is prefix closed *)
Lemma inT_app_l u w : inT (u ++ w) = true -> inT u = true.
Proof. unfold Cert.inT. rewrite walk_app. destruct (walk ROOT u); [reflexivity|discriminate]. Qed.

Lemma inT_nil : inT [] = true.
Proof. reflexivity. Qed.

(* ---- lsuf: longest suffix that is a node ------------------------------------------------- *)
Lemma lsuf_nil : lsuf [] = [].
Proof. reflexivity. Qed.

Lemma lsuf_cons a r : lsuf (a :: r) = if inT (a :: r) then a :: r else lsuf r.
Proof. unfold Cert.lsuf. rewrite tails_cons. cbn [find]. destruct (inT (a :: r)); reflexivity. Qed.

Lemma lsuf_inT w : inT (lsuf w) = true.
Proof.
  induction w as [|a r IH]; [reflexivity|]. rewrite lsuf_cons.
  destruct (inT (a :: r)) eqn:E; [exact E|exact IH].
Qed.

Lemma lsuf_of_node w : inT w = true -> lsuf w = w.
Proof. destruct w as [|a r]; [reflexivity|]. intros H. rewrite lsuf_cons, H. reflexivity. Qed.

Lemma lsuf_suffix w : exists p, w = p ++ lsuf w.
Proof.
  induction w as [|a r [p IH]]; [exists []; reflexivity|]. rewrite lsuf_cons.
  destruct (inT (a :: r)); [exists []; reflexivity|]. exists (a :: p). cbn. congruence.
Qed.

Lemma lsuf_length w : (length (lsuf w) <= length w)%nat.
Proof. destruct (lsuf_suffix w) as [p H]. rewrite H at 2. rewrite app_length. lia. Qed.

(* any suffix of w that is a node is a suffix of lsuf w *)
Lemma lsuf_longest w : forall p u, w = p ++ u -> inT u = true -> exists q, lsuf w = q ++ u.
Proof.
  induction w as [|a r IH]; intros p u H Hu.
  - symmetry in H. apply app_eq_nil in H as [_ H]. subst. exists []. reflexivity.
  - rewrite lsuf_cons. destruct (inT (a :: r)) eqn:E.
    + exists p. exact H.
    + destruct p as [|b p]; cbn in H.
      * subst u. congruence.
      * inversion H; subst. eapply IH; eauto.
Qed.

(* the key string lemma behind the goto/fail loop *)
Lemma lsuf_snoc w c : lsuf (w ++ [c]) = lsuf (lsuf w ++ [c]).
Proof.
  induction w as [|a r IH]; [reflexivity|].
  cbn [app]. rewrite (lsuf_cons a (r ++ [c])).
  destruct (inT (a :: r ++ [c])) eqn:E.
  - assert (Hn : inT (a :: r) = true) by (apply (inT_app_l (a :: r) [c]); exact E).
    rewrite (lsuf_of_node (a :: r) Hn). cbn [app]. rewrite lsuf_cons, E. reflexivity.
  - rewrite IH. rewrite (lsuf_cons a r). destruct (inT (a :: r)) eqn:E2; [|reflexivity].
    cbn [app]. rewrite lsuf_cons, E. rewrite <- IH. reflexivity.
Qed.

(* ---- what a passed certificate says about every node -------------------------------------- *)
Variable maxdepth nouts : nat.

Definition outs_match (os : list (output V)) (ex : list (N * V)) : Prop :=
  map (fun o => (o_length o, o_value o)) os = ex.

Lemma outs_eqb_sound os ex : outs_eqb V veqb os ex = true -> outs_match os ex.
Proof.
  unfold outs_match. revert ex; induction os as [|o os IH]; intros [|[l v] ex]; cbn; intros H;
    try discriminate; [reflexivity|].
  apply andb_true_iff in H as [H H3]. apply andb_true_iff in H as [H1 H2].
  apply N.eqb_eq in H1. apply veqb_sound in H2. rewrite (IH _ H3). congruence.
Qed.

Record node_facts (s : N) (u : list N) : Prop := {
  nf_root : s = ROOT -> u = [];
  nf_depth : (length u < maxdepth)%nat;
  nf_fail : forall a r, u = a :: r -> exists f, failof s = Ok f /\ walk ROOT (lsuf r) = Some f;
  nf_out : exists p os, outposof s = Ok p /\ chain (S nouts) p = Ok os
                        /\ outs_match os (sufpats u) /\ (length os <= nouts)%nat;
  nf_child : forall c, exists r, child s c = Ok r
}.

Lemma optN_eqb_eq a b : optN_eqb a b = true -> a = b.
Proof. destruct a, b; cbn; intros H; try discriminate; try reflexivity. apply N.eqb_eq in H. congruence. Qed.

Lemma tree_ok_facts fuel s u :
  tree_ok V veqb child failof outposof outat labels plen pvs fuel maxdepth nouts s u = true ->
  node_facts s u
  /\ forall c t, child s c = Ok (Some t) ->
       exists fuel', tree_ok V veqb child failof outposof outat labels plen pvs fuel' maxdepth nouts t (u ++ [c]) = true.
Proof.
  destruct fuel as [|f]; [discriminate|]. cbn [tree_ok]. intros H.
  apply andb_true_iff in H as [Hl Hc]. rewrite forallb_forall in Hc.
  unfold local_ok in Hl. rewrite !andb_true_iff in Hl. destruct Hl as (((H1 & H2) & H3) & H4).
  split.
  - constructor.
    + intros Hs. subst s. rewrite N.eqb_refl in H1. cbn in H1. destruct u; [reflexivity|discriminate].
    + apply Nat.ltb_lt in H2. exact H2.
    + intros a r Hu. subst u. cbn [is_nil orb tl] in H3.
      destruct (failof s) as [fl| | | |]; try discriminate. exists fl. split; [reflexivity|].
      apply optN_eqb_eq in H3. exact H3.
    + destruct (outposof s) as [p| | | |]; try discriminate.
      destruct (chain (S nouts) p) as [os| | | |] eqn:Ec; try discriminate.
      apply andb_true_iff in H4 as [H4 H5]. exists p, os. repeat split; auto.
      * apply outs_eqb_sound. exact H4.
      * apply Nat.leb_le in H5. exact H5.
    + intros c. destruct (in_dec N.eq_dec c labels) as [Hin|Hnin].
      * specialize (Hc c Hin). destruct (child s c) as [r| | | |]; try discriminate. eauto.
      * rewrite (child_labels s c Hnin). eauto.
  - intros c t Hch. destruct (in_dec N.eq_dec c labels) as [Hin|Hnin].
    + specialize (Hc c Hin). rewrite Hch in Hc. eauto.
    + rewrite (child_labels s c Hnin) in Hch. discriminate.
Qed.

Hypothesis CERT : exists fuel,
  tree_ok V veqb child failof outposof outat labels plen pvs fuel maxdepth nouts ROOT [] = true.

Lemma node_checked u : forall s, walk ROOT u = Some s ->
  exists fuel, tree_ok V veqb child failof outposof outat labels plen pvs fuel maxdepth nouts s u = true.
Proof.
  induction u as [|c u IH] using rev_ind; intros s H.
  - cbn in H. inversion H; subst. exact CERT.
  - rewrite walk_snoc in H. destruct (walk ROOT u) as [t|] eqn:E; [|discriminate].
    destruct (IH t eq_refl) as [fuel Hf].
    destruct (child t c) as [[t'|]| | | |] eqn:Ec; try discriminate. inversion H; subst.
    destruct (tree_ok_facts _ _ _ Hf) as [_ Hk]. exact (Hk c s Ec).
Qed.

Lemma node_ok u s : walk ROOT u = Some s -> node_facts s u.
Proof. intros H. destruct (node_checked u s H) as [fuel Hf]. apply (tree_ok_facts _ _ _ Hf). Qed.

(* ---- the goto/fail loop ------------------------------------------------------------------ *)
Lemma walk_root_nil : walk ROOT [] = Some ROOT.
Proof. reflexivity. Qed.

Lemma g_next_correct c : forall fuel u s,
  walk ROOT u = Some s -> (length u < fuel)%nat ->
  exists s', g_next fuel s c = Ok s' /\ walk ROOT (lsuf (u ++ [c])) = Some s'.
Proof.
  induction fuel as [|fuel IH]; intros u s Hw Hlen; [lia|].
  pose proof (node_ok u s Hw) as NF.
  cbn [Cert.g_next]. destruct (nf_child _ _ NF c) as [r Hr]. rewrite Hr. cbn [bind].
  destruct r as [t|].
  - (* the edge exists *)
    exists t. split; [reflexivity|].
    assert (Hwt : walk ROOT (u ++ [c]) = Some t) by (rewrite walk_snoc, Hw, Hr; reflexivity).
    rewrite lsuf_of_node; [exact Hwt|]. unfold Cert.inT. rewrite Hwt. reflexivity.
  - assert (Hnot : inT (u ++ [c]) = false).
    { unfold Cert.inT. rewrite walk_snoc, Hw, Hr. reflexivity. }
    destruct u as [|a r].
    + (* at the root *)
      cbn in Hw. inversion Hw; subst s. rewrite N.eqb_refl.
      exists ROOT. split; [reflexivity|]. cbn [app] in *. rewrite lsuf_cons, Hnot. reflexivity.
    + destruct (s =? ROOT) eqn:Es.
      { apply N.eqb_eq in Es. pose proof (nf_root _ _ NF Es). discriminate. }
      destruct (nf_fail _ _ NF a r eq_refl) as [f [Hf Hwf]]. rewrite Hf. cbn [bind].
      destruct (IH (lsuf r) f Hwf) as [s' [Hs' Hw']].
      { pose proof (lsuf_length r). cbn [length] in Hlen. lia. }
      exists s'. split; [exact Hs'|].
      cbn [app]. rewrite lsuf_cons. cbn [app] in Hnot. rewrite Hnot.
      rewrite lsuf_snoc. exact Hw'.
Qed.

(* one step of the scan: from the state of lsuf w, reading c, to the state of lsuf (w ++ [c]) *)
Theorem g_next_step w c s fuel :
  walk ROOT (lsuf w) = Some s -> (maxdepth <= fuel)%nat ->
  exists s', g_next fuel s c = Ok s' /\ walk ROOT (lsuf (w ++ [c])) = Some s'.
Proof.
  intros Hw Hf. pose proof (node_ok _ _ Hw) as NF.
  destruct (g_next_correct c fuel (lsuf w) s Hw) as [s' [H1 H2]].
  { pose proof (nf_depth _ _ NF). lia. }
  exists s'. split; [exact H1|]. rewrite lsuf_snoc. exact H2.
Qed.

(* a label outside [labels] leads to the root from everywhere, and the root is lsuf *)
Lemma lsuf_unlabelled w c : ~ In c labels -> lsuf (w ++ [c]) = [].
Proof.
  intros Hc. rewrite lsuf_snoc.
  assert (forall u, inT (u ++ [c]) = false) as Hno.
  { intros u. unfold Cert.inT. rewrite walk_snoc. destruct (walk ROOT u); [|reflexivity].
    rewrite (child_labels _ _ Hc). reflexivity. }
  generalize (lsuf w). intros u. induction u as [|a r IH]; cbn [app].
  - rewrite lsuf_cons. pose proof (Hno []) as H0. cbn [app] in H0. rewrite H0. reflexivity.
  - rewrite lsuf_cons. pose proof (Hno (a :: r)) as H0. cbn [app] in H0. rewrite H0. exact IH.
Qed.

(* ---- outputs ------------------------------------------------------------------------------ *)
Hypothesis pats_nodes : forall p v, In (p, v) pvs -> inT p = true.

Lemma filter_nil {A} (f : A -> bool) l : (forall x, In x l -> f x = false) -> filter f l = [].
Proof.
  induction l as [|x l IH]; intros H; [reflexivity|]. cbn [filter].
  rewrite (H x (or_introl eq_refl)). apply IH. intros y Hy. apply H. right. exact Hy.
Qed.

Lemma pats_eq_nil v : inT v = false -> pats_eq V plen pvs v = [].
Proof.
  intros Hv. unfold pats_eq. rewrite filter_nil; [reflexivity|].
  intros [p x] Hin. cbn [fst]. destruct (list_eqb p v) eqn:E; [|reflexivity].
  apply list_eqb_eq in E. subst p. rewrite (pats_nodes v x Hin) in Hv. discriminate.
Qed.

Lemma flat_map_nil {A B} (f : A -> list B) l : (forall x, In x l -> f x = []) -> flat_map f l = [].
Proof.
  induction l as [|x l IH]; intros H; [reflexivity|]. cbn [flat_map].
  rewrite (H x (or_introl eq_refl)). cbn [app]. apply IH. intros y Hy. apply H. right. exact Hy.
Qed.

Lemma flat_map_ext_in' {A B} (f g : A -> list B) l :
  (forall x, In x l -> f x = g x) -> flat_map f l = flat_map g l.
Proof.
  induction l as [|x l IH]; intros H; [reflexivity|]. cbn [flat_map].
  rewrite (H x (or_introl eq_refl)), IH; [reflexivity|]. intros y Hy. apply H. right. exact Hy.
Qed.

(* the patterns that are suffixes of w are exactly those that are suffixes of lsuf w *)
Lemma sufpats_lsuf w : sufpats w = sufpats (lsuf w).
Proof.
  destruct (lsuf_suffix w) as [p Hp]. set (u := lsuf w) in *.
  unfold Cert.sufpats. rewrite Hp at 1. rewrite app_length.
  replace (length p + length u)%nat with (length u + length p)%nat by lia.
  rewrite seq_app, rev_app_distr, flat_map_app.
  rewrite flat_map_nil.
  - cbn [app]. apply flat_map_ext_in'. intros k Hk. apply in_rev, in_seq in Hk.
    rewrite Hp. rewrite lastn_app_r by lia. reflexivity.
  - intros k Hk. apply in_rev, in_seq in Hk. apply pats_eq_nil.
    destruct (inT (lastn k w)) eqn:E; [|reflexivity]. exfalso.
    destruct (lastn_suffix k w) as [q Hq].
    destruct (lsuf_longest w q (lastn k w) Hq E) as [q' Hq'].
    assert (length (lastn k w) = k) as Hl.
    { apply lastn_length. rewrite Hp, app_length. lia. }
    fold u in Hq'. apply (f_equal (@length N)) in Hq'. rewrite app_length, Hl in Hq'. lia.
Qed.
End Gen.
