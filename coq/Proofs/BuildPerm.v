(* BuildPerm.v — C14, order independence of construction as far as any search can tell: build the
   automaton from a collection and from ANY permutation of its pattern/value pairs (standard or
   leftmost-longest semantics, any num_free_blocks each, both variants); on EVERY haystack every
   search returns the same match list, and both automata have the same number of states.
   (Equality of the serialised bytes is decided by the correspondence check; it is not a theorem
   here.)  Chain: the builder theorems (each search = its specification) + order independence of
   the specifications for duplicate-free collections (Theory/SpecPerm.v). *)
From DV Require Import Model.Base Model.Nfa Model.BwBuild Model.BwSearch Model.Utf8 Model.CwBuild Model.CwSearch Model.Api Model.Spec
     Proofs.GenAC Proofs.TrieInv Proofs.BuildTrie Proofs.BuildProps Proofs.Utf8Props Proofs.CwCert Proofs.BuiltAutomata Theory.SpecPerm.
From Coq Require Import Permutation ZifyN ZifyNat ZifyBool.
Local Open Scope N_scope.

Section P.
Variable V : Type.
Variable veqb : V -> V -> bool.
Hypothesis veqb_eq : forall a b, veqb a b = true <-> a = b.

Lemma total_len_perm (pvs pvs' : list (list N * V)) : Permutation pvs pvs' -> total_len V pvs = total_len V pvs'.
Proof.
  unfold total_len. induction 1 as [|x l l' HP IH|x y l|l l' l'' H1 IH1 H2 IH2]; cbn [fold_right]; [reflexivity|rewrite IH; reflexivity|lia|congruence].
Qed.

Lemma valid_nodup k nfb (pvs : list (list N * V)) A : 4 * total_len V pvs <= U32_MAX - 1 ->
  bw_build_with_values V k nfb pvs = Ok A -> NoDup (map fst pvs).
Proof.
  intros Hs H. destruct (bw_build_ok_lemma V k nfb pvs A Hs H) as (Hv & _). apply spec_build_error_none_iff_valid in Hv as (_ & _ & Hnd). exact Hnd.
Qed.
Lemma valid_nodup_cw k nfb (pvs : list (list N * V)) A : 4 * total_len V pvs <= U32_MAX - 1 ->
  cw_build_with_values V k nfb pvs = Ok A -> NoDup (map fst pvs).
Proof.
  intros Hs H. destruct (cw_build_ok_lemma V k nfb pvs A Hs H) as (Hv & _). apply spec_build_error_none_iff_valid in Hv as (_ & _ & Hnd). exact Hnd.
Qed.

Theorem bw_permuted_standard_builds_agree nfb nfb' (pvs pvs' : list (list N * V)) A A' :
  Permutation pvs pvs' ->
  (forall p v, In (p, v) pvs -> Forall (fun b => b < 256) p) -> 4 * total_len V pvs <= U32_MAX - 1 ->
  bw_build_with_values V Standard nfb pvs = Ok A -> bw_build_with_values V Standard nfb' pvs' = Ok A' ->
  forall h, Forall (fun b => b < 256) h ->
    bw_find_iter V A h = bw_find_iter V A' h
    /\ bw_find_overlapping_iter V A h = bw_find_overlapping_iter V A' h
    /\ bw_find_overlapping_no_suffix_iter V A h = bw_find_overlapping_no_suffix_iter V A' h.
Proof.
  intros HP Hb Hs HA HA' h Hh.
  assert (Hs' : 4 * total_len V pvs' <= U32_MAX - 1) by (rewrite <- (total_len_perm pvs pvs' HP); exact Hs).
  assert (Hb' : forall p v, In (p, v) pvs' -> Forall (fun b => b < 256) p).
  { intros p v Hin. apply (Hb p v). eapply Permutation_in; [apply Permutation_sym; exact HP|exact Hin]. }
  pose proof (valid_nodup _ _ _ _ Hs HA) as Hnd.
  rewrite (built_find V veqb veqb_eq nfb pvs A Hb Hs HA h Hh), (built_find V veqb veqb_eq nfb' pvs' A' Hb' Hs' HA' h Hh).
  rewrite (built_overlapping V veqb veqb_eq nfb pvs A Hb Hs HA h Hh), (built_overlapping V veqb veqb_eq nfb' pvs' A' Hb' Hs' HA' h Hh).
  rewrite (built_nosuffix V veqb veqb_eq nfb pvs A Hb Hs HA h Hh), (built_nosuffix V veqb veqb_eq nfb' pvs' A' Hb' Hs' HA' h Hh).
  rewrite (spec_find_perm V pvs pvs' HP Hnd h), (spec_overlapping_perm V pvs pvs' HP Hnd h), (spec_nosuffix_perm V pvs pvs' HP Hnd h). auto.
Qed.

Theorem bw_permuted_leftmost_longest_builds_agree nfb nfb' (pvs pvs' : list (list N * V)) A A' :
  Permutation pvs pvs' ->
  (forall p v, In (p, v) pvs -> Forall (fun b => b < 256) p) -> 4 * total_len V pvs <= U32_MAX - 1 ->
  bw_build_with_values V LeftmostLongest nfb pvs = Ok A -> bw_build_with_values V LeftmostLongest nfb' pvs' = Ok A' ->
  forall h, Forall (fun b => b < 256) h -> bw_leftmost_find_iter V A h = bw_leftmost_find_iter V A' h.
Proof.
  intros HP Hb Hs HA HA' h Hh.
  assert (Hs' : 4 * total_len V pvs' <= U32_MAX - 1) by (rewrite <- (total_len_perm pvs pvs' HP); exact Hs).
  assert (Hb' : forall p v, In (p, v) pvs' -> Forall (fun b => b < 256) p).
  { intros p v Hin. apply (Hb p v). eapply Permutation_in; [apply Permutation_sym; exact HP|exact Hin]. }
  pose proof (valid_nodup _ _ _ _ Hs HA) as Hnd.
  rewrite (bw_built_lml V veqb veqb_eq nfb pvs A Hb Hs HA h Hh), (bw_built_lml V veqb veqb_eq nfb' pvs' A' Hb' Hs' HA' h Hh).
  rewrite (spec_lml_perm V pvs pvs' HP Hnd h). reflexivity.
Qed.

Theorem cw_permuted_standard_builds_agree nfb nfb' (pvs pvs' : list (list N * V)) C C' :
  Permutation pvs pvs' -> 4 * total_len V pvs <= U32_MAX - 1 ->
  cw_build_with_values V Standard nfb pvs = Ok C -> cw_build_with_values V Standard nfb' pvs' = Ok C' ->
  forall cs, Forall scalar cs ->
    cw_find_iter V C (encode_utf8 cs) = cw_find_iter V C' (encode_utf8 cs)
    /\ cw_find_overlapping_iter V C (encode_utf8 cs) = cw_find_overlapping_iter V C' (encode_utf8 cs)
    /\ cw_find_overlapping_no_suffix_iter V C (encode_utf8 cs) = cw_find_overlapping_no_suffix_iter V C' (encode_utf8 cs).
Proof.
  intros HP Hs HA HA' cs Hc.
  assert (Hs' : 4 * total_len V pvs' <= U32_MAX - 1) by (rewrite <- (total_len_perm pvs pvs' HP); exact Hs).
  pose proof (valid_nodup_cw _ _ _ _ Hs HA) as Hnd.
  rewrite (cw_built_find V veqb veqb_eq nfb pvs C Hs HA cs Hc), (cw_built_find V veqb veqb_eq nfb' pvs' C' Hs' HA' cs Hc).
  rewrite (cw_built_overlapping V veqb veqb_eq nfb pvs C Hs HA cs Hc), (cw_built_overlapping V veqb veqb_eq nfb' pvs' C' Hs' HA' cs Hc).
  rewrite (cw_built_nosuffix V veqb veqb_eq nfb pvs C Hs HA cs Hc), (cw_built_nosuffix V veqb veqb_eq nfb' pvs' C' Hs' HA' cs Hc).
  rewrite (spec_find_perm V pvs pvs' HP Hnd cs), (spec_overlapping_perm V pvs pvs' HP Hnd cs), (spec_nosuffix_perm V pvs pvs' HP Hnd cs). auto.
Qed.

Theorem cw_permuted_leftmost_longest_builds_agree nfb nfb' (pvs pvs' : list (list N * V)) C C' :
  Permutation pvs pvs' -> 4 * total_len V pvs <= U32_MAX - 1 ->
  cw_build_with_values V LeftmostLongest nfb pvs = Ok C -> cw_build_with_values V LeftmostLongest nfb' pvs' = Ok C' ->
  forall cs, Forall scalar cs -> cw_leftmost_find_iter V C (encode_utf8 cs) = cw_leftmost_find_iter V C' (encode_utf8 cs).
Proof.
  intros HP Hs HA HA' cs Hc.
  assert (Hs' : 4 * total_len V pvs' <= U32_MAX - 1) by (rewrite <- (total_len_perm pvs pvs' HP); exact Hs).
  pose proof (valid_nodup_cw _ _ _ _ Hs HA) as Hnd.
  rewrite (cw_built_lml V veqb veqb_eq nfb pvs C Hs HA cs Hc), (cw_built_lml V veqb veqb_eq nfb' pvs' C' Hs' HA' cs Hc).
  rewrite (spec_lml_perm V pvs pvs' HP Hnd cs). reflexivity.
Qed.

(* ---- the same number of states --------------------------------------------------------------------- *)
Lemma dnp_perm (pvs pvs' : list (list N * V)) : Permutation pvs pvs' ->
  length (distinct_nonempty_prefixes V pvs) = length (distinct_nonempty_prefixes V pvs').
Proof.
  intros HP. unfold distinct_nonempty_prefixes. apply Permutation_length. apply NoDup_Permutation; [apply dedup_nodup'|apply dedup_nodup'|].
  intros x. rewrite !dedup_in', !in_flat_map. split; intros [pv [Hin Hx]]; exists pv; (split; [|exact Hx]).
  - eapply Permutation_in; eassumption.
  - eapply Permutation_in; [apply Permutation_sym; eassumption|exact Hin].
Qed.

Theorem permuted_builds_have_equal_state_counts k nfb nfb' (pvs pvs' : list (list N * V)) :
  k <> LeftmostFirst -> Permutation pvs pvs' -> 4 * total_len V pvs <= U32_MAX - 1 ->
  (forall A A', bw_build_with_values V k nfb pvs = Ok A -> bw_build_with_values V k nfb' pvs' = Ok A' -> bw_num_states A = bw_num_states A')
  /\ (forall C C', cw_build_with_values V k nfb pvs = Ok C -> cw_build_with_values V k nfb' pvs' = Ok C' -> cw_num_states C = cw_num_states C').
Proof.
  intros Hk HP Hs.
  assert (Hs' : 4 * total_len V pvs' <= U32_MAX - 1) by (rewrite <- (total_len_perm pvs pvs' HP); exact Hs).
  assert (Hreg : regd V k pvs = pvs /\ regd V k pvs' = pvs') by (unfold regd, registered; destruct k; [auto|auto|congruence]).
  destruct Hreg as [R1 R2]. split.
  - intros A A' HA HA'. destruct (bw_build_ok_lemma V k nfb pvs A Hs HA) as (_ & -> & _). destruct (bw_build_ok_lemma V k nfb' pvs' A' Hs' HA') as (_ & -> & _).
    rewrite R1, R2, (dnp_perm pvs pvs' HP). reflexivity.
  - intros C C' HA HA'. destruct (cw_build_ok_lemma V k nfb pvs C Hs HA) as (_ & -> & _). destruct (cw_build_ok_lemma V k nfb' pvs' C' Hs' HA') as (_ & -> & _).
    rewrite R1, R2, (dnp_perm pvs pvs' HP). reflexivity.
Qed.

End P.
