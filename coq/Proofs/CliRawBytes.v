(* CliRawBytes.v — daacfind on arbitrary bytes with NO side condition left (Model/CliRaw.v): the lines handed
   out are UTF-8, so their occurrences lie on character boundaries and the colour arm never panics. *)
From DV Require Import Model.Base Model.Nfa Model.BwBuild Model.BwSearch Model.Api Model.Spec
     Model.Cert Model.Cli Model.Utf8 Proofs.Utf8Props Proofs.CliProps Proofs.CliColour Proofs.NoPanic Proofs.CliMain Model.CliRaw Proofs.CliRawMain.
From DV Require Import Proofs.Utf8Sound.
From Coq Require Import ZifyN ZifyNat ZifyBool.
Local Open Scope N_scope.

Lemma valid_nonempty_patterns pats :
  Forall (fun p => valid_utf8 p = true /\ p <> []) pats ->
  exists cpats, pats = map encode_utf8 cpats /\ Forall (fun p => p <> [] /\ Forall scalar p) cpats.
Proof.
  induction pats as [|p r IH]; intros H; [exists []; split; [reflexivity|constructor]|].
  inversion H as [|? ? [Hv Hne] Hr]; subst. destruct (IH Hr) as (cr & -> & Hcr).
  apply valid_utf8_iff in Hv as (cp & Hs & ->). exists (cp :: cr). split; [reflexivity|].
  constructor; [|exact Hcr]. split; [|exact Hs]. intros ->. apply Hne. reflexivity.
Qed.

Lemma valid_prefix_valid ls : Forall (fun l => valid_utf8 l = true) (fst (valid_prefix ls)).
Proof.
  destruct (valid_prefix_spec ls) as (rest & _ & Hv & _). apply Forall_forall. intros l Hl.
  rewrite forallb_forall in Hv. exact (Hv l Hl).
Qed.

Lemma valid_line_ok cpats color l :
  Forall (fun p => p <> [] /\ Forall scalar p) cpats -> valid_utf8 l = true ->
  line_ok (upvs (map encode_utf8 cpats)) color l.
Proof.
  intros Hp Hv. apply valid_utf8_iff in Hv as (cl & Hl & ->). split; [apply encode_utf8_bytes; exact Hl|].
  intros _. unfold occs_on_boundaries. rewrite <- bpvs_upvs. rewrite Forall_forall in Hp.
  apply (utf8_occurrences_on_boundaries (upvs cpats) cl).
  - intros p v Hpv. unfold upvs in Hpv. apply in_map_iff in Hpv as (q & E & Hq). inversion E as [[Eq Ev]]. rewrite <- Eq. exact (proj1 (Hp q Hq)).
  - intros p v Hpv. unfold upvs in Hpv. apply in_map_iff in Hpv as (q & E & Hq). inversion E as [[Eq Ev]]. rewrite <- Eq. exact (proj2 (Hp q Hq)).
  - exact Hl.
Qed.

Lemma pfile_flag fl pfile pstr stdin files f :
  pfile = Some f -> all_lines_utf8 f = false -> cli_main_raw fl pfile pstr stdin files = Ok ([], 1).
Proof.
  intros -> Hf. unfold cli_main_raw, lines_raw. unfold all_lines_utf8 in Hf.
  destruct (valid_prefix_spec (buf_lines f)) as (rest & E & Hv & Hs).
  destruct (snd (valid_prefix (buf_lines f))) eqn:Eo; [|reflexivity].
  subst rest. rewrite app_nil_r in E. rewrite E in Hf. congruence.
Qed.

(* THE WHOLE PROGRAM ON ARBITRARY BYTES, no side condition left: the -p string is UTF-8 (clap hands
   out a String), everything else -- pattern file, standard input, file contents, file names -- is
   any list of bytes. *)
Theorem cli_main_raw_bytes_lemma (fl : cli_flags) (pfile pstr : option (list N)) (stdin : list N) (files : list (list N * list N)) :
  (forall s, pstr = Some s -> valid_utf8 s = true) ->
  let pats := cli_patterns pfile pstr in
  4 * plain_len pats <= U32_MAX - 1 ->
  if match pfile with Some f => negb (all_lines_utf8 f) | None => false end
  then cli_main_raw fl pfile pstr stdin files = Ok ([], 1)
  else match spec_build_error pats with
  | Some _ => cli_main_raw fl pfile pstr stdin files = Ok ([], 1)
  | None => cli_main_raw fl pfile pstr stdin files = Ok (cli_expected_raw (upvs pats) fl stdin files)
            \/ cli_main_raw fl pfile pstr stdin files = Ok ([], 1)
  end.
Proof.
  intros Hp pats Hsz.
  destruct (match pfile with Some f => negb (all_lines_utf8 f) | None => false end) eqn:Epf.
  { destruct pfile as [f|]; [|discriminate]. apply (pfile_flag fl (Some f) pstr stdin files f eq_refl).
    destruct (all_lines_utf8 f); [discriminate|reflexivity]. }
  assert (Hpats : Forall (fun p => valid_utf8 p = true /\ p <> []) pats).
  { unfold pats, cli_patterns. apply Forall_app. split.
    - destruct pfile as [f|]; [|constructor]. apply Forall_forall. intros l Hl. apply filter_In in Hl as [Hin Hne].
      split; [|destruct l; [discriminate|discriminate]].
      destruct (all_lines_utf8 f) eqn:Ef; [|discriminate]. unfold all_lines_utf8 in Ef. rewrite forallb_forall in Ef. exact (Ef l Hin).
    - destruct pstr as [s|]; [|constructor]. apply Forall_forall. intros l Hl. apply filter_In in Hl as [Hin Hne].
      split; [|destruct l; [discriminate|discriminate]].
      pose proof (Hp s eq_refl) as Hv. apply valid_utf8_iff in Hv as (cs & Hs & ->).
      rewrite (split_nl_all_utf8 cs [] [] Hs eq_refl) in Hin. apply in_map_iff in Hin as (cl & <- & Hcl).
      pose proof (csplit_nl_all_scalar cs [] Hs ltac:(constructor)) as Hall. rewrite Forall_forall in Hall.
      apply valid_utf8_iff. exists cl. split; [exact (Hall cl Hcl)|reflexivity]. }
  destruct (valid_nonempty_patterns pats Hpats) as (cpats & Epats & Hc).
  pose proof (cli_main_raw_lemma fl pfile pstr stdin files) as M. cbv zeta in M. fold pats in M.
  rewrite Epf in M. apply M; [| exact Hsz |].
  - intros p Hin. rewrite Epats in Hin. apply in_map_iff in Hin as (q & <- & Hq). apply encode_utf8_bytes.
    rewrite Forall_forall in Hc. exact (proj2 (Hc q Hq)).
  - rewrite Epats. split.
    + eapply Forall_impl; [|apply valid_prefix_valid]. intros l Hl. apply valid_line_ok; assumption.
    + apply Forall_forall. intros f _. eapply Forall_impl; [|apply valid_prefix_valid]. intros l Hl. apply valid_line_ok; assumption.
Qed.

(* UTF-8 text in, [cli_main] out: on the inputs the property speaks of (every argument and input the
   encoding of a scalar-value text) the program on bytes IS the program of Model/Cli.v *)
Lemma all_lines_utf8_encode cs : Forall scalar cs -> all_lines_utf8 (encode_utf8 cs) = true.
Proof.
  intros Hs. unfold all_lines_utf8. destruct (buf_lines_utf8 cs Hs) as [-> Hl]. apply forallb_forall. intros l Hin.
  apply in_map_iff in Hin as (cl & <- & Hcl). rewrite Forall_forall in Hl. apply valid_utf8_iff. exists cl. split; [exact (Hl cl Hcl)|reflexivity].
Qed.

Theorem cli_main_raw_utf8_text (fl : cli_flags) (pfile pstr : option (list N)) (stdin : list N) (files : list (list N * list N)) :
  (forall f, pfile = Some f -> Forall scalar f) -> Forall scalar stdin ->
  Forall (fun f => Forall scalar (fst f) /\ Forall scalar (snd f)) files ->
  let bfiles := map (fun f => (encode_utf8 (fst f), encode_utf8 (snd f))) files in
  cli_main_raw fl (option_map encode_utf8 pfile) pstr (encode_utf8 stdin) bfiles
  = cli_main fl (option_map encode_utf8 pfile) pstr (encode_utf8 stdin) bfiles.
Proof.
  intros Hf Hs Hfs bfiles. apply cli_main_raw_on_utf8_lines.
  - intros f E. destruct pfile as [f0|]; [|discriminate]. cbn [option_map] in E. injection E as <-. apply all_lines_utf8_encode. exact (Hf f0 eq_refl).
  - apply all_lines_utf8_encode. exact Hs.
  - apply forallb_forall. intros f Hin. unfold bfiles in Hin. apply in_map_iff in Hin as (f0 & <- & Hf0). cbn [fst snd].
    rewrite Forall_forall in Hfs. destruct (Hfs f0 Hf0) as [Hn Hc]. apply andb_true_iff. split.
    + apply valid_utf8_iff. exists (fst f0). split; [exact Hn|reflexivity].
    + apply all_lines_utf8_encode. exact Hc.
Qed.
