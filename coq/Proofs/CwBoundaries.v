(* CwBoundaries.v — C08: every offset any character-wise search reports falls on a character boundary
   of the haystack, for every built automaton of every kind and every search method (the str slicing
   a caller does with Match::start()/end() cannot panic). *)
From DV Require Import Model.Base Model.Nfa Model.Utf8 Model.CwBuild Model.CwSearch Model.Api Model.Spec Model.Cli
     Proofs.Utf8Props Proofs.TrieInv Proofs.BuildTrie Proofs.BuildProps Proofs.CliColour Proofs.MatchSound Theory.Utf8Spec.
From Coq Require Import ZifyN ZifyNat ZifyBool.
Local Open Scope N_scope.

Section Bd.
Variable V : Type.

Lemma utf8_occurrences_on_boundaries_gen (cpvs : list (list N * V)) cs :
  (forall p v, In (p, v) cpvs -> p <> []) -> (forall p v, In (p, v) cpvs -> Forall scalar p) -> Forall scalar cs ->
  forall s e v, occ_at V (bpvs V cpvs) (encode_utf8 cs) s e v ->
    is_char_boundary (encode_utf8 cs) s = true /\ is_char_boundary (encode_utf8 cs) e = true.
Proof.
  intros Hne Hsc Hcs s e v [Hr Hin]. unfold bpvs in Hin. apply in_map_iff in Hin as [[p w] [E Hp]]. cbn [fst snd] in E. inversion E as [[Hsub Hw]].
  assert (Hpre : is_prefix (encode_utf8 p) (skipn s (encode_utf8 cs)) = true).
  { apply is_prefix_ex. rewrite Hsub. unfold sub. exists (skipn (e - s) (skipn s (encode_utf8 cs))). symmetry. apply firstn_skipn. }
  destruct (utf8_occ_sync cs p s Hcs (Hsc p w Hp) (Hne p w Hp) Hpre) as (i & Hi & Hs & Hpc).
  apply is_prefix_ex in Hpc as [r Hr2].
  assert (Hlenp : (i + length p <= length cs)%nat).
  { apply (f_equal (@length N)) in Hr2. rewrite skipn_length, app_length in Hr2. lia. }
  assert (Hlen : (e - s)%nat = length (encode_utf8 p)).
  { rewrite Hsub. unfold sub. rewrite firstn_length, skipn_length. lia. }
  assert (He : e = boff (firstn (i + length p) cs)).
  { rewrite firstn_plus_u, boff_app, <- Hs.
    replace (firstn (length p) (skipn i cs)) with p by (rewrite Hr2, firstn_app, Nat.sub_diag, firstn_all; cbn [firstn]; symmetry; apply app_nil_r).
    unfold boff at 1. lia. }
  split; [rewrite Hs; apply boundary_boff; assumption|rewrite He; apply boundary_boff; assumption].
Qed.

Variable veqb : V -> V -> bool.
Hypothesis veqb_eq : forall a b, veqb a b = true <-> a = b.

Theorem cw_offsets_on_boundaries k nfb (pvs : list (list N * V)) (A : cw_automaton V) :
  (forall p v, In (p, v) pvs -> Forall scalar p) -> 4 * total_len V pvs <= U32_MAX - 1 ->
  cw_build_with_values V k nfb pvs = Ok A ->
  forall cs, Forall scalar cs ->
  let h := encode_utf8 cs in
  forall ms, cw_find_iter V A h = Ok ms \/ cw_find_overlapping_iter V A h = Ok ms
             \/ cw_find_overlapping_no_suffix_iter V A h = Ok ms \/ cw_leftmost_find_iter V A h = Ok ms ->
  forall s e v, In (s, e, v) ms -> is_char_boundary h s = true /\ is_char_boundary h e = true.
Proof.
  intros Hsc Hs HA cs Hcs h ms Hm s e v Hin.
  pose proof (cw_every_match_sound V veqb veqb_eq k nfb pvs A Hsc Hs HA cs Hcs ms Hm s e v Hin) as Hocc.
  destruct (cw_build_ok_lemma V k nfb pvs A Hs HA) as (Hv' & _).
  apply spec_build_error_none_iff_valid in Hv' as (_ & Hne0 & _).
  assert (Hne : forall p v, In (p, v) pvs -> p <> []).
  { intros p w Hp. rewrite Forall_forall in Hne0. apply Hne0. apply in_map_iff. exists (p, w). auto. }
  exact (utf8_occurrences_on_boundaries_gen pvs cs Hne Hsc Hcs s e v Hocc).
Qed.
End Bd.
