(* TrieInv.v — the trie invariant of NfaBuilder::add (nfa_builder.rs), for EVERY pattern sequence:
   after any sequence of successful adds the states other than root and dead are in bijection
   with the distinct non-empty prefixes of the registered patterns (each reached from the root by
   its own labels and by nothing else), and a state carries an output exactly when its string is a
   registered pattern.  Universal builder facts for C10 (which error, decided by the first
   offending entry), C15 (state count) and C04 (what leftmost-first registers) follow. *)
From DV Require Import Model.Base Model.Nfa Model.Spec Proofs.GenAC.
From Coq Require Import ZifyN ZifyNat ZifyBool.
Local Open Scope N_scope.

Section TI.
Variable V : Type.
Variable lbytes : N -> N.
Hypothesis lb_pos : forall c, 1 <= lbytes c.

Notation nfa := (nfa V).
Notation add_walk := (add_walk V).
Notation nfa_get := (nfa_get V).

(* ---- pure reading of the trie ---------------------------------------------------------------- *)
Definition tchild (n : nfa) (s c : N) : option N :=
  match nget s (n_states n) with Some st => edge_get (n_edges st) c | None => None end.
Fixpoint twalk (n : nfa) (s : N) (p : list N) : option N :=
  match p with
  | [] => Some s
  | c :: r => match tchild n s c with Some t => twalk n t r | None => None end
  end.

Definition plen (p : list N) : N := fold_left (fun acc c => acc + lbytes c) p 0.
Definition pref (p q : list N) : Prop := exists r, q = p ++ r.
Definition lmf (n : nfa) : bool := is_leftmost_first (n_kind n).

Lemma twalk_app n s a b : twalk n s (a ++ b) = match twalk n s a with Some t => twalk n t b | None => None end.
Proof.
  revert s; induction a as [|c a IH]; intros s; cbn [app twalk]; [reflexivity|].
  destruct (tchild n s c); [apply IH|reflexivity].
Qed.

Lemma twalk_snoc n s a c : twalk n s (a ++ [c]) = match twalk n s a with Some t => tchild n t c | None => None end.
Proof. rewrite twalk_app. destruct (twalk n s a); [|reflexivity]. cbn [twalk]. destruct (tchild n n0 c); reflexivity. Qed.

Lemma edge_get_insert_same es c t : edge_get (edge_insert es c t) c = Some t.
Proof.
  induction es as [|[k v] r IH]; cbn [edge_insert edge_get].
  - rewrite N.eqb_refl. reflexivity.
  - destruct (c <? k) eqn:E1; [cbn [edge_get]; rewrite N.eqb_refl; reflexivity|].
    destruct (c =? k) eqn:E2; cbn [edge_get]; [rewrite N.eqb_refl; reflexivity|].
    rewrite N.eqb_sym, E2. exact IH.
Qed.

Lemma edge_get_insert_other es c t d : d <> c -> edge_get (edge_insert es c t) d = edge_get es d.
Proof.
  intros Hd. induction es as [|[k v] r IH]; cbn [edge_insert edge_get].
  - destruct (c =? d) eqn:E; [apply N.eqb_eq in E; congruence|reflexivity].
  - destruct (c <? k) eqn:E1.
    { cbn [edge_get]. destruct (c =? d) eqn:E; [apply N.eqb_eq in E; congruence|reflexivity]. }
    destruct (c =? k) eqn:E2; cbn [edge_get].
    { apply N.eqb_eq in E2. subst k. destruct (c =? d) eqn:E; [apply N.eqb_eq in E; congruence|reflexivity]. }
    destruct (k =? d); [reflexivity|exact IH].
Qed.

Lemma plen_app a b : plen (a ++ b) = plen a + plen b.
Proof.
  unfold plen. rewrite fold_left_app. generalize (fold_left (fun acc c => acc + lbytes c) a 0). revert b.
  induction b as [|c b IH]; intros x; cbn [fold_left]; [lia|].
  rewrite IH. rewrite (IH (0 + lbytes c)). lia.
Qed.

Lemma plen_zero p : plen p = 0 <-> p = [].
Proof.
  split; [|intros ->; reflexivity]. destruct p as [|c p]; [reflexivity|]. intros H. exfalso.
  change (c :: p) with ([c] ++ p) in H. rewrite plen_app in H. unfold plen at 1 in H. cbn [fold_left] in H.
  pose proof (lb_pos c). lia.
Qed.

(* ---- the invariant ---------------------------------------------------------------------------
   outs: the registered (pattern, value) pairs in registration order; cur: the prefix of the
   pattern being inserted that has been walked so far ([] between two adds); paths: ghost list,
   paths[i] is the string of state i + 2. *)
Definition covered (outs : list (list N * V)) (cur p : list N) : Prop :=
  p <> [] /\ (pref p cur \/ exists q v, In (q, v) outs /\ pref p q).

Record TI (n : nfa) (outs : list (list N * V)) (cur : list N) (paths : list (list N)) : Prop := {
  ti_wf : forall i, i < n_nstates n -> exists st, nget i (n_states n) = Some st;
  ti_cnt : N.of_nat (length paths) + 2 = n_nstates n;
  ti_fwd : forall i p, nth_error paths i = Some p -> twalk n ROOT p = Some (N.of_nat i + 2);
  ti_bwd : forall p t, twalk n ROOT p = Some t ->
             (p = [] /\ t = ROOT) \/ (2 <= t /\ nth_error paths (N.to_nat (t - 2)) = Some p);
  ti_mem : forall p, In p paths <-> covered outs cur p;
  ti_sub : forall p v, In (p, v) outs -> In p paths;
  ti_out : forall p t st, twalk n ROOT p = Some t -> nget t (n_states n) = Some st ->
             match n_output st with
             | Some (v, l) => In (p, v) outs /\ l = plen p
             | None => forall v, ~ In (p, v) outs
             end
}.

Lemma ti_lt n outs cur paths p t : TI n outs cur paths -> twalk n ROOT p = Some t -> t < n_nstates n.
Proof.
  intros T H. pose proof (ti_cnt _ _ _ _ T) as Hc. destruct (ti_bwd _ _ _ _ T p t H) as [[_ ->]|[H2 Hn]].
  - unfold ROOT. lia.
  - assert (N.to_nat (t - 2) < length paths)%nat by (apply nth_error_Some; congruence). lia.
Qed.

Lemma ti_inj n outs cur paths p q t : TI n outs cur paths ->
  twalk n ROOT p = Some t -> twalk n ROOT q = Some t -> p = q.
Proof.
  intros T Hp Hq.
  destruct (ti_bwd _ _ _ _ T p t Hp) as [[-> ->]|[H2 Hn]]; destruct (ti_bwd _ _ _ _ T q _ Hq) as [[-> E]|[H2' Hn']];
    try reflexivity; try (unfold ROOT in *; lia). congruence.
Qed.

Lemma nfa_get_ok n outs cur paths i : TI n outs cur paths -> i < n_nstates n ->
  exists st, nfa_get n i = Ok st /\ nget i (n_states n) = Some st.
Proof.
  intros T Hi. destruct (ti_wf _ _ _ _ T i Hi) as [st Hst]. exists st. split; [|exact Hst].
  unfold Nfa.nfa_get. apply N.ltb_lt in Hi. rewrite Hi, Hst. reflexivity.
Qed.

(* a state with its string: the output field says whether the string is registered *)
Lemma ti_in_paths n outs cur paths p t : TI n outs cur paths -> twalk n ROOT p = Some t -> p <> [] -> In p paths.
Proof.
  intros T H Hp. destruct (ti_bwd _ _ _ _ T p t H) as [[-> _]|[_ Hn]]; [congruence|]. eapply nth_error_In; exact Hn.
Qed.

(* ---- changing cur without changing the trie --------------------------------------------------- *)
Lemma pref_snoc p a c : pref p (a ++ [c]) <-> pref p a \/ p = a ++ [c].
Proof.
  split.
  - intros [r H].
    assert (Hr : r = [] \/ exists r' y, r = r' ++ [y]) by (induction r using rev_ind; [left; reflexivity|right; eauto]).
    destruct Hr as [->|[r' [y ->]]].
    + right. rewrite app_nil_r in H. auto.
    + rewrite app_assoc in H. apply app_inj_tail in H as [H _]. left. exists r'. exact H.
  - intros [[r ->] | ->]; [exists (r ++ [c]); rewrite app_assoc; reflexivity|exists []; rewrite app_nil_r; reflexivity].
Qed.

Lemma TI_cur n outs cur cur' paths :
  TI n outs cur paths -> (forall p, covered outs cur p <-> covered outs cur' p) -> TI n outs cur' paths.
Proof.
  intros T H. destruct T as [a b c d e f g]. constructor; try assumption.
  intros p. rewrite e. apply H.
Qed.

(* ---- inserting a fresh child ------------------------------------------------------------------ *)
Definition upd (n : nfa) (sid c : N) (st : nstate V) : nfa :=
  nfa_push_state V (nfa_set V n sid {| n_edges := edge_insert (n_edges st) c (n_nstates n); n_fail := n_fail st;
                                       n_output := n_output st; n_outpos := n_outpos st |}).

Section Upd.
Variables (n : nfa) (outs : list (list N * V)) (pre : list N) (paths : list (list N)).
Hypothesis T : TI n outs pre paths.
Variables (sid c : N) (st : nstate V).
Hypothesis Hsid : twalk n ROOT pre = Some sid.
Hypothesis Hst : nget sid (n_states n) = Some st.
Hypothesis Hnone : edge_get (n_edges st) c = None.

Lemma upd_sid_lt : sid < n_nstates n.
Proof. exact (ti_lt _ _ _ _ _ _ T Hsid). Qed.

Lemma tchild_upd s d :
  tchild (upd n sid c st) s d =
  if s =? n_nstates n then None else if (s =? sid) && (d =? c) then Some (n_nstates n) else tchild n s d.
Proof.
  pose proof upd_sid_lt as Hlt.
  unfold tchild, upd. cbn [n_states nfa_push_state nfa_set].
  destruct (s =? n_nstates n) eqn:E1.
  { apply N.eqb_eq in E1. subst s. rewrite ngss. reflexivity. }
  apply N.eqb_neq in E1. rewrite ngso by exact E1.
  destruct (s =? sid) eqn:E2.
  - apply N.eqb_eq in E2. subst s. rewrite ngss, Hst. cbn [n_edges andb].
    destruct (d =? c) eqn:E3.
    + apply N.eqb_eq in E3. subst d. apply edge_get_insert_same.
    + apply N.eqb_neq in E3. apply edge_get_insert_other. exact E3.
  - apply N.eqb_neq in E2. rewrite ngso by exact E2. reflexivity.
Qed.

Lemma twalk_upd_fwd : forall p q s t, twalk n ROOT q = Some s -> twalk n s p = Some t -> twalk (upd n sid c st) s p = Some t.
Proof.
  induction p as [|d p IH]; intros q s t Hq H; cbn [twalk] in *; [exact H|].
  destruct (tchild n s d) as [u|] eqn:E; [|discriminate].
  rewrite tchild_upd. pose proof (ti_lt _ _ _ _ _ _ T Hq) as Hlt.
  destruct (s =? n_nstates n) eqn:E1; [apply N.eqb_eq in E1; lia|].
  destruct ((s =? sid) && (d =? c)) eqn:E2.
  { apply andb_true_iff in E2 as [Ea Eb]. apply N.eqb_eq in Ea, Eb. subst s d.
    unfold tchild in E. rewrite Hst, Hnone in E. discriminate. }
  rewrite E. apply (IH (q ++ [d]) u t); [|exact H]. rewrite twalk_snoc, Hq. exact E.
Qed.

Lemma twalk_upd_bwd : forall p t, twalk (upd n sid c st) ROOT p = Some t ->
  twalk n ROOT p = Some t \/ (p = pre ++ [c] /\ t = n_nstates n).
Proof.
  induction p as [|x p IH] using rev_ind; intros t H; [left; exact H|].
  rewrite twalk_snoc in H. destruct (twalk (upd n sid c st) ROOT p) as [u|] eqn:E; [|discriminate].
  destruct (IH u eq_refl) as [Hu|[_ Hu]].
  - rewrite tchild_upd in H. pose proof (ti_lt _ _ _ _ _ _ T Hu) as Hlt.
    destruct (u =? n_nstates n) eqn:E1; [apply N.eqb_eq in E1; lia|].
    destruct ((u =? sid) && (x =? c)) eqn:E2.
    + apply andb_true_iff in E2 as [Ea Eb]. apply N.eqb_eq in Ea, Eb. subst u x. right.
      inversion H; subst. split; [|reflexivity]. f_equal. exact (ti_inj _ _ _ _ _ _ _ T Hu Hsid).
    + left. rewrite twalk_snoc, Hu. exact H.
  - subst u. rewrite tchild_upd, N.eqb_refl in H. discriminate.
Qed.

Lemma TI_upd : TI (upd n sid c st) outs (pre ++ [c]) (paths ++ [pre ++ [c]]).
Proof.
  pose proof upd_sid_lt as Hlt. pose proof (ti_cnt _ _ _ _ T) as Hcnt.
  assert (Hroot : twalk n ROOT [] = Some ROOT) by reflexivity.
  constructor.
  - intros i Hi. unfold upd in *. cbn [n_nstates n_states nfa_push_state nfa_set] in *.
    destruct (N.eq_dec i (n_nstates n)) as [->|Hne]; [rewrite ngss; eauto|]. rewrite ngso by exact Hne.
    destruct (N.eq_dec i sid) as [->|Hne2]; [rewrite ngss; eauto|]. rewrite ngso by exact Hne2.
    apply (ti_wf _ _ _ _ T). lia.
  - unfold upd. cbn [n_nstates nfa_push_state nfa_set]. rewrite app_length. cbn [length]. lia.
  - intros i p Hn. destruct (Nat.lt_ge_cases i (length paths)) as [Hi|Hi].
    + rewrite nth_error_app1 in Hn by exact Hi. apply (twalk_upd_fwd p [] ROOT _ Hroot). exact (ti_fwd _ _ _ _ T i p Hn).
    + rewrite nth_error_app2 in Hn by exact Hi. destruct (i - length paths)%nat as [|k] eqn:Ek.
      * cbn in Hn. inversion Hn; subst p. rewrite twalk_snoc.
        rewrite (twalk_upd_fwd pre [] ROOT sid Hroot Hsid). rewrite tchild_upd.
        destruct (sid =? n_nstates n) eqn:E1; [apply N.eqb_eq in E1; lia|]. rewrite !N.eqb_refl. cbn [andb].
        f_equal. lia.
      * cbn in Hn. destruct k; discriminate.
  - intros p t H. destruct (twalk_upd_bwd p t H) as [Ho|[-> ->]].
    + destruct (ti_bwd _ _ _ _ T p t Ho) as [?|[H2 Hn]]; [left; assumption|right]. split; [exact H2|].
      rewrite nth_error_app1; [exact Hn|]. apply nth_error_Some. congruence.
    + right. split; [lia|]. rewrite nth_error_app2 by lia.
      replace (N.to_nat (n_nstates n - 2) - length paths)%nat with 0%nat by lia. reflexivity.
  - intros p. rewrite in_app_iff, (ti_mem _ _ _ _ T). unfold covered. rewrite pref_snoc. cbn [In]. split.
    + intros [[Hp [Hc|Hc]]|[<-|[]]].
      * split; [exact Hp|]. left. left. exact Hc.
      * split; [exact Hp|]. right. exact Hc.
      * split; [intros E; apply app_eq_nil in E as [_ E]; discriminate|]. left. right. reflexivity.
    + intros [Hp [[Hc|Hc]|Hc]].
      * left. split; [exact Hp|]. left. exact Hc.
      * right. left. symmetry. exact Hc.
      * left. split; [exact Hp|]. right. exact Hc.
  - intros p v Hin. apply in_app_iff. left. exact (ti_sub _ _ _ _ T p v Hin).
  - intros p t st0 H Hg. unfold upd in Hg. cbn [n_states n_nstates nfa_push_state nfa_set] in Hg.
    destruct (twalk_upd_bwd p t H) as [Ho|[-> ->]].
    + pose proof (ti_lt _ _ _ _ _ _ T Ho) as Hlt2. rewrite ngso in Hg by lia.
      destruct (N.eq_dec t sid) as [->|Hne].
      * rewrite ngss in Hg. inversion Hg; subst st0. cbn [n_output]. exact (ti_out _ _ _ _ T p sid st Ho Hst).
      * rewrite ngso in Hg by exact Hne. exact (ti_out _ _ _ _ T p t st0 Ho Hg).
    + rewrite ngss in Hg. inversion Hg; subst st0. cbn [n_output nstate_default]. intros v Hin.
      apply (ti_sub _ _ _ _ T) in Hin. apply In_nth_error in Hin as [i Hi].
      apply (ti_fwd _ _ _ _ T) in Hi. rewrite twalk_snoc, Hsid in Hi. unfold tchild in Hi. rewrite Hst, Hnone in Hi. discriminate.
Qed.
End Upd.


(* ---- the for-loop of add ---------------------------------------------------------------------- *)
Definition same_meta (n n' : nfa) : Prop :=
  n_kind n' = n_kind n /\ n_len n' = n_len n /\ n_shadowed n' = n_shadowed n /\ n_outputs n' = n_outputs n.

Lemma app_snoc_split (r1 r2 pre : list N) c : r1 ++ r2 = pre ++ [c] -> r2 <> [] ->
  r1 = pre \/ exists r2', r2' <> [] /\ pre = r1 ++ r2'.
Proof.
  intros H Hr.
  assert (Hc : r2 = [] \/ exists r' y, r2 = r' ++ [y]) by (induction r2 using rev_ind; [left; reflexivity|right; eauto]).
  destruct Hc as [->|[r' [y ->]]]; [congruence|].
  rewrite app_assoc in H. apply app_inj_tail in H as [H _]. destruct r' as [|z r'].
  - left. rewrite app_nil_r in H. exact H.
  - right. exists (z :: r'). split; [discriminate|]. symmetry. exact H.
Qed.

Definition walk_post (n : nfa) (outs : list (list N * V)) (full : list N) (k : N) (r : res (nfa * option N)) : Prop :=
  match r with
  | Ok (n', Some fin) =>
      exists paths', TI n' outs full paths' /\ twalk n' ROOT full = Some fin
        /\ same_meta n n' /\ n_nstates n' <= n_nstates n + k
        /\ (lmf n = true -> forall r1 r2, full = r1 ++ r2 -> r2 <> [] -> forall v, ~ In (r1, v) outs)
  | Ok (n', None) =>
      lmf n = true /\ exists r1 r2 v paths', full = r1 ++ r2 /\ r2 <> [] /\ In (r1, v) outs
        /\ TI n' outs r1 paths' /\ same_meta n n' /\ n_nstates n' <= n_nstates n + k
  | _ => False
  end.

Lemma walk_post_trans n0 n outs full k r :
  same_meta n0 n -> n_nstates n <= n_nstates n0 + 1 ->
  walk_post n outs full k r -> walk_post n0 outs full (k + 1) r.
Proof.
  intros (M1 & M2 & M3 & M4) Hs. unfold walk_post, same_meta, lmf.
  destruct r as [[n' [fin|]]| | | |]; try exact (fun x => x).
  - intros (paths' & H1 & H2 & (A1 & A2 & A3 & A4) & H4 & H5). exists paths'. split; [exact H1|]. split; [exact H2|]. split; [repeat split; congruence|]. split; [lia|].
    rewrite <- M1. exact H5.
  - intros (L & r1 & r2 & v & paths' & H1 & H2 & H3 & H4 & (A1 & A2 & A3 & A4) & H6).
    split; [congruence|]. exists r1, r2, v, paths'. split; [exact H1|]. split; [exact H2|]. split; [exact H3|].
    split; [exact H4|]. split; [repeat split; congruence|lia].
Qed.

Lemma add_walk_inv : forall rest n sid pre paths outs,
  TI n outs pre paths -> twalk n ROOT pre = Some sid ->
  n_nstates n + N.of_nat (length rest) <= U32_MAX + 1 ->
  (lmf n = true -> forall r1 r2, pre = r1 ++ r2 -> r2 <> [] -> forall v, ~ In (r1, v) outs) ->
  walk_post n outs (pre ++ rest) (N.of_nat (length rest)) (add_walk n sid rest).
Proof.
  induction rest as [|c rest IH]; intros n sid pre paths outs T Hsid Hsz Hacc.
  - cbn [Nfa.add_walk walk_post]. rewrite app_nil_r. exists paths. unfold same_meta. split; [exact T|]. split; [exact Hsid|]. split; [auto|].
    split; [cbn [length]; lia|exact Hacc].
  - cbn [Nfa.add_walk].
    destruct (nfa_get_ok n outs pre paths sid T (ti_lt _ _ _ _ _ _ T Hsid)) as [st [Hg Hst]]. rewrite Hg. cbn [bind].
    destruct (is_leftmost_first (n_kind n) && isSome (n_output st)) eqn:Esh.
    + apply andb_true_iff in Esh as [El Eo]. cbn [walk_post]. split; [exact El|].
      pose proof (ti_out _ _ _ _ T pre sid st Hsid Hst) as Ho.
      destruct (n_output st) as [[v l]|]; [|discriminate]. destruct Ho as [Ho _].
      exists pre, (c :: rest), v, paths. unfold same_meta. split; [reflexivity|]. split; [discriminate|]. split; [exact Ho|].
      split; [exact T|]. split; [auto|lia].
    + assert (Hno : lmf n = true -> forall v, ~ In (pre, v) outs).
      { intros El. unfold lmf in El. rewrite El in Esh. cbn [andb] in Esh.
        pose proof (ti_out _ _ _ _ T pre sid st Hsid Hst) as Ho. destruct (n_output st); [discriminate|]. exact Ho. }
      assert (Hacc' : lmf n = true -> forall r1 r2, pre ++ [c] = r1 ++ r2 -> r2 <> [] -> forall v, ~ In (r1, v) outs).
      { intros El r1 r2 E Hr. symmetry in E. destruct (app_snoc_split r1 r2 pre c E Hr) as [->|[r2' [Hr' E']]].
        - apply Hno. exact El.
        - exact (Hacc El r1 r2' E' Hr'). }
      replace (pre ++ c :: rest) with ((pre ++ [c]) ++ rest) by (rewrite <- app_assoc; reflexivity).
      replace (N.of_nat (length (c :: rest))) with (N.of_nat (length rest) + 1) by (cbn [length]; lia).
      destruct (edge_get (n_edges st) c) as [nx|] eqn:Ee.
      * (* the edge exists *)
        assert (Hw : twalk n ROOT (pre ++ [c]) = Some nx).
        { rewrite twalk_snoc, Hsid. unfold tchild. rewrite Hst. exact Ee. }
        assert (T' : TI n outs (pre ++ [c]) paths).
        { apply (TI_cur n outs pre _ paths T). intros p. unfold covered. rewrite pref_snoc. split.
          - intros [Hp [Hc|Hc]]; (split; [exact Hp|]); [left; left; exact Hc|right; exact Hc].
          - intros [Hp [[Hc|Hc]|Hc]]; [split; [exact Hp|left; exact Hc]| |split; [exact Hp|right; exact Hc]].
            subst p. apply (ti_mem _ _ _ _ T). apply (ti_in_paths _ _ _ _ _ _ T Hw). exact Hp. }
        apply (walk_post_trans n n); [unfold same_meta; auto|lia|].
        apply (IH n nx (pre ++ [c]) paths outs T' Hw); [cbn [length] in Hsz; lia|exact Hacc'].
      * (* a fresh state *)
        cbn [length] in Hsz.
        destruct (U32_MAX <? n_nstates n) eqn:Eu; [apply N.ltb_lt in Eu; lia|].
        change (nfa_push_state V (nfa_set V n sid _)) with (upd n sid c st).
        pose proof (TI_upd n outs pre paths T sid c st Hsid Hst Ee) as T'.
        assert (Hw : twalk (upd n sid c st) ROOT (pre ++ [c]) = Some (n_nstates n)).
        { pose proof (ti_fwd _ _ _ _ T' (length paths) (pre ++ [c])) as Hf.
          rewrite nth_error_app2, Nat.sub_diag in Hf by lia. specialize (Hf eq_refl).
          rewrite (ti_cnt _ _ _ _ T) in Hf. exact Hf. }
        apply (walk_post_trans n (upd n sid c st)); [unfold same_meta, upd; cbn; auto|unfold upd; cbn; lia|].
        apply (IH (upd n sid c st) (n_nstates n) (pre ++ [c]) _ outs T' Hw); [unfold upd; cbn [n_nstates nfa_push_state nfa_set]; lia|exact Hacc'].
Qed.


(* ---- changes that leave the edges alone ------------------------------------------------------- *)
Lemma twalk_ext (n1 n2 : nfa) : (forall s d, tchild n2 s d = tchild n1 s d) -> forall p s, twalk n2 s p = twalk n1 s p.
Proof.
  intros H. induction p as [|c p IH]; intros s; cbn [twalk]; [reflexivity|]. rewrite H.
  destruct (tchild n1 s c); [apply IH|reflexivity].
Qed.

Lemma pref_nil_r q : pref q [] -> q = [].
Proof. intros [r H]. symmetry in H. apply app_eq_nil in H as [H _]. exact H. Qed.

(* only the bookkeeping fields differ *)
Lemma TI_same_states (n1 n2 : nfa) outs cur paths :
  n_states n2 = n_states n1 -> n_nstates n2 = n_nstates n1 -> TI n1 outs cur paths -> TI n2 outs cur paths.
Proof.
  intros Hs Hn T.
  assert (Hw : forall p s, twalk n2 s p = twalk n1 s p) by (apply twalk_ext; intros s d; unfold tchild; rewrite Hs; reflexivity).
  destruct T as [a b c d e f g]. constructor; try assumption.
  - intros i Hi. rewrite Hs. apply a. lia.
  - lia.
  - intros i p Hp. rewrite Hw. apply c. exact Hp.
  - intros p t Hp. rewrite Hw in Hp. apply d. exact Hp.
  - intros p t st Hp Hg. rewrite Hw in Hp. rewrite Hs in Hg. exact (g p t st Hp Hg).
Qed.

(* the final assignment of add: s.output.replace((value, pattern_len)) *)
Definition set_out (n : nfa) (fin : N) (st : nstate V) (v : V) (l : N) : nfa :=
  let n2 := nfa_set V n fin {| n_edges := n_edges st; n_fail := n_fail st; n_output := Some (v, l); n_outpos := n_outpos st |} in
  {| n_states := n_states n2; n_nstates := n_nstates n2; n_outputs := n_outputs n2;
     n_len := n_len n2 + 1; n_kind := n_kind n2; n_shadowed := n_shadowed n2 |}.

Lemma TI_set_out n outs p paths fin st v :
  TI n outs p paths -> twalk n ROOT p = Some fin -> nget fin (n_states n) = Some st -> n_output st = None -> p <> [] ->
  TI (set_out n fin st v (plen p)) (outs ++ [(p, v)]) [] paths.
Proof.
  intros T Hw Hst Hnone Hp.
  assert (Hc : forall s d, tchild (set_out n fin st v (plen p)) s d = tchild n s d).
  { intros s d. unfold tchild, set_out. cbn [n_states nfa_set]. destruct (N.eq_dec s fin) as [->|Hne].
    - rewrite ngss, Hst. reflexivity.
    - rewrite ngso by exact Hne. reflexivity. }
  pose proof (twalk_ext n (set_out n fin st v (plen p)) Hc) as Hwe.
  constructor.
  - intros i Hi. unfold set_out in *. cbn [n_states n_nstates nfa_set] in *.
    destruct (N.eq_dec i fin) as [->|Hne]; [rewrite ngss; eauto|]. rewrite ngso by exact Hne. exact (ti_wf _ _ _ _ T i Hi).
  - exact (ti_cnt _ _ _ _ T).
  - intros i q Hq. rewrite Hwe. exact (ti_fwd _ _ _ _ T i q Hq).
  - intros q t Hq. rewrite Hwe in Hq. exact (ti_bwd _ _ _ _ T q t Hq).
  - intros q. rewrite (ti_mem _ _ _ _ T). unfold covered. split.
    + intros [Hq [Hc1|[q' [v' [Hin Hc1]]]]]; (split; [exact Hq|right]).
      * exists p, v. split; [apply in_app_iff; right; left; reflexivity|exact Hc1].
      * exists q', v'. split; [apply in_app_iff; left; exact Hin|exact Hc1].
    + intros [Hq [Hc1|[q' [v' [Hin Hc1]]]]]; (split; [exact Hq|]).
      * apply pref_nil_r in Hc1. congruence.
      * apply in_app_iff in Hin as [Hin|[E|[]]]; [right; exists q', v'; auto|]. inversion E; subst. left. exact Hc1.
  - intros q v' Hin. apply in_app_iff in Hin as [Hin|[E|[]]]; [exact (ti_sub _ _ _ _ T q v' Hin)|].
    inversion E; subst. exact (ti_in_paths _ _ _ _ _ _ T Hw Hp).
  - intros q t st0 Hq Hg. rewrite Hwe in Hq. unfold set_out in Hg. cbn [n_states nfa_set] in Hg.
    destruct (N.eq_dec t fin) as [->|Hne].
    + rewrite ngss in Hg. inversion Hg; subst st0. cbn [n_output].
      rewrite (ti_inj _ _ _ _ _ _ _ T Hq Hw). split; [apply in_app_iff; right; left; reflexivity|reflexivity].
    + rewrite ngso in Hg by exact Hne. pose proof (ti_out _ _ _ _ T q t st0 Hq Hg) as Ho.
      destruct (n_output st0) as [[v' l]|].
      * destruct Ho as [Ho ->]. split; [apply in_app_iff; left; exact Ho|reflexivity].
      * intros v' Hin. apply in_app_iff in Hin as [Hin|[E|[]]]; [exact (Ho v' Hin)|].
        inversion E; subst. rewrite Hw in Hq. inversion Hq. congruence.
Qed.

(* ---- check_shadowed_duplicate ------------------------------------------------------------------ *)
Lemma walk_existing_none (n : nfa) q : walk_existing V n None q = Ok None.
Proof. induction q as [|c q IH]; cbn [walk_existing]; auto. Qed.

Lemma walk_existing_twalk n outs cur paths : TI n outs cur paths ->
  forall q pre s, twalk n ROOT pre = Some s -> walk_existing V n (Some s) q = Ok (twalk n s q).
Proof.
  intros T. induction q as [|c q IH]; intros pre s Hs; cbn [walk_existing twalk]; [reflexivity|].
  unfold child_id. destruct (nfa_get_ok n outs cur paths s T (ti_lt _ _ _ _ _ _ T Hs)) as [st [Hg Hst]].
  rewrite Hg. cbn [bind]. unfold tchild. rewrite Hst. destruct (edge_get (n_edges st) c) as [t|] eqn:E.
  - apply (IH (pre ++ [c])). rewrite twalk_snoc, Hs. unfold tchild. rewrite Hst. exact E.
  - apply walk_existing_none.
Qed.

Lemma existsb_list_eqb_iff p l : existsb (list_eqb p) l = true <-> In p l.
Proof.
  rewrite existsb_exists. split.
  - intros [q [Hq He]]. apply list_eqb_eq in He. subst. exact Hq.
  - intros H. exists p. split; [exact H|]. apply list_eqb_eq. reflexivity.
Qed.

(* ---- add --------------------------------------------------------------------------------------- *)
Definition proper_in (outs : list (list N * V)) (p : list N) : Prop :=
  exists r1 r2 v, p = r1 ++ r2 /\ r2 <> [] /\ In (r1, v) outs.

Definition add_spec (n : nfa) (outs : list (list N * V)) (p : list N) (v : V) (r : res nfa) : Prop :=
  match r with
  | Ok n' =>
     p <> [] /\ plen p <= U32_MAX /\ (forall v', ~ In (p, v') outs) /\ n_kind n' = n_kind n /\ n_outputs n' = n_outputs n /\
     n_nstates n' <= n_nstates n + N.of_nat (length p) /\
     ((~ (lmf n = true /\ proper_in outs p) /\
       exists paths', TI n' (outs ++ [(p, v)]) [] paths' /\ n_len n' = n_len n + 1 /\ n_shadowed n' = n_shadowed n)
      \/ (lmf n = true /\ proper_in outs p /\ ~ In p (n_shadowed n) /\
          exists paths', TI n' outs [] paths' /\ n_len n' = n_len n /\ n_shadowed n' = p :: n_shadowed n))
  | Err DuplicatePattern => p <> [] /\ plen p <= U32_MAX /\ ((exists v', In (p, v') outs) \/ In p (n_shadowed n))
  | Err InvalidArgument => p = [] \/ U32_MAX < plen p
  | _ => False
  end.

Lemma add_inv n outs paths p v :
  TI n outs [] paths -> n_nstates n + N.of_nat (length p) <= U32_MAX + 1 ->
  add_spec n outs p v (add V lbytes n p v).
Proof.
  intros T Hsz. unfold add. fold (plen p).
  destruct (U32_MAX <? plen p) eqn:E1; [cbn [add_spec]; right; lia|].
  destruct (plen p =? 0) eqn:E2; [cbn [add_spec]; left; apply plen_zero; lia|].
  assert (Hp : p <> []) by (intros ->; cbn in E2; discriminate).
  assert (Hpl : plen p <= U32_MAX) by lia.
  assert (Hacc0 : lmf n = true -> forall r1 r2 : list N, [] = r1 ++ r2 -> r2 <> [] -> forall v0 : V, ~ In (r1, v0) outs).
  { intros _ r1 r2 E Hr. symmetry in E. apply app_eq_nil in E as [_ E]. congruence. }
  pose proof (add_walk_inv p n ROOT [] paths outs T eq_refl Hsz Hacc0) as W. cbn [app] in W.
  destruct (add_walk n ROOT p) as [[n1 [fin|]]| | | |]; cbn [walk_post] in W; try contradiction; cbn [bind].
  - destruct W as (paths' & T1 & Hw & (M1 & M2 & M3 & M4) & Hs & Hacc).
    destruct (nfa_get_ok n1 outs p paths' fin T1 (ti_lt _ _ _ _ _ _ T1 Hw)) as [st [Hg Hst]]. rewrite Hg. cbn [bind].
    pose proof (ti_out _ _ _ _ T1 p fin st Hw Hst) as Ho.
    destruct (n_output st) as [[v' l]|] eqn:Eo; cbn [isSome].
    + cbn [add_spec]. split; [exact Hp|]. split; [exact Hpl|]. left. exists v'. exact (proj1 Ho).
    + change (add_spec n outs p v (Ok (set_out n1 fin st v (plen p)))).
      cbn [add_spec]. split; [exact Hp|]. split; [exact Hpl|]. split; [exact Ho|].
      split; [unfold set_out; cbn; exact M1|]. split; [unfold set_out; cbn; exact M4|].
      split; [unfold set_out; cbn [n_nstates nfa_set]; exact Hs|]. left. split.
      * intros [L (r1 & r2 & v0 & E & Hr & Hin)]. exact (Hacc L r1 r2 E Hr v0 Hin).
      * exists paths'. split; [exact (TI_set_out n1 outs p paths' fin st v T1 Hw Hst Eo Hp)|].
        unfold set_out. cbn. split; congruence.
  - destruct W as (L & r1 & r2 & v0 & paths' & E & Hr & Hin & T1 & (M1 & M2 & M3 & M4) & Hs).
    assert (T0 : TI n1 outs [] paths').
    { apply (TI_cur n1 outs r1 [] paths' T1). intros q. unfold covered. split.
      - intros [Hq [Hc|Hc]]; (split; [exact Hq|]); [right; exists r1, v0; auto|right; exact Hc].
      - intros [Hq [Hc|Hc]]; [apply pref_nil_r in Hc; congruence|]. split; [exact Hq|right; exact Hc]. }
    unfold check_shadowed_duplicate. rewrite (walk_existing_twalk n1 outs [] paths' T0 p [] ROOT eq_refl). cbn [bind].
    assert (Hreg : exists b, (match twalk n1 ROOT p with
                              | Some s => st <- nfa_get n1 s ;; Ok (isSome (n_output st))
                              | None => Ok false end) = Ok b
                             /\ (b = true -> exists v', In (p, v') outs) /\ (b = false -> forall v', ~ In (p, v') outs)).
    { destruct (twalk n1 ROOT p) as [s|] eqn:Ew.
      - destruct (nfa_get_ok n1 outs [] paths' s T0 (ti_lt _ _ _ _ _ _ T0 Ew)) as [st [Hg Hst]]. rewrite Hg. cbn [bind].
        pose proof (ti_out _ _ _ _ T0 p s st Ew Hst) as Ho. exists (isSome (n_output st)). split; [reflexivity|].
        destruct (n_output st) as [[v' l]|]; cbn [isSome]; split; try discriminate; intros _; [exists v'; exact (proj1 Ho)|exact Ho].
      - exists false. split; [reflexivity|]. split; [discriminate|]. intros _ v' Hin'.
        apply (ti_sub _ _ _ _ T0) in Hin'. apply In_nth_error in Hin' as [i Hi]. apply (ti_fwd _ _ _ _ T0) in Hi. congruence. }
    destruct Hreg as (b & -> & Hb1 & Hb0). cbn [bind].
    destruct (b || existsb (list_eqb p) (n_shadowed n1)) eqn:Ed.
    + cbn [add_spec]. split; [exact Hp|]. split; [exact Hpl|]. apply orb_true_iff in Ed as [->|Ed]; [left; apply Hb1; reflexivity|].
      right. apply existsb_list_eqb_iff in Ed. rewrite M3 in Ed. exact Ed.
    + apply orb_false_iff in Ed as [-> Ed]. cbn [add_spec].
      split; [exact Hp|]. split; [exact Hpl|]. split; [apply Hb0; reflexivity|]. split; [exact M1|]. split; [exact M4|]. split; [exact Hs|].
      right. split; [exact L|]. split; [exists r1, r2, v0; auto|]. split.
      * intros Hin'. rewrite <- M3 in Hin'. apply existsb_list_eqb_iff in Hin'. congruence.
      * exists paths'. split; [refine (TI_same_states n1 _ outs [] paths' _ _ T0); reflexivity|]. cbn. split; congruence.
Qed.


(* ---- the empty builder ------------------------------------------------------------------------ *)
Lemma TI_new k : TI (nfa_new V k) [] [] [].
Proof.
  constructor.
  - intros i Hi. unfold nfa_new in *. cbn [n_nstates n_states] in *.
    destruct (N.eq_dec i 1) as [->|H1]; [rewrite ngss; eauto|]. rewrite ngso by exact H1.
    assert (i = 0) as -> by lia. rewrite ngss. eauto.
  - reflexivity.
  - intros [|i] p H; discriminate.
  - intros [|c p] t H; [left; inversion H; auto|]. cbn in H. discriminate.
  - intros p. split; [intros []|]. intros [Hp [Hc|(q & v & [] & _)]]. apply pref_nil_r in Hc. congruence.
  - intros p v [].
  - intros p t st H Hg. destruct p as [|c p]; [|cbn in H; discriminate]. inversion H; subst t.
    cbn in Hg. inversion Hg; subst st. cbn. intros v [].
Qed.

(* ---- a sequence of adds against the registration specification --------------------------------
   reg lf outs sh pvs: what registering pvs one after the other must do, starting with registered
   pairs outs and (leftmost-first only) dropped patterns sh: the first empty pattern or repeat
   decides the error; under leftmost-first a pattern with a registered proper prefix is dropped
   (but remembered, so that its repeat is still an error). *)
Definition proper_in_b (outs : list (list N * V)) (p : list N) : bool :=
  existsb (fun qv => is_prefix (fst qv) p && negb (list_eqb (fst qv) p)) outs.

Fixpoint reg (lf : bool) (outs : list (list N * V)) (sh : list (list N)) (pvs : list (list N * V))
  : errkind + (list (list N * V) * list (list N)) :=
  match pvs with
  | [] => inr (outs, sh)
  | (p, v) :: r =>
    if list_eqb p [] then inl InvalidArgument
    else if existsb (list_eqb p) (map fst outs) || existsb (list_eqb p) sh then inl DuplicatePattern
    else if lf && proper_in_b outs p then reg lf outs (p :: sh) r
    else reg lf (outs ++ [(p, v)]) sh r
  end.

Fixpoint adds (n : nfa) (pvs : list (list N * V)) : res nfa :=
  match pvs with
  | [] => Ok n
  | (p, v) :: r => n' <- add V lbytes n p v ;; adds n' r
  end.

Definition total_len (pvs : list (list N * V)) : N :=
  fold_right (fun pv a => N.of_nat (length (fst pv)) + a) 0 pvs.

Lemma is_prefix_iff_ex p t : is_prefix p t = true <-> exists r, t = p ++ r.
Proof.
  revert t; induction p as [|x p IH]; intros t; cbn [is_prefix].
  - split; [intros _; exists t; reflexivity|reflexivity].
  - destruct t as [|y t]; [split; [discriminate|intros [r H]; discriminate]|].
    rewrite andb_true_iff, IH, N.eqb_eq. split.
    + intros [-> [r ->]]. exists r. reflexivity.
    + intros [r H]. inversion H. split; [reflexivity|exists r; reflexivity].
Qed.

Lemma proper_in_b_iff outs p : proper_in_b outs p = true <-> proper_in outs p.
Proof.
  unfold proper_in_b, proper_in. rewrite existsb_exists. split.
  - intros [[q v] [Hin H]]. cbn [fst] in H. apply andb_true_iff in H as [H1 H2]. apply is_prefix_iff_ex in H1 as [r ->].
    exists q, r, v. split; [reflexivity|]. split; [|exact Hin]. intros ->. rewrite app_nil_r in H2.
    assert (list_eqb q q = true) by (apply list_eqb_eq; reflexivity). rewrite H in H2. discriminate.
  - intros (r1 & r2 & v & -> & Hr & Hin). exists (r1, v). split; [exact Hin|]. cbn [fst]. apply andb_true_iff. split.
    + apply is_prefix_iff_ex. exists r2. reflexivity.
    + destruct (list_eqb r1 (r1 ++ r2)) eqn:E; [|reflexivity]. apply list_eqb_eq in E.
      rewrite <- (app_nil_r r1) in E at 1. apply app_inv_head in E. congruence.
Qed.

Lemma in_map_fst_iff (outs : list (list N * V)) p : In p (map fst outs) <-> exists v, In (p, v) outs.
Proof.
  rewrite in_map_iff. split.
  - intros [[q v] [<- H]]. exists v. exact H.
  - intros [v H]. exists (p, v). auto.
Qed.

Lemma proper_in_mono outs x q : proper_in outs q -> proper_in (outs ++ [x]) q.
Proof. intros (r1 & r2 & v & E & Hr & Hin). exists r1, r2, v. split; [exact E|]. split; [exact Hr|]. apply in_app_iff. left. exact Hin. Qed.

Theorem adds_reg : forall pvs n outs paths,
  TI n outs [] paths ->
  (forall q, In q (n_shadowed n) -> lmf n = true /\ proper_in outs q) ->
  (forall p v, In (p, v) pvs -> plen p <= U32_MAX) ->
  n_nstates n + total_len pvs <= U32_MAX + 1 ->
  match reg (lmf n) outs (n_shadowed n) pvs with
  | inl e => adds n pvs = Err e
  | inr (outs', sh') =>
      exists n' paths', adds n pvs = Ok n' /\ TI n' outs' [] paths' /\ n_shadowed n' = sh' /\ n_kind n' = n_kind n
        /\ n_outputs n' = n_outputs n /\ n_len n' + N.of_nat (length outs) = n_len n + N.of_nat (length outs')
        /\ (forall q, In q sh' -> lmf n = true /\ proper_in outs' q)
  end.
Proof.
  induction pvs as [|[p v] r IH]; intros n outs paths T Hsh Hpl Hsz; cbn [reg adds].
  - exists n, paths. split; [reflexivity|]. split; [exact T|]. repeat (split; [reflexivity|]). exact Hsh.
  - cbn [total_len fold_right fst] in Hsz. fold (total_len r) in Hsz.
    assert (Hsz1 : n_nstates n + N.of_nat (length p) <= U32_MAX + 1) by lia.
    pose proof (add_inv n outs paths p v T Hsz1) as A.
    pose proof (Hpl p v (or_introl eq_refl)) as Hp1.
    destruct (list_eqb p []) eqn:E0.
    { apply list_eqb_eq in E0. subst p. cbn. reflexivity. }
    assert (Hp : p <> []) by (intros ->; cbn in E0; discriminate).
    destruct (existsb (list_eqb p) (map fst outs) || existsb (list_eqb p) (n_shadowed n)) eqn:Ed.
    { (* a repeat *)
      assert (Hd : (exists v', In (p, v') outs) \/ In p (n_shadowed n)).
      { apply orb_true_iff in Ed as [Ed|Ed]; apply existsb_list_eqb_iff in Ed; [left; apply in_map_fst_iff; exact Ed|right; exact Ed]. }
      destruct (add V lbytes n p v) as [n'|[]| | |]; cbn [add_spec] in A; try contradiction; cbn [bind]; try reflexivity.
      - exfalso. destruct A as (_ & _ & Hno & _ & _ & _ & A).
        destruct Hd as [[v' Hd]|Hd]; [exact (Hno v' Hd)|].
        destruct A as [[Hn _]|(_ & _ & Hns & _)]; [apply Hn; exact (Hsh p Hd)|exact (Hns Hd)].
      - exfalso. destruct A as [A|A]; [congruence|lia]. }
    apply orb_false_iff in Ed as [Ed1 Ed2].
    assert (Hno1 : forall v', ~ In (p, v') outs).
    { intros v' Hin. assert (existsb (list_eqb p) (map fst outs) = true) as X; [|congruence].
      apply existsb_list_eqb_iff. apply in_map_fst_iff. exists v'. exact Hin. }
    assert (Hno2 : ~ In p (n_shadowed n)).
    { intros Hin. apply existsb_list_eqb_iff in Hin. congruence. }
    destruct (add V lbytes n p v) as [n'|[]| | |]; cbn [add_spec] in A; try contradiction; cbn [bind].
    + destruct A as (_ & _ & _ & Hk & Ho & Hs & A).
      assert (Hl : lmf n' = lmf n) by (unfold lmf; rewrite Hk; reflexivity).
      destruct A as [[Hn (paths' & T' & Hlen & Hshd)]|(L & Hpi & _ & paths' & T' & Hlen & Hshd)].
      * assert (lmf n && proper_in_b outs p = false) as ->.
        { destruct (lmf n) eqn:L; [|reflexivity]. cbn [andb]. destruct (proper_in_b outs p) eqn:Eb; [|reflexivity].
          exfalso. apply Hn. split; [reflexivity|]. apply proper_in_b_iff. exact Eb. }
        assert (Hsh' : forall q, In q (n_shadowed n') -> lmf n' = true /\ proper_in (outs ++ [(p, v)]) q).
        { intros q Hq. rewrite Hshd in Hq. destruct (Hsh q Hq) as [L Hpq]. split; [congruence|apply proper_in_mono; exact Hpq]. }
        specialize (IH n' (outs ++ [(p, v)]) paths' T' Hsh' (fun q w Hq => Hpl q w (or_intror Hq)) ltac:(lia)).
        rewrite Hl, Hshd in IH. destruct (reg (lmf n) (outs ++ [(p, v)]) (n_shadowed n) r) as [e|[outs' sh']]; [exact IH|].
        destruct IH as (n2 & paths2 & I1 & I2 & I3 & I4 & I5 & I6 & I7). exists n2, paths2.
        split; [exact I1|]. split; [exact I2|]. split; [exact I3|]. split; [congruence|]. split; [congruence|].
        split; [rewrite app_length in I6; cbn [length] in I6; lia|exact I7].
      * assert (lmf n && proper_in_b outs p = true) as ->.
        { rewrite L. cbn [andb]. apply proper_in_b_iff. exact Hpi. }
        assert (Hsh' : forall q, In q (n_shadowed n') -> lmf n' = true /\ proper_in outs q).
        { intros q Hq. rewrite Hshd in Hq. destruct Hq as [<-|Hq]; [split; [congruence|exact Hpi]|].
          destruct (Hsh q Hq) as [_ Hpq]. split; [congruence|exact Hpq]. }
        specialize (IH n' outs paths' T' Hsh' (fun q w Hq => Hpl q w (or_intror Hq)) ltac:(lia)).
        rewrite Hl, Hshd in IH. destruct (reg (lmf n) outs (p :: n_shadowed n) r) as [e|[outs' sh']]; [exact IH|].
        destruct IH as (n2 & paths2 & I1 & I2 & I3 & I4 & I5 & I6 & I7). exists n2, paths2.
        split; [exact I1|]. split; [exact I2|]. split; [exact I3|]. split; [congruence|]. split; [congruence|].
        split; [lia|exact I7].
    + exfalso. destruct A as [A|A]; [congruence|lia].
    + exfalso. destruct A as (_ & _ & [[v' A]|A]); [exact (Hno1 v' A)|exact (Hno2 A)].
Qed.

End TI.
