(* SerProps.v — C09: serialisation round trip of both automata (Model/Ser.v). *)
From DV Require Import Model.Base Model.Nfa Model.BwBuild Model.CwBuild Model.Ser.
From Coq Require Import ZifyN ZifyNat ZifyBool.
Ltac Zify.zify_post_hook ::= Z.div_mod_to_equations.

Local Open Scope N_scope.

(* ---- little-endian integers ------------------------------------------------------------- *)
Definition pow256N (n : nat) : N := 256 ^ N.of_nat n.

Lemma pow256N_S n : pow256N (S n) = 256 * pow256N n.
Proof. unfold pow256N. rewrite Nat2N.inj_succ, N.pow_succ_r'. reflexivity. Qed.

Lemma land255 x : N.land x 255 = x mod 256.
Proof. change 255 with (N.ones 8). rewrite N.land_ones. reflexivity. Qed.
Lemma shiftr8 x : N.shiftr x 8 = x / 256.
Proof. rewrite N.shiftr_div_pow2. reflexivity. Qed.

Lemma to_le_length n x : length (to_le n x) = n.
Proof. revert x; induction n as [|n IH]; intros x; cbn [to_le length]; [reflexivity|]. now rewrite IH. Qed.

Lemma of_le_to_le n x : x < pow256N n -> of_le (to_le n x) = x.
Proof.
  revert x; induction n as [|n IH]; intros x Hx.
  - unfold pow256N in Hx; cbn in Hx. cbn. lia.
  - cbn [to_le of_le]. rewrite land255, shiftr8. rewrite pow256N_S in Hx.
    rewrite IH by (apply N.div_lt_upper_bound; lia).
    pose proof (N.div_mod x 256). lia.
Qed.

Lemma to_le_bytes n x : Forall (fun b => b < 256) (to_le n x).
Proof.
  revert x; induction n as [|n IH]; intros x; cbn [to_le]; constructor; [|apply IH].
  rewrite land255. apply N.mod_lt. lia.
Qed.

Lemma take_n_app n (l r : list N) : length l = n -> take_n n (l ++ r) = Ok (l, r).
Proof.
  revert l; induction n as [|n IH]; intros [|b l] H; cbn in H; try discriminate; cbn [take_n app].
  - reflexivity.
  - rewrite IH by lia. reflexivity.
Qed.

Definition u32 (x : N) : Prop := x < 4294967296.

Lemma de_u32_ser x r : u32 x -> de_u32 (ser_u32 x ++ r) = Ok (x, r).
Proof.
  intros H. unfold de_u32, ser_u32. rewrite take_n_app by apply to_le_length. cbn [bind].
  rewrite of_le_to_le; [reflexivity|]. exact H.
Qed.

Lemma ser_u32_length x : length (ser_u32 x) = 4%nat.
Proof. apply to_le_length. Qed.

(* ---- MatchKind -------------------------------------------------------------------------- *)
Lemma kind_byte_roundtrip k : kind_of_u8 (kind_to_u8 k) = k.
Proof. destruct k; reflexivity. Qed.
(* any other byte silently decodes to Standard: the writer must therefore be exact *)
Lemma kind_byte_default b : b <> 1 -> b <> 2 -> kind_of_u8 b = Standard.
Proof.
  intros H1 H2. unfold kind_of_u8.
  destruct (b =? 1) eqn:E1; [apply N.eqb_eq in E1; contradiction|].
  destruct (b =? 2) eqn:E2; [apply N.eqb_eq in E2; contradiction|]. reflexivity.
Qed.
Lemma de_kind_ser k r : de_kind (kind_to_u8 k :: r) = Ok (k, r).
Proof. unfold de_kind. now rewrite kind_byte_roundtrip. Qed.

(* ---- the Serializable law a value type must satisfy -------------------------------------- *)
Record ser_law {V} (SV : serializable V) (dom : V -> Prop) : Prop := {
  sl_round : forall v r, dom v -> sv_de SV (sv_ser SV v ++ r) = Ok (v, r);
  sl_len : forall v, dom v -> length (sv_ser SV v) = sv_bytes SV
}.

(* ---- Vec<T> ----------------------------------------------------------------------------- *)
Section Vec.
Context {T : Type} (ser : T -> list N) (de : list N -> res (T * list N)) (okT : T -> Prop).
Hypothesis de_ser : forall x r, okT x -> de (ser x ++ r) = Ok (x, r).

Lemma de_items_ser (l : list T) r :
  Forall okT l -> de_items de (length l) (flat_map ser l ++ r) = Ok (l, r).
Proof.
  induction l as [|x l IH]; intros H; cbn [length flat_map de_items app].
  - reflexivity.
  - inversion H as [|? ? Hx Hl]; subst. rewrite <- app_assoc, de_ser by exact Hx. cbn [bind].
    rewrite IH by exact Hl. reflexivity.
Qed.

Lemma de_vec_ser (l : list T) r :
  Forall okT l -> u32 (N.of_nat (length l)) -> de_vec de (ser_vec ser l ++ r) = Ok (l, r).
Proof.
  intros H Hl. unfold de_vec, ser_vec. rewrite <- app_assoc, de_u32_ser by exact Hl. cbn [bind].
  rewrite Nat2N.id. apply de_items_ser. exact H.
Qed.
End Vec.

(* ---- records ---------------------------------------------------------------------------- *)
Definition bstate_ok (s : bstate) : Prop := u32 (b_base s) /\ u32 (b_fail s) /\ u32 (b_opos_ch s).
Definition cstate_ok (s : cstate) : Prop :=
  u32 (c_base s) /\ u32 (c_check s) /\ u32 (c_fail s) /\ u32 (c_outpos s).

Lemma de_bstate_ser s r : bstate_ok s -> de_bstate (ser_bstate s ++ r) = Ok (s, r).
Proof.
  intros (H1 & H2 & H3). unfold de_bstate, ser_bstate, ser_onz, de_onz.
  rewrite <- !app_assoc, de_u32_ser by exact H1. cbn [bind].
  rewrite de_u32_ser by exact H2. cbn [bind].
  rewrite de_u32_ser by exact H3. cbn [bind]. destruct s; reflexivity.
Qed.

Lemma de_cstate_ser s r : cstate_ok s -> de_cstate (ser_cstate s ++ r) = Ok (s, r).
Proof.
  intros (H1 & H2 & H3 & H4). unfold de_cstate, ser_cstate, ser_onz, de_onz.
  rewrite <- !app_assoc, de_u32_ser by exact H1. cbn [bind].
  rewrite de_u32_ser by exact H2. cbn [bind].
  rewrite de_u32_ser by exact H3. cbn [bind].
  rewrite de_u32_ser by exact H4. cbn [bind]. destruct s; reflexivity.
Qed.

Section Auto.
Context {V : Type} (SV : serializable V) (dom : V -> Prop).
Hypothesis LAW : ser_law SV dom.

Definition output_ok (o : output V) : Prop := dom (o_value o) /\ u32 (o_length o) /\ u32 (o_parent o).

Lemma de_output_ser o r : output_ok o -> de_output V SV (ser_output V SV o ++ r) = Ok (o, r).
Proof.
  intros (H1 & H2 & H3). unfold de_output, ser_output, ser_onz, de_onz.
  rewrite <- !app_assoc, (sl_round _ _ LAW) by exact H1. cbn [bind].
  rewrite de_u32_ser by exact H2. cbn [bind].
  rewrite de_u32_ser by exact H3. cbn [bind]. destruct o; reflexivity.
Qed.

(* every stored field fits its Rust integer type *)
Definition bw_ranges (A : bw_automaton V) : Prop :=
  Forall bstate_ok (bw_states A) /\ Forall output_ok (bw_outputs A)
  /\ u32 (N.of_nat (length (bw_states A))) /\ u32 (N.of_nat (length (bw_outputs A)))
  /\ u32 (bw_num_states A).

Theorem bw_roundtrip_lemma (A : bw_automaton V) (r : list N) :
  bw_ranges A -> bw_deserialize V SV (bw_serialize V SV A ++ r) = Ok (A, r).
Proof.
  intros (Hs & Ho & Hls & Hlo & Hn). unfold bw_deserialize, bw_serialize.
  rewrite <- !app_assoc.
  rewrite (de_vec_ser ser_bstate de_bstate bstate_ok de_bstate_ser) by assumption. cbn [bind].
  rewrite (de_vec_ser (ser_output V SV) (de_output V SV) output_ok de_output_ser) by assumption.
  cbn [bind]. cbn [app]. rewrite de_kind_ser. cbn [bind].
  rewrite de_u32_ser by exact Hn. cbn [bind]. destruct A; reflexivity.
Qed.

Definition mapper_ok (m : mapper) : Prop :=
  Forall u32 (mp_table m) /\ u32 (N.of_nat (length (mp_table m))) /\ u32 (mp_alpha m).

Lemma de_mapper_ser m r : mapper_ok m -> de_mapper (ser_mapper m ++ r) = Ok (m, r).
Proof.
  intros (H1 & H2 & H3). unfold de_mapper, ser_mapper. rewrite <- app_assoc.
  rewrite (de_vec_ser ser_u32 de_u32 u32 de_u32_ser) by assumption. cbn [bind].
  rewrite de_u32_ser by exact H3. cbn [bind]. destruct m; reflexivity.
Qed.

Definition cw_ranges (A : cw_automaton V) : Prop :=
  Forall cstate_ok (cw_states A) /\ mapper_ok (cw_mapper A) /\ Forall output_ok (cw_outputs A)
  /\ u32 (N.of_nat (length (cw_states A))) /\ u32 (N.of_nat (length (cw_outputs A)))
  /\ u32 (cw_num_states A).

Theorem cw_roundtrip_lemma (A : cw_automaton V) (r : list N) :
  cw_ranges A -> cw_deserialize V SV (cw_serialize V SV A ++ r) = Ok (A, r).
Proof.
  intros (Hs & Hm & Ho & Hls & Hlo & Hn). unfold cw_deserialize, cw_serialize.
  rewrite <- !app_assoc.
  rewrite (de_vec_ser ser_cstate de_cstate cstate_ok de_cstate_ser) by assumption. cbn [bind].
  rewrite de_mapper_ser by exact Hm. cbn [bind].
  rewrite (de_vec_ser (ser_output V SV) (de_output V SV) output_ok de_output_ser) by assumption.
  cbn [bind]. cbn [app]. rewrite de_kind_ser. cbn [bind].
  rewrite de_u32_ser by exact Hn. cbn [bind]. destruct A; reflexivity.
Qed.

(* serialising the restored automaton reproduces the same bytes; trailing bytes untouched;
   exactly the image is consumed *)
Corollary bw_reserialize (A B : bw_automaton V) r r' :
  bw_ranges A -> bw_deserialize V SV (bw_serialize V SV A ++ r) = Ok (B, r') ->
  B = A /\ r' = r /\ bw_serialize V SV B = bw_serialize V SV A.
Proof.
  intros H E. rewrite bw_roundtrip_lemma in E by exact H. inversion E; subst. auto.
Qed.
Corollary cw_reserialize (A B : cw_automaton V) r r' :
  cw_ranges A -> cw_deserialize V SV (cw_serialize V SV A ++ r) = Ok (B, r') ->
  B = A /\ r' = r /\ cw_serialize V SV B = cw_serialize V SV A.
Proof.
  intros H E. rewrite cw_roundtrip_lemma in E by exact H. inversion E; subst. auto.
Qed.

(* the capacity formula of serialize() is the exact image length *)
Lemma flat_map_length_const {T} (f : T -> list N) (k : nat) (l : list T) :
  Forall (fun x => length (f x) = k) l -> length (flat_map f l) = (k * length l)%nat.
Proof.
  induction l as [|x l IH]; intros H; cbn [flat_map length]; [lia|].
  inversion H; subst. rewrite app_length, IH by assumption. lia.
Qed.

Lemma bw_serialize_length (A : bw_automaton V) :
  Forall (fun o => dom (o_value o)) (bw_outputs A) ->
  length (bw_serialize V SV A) = bw_serialized_bytes V SV A.
Proof.
  intros Hd. unfold bw_serialize, bw_serialized_bytes, ser_vec.
  rewrite !app_length, !ser_u32_length.
  rewrite (flat_map_length_const ser_bstate 12).
  2:{ apply Forall_forall; intros s _. unfold ser_bstate, ser_onz. rewrite !app_length, !ser_u32_length. reflexivity. }
  rewrite (flat_map_length_const (ser_output V SV) (sv_bytes SV + 8)).
  2:{ eapply Forall_impl; [|exact Hd]. intros o Ho. unfold ser_output, ser_onz.
      rewrite !app_length, !ser_u32_length, (sl_len _ _ LAW) by exact Ho. lia. }
  cbn [length]. lia.
Qed.
End Auto.

(* ---- the boolean range check is sound ----------------------------------------------------- *)
Lemma u32b_sound x : u32b x = true -> u32 x.
Proof. unfold u32b, u32. intros H. apply N.ltb_lt in H. exact H. Qed.

Section RangesSound.
Context {V : Type} (dom : V -> Prop) (domb : V -> bool).
Hypothesis domb_sound : forall v, domb v = true -> dom v.

Lemma bw_ranges_b_sound A : bw_ranges_b V domb A = true -> bw_ranges dom A.
Proof.
  unfold bw_ranges_b, bw_ranges. rewrite !andb_true_iff, !forallb_forall.
  intros ((((Hs & Ho) & H1) & H2) & H3). repeat split; try (apply u32b_sound; assumption).
  - apply Forall_forall. intros s Hin. specialize (Hs s Hin). unfold bstate_okb in Hs.
    rewrite !andb_true_iff in Hs. destruct Hs as ((A1 & A2) & A3).
    repeat split; apply u32b_sound; assumption.
  - apply Forall_forall. intros o Hin. specialize (Ho o Hin). unfold output_okb in Ho.
    rewrite !andb_true_iff in Ho. destruct Ho as ((A1 & A2) & A3).
    repeat split; try (apply u32b_sound; assumption). apply domb_sound; assumption.
Qed.

Lemma cw_ranges_b_sound A : cw_ranges_b V domb A = true -> cw_ranges dom A.
Proof.
  unfold cw_ranges_b, cw_ranges, mapper_okb, mapper_ok. rewrite !andb_true_iff, !forallb_forall.
  intros (((((Hs & ((Hm1 & Hm2) & Hm3)) & Ho) & H1) & H2) & H3).
  repeat split; try (apply u32b_sound; assumption).
  - apply Forall_forall. intros s Hin. specialize (Hs s Hin). unfold cstate_okb in Hs.
    rewrite !andb_true_iff in Hs. destruct Hs as (((A1 & A2) & A3) & A4).
    repeat split; apply u32b_sound; assumption.
  - apply Forall_forall. intros x Hin. apply u32b_sound, Hm1, Hin.
  - apply Forall_forall. intros o Hin. specialize (Ho o Hin). unfold output_okb in Ho.
    rewrite !andb_true_iff in Ho. destruct Ho as ((A1 & A2) & A3).
    repeat split; try (apply u32b_sound; assumption). apply domb_sound; assumption.
Qed.
End RangesSound.

(* ---- the built-in value types satisfy the law -------------------------------------------- *)
Local Open Scope Z_scope.

Lemma pow256_N n : Z.of_N (pow256N n) = pow256 n.
Proof. unfold pow256N, pow256. rewrite N2Z.inj_pow, nat_N_Z. reflexivity. Qed.
Lemma pow256_pos n : 0 < pow256 n.
Proof. unfold pow256. apply Z.pow_pos_nonneg; lia. Qed.
Lemma pow256_even n : (0 < n)%nat -> pow256 n = 2 * (pow256 n / 2).
Proof.
  intros H. destruct n as [|n]; [lia|]. unfold pow256. rewrite Nat2Z.inj_succ, Z.pow_succ_r by lia.
  lia.
Qed.

Theorem vt_law (t : vtype) :
  match t with VSigned n => (0 < n)%nat | _ => True end ->
  ser_law (vt_serializable t) (fun z => vt_in_range t z = true).
Proof.
  intros Hn. split.
  - intros z r Hz. destruct t as [n|n|]; cbn [vt_serializable sv_de sv_ser vt_de vt_ser] in *.
    + cbn [vt_in_range] in Hz.
      rewrite take_n_app by apply to_le_length. cbn [bind].
      rewrite of_le_to_le.
      * rewrite Z2N.id by lia. reflexivity.
      * apply N2Z.inj_lt. rewrite pow256_N, Z2N.id by lia. lia.
    + cbn [vt_in_range] in Hz.
      pose proof (pow256_pos n) as Hp. pose proof (pow256_even n Hn) as He.
      rewrite take_n_app by apply to_le_length. cbn [bind].
      rewrite of_le_to_le.
      2:{ apply N2Z.inj_lt. rewrite pow256_N, Z2N.id by (apply Z.mod_pos_bound; lia).
          apply Z.mod_pos_bound; lia. }
      rewrite Z2N.id by (apply Z.mod_pos_bound; lia).
      set (h := pow256 n / 2) in *.
      assert (Hz' : - h <= z < h) by lia.
      destruct (Z.ltb_spec (z mod pow256 n) h) as [Hlt|Hge].
      * assert (z mod pow256 n = z); [|congruence].
        destruct (Z_lt_le_dec z 0) as [Hneg|Hpos].
        -- exfalso. assert (z mod pow256 n = z + pow256 n).
           { symmetry. apply Z.mod_unique_pos with (q := -1); lia. } lia.
        -- apply Z.mod_small. lia.
      * assert (z mod pow256 n = z + pow256 n).
        { destruct (Z_lt_le_dec z 0) as [Hneg|Hpos].
          - symmetry. apply Z.mod_unique_pos with (q := -1); lia.
          - exfalso. rewrite Z.mod_small in Hge by lia. lia. }
        f_equal. f_equal. lia.
    + cbn [vt_in_range] in Hz. cbn [app]. f_equal. f_equal. lia.
  - intros z Hz. destruct t as [n|n|]; cbn; try apply to_le_length; reflexivity.
Qed.
