(* DaRefine.v — bytewise/builder.rs build_double_array, for EVERY trie: the double array it lays out
   is an isomorphic copy of the NFA.  Every NFA state gets its own slot (the state-id map is
   injective), a slot answers a label with a child exactly when the NFA state has that edge (no
   spurious child: bases are unique, and every vacant slot of every block received a CHECK value
   that no used base can produce), and fail links / output positions are copied through the map. *)
From DV Require Import Model.Base Model.Nfa Model.Helper Model.BwBuild Model.BwSearch Model.Spec Model.Cert
     Proofs.GenAC Proofs.TrieInv Proofs.BwSafe Proofs.BuildSafe Proofs.HelperFlags Proofs.Utf8Props Proofs.NfaFails.
From Coq Require Import ZifyN ZifyNat ZifyBool.
Local Open Scope N_scope.

Ltac bstep H :=
  match type of H with
  | bind ?e _ = Ok _ => let E := fresh "E" in destruct e eqn:E; cbn [bind] in H; try discriminate
  end.

(* ---- blocks and XOR ------------------------------------------------------------------------- *)
Lemma xor_div b c : c < 256 -> N.lxor b c / 256 = b / 256.
Proof.
  intros Hc. change 256 with (2 ^ 8). rewrite <- !N.shiftr_div_pow2, N.shiftr_lxor, (N.shiftr_div_pow2 c).
  rewrite (N.div_small c) by exact Hc. apply N.lxor_0_r.
Qed.

Lemma lxor_cancel_r b c : N.lxor (N.lxor b c) c = b.
Proof. rewrite N.lxor_assoc, N.lxor_nilpotent, N.lxor_0_r. reflexivity. Qed.

Lemma lxor_inj_r b c d : N.lxor b c = N.lxor b d -> c = d.
Proof.
  intros H. apply (f_equal (N.lxor b)) in H. rewrite <- !N.lxor_assoc, N.lxor_nilpotent, !N.lxor_0_l in H. exact H.
Qed.

Lemma lxor_lt_256 x y : x / 256 = y / 256 -> N.lxor x y < 256.
Proof.
  intros H. change 256 with (2 ^ 8) in *. rewrite <- !N.shiftr_div_pow2 in H.
  assert (N.shiftr (N.lxor x y) 8 = 0) as Hz by (rewrite N.shiftr_lxor, H; apply N.lxor_nilpotent).
  rewrite N.shiftr_div_pow2 in Hz. apply N.div_small_iff in Hz; [exact Hz|discriminate].
Qed.

(* the packed word keeps its check byte when the output position is set, and vice versa *)
Lemma pk_b_lor a c : c < 256 -> pk_b (N.lor (N.shiftl a 8) c) = c.
Proof.
  intros Hc. unfold pk_b. change 255 with (N.ones 8). rewrite N.land_ones.
  rewrite (lor_shiftl_add a c 8) by exact Hc. change (2 ^ 8) with 256.
  rewrite N.add_comm, N.mod_add by discriminate. apply N.mod_small. exact Hc.
Qed.

Lemma pk_b_set_b x c : c < 256 -> pk_b (pk_set_b x c) = c.
Proof. intros Hc. unfold pk_set_b. apply pk_b_lor. exact Hc. Qed.
Lemma pk_b_set_a x a : pk_b (pk_set_a x a) = pk_b x.
Proof. unfold pk_set_a. apply pk_b_lor. apply pk_b_lt. Qed.

(* ---- reading the growing array ------------------------------------------------------------------ *)
Definition slot (a : barr) (i : N) : bstate :=
  match nget i (ba_map a) with Some s => s | None => bstate_default end.
Definition bs (a : barr) (i : N) : N := b_base (slot a i).
Definition ck (a : barr) (i : N) : N := b_check (slot a i).

Lemma ba_upd_slot a i f a' : ba_upd a i f = Ok a' ->
  i < ba_len a /\ ba_len a' = ba_len a /\ forall j, slot a' j = if j =? i then f (slot a i) else slot a j.
Proof.
  unfold ba_upd, ba_get. destruct (i <? ba_len a) eqn:E; [|discriminate]. cbn [bind]. intros H. inversion H; subst a'; clear H.
  split; [lia|]. split; [reflexivity|]. intros j. unfold slot. cbn [ba_map]. destruct (j =? i) eqn:Ej.
  - apply N.eqb_eq in Ej. subst j. rewrite ngss. reflexivity.
  - apply N.eqb_neq in Ej. rewrite ngso by exact Ej. reflexivity.
Qed.

(* ---- find_base ---------------------------------------------------------------------------------- *)
Lemma all_indices_free_inv h base : forall labels, all_indices_free h base labels = Ok true ->
  forall c, In c labels -> act h (N.lxor base c) /\ ui h (N.lxor base c) = false.
Proof.
  induction labels as [|c0 r IH]; intros H c Hin; [destruct Hin|]. cbn [all_indices_free] in H. bstep H.
  destruct (is_used_index_inv _ _ _ E) as [A ->]. destruct (ui h (N.lxor base c0)) eqn:Eu; [discriminate|].
  destruct Hin as [<-|Hin]; [auto|exact (IH H c Hin)].
Qed.

Lemma find_base_loop_inv : forall fuel h cur l0 labels b, find_base_loop fuel h cur l0 labels = Ok (Some b) ->
  b <> 0 /\ act h b /\ ub h b = false /\ forall c, In c labels -> act h (N.lxor b c) /\ ui h (N.lxor b c) = false.
Proof.
  induction fuel as [|fuel IH]; intros h cur l0 labels b H; destruct cur as [idx|]; cbn [find_base_loop] in H; try discriminate.
  bstep H. bstep H. destruct a0 as [b'|]; [|exact (IH _ _ _ _ _ H)]. inversion H; subst b'; clear H.
  unfold check_valid_base in E0. bstep E0. destruct (is_used_base_inv _ _ _ E1) as [A ->].
  destruct (ub h (N.lxor idx l0)) eqn:Eb; [discriminate|]. bstep E0. destruct a0; [|discriminate].
  destruct (N.lxor idx l0 =? 0) eqn:Ez; [discriminate|]. inversion E0; subst b. apply N.eqb_neq in Ez.
  split; [exact Ez|]. split; [exact A|]. split; [exact Eb|]. exact (all_indices_free_inv _ _ _ E2).
Qed.

Lemma find_base_inv a h labels base : find_base a h labels = Ok base ->
  labels <> [] /\ base <> 0 /\
  ((act h base /\ ub h base = false /\ forall c, In c labels -> act h (N.lxor base c) /\ ui h (N.lxor base c) = false)
   \/ base = ba_len a).
Proof.
  unfold find_base. destruct labels as [|l0 r]; [discriminate|]. intros H. bstep H. split; [discriminate|]. destruct a0 as [b|].
  - inversion H; subst b. destruct (find_base_loop_inv _ _ _ _ _ _ E) as (A & B & C & D). split; [exact A|]. left. auto.
  - destruct (U32_MAX <? ba_len a); [discriminate|]. destruct (ba_len a =? 0) eqn:Ez; [discriminate|]. inversion H; subst base.
    apply N.eqb_neq in Ez. split; [exact Ez|]. right. reflexivity.
Qed.

(* ---- remove_invalid_checks ------------------------------------------------------------------------ *)
Definition rootdead (j : N) : bool := (j =? ROOT) || (j =? DEAD).

Lemma set_check_fields c s : c < 256 ->
  b_base (set_check c s) = b_base s /\ b_fail (set_check c s) = b_fail s /\ b_outpos (set_check c s) = b_outpos s
  /\ b_check (set_check c s) = c.
Proof.
  intros Hc. unfold set_check, b_outpos, b_check. cbn [b_base b_fail b_opos_ch].
  rewrite pk_a_set_b, pk_b_set_b by exact Hc. auto.
Qed.

Lemma ric_loop_spec h u : forall cs a a', (forall c, In c cs -> c < 256) -> NoDup cs -> ric_loop a h u cs = Ok a' ->
  ba_len a' = ba_len a /\
  (forall j, b_base (slot a' j) = b_base (slot a j) /\ b_fail (slot a' j) = b_fail (slot a j) /\ b_outpos (slot a' j) = b_outpos (slot a j)) /\
  (forall j, (forall c, In c cs -> j <> N.lxor u c) -> ck a' j = ck a j) /\
  (forall c, In c cs ->
     let j := N.lxor u c in
     if rootdead j then ck a' j = c
     else act h j /\ (if ui h j then ck a' j = ck a j else ck a' j = c)).
Proof.
  induction cs as [|c0 cs IH]; intros a a' Hlt Hnd H; cbn [ric_loop] in H.
  - inversion H; subst. repeat split; try reflexivity. intros c [].
  - apply NoDup_cons_iff in Hnd as [Hnot Hnd]. pose proof (Hlt c0 (or_introl eq_refl)) as Hc0.
    assert (Hlt' : forall c, In c cs -> c < 256) by (intros c Hc; apply Hlt; right; exact Hc).
    bstep H. fold (rootdead (N.lxor u c0)) in E.
    assert (Hstep : exists a1, ric_loop a1 h u cs = Ok a' /\ ba_len a1 = ba_len a
              /\ (forall j, b_base (slot a1 j) = b_base (slot a j) /\ b_fail (slot a1 j) = b_fail (slot a j) /\ b_outpos (slot a1 j) = b_outpos (slot a j))
              /\ (forall j, j <> N.lxor u c0 -> ck a1 j = ck a j)
              /\ (if a0 then ck a1 (N.lxor u c0) = c0 else ck a1 (N.lxor u c0) = ck a (N.lxor u c0))).
    { destruct a0.
      - bstep H. exists a0. destruct (ba_upd_slot _ _ _ _ E0) as (_ & L & S). destruct (set_check_fields c0 (slot a (N.lxor u c0)) Hc0) as (F1 & F2 & F3 & F4).
        split; [exact H|]. split; [exact L|]. split; [|split].
        + intros j. rewrite S. destruct (j =? N.lxor u c0) eqn:Ej; [|auto]. apply N.eqb_eq in Ej. subst j. auto.
        + intros j Hj. unfold ck. rewrite S. assert ((j =? N.lxor u c0) = false) as -> by (apply N.eqb_neq; exact Hj). reflexivity.
        + unfold ck. rewrite S, N.eqb_refl. exact F4.
      - exists a. split; [exact H|]. split; [reflexivity|]. split; [auto|]. split; [auto|reflexivity]. }
    destruct Hstep as (a1 & H1 & L1 & S1 & K1 & D1). destruct (IH a1 a' Hlt' Hnd H1) as (L2 & S2 & K2 & D2).
    split; [congruence|]. split; [|split].
    + intros j. destruct (S2 j) as (A1 & A2 & A3). destruct (S1 j) as (B1 & B2 & B3). repeat split; congruence.
    + intros j Hj. rewrite (K2 j (fun c Hc => Hj c (or_intror Hc))). apply K1. apply Hj. left. reflexivity.
    + intros c [<-|Hin].
      * cbn zeta. assert (Hk : ck a' (N.lxor u c0) = ck a1 (N.lxor u c0)).
        { apply K2. intros c Hc E'. apply lxor_inj_r in E'. subst c. contradiction. }
        rewrite Hk. destruct (rootdead (N.lxor u c0)) eqn:Er.
        -- inversion E; subst a0. exact D1.
        -- bstep E. destruct (is_used_index_inv _ _ _ E0) as [A ->]. inversion E; subst a0. split; [exact A|].
           destruct (ui h (N.lxor u c0)); cbn [negb] in D1; exact D1.
      * pose proof (D2 c Hin) as D. cbn zeta in *. assert (Hne : N.lxor u c <> N.lxor u c0).
        { intros E'. apply lxor_inj_r in E'. subst c. contradiction. }
        rewrite (K1 _ Hne) in D. exact D.
Qed.

Lemma nseq_nodup' : forall n a, NoDup (nseq a n).
Proof.
  induction n as [|n IH]; intros a; cbn [nseq]; constructor; [|apply IH]. intros H. apply nseq_in' in H. lia.
Qed.

Lemma find_unused_base_inv h : forall cands r, find_unused_base h cands = Ok r ->
  match r with
  | Some u => In u cands /\ act h u /\ ub h u = false
  | None => forall b, In b cands -> act h b /\ ub h b = true
  end.
Proof.
  induction cands as [|b cands IH]; intros r H; cbn [find_unused_base] in H.
  - inversion H; subst. intros b [].
  - bstep H. destruct (is_used_base_inv _ _ _ E) as [A ->]. destruct (ub h b) eqn:Eb.
    + specialize (IH r H). destruct r as [u|].
      * destruct IH as (I1 & I2 & I3). split; [right; exact I1|auto].
      * intros b' [<-|Hb']; [auto|exact (IH b' Hb')].
    + inversion H; subst r. split; [left; reflexivity|auto].
Qed.

(* every index of the block is base XOR label for exactly one label *)
Lemma block_xor u j : u / 256 = j / 256 -> exists c, c < 256 /\ j = N.lxor u c.
Proof.
  intros H. exists (N.lxor u j). split; [apply lxor_lt_256; exact H|].
  rewrite <- N.lxor_assoc, N.lxor_nilpotent, N.lxor_0_l. reflexivity.
Qed.

Lemma remove_invalid_checks_spec a h B a' : HW h -> remove_invalid_checks a h B = Ok a' ->
  ba_len a' = ba_len a /\
  (forall j, b_base (slot a' j) = b_base (slot a j) /\ b_fail (slot a' j) = b_fail (slot a j) /\ b_outpos (slot a' j) = b_outpos (slot a j)) /\
  (forall j, j / 256 <> B -> ck a' j = ck a j) /\
  ((exists u, u / 256 = B /\ act h u /\ ub h u = false /\
      forall j, j / 256 = B ->
        if rootdead j then ck a' j = N.lxor u j
        else act h j /\ (if ui h j then ck a' j = ck a j else ck a' j = N.lxor u j))
   \/ (a' = a /\ forall b, b / 256 = B -> act h b /\ ub h b = true)).
Proof.
  intros W H. unfold remove_invalid_checks, unused_base_in_block in H. bstep H. destruct W as (Wb & _).
  apply find_unused_base_inv in E. rewrite Wb in E. change (N.to_nat 256) with 256%nat in E.
  assert (Hblk : forall x, In x (nseq (B * 256) 256) <-> x / 256 = B).
  { intros x. rewrite nseq_in'. change (N.of_nat 256) with 256. split.
    - intros [L U]. symmetry. apply N.div_unique with (x - B * 256); lia.
    - intros <-. pose proof (N.div_mod x 256 ltac:(discriminate)). pose proof (N.mod_lt x 256 ltac:(discriminate)). lia. }
  destruct a0 as [u|].
  - destruct E as (Hu & Au & Bu). apply Hblk in Hu.
    assert (Hlt : forall c, In c (nseq 0 256) -> c < 256) by (intros c Hc; apply nseq_in' in Hc; change (N.of_nat 256) with 256 in Hc; lia).
    destruct (ric_loop_spec h u (nseq 0 256) a a' Hlt (nseq_nodup' _ _) H) as (L & S & K & D).
    split; [exact L|]. split; [exact S|]. split.
    + intros j Hj. apply K. intros c Hc ->. apply Hj. rewrite xor_div by (apply Hlt; exact Hc). exact Hu.
    + left. exists u. split; [exact Hu|]. split; [exact Au|]. split; [exact Bu|].
      intros j Hj. destruct (block_xor u j ltac:(congruence)) as [c [Hc Ej]].
      assert (Hin : In c (nseq 0 256)) by (apply nseq_in'; change (N.of_nat 256) with 256; lia).
      pose proof (D c Hin) as Dc. cbn zeta in Dc. rewrite <- Ej in Dc.
      assert (Ec : c = N.lxor u j) by (rewrite Ej, <- N.lxor_assoc, N.lxor_nilpotent, N.lxor_0_l; reflexivity).
      rewrite <- Ec. exact Dc.
  - inversion H; subst a'. split; [reflexivity|]. split; [auto|]. split; [auto|]. right. split; [reflexivity|].
    intros b Hb. apply E. apply Hblk. exact Hb.
Qed.

Lemma nodup_app_elim {X} (a b : list X) : NoDup (a ++ b) -> NoDup a /\ NoDup b /\ (forall x, In x a -> In x b -> False).
Proof.
  induction a as [|x a IH]; cbn [app]; intros H; [repeat split; [constructor|exact H|intros x []]|].
  apply NoDup_cons_iff in H as [Hx H]. destruct (IH H) as (A & B & C). split; [|split; [exact B|]].
  - constructor; [|exact A]. intros Hin. apply Hx. apply in_app_iff. left. exact Hin.
  - intros y [<-|Hy] Hb; [apply Hx; apply in_app_iff; right; exact Hb|exact (C y Hy Hb)].
Qed.

(* ---- a pigeon-hole principle --------------------------------------------------------------------- *)
Lemma pigeon (R : N -> N -> Prop) : forall l : list N, NoDup l ->
  (forall b, In b l -> exists j, In j l /\ R b j) ->
  (forall b1 b2 j, R b1 j -> R b2 j -> b1 = b2) ->
  forall j, In j l -> exists b, In b l /\ R b j.
Proof.
  intros l Hnd Htot Hinj.
  assert (Himg : forall l0, incl l0 l -> NoDup l0 -> exists l', length l' = length l0 /\ NoDup l' /\ incl l' l
                              /\ forall j, In j l' -> exists b, In b l0 /\ R b j).
  { induction l0 as [|b l0 IH]; intros Hi Hn.
    - exists []. repeat split; [constructor|intros x []|intros j []].
    - apply NoDup_cons_iff in Hn as [Hb Hn]. destruct (IH (fun x Hx => Hi x (or_intror Hx)) Hn) as (l' & L & N' & I' & P').
      destruct (Htot b (Hi b (or_introl eq_refl))) as (j & Hj & Rj). exists (j :: l'). split; [cbn; lia|]. split; [|split].
      + constructor; [|exact N']. intros Hin. destruct (P' j Hin) as (b' & Hb' & Rb'). rewrite (Hinj b b' j Rj Rb') in Hb. contradiction.
      + intros x [<-|Hx]; [exact Hj|exact (I' x Hx)].
      + intros x [<-|Hx]; [exists b; split; [left; reflexivity|exact Rj]|].
        destruct (P' x Hx) as (b' & Hb' & Rb'). exists b'. split; [right; exact Hb'|exact Rb']. }
  destruct (Himg l (fun x Hx => Hx) Hnd) as (l' & L & N' & I' & P').
  assert (Hincl : incl l l') by (apply (NoDup_length_incl N'); [lia|exact I']).
  intros j Hj. apply P'. apply Hincl. exact Hj.
Qed.

(* ================================================================================================= *)
Section Refine.
Variable V : Type.
Variable n : nfa V.

(* what the layout needs to know about the NFA: a tree below the root *)
Definition edges_of (s : N) : list (N * N) :=
  match nget s (n_states n) with Some st => n_edges st | None => [] end.
Definition node (t : N) : Prop := exists w, twalk V n ROOT w = Some t.

Hypothesis wf_n : forall i, i < n_nstates n -> exists st, nget i (n_states n) = Some st.
Hypothesis edges_child : forall s c t, node s -> (In (c, t) (edges_of s) <-> tchild V n s c = Some t).
Hypothesis labels_byte : forall s c t, In (c, t) (edges_of s) -> c < 256.
Hypothesis child_node : forall s c t, node s -> tchild V n s c = Some t ->
  node t /\ t <> ROOT /\ t <> DEAD /\ t < n_nstates n.
Hypothesis uniq_parent : forall p1 p2 c1 c2 t, node p1 -> node p2 ->
  tchild V n p1 c1 = Some t -> tchild V n p2 c2 = Some t -> p1 = p2 /\ c1 = c2.
Hypothesis nonroot_parent : forall t, node t -> t <> ROOT -> exists p c, node p /\ tchild V n p c = Some t.
Hypothesis node_lt : forall t, node t -> t < n_nstates n.
Hypothesis edges_nodup : forall s, node s -> NoDup (map fst (edges_of s)).

Definition occ (idmap : nmap N) (j : N) : Prop := exists s, s <> ROOT /\ nget s idmap = Some j.
Definition Sealed (a : barr) (idmap : nmap N) (proc : list N) (B : N) : Prop :=
  forall j, j / 256 = B -> ~ occ idmap j ->
  forall s i, In s proc -> nget s idmap = Some i -> bs a i <> 0 -> N.lxor (bs a i) (ck a j) <> j.

Record DI (a : barr) (h : helper) (idmap : nmap N) (stack proc : list N) : Prop := {
  di_hw : HW h;
  di_cp : ba_len a = h_nblocks h * 256;
  di_nodup : NoDup (proc ++ stack);
  di_node : forall t, In t (proc ++ stack) -> node t;
  di_par : forall t, In t (proc ++ stack) -> t <> ROOT -> exists p c, In p proc /\ tchild V n p c = Some t;
  di_chi : forall s c t, In s proc -> tchild V n s c = Some t -> In t (proc ++ stack);
  di_im : forall s, (exists i, nget s idmap = Some i) <-> In s (proc ++ stack);
  di_im_root : nget ROOT idmap = Some ROOT;
  di_im_inj : forall s1 s2 i, nget s1 idmap = Some i -> nget s2 idmap = Some i -> s1 = s2;
  di_im_rng : forall s i, nget s idmap = Some i -> i < ba_len a /\ (s <> ROOT -> 2 <= i);
  di_ui : forall i, act h i -> (ui h i = true <-> i = 0 \/ i = 1 \/ exists s, nget s idmap = Some i);
  di_ub : forall b, act h b -> (ub h b = true <-> exists s i, In s proc /\ nget s idmap = Some i /\ bs a i = b /\ b <> 0);
  di_arr : forall s i, In s proc -> nget s idmap = Some i ->
             (edges_of s = [] -> bs a i = 0) /\
             (edges_of s <> [] -> bs a i <> 0 /\ bs a i < ba_len a /\
                forall c ch, In (c, ch) (edges_of s) ->
                  nget ch idmap = Some (N.lxor (bs a i) c) /\ ck a (N.lxor (bs a i) c) = c);
  di_arr_stack : forall s i, In s stack -> nget s idmap = Some i -> bs a i = 0;
  di_sealed : forall B, B < active_block_start h -> Sealed a idmap proc B;
  di_vac : forall j, (forall s, nget s idmap <> Some j) -> bs a j = 0;
  di_binj : forall s1 s2 i1 i2, In s1 proc -> In s2 proc -> nget s1 idmap = Some i1 -> nget s2 idmap = Some i2 ->
              bs a i1 = bs a i2 -> bs a i1 <> 0 -> s1 = s2
}.

Lemma ck_lt a j : ck a j < 256.
Proof. unfold ck, b_check. apply pk_b_lt. Qed.

Lemma act_block h i : HW h -> act h i -> active_block_start h <= i / 256 < h_nblocks h.
Proof.
  intros (B & _) [L U]. unfold active_index_start, active_index_end in *. rewrite B in *. split.
  - apply N.div_le_lower_bound; lia.
  - apply N.div_lt_upper_bound; lia.
Qed.
Lemma block_act h i : HW h -> active_block_start h <= i / 256 < h_nblocks h -> act h i.
Proof.
  intros (B & _) [L U]. unfold act, active_index_start, active_index_end. rewrite B.
  pose proof (N.div_mod i 256 ltac:(discriminate)). pose proof (N.mod_lt i 256 ltac:(discriminate)). split; nia.
Qed.

(* a state popped from the stack that has no edges *)
Lemma DI_leaf a h idmap sid stack proc : DI a h idmap (sid :: stack) proc -> edges_of sid = [] ->
  DI a h idmap stack (sid :: proc).
Proof.
  intros D He.
  assert (Hperm : forall t, In t ((sid :: proc) ++ stack) <-> In t (proc ++ sid :: stack)).
  { intros t. cbn [app In]. rewrite !in_app_iff. cbn [In]. tauto. }
  assert (Hsid : node sid) by (apply (di_node _ _ _ _ _ D); apply in_app_iff; right; left; reflexivity).
  constructor; try (destruct D; assumption).
  - pose proof (di_nodup _ _ _ _ _ D) as H. apply NoDup_remove in H as [H1 H2]. cbn [app]. constructor; assumption.
  - intros t Ht. apply (di_node _ _ _ _ _ D). apply Hperm. exact Ht.
  - intros t Ht Hr. destruct (di_par _ _ _ _ _ D t (proj1 (Hperm t) Ht) Hr) as (p & c & Hp & Hc). exists p, c. split; [right; exact Hp|exact Hc].
  - intros s c t [<-|Hs] Hc.
    + exfalso. apply (edges_child sid c t Hsid) in Hc. rewrite He in Hc. destruct Hc.
    + apply Hperm. exact (di_chi _ _ _ _ _ D s c t Hs Hc).
  - intros s. rewrite (di_im _ _ _ _ _ D s). symmetry. apply Hperm.
  - intros b Ab. rewrite (di_ub _ _ _ _ _ D b Ab). split.
    + intros (s & i & Hs & Hi & Hb & Hz). exists s, i. split; [right; exact Hs|auto].
    + intros (s & i & [<-|Hs] & Hi & Hb & Hz); [|exists s, i; auto].
      exfalso. apply Hz. rewrite <- Hb. apply (di_arr_stack _ _ _ _ _ D sid i); [left; reflexivity|exact Hi].
  - intros s i [<-|Hs] Hi; [|exact (di_arr _ _ _ _ _ D s i Hs Hi)]. split; [|congruence].
    intros _. apply (di_arr_stack _ _ _ _ _ D sid i); [left; reflexivity|exact Hi].
  - intros s i Hs Hi. apply (di_arr_stack _ _ _ _ _ D s i); [right; exact Hs|exact Hi].
  - intros B HB j Hj Ho s i [<-|Hs] Hi Hb; [|exact (di_sealed _ _ _ _ _ D B HB j Hj Ho s i Hs Hi Hb)].
    exfalso. apply Hb. apply (di_arr_stack _ _ _ _ _ D sid i); [left; reflexivity|exact Hi].
  - intros s1 s2 i1 i2 H1 H2 I1 I2 Hb Hz.
    assert (Hn : forall s i, s = sid -> nget s idmap = Some i -> bs a i = 0).
    { intros s i -> Hi. apply (di_arr_stack _ _ _ _ _ D sid i); [left; reflexivity|exact Hi]. }
    destruct H1 as [<-|H1]; [exfalso; apply Hz; exact (Hn _ _ eq_refl I1)|].
    destruct H2 as [<-|H2]; [exfalso; apply Hz; rewrite Hb; exact (Hn _ _ eq_refl I2)|].
    exact (di_binj _ _ _ _ _ D s1 s2 i1 i2 H1 H2 I1 I2 Hb Hz).
Qed.

(* ---- extend_array: the closing block is sealed, a fresh block appears ------------------------- *)
Lemma in_block_nseq C x : In x (nseq (C * 256) 256) <-> x / 256 = C.
Proof.
  rewrite nseq_in'. change (N.of_nat 256) with 256. split.
  - intros [L U]. symmetry. apply N.div_unique with (x - C * 256); lia.
  - intros <-. pose proof (N.div_mod x 256 ltac:(discriminate)). pose proof (N.mod_lt x 256 ltac:(discriminate)). lia.
Qed.

Lemma full_block_occupied a h idmap stack proc C : DI a h idmap stack proc ->
  (forall b, b / 256 = C -> act h b /\ ub h b = true) -> forall j, j / 256 = C -> occ idmap j.
Proof.
  intros D Hfull.
  set (R := fun b j => exists s i c ch, In s proc /\ nget s idmap = Some i /\ bs a i = b /\ In (c, ch) (edges_of s) /\ nget ch idmap = Some j).
  assert (Hp : forall j, In j (nseq (C * 256) 256) -> exists b, In b (nseq (C * 256) 256) /\ R b j).
  { apply pigeon; [apply nseq_nodup'| |].
    - intros b Hb. apply in_block_nseq in Hb. destruct (Hfull b Hb) as [Ab Ub].
      apply (di_ub _ _ _ _ _ D b Ab) in Ub as (s & i & Hs & Hi & Hbs & Hz).
      destruct (di_arr _ _ _ _ _ D s i Hs Hi) as [A0 A1].
      destruct (edges_of s) as [|[c ch] r] eqn:Ee; [exfalso; apply Hz; rewrite <- Hbs; apply A0; reflexivity|].
      destruct (A1 ltac:(discriminate)) as (_ & _ & A2). destruct (A2 c ch (or_introl eq_refl)) as [Hch _].
      exists (N.lxor (bs a i) c). split.
      + apply in_block_nseq. rewrite xor_div; [congruence|]. apply (labels_byte s c ch). rewrite Ee. left. reflexivity.
      + exists s, i, c, ch. rewrite Ee. repeat split; auto. left. reflexivity.
    - intros b1 b2 j (s1 & i1 & c1 & ch1 & P1 & I1 & B1 & E1 & J1) (s2 & i2 & c2 & ch2 & P2 & I2 & B2 & E2 & J2).
      assert (ch1 = ch2) by exact (di_im_inj _ _ _ _ _ D ch1 ch2 j J1 J2). subst ch2.
      assert (N1 : node s1) by (apply (di_node _ _ _ _ _ D); apply in_app_iff; left; exact P1).
      assert (N2 : node s2) by (apply (di_node _ _ _ _ _ D); apply in_app_iff; left; exact P2).
      apply (edges_child s1 c1 ch1 N1) in E1. apply (edges_child s2 c2 ch1 N2) in E2.
      destruct (uniq_parent s1 s2 c1 c2 ch1 N1 N2 E1 E2) as [-> _]. congruence. }
  intros j Hj. destruct (Hp j (proj2 (in_block_nseq C j) Hj)) as (b & _ & (s & i & c & ch & Ps & Is & Bs & Es & Js)).
  exists ch. split; [|exact Js].
  assert (Ns : node s) by (apply (di_node _ _ _ _ _ D); apply in_app_iff; left; exact Ps).
  apply (edges_child s c ch Ns) in Es. exact (proj1 (proj2 (child_node s c ch Ns Es))).
Qed.

Lemma DI_extend a h idmap stack proc a1 h1 : DI a h idmap stack proc -> extend_array a h = Ok (a1, h1) ->
  DI a1 h1 idmap stack proc /\ ba_len a1 = ba_len a + 256 /\ (forall j, bs a1 j = bs a j)
  /\ (forall j, ba_len a <= j < ba_len a + 256 -> act h1 j /\ ui h1 j = false /\ ub h1 j = false).
Proof.
  intros D H. pose proof (di_hw _ _ _ _ _ D) as W. pose proof (di_cp _ _ _ _ _ D) as Hcp.
  unfold extend_array in H. destruct (_ <? ba_len a); [discriminate|]. bstep H. bstep H. inversion H; subst a1 h1; clear H.
  destruct (push_block_fl h a2 W E0) as (W1 & Hnb & Hfl).
  destruct W as (Wb & Wc & Wd). assert (W : HW h) by (repeat split; assumption).
  destruct W1 as (Wb1 & Wc1 & Wd1). assert (W1 : HW a2) by (repeat split; assumption).
  assert (Hnfb : h_nfb a2 = h_nfb h) by (destruct (push_block_meta _ _ E0) as (_ & _ & X & _); exact X).
  assert (Hend : active_index_end h = ba_len a) by (unfold active_index_end; rewrite Wb; lia).
  assert (Hnb1 : 1 <= h_nblocks h).
  { destruct (di_im_rng _ _ _ _ _ D ROOT ROOT (di_im_root _ _ _ _ _ D)) as [Hr _]. unfold ROOT in Hr. lia. }
  (* what remove_invalid_checks did *)
  assert (Hric : ba_len a0 = ba_len a
     /\ (forall j, b_base (slot a0 j) = b_base (slot a j) /\ b_fail (slot a0 j) = b_fail (slot a j) /\ b_outpos (slot a0 j) = b_outpos (slot a j))
     /\ (forall j, (j / 256 <> active_block_start h \/ h_nblocks h < h_nfb h) -> ck a0 j = ck a j)
     /\ (forall j, occ idmap j -> ck a0 j = ck a j)
     /\ (h_nfb h <= h_nblocks h -> Sealed a0 idmap proc (active_block_start h))).
  { unfold dropped_block, num_elements in E. rewrite Wc, Wb in E. destruct (256 * h_nfb h <=? h_nblocks h * 256) eqn:Ed.
    - destruct (remove_invalid_checks_spec a h _ a0 W E) as (L & S & K & Cs).
      split; [exact L|]. split; [exact S|]. split; [intros j [Hj|Hj]; [exact (K j Hj)|lia]|].
      assert (Hocc_ui : forall j, j / 256 = active_block_start h -> ~ rootdead j = true -> act h j -> ui h j = true -> occ idmap j).
      { intros j Hj Hrd Aj Uj. apply (di_ui _ _ _ _ _ D j Aj) in Uj as [->|[->|[s Hs]]]; [exfalso; apply Hrd; reflexivity|exfalso; apply Hrd; reflexivity|].
        exists s. split; [|exact Hs]. intros ->. rewrite (di_im_root _ _ _ _ _ D) in Hs. inversion Hs; subst j. apply Hrd. reflexivity. }
      destruct Cs as [(u & Hu & Au & Uu & Cu)|[-> Cfull]].
      + split.
        * intros j (s & Hsr & Hs). destruct (N.eq_dec (j / 256) (active_block_start h)) as [Hj|Hj]; [|exact (K j Hj)].
          specialize (Cu j Hj). destruct (di_im_rng _ _ _ _ _ D s j Hs) as [_ Hr]. specialize (Hr Hsr).
          assert (rootdead j = false) as Er by (unfold rootdead, ROOT, DEAD; lia). rewrite Er in Cu. destruct Cu as [Aj Cu].
          assert (ui h j = true) as Eu by (apply (di_ui _ _ _ _ _ D j Aj); right; right; eauto). rewrite Eu in Cu. exact Cu.
        * intros _ j Hj Hno s i Hs Hi Hb Hx. specialize (Cu j Hj).
          assert (Hck : ck a0 j = N.lxor u j).
          { destruct (rootdead j) eqn:Er; [exact Cu|]. destruct Cu as [Aj Cu]. destruct (ui h j) eqn:Eu; [|exact Cu].
            exfalso. apply Hno. apply (Hocc_ui j Hj); [congruence|exact Aj|exact Eu]. }
          rewrite Hck in Hx. destruct (S i) as (Sb & _). fold (bs a0 i) (bs a i) in Sb. rewrite Sb in Hx, Hb.
          assert (bs a i = u).
          { apply (f_equal (fun x => N.lxor x j)) in Hx. rewrite N.lxor_nilpotent in Hx.
            rewrite N.lxor_assoc, N.lxor_assoc, N.lxor_nilpotent, N.lxor_0_r in Hx. apply N.lxor_eq in Hx. exact Hx. }
          assert (ub h u = true); [|congruence]. apply (di_ub _ _ _ _ _ D u Au). exists s, i. repeat split; try assumption. congruence.
      + split; [auto|]. intros _ j Hj Hno. exfalso. apply Hno. exact (full_block_occupied a h idmap stack proc _ D Cfull j Hj).
    - inversion E; subst a0. split; [reflexivity|]. split; [auto|]. split; [auto|]. split; [auto|]. intros Hx. exfalso. lia. }
  destruct Hric as (L0 & S0 & K0 & KO & Sl0).
  assert (Hbs : forall j, bs {| ba_map := ba_map a0; ba_len := ba_len a0 + BLOCK_LEN |} j = bs a j).
  { intros j. unfold bs, slot. cbn [ba_map]. exact (proj1 (S0 j)). }
  assert (Hck : forall j, ck {| ba_map := ba_map a0; ba_len := ba_len a0 + BLOCK_LEN |} j = ck a0 j) by (intros j; reflexivity).
  split; [|split; [cbn [ba_len]; unfold BLOCK_LEN; lia|split; [exact Hbs|]]].
  - constructor.
    + exact W1.
    + cbn [ba_len]. unfold BLOCK_LEN. lia.
    + exact (di_nodup _ _ _ _ _ D).
    + exact (di_node _ _ _ _ _ D).
    + exact (di_par _ _ _ _ _ D).
    + exact (di_chi _ _ _ _ _ D).
    + exact (di_im _ _ _ _ _ D).
    + exact (di_im_root _ _ _ _ _ D).
    + exact (di_im_inj _ _ _ _ _ D).
    + intros s i Hi. destruct (di_im_rng _ _ _ _ _ D s i Hi) as [A B]. cbn [ba_len]. split; [lia|exact B].
    + intros i Ai. destruct (Hfl i Ai) as [Fn Fo]. destruct (N.lt_ge_cases i (active_index_end h)) as [Hi|Hi].
      * destruct (Fo Hi) as (Aj & U & _). rewrite U. exact (di_ui _ _ _ _ _ D i Aj).
      * destruct (Fn Hi) as [U _]. rewrite U. split; [discriminate|]. intros [->|[->|[s Hs]]]; try lia.
        destruct (di_im_rng _ _ _ _ _ D s i Hs) as [A _]. lia.
    + intros b Ab. destruct (Hfl b Ab) as [Fn Fo]. destruct (N.lt_ge_cases b (active_index_end h)) as [Hi|Hi].
      * destruct (Fo Hi) as (Aj & _ & U). rewrite U. rewrite (di_ub _ _ _ _ _ D b Aj). split; intros (s & i & Hs & Hi' & Hb & Hz); exists s, i; rewrite ?Hbs in *; auto.
      * destruct (Fn Hi) as [_ U]. rewrite U. split; [discriminate|]. intros (s & i & Hs & Hi' & Hb & Hz). rewrite Hbs in Hb.
        destruct (di_arr _ _ _ _ _ D s i Hs Hi') as [A0 A1].
        destruct (edges_of s) eqn:Ee; [exfalso; apply Hz; rewrite <- Hb; apply A0; reflexivity|].
        destruct (A1 ltac:(discriminate)) as (_ & Hlt & _). lia.
    + intros s i Hs Hi. destruct (di_arr _ _ _ _ _ D s i Hs Hi) as [A0 A1]. rewrite Hbs. split; [exact A0|].
      intros Hne. destruct (A1 Hne) as (B1 & B2 & B3). split; [exact B1|]. split; [cbn [ba_len]; lia|].
      intros c ch Hin. destruct (B3 c ch Hin) as [C1 C2]. split; [exact C1|]. rewrite Hck, KO; [exact C2|].
      exists ch. split; [|exact C1].
      assert (Ns : node s) by (apply (di_node _ _ _ _ _ D); apply in_app_iff; left; exact Hs).
      apply (edges_child s c ch Ns) in Hin. exact (proj1 (proj2 (child_node s c ch Ns Hin))).
    + intros s i Hs Hi. rewrite Hbs. exact (di_arr_stack _ _ _ _ _ D s i Hs Hi).
    + intros B HB. unfold active_block_start in HB. rewrite Hnb, Hnfb in HB.
      intros j Hj Hno s i Hs Hi Hb. rewrite Hbs in *. rewrite Hck.
      destruct (N.le_gt_cases (h_nfb h) (h_nblocks h)) as [Hd|Hd].
      * destruct (N.eq_dec B (active_block_start h)) as [->|HneB].
        -- intros Hx. destruct (S0 i) as (Sb & _). fold (bs a0 i) (bs a i) in Sb.
           apply (Sl0 Hd j Hj Hno s i Hs Hi); [rewrite Sb; exact Hb|rewrite Sb; exact Hx].
        -- rewrite K0 by (left; congruence). refine (di_sealed _ _ _ _ _ D B _ j Hj Hno s i Hs Hi Hb). unfold active_block_start in *. lia.
      * exfalso. lia.
    + intros j Hj. rewrite Hbs. exact (di_vac _ _ _ _ _ D j Hj).
    + intros s1 s2 i1 i2 H1 H2 I1 I2. rewrite !Hbs. exact (di_binj _ _ _ _ _ D s1 s2 i1 i2 H1 H2 I1 I2).
  - intros j Hj. assert (Aj : act a2 j).
    { apply (block_act a2 j W1). unfold active_block_start. rewrite Hnb, Hnfb. rewrite Hcp in Hj. split.
      - apply N.div_le_lower_bound; [discriminate|]. nia.
      - apply N.div_lt_upper_bound; [discriminate|]. lia. }
    split; [exact Aj|]. destruct (Hfl j Aj) as [Fn _]. apply Fn. lia.
Qed.

(* ---- place_children ------------------------------------------------------------------------------ *)
Definition in_slots (base : N) (es : list (N * N)) (j : N) : bool := existsb (fun e => j =? N.lxor base (fst e)) es.

Lemma in_slots_iff base es j : in_slots base es j = true <-> exists c ch, In (c, ch) es /\ j = N.lxor base c.
Proof.
  unfold in_slots. rewrite existsb_exists. split.
  - intros [[c ch] [Hin E]]. cbn [fst] in E. apply N.eqb_eq in E. eauto.
  - intros (c & ch & Hin & ->). exists (c, ch). split; [exact Hin|apply N.eqb_refl].
Qed.

Lemma place_children_spec : forall es a h idmap nst base stack a' h' idmap' stack',
  HW h -> (forall c ch, In (c, ch) es -> c < 256) -> NoDup (map fst es) -> NoDup (map snd es) ->
  place_children a h idmap nst base es stack = Ok (a', h', idmap', stack') ->
  hmeta h h' /\ ba_len a' = ba_len a /\ stack' = rev (map snd es) ++ stack /\
  (forall c ch, In (c, ch) es -> act h (N.lxor base c) /\ ui h (N.lxor base c) = false /\ N.lxor base c < ba_len a /\ ch < nst) /\
  (forall j, act h j -> ui h' j = (in_slots base es j || ui h j) /\ ub h' j = ub h j) /\
  (forall j, bs a' j = bs a j /\ b_fail (slot a' j) = b_fail (slot a j) /\ b_outpos (slot a' j) = b_outpos (slot a j)) /\
  (forall c ch, In (c, ch) es -> ck a' (N.lxor base c) = c) /\
  (forall j, in_slots base es j = false -> ck a' j = ck a j) /\
  (forall c ch, In (c, ch) es -> nget ch idmap' = Some (N.lxor base c)) /\
  (forall s, ~ In s (map snd es) -> nget s idmap' = nget s idmap).
Proof.
  induction es as [|[c0 ch0] es IH]; intros a h idmap nst base stack a' h' idmap' stack' W Hlab Hk Hv H; cbn [place_children] in H.
  - inversion H; subst. split; [apply hmeta_refl|]. split; [reflexivity|]. split; [reflexivity|].
    split; [intros c ch []|]. split; [intros j _; auto|]. split; [auto|]. split; [intros c ch []|]. split; [auto|]. split; [intros c ch []|auto].
  - bstep H. bstep H. destruct (ch0 <? nst) eqn:Ent; [|discriminate].
    cbn [map fst snd] in Hk, Hv. apply NoDup_cons_iff in Hk as [Hk0 Hk]. apply NoDup_cons_iff in Hv as [Hv0 Hv].
    pose proof (Hlab c0 ch0 (or_introl eq_refl)) as Hc0.
    destruct (use_index_fl h _ a0 W E) as (A0 & U0 & M0 & F0).
    destruct (ba_upd_slot _ _ _ _ E0) as (Lt0 & L0 & S0).
    destruct (set_check_fields c0 (slot a (N.lxor base c0)) Hc0) as (G1 & G2 & G3 & G4).
    destruct (IH a1 a0 (nset ch0 (N.lxor base c0) idmap) nst base (ch0 :: stack) a' h' idmap' stack'
                 (HW_meta _ _ W M0) (fun c ch Hin => Hlab c ch (or_intror Hin)) Hk Hv H)
      as (M1 & L1 & St1 & P1 & F1 & B1 & C1 & K1 & I1 & J1).
    assert (Hdist : forall c ch, In (c, ch) es -> N.lxor base c <> N.lxor base c0).
    { intros c ch Hin E'. apply lxor_inj_r in E'. subst c. apply Hk0. apply in_map_iff. exists (c0, ch). auto. }
    split; [exact (hmeta_trans _ _ _ M0 M1)|]. split; [congruence|]. split.
    { rewrite St1. cbn [map snd rev]. rewrite <- app_assoc. reflexivity. }
    split.
    { intros c ch [E'|Hin].
      - inversion E'; subst c ch. split; [exact A0|]. split; [exact U0|]. split; [exact Lt0|lia].
      - destruct (P1 c ch Hin) as (Q1 & Q2 & Q3 & Q4). assert (Ah : act h (N.lxor base c)) by (apply (act_meta h a0 _ M0); exact Q1).
        split; [exact Ah|]. destruct (F0 _ Ah) as [Ux _]. rewrite Ux in Q2.
        assert ((N.lxor base c =? N.lxor base c0) = false) as Ex by (apply N.eqb_neq; exact (Hdist c ch Hin)). rewrite Ex in Q2.
        split; [exact Q2|]. split; [lia|exact Q4]. }
    split.
    { intros j Aj. destruct (F0 j Aj) as [U B]. destruct (F1 j (proj2 (act_meta h a0 j M0) Aj)) as [U1 B1'].
      rewrite U1, B1', U, B. unfold in_slots. cbn [existsb fst]. split; [|reflexivity].
      destruct (existsb _ es); destruct (j =? N.lxor base c0); reflexivity. }
    split.
    { intros j. destruct (B1 j) as (X1 & X2 & X3). unfold bs in *. rewrite X1, X2, X3, S0.
      destruct (j =? N.lxor base c0) eqn:Ej; [|auto]. apply N.eqb_eq in Ej. subst j. auto. }
    split.
    { intros c ch [E'|Hin].
      - inversion E'; subst c ch. rewrite K1.
        + unfold ck. rewrite S0, N.eqb_refl. exact G4.
        + destruct (in_slots base es (N.lxor base c0)) eqn:Ei; [|reflexivity]. apply in_slots_iff in Ei as (c & ch & Hin & E2).
          exfalso. symmetry in E2. exact (Hdist c ch Hin E2).
      - exact (C1 c ch Hin). }
    split.
    { intros j Hj. unfold in_slots in Hj. cbn [existsb fst] in Hj. apply orb_false_iff in Hj as [Hj0 Hj]. rewrite (K1 j Hj).
      unfold ck. rewrite S0, Hj0. reflexivity. }
    split.
    { intros c ch [E'|Hin]; [|exact (I1 c ch Hin)]. inversion E'; subst c ch. rewrite (J1 ch0 Hv0). apply ngss. }
    { intros s Hs. cbn [map snd In] in Hs. rewrite (J1 s ltac:(tauto)). apply ngso. intros ->. tauto. }
Qed.

(* ---- a state popped from the stack that has edges --------------------------------------------- *)
Lemma DI_node a1 h1 idmap sid stack proc base sidx a2 h2 idmap2 stack2 a3 h3 :
  DI a1 h1 idmap (sid :: stack) proc ->
  edges_of sid <> [] -> nget sid idmap = Some sidx -> base <> 0 -> ub h1 base = false ->
  place_children a1 h1 idmap (n_nstates n) base (edges_of sid) stack = Ok (a2, h2, idmap2, stack2) ->
  ba_upd a2 sidx (set_base base) = Ok a3 -> use_base h2 base = Ok h3 ->
  DI a3 h3 idmap2 stack2 (sid :: proc).
Proof.
  intros D Hes Hsidx Hb0 Hub Hpl Hsb Hus.
  set (es := edges_of sid) in *. set (chs := map snd es).
  pose proof (di_hw _ _ _ _ _ D) as W.
  assert (Hsin : In sid (proc ++ sid :: stack)) by (apply in_app_iff; right; left; reflexivity).
  assert (Nsid : node sid) by (apply (di_node _ _ _ _ _ D); exact Hsin).
  assert (Fes : forall c ch, In (c, ch) es <-> tchild V n sid c = Some ch) by (intros c ch; apply edges_child; exact Nsid).
  assert (Hlab : forall c ch, In (c, ch) es -> c < 256) by (intros c ch; apply labels_byte).
  pose proof (edges_nodup sid Nsid) as Hk. fold es in Hk.
  assert (Hv : NoDup chs).
  { unfold chs. apply nodup_map_in; [|apply NoDup_map_inv in Hk; exact Hk].
    intros [c1 t1] [c2 t2] H1 H2 E. cbn [snd] in E. subst t2. apply Fes in H1, H2.
    destruct (uniq_parent sid sid c1 c2 t1 Nsid Nsid H1 H2) as [_ ->]. reflexivity. }
  assert (Hchild : forall ch, In ch chs -> exists c, In (c, ch) es /\ node ch /\ ch <> ROOT /\ ~ In ch (proc ++ sid :: stack)).
  { intros ch Hin. apply in_map_iff in Hin as [[c ch'] [E Hin]]. cbn [snd] in E. subst ch'. exists c. split; [exact Hin|].
    apply Fes in Hin. destruct (child_node sid c ch Nsid Hin) as (Nc & Hr & _). split; [exact Nc|]. split; [exact Hr|].
    intros Hp. destruct (di_par _ _ _ _ _ D ch Hp Hr) as (p & c' & Hpp & Hc').
    assert (Np : node p) by (apply (di_node _ _ _ _ _ D); apply in_app_iff; left; exact Hpp).
    destruct (uniq_parent p sid c' c ch Np Nsid Hc' Hin) as [-> _].
    pose proof (di_nodup _ _ _ _ _ D) as Hnd. apply NoDup_remove_2 in Hnd. apply Hnd. apply in_app_iff. left. exact Hpp. }
  destruct (place_children_spec es a1 h1 idmap (n_nstates n) base stack a2 h2 idmap2 stack2 W Hlab Hk Hv Hpl)
    as (M2 & L2 & St2 & P2 & F2 & B2 & C2 & K2 & I2 & J2).
  pose proof (HW_meta _ _ W M2) as W2.
  destruct (use_base_fl h2 base h3 W2 Hus) as (Ab2 & M3 & _ & F3).
  pose proof (HW_meta _ _ W2 M3) as W3.
  assert (M13 : hmeta h1 h3) by exact (hmeta_trans _ _ _ M2 M3).
  assert (Ab1 : act h1 base) by (apply (act_meta h1 h2 _ M2); exact Ab2).
  destruct (ba_upd_slot _ _ _ _ Hsb) as (Ls & L3 & S3).
  (* the new array and the new map *)
  assert (Hsid_nin : ~ In sid chs).
  { intros Hin. destruct (Hchild sid Hin) as (_ & _ & _ & _ & Hn). exact (Hn Hsin). }
  assert (Hsidx2 : nget sid idmap2 = Some sidx) by (rewrite (J2 sid Hsid_nin); exact Hsidx).
  assert (Hslot_occ : forall j, in_slots base es j = true -> act h1 j /\ ui h1 j = false /\ j < ba_len a1 /\ 2 <= j /\ forall s, nget s idmap <> Some j).
  { intros j Hj. apply in_slots_iff in Hj as (c & ch & Hin & ->). destruct (P2 c ch Hin) as (Q1 & Q2 & Q3 & _).
    split; [exact Q1|]. split; [exact Q2|]. split; [exact Q3|].
    assert (Hnu : ~ (N.lxor base c = 0 \/ N.lxor base c = 1 \/ exists s, nget s idmap = Some (N.lxor base c))).
    { intros Hx. apply (di_ui _ _ _ _ _ D _ Q1) in Hx. congruence. }
    split; [lia|]. intros s Hs. apply Hnu. right. right. eauto. }
  assert (Hsidx_ns : in_slots base es sidx = false).
  { destruct (in_slots base es sidx) eqn:E; [|reflexivity]. destruct (Hslot_occ sidx E) as (_ & _ & _ & _ & Hn). exfalso. exact (Hn sid Hsidx). }
  assert (Hbs3 : forall j, bs a3 j = if j =? sidx then base else bs a1 j).
  { intros j. unfold bs at 1. rewrite S3. destruct (j =? sidx) eqn:E; [reflexivity|]. exact (proj1 (B2 j)). }
  assert (Hck3 : forall j, ck a3 j = ck a2 j).
  { intros j. unfold ck. rewrite S3. destruct (j =? sidx) eqn:E; [|reflexivity]. apply N.eqb_eq in E. subst j. reflexivity. }
  assert (Him2 : forall s i, nget s idmap2 = Some i <-> (nget s idmap = Some i /\ ~ In s chs) \/ (exists c, In (c, s) es /\ i = N.lxor base c)).
  { intros s i. destruct (in_dec N.eq_dec s chs) as [Hin|Hin].
    - destruct (Hchild s Hin) as (c & Hc & _ & _ & Hnp). rewrite (I2 c s Hc). split.
      + intros E. inversion E. right. exists c. auto.
      + intros [[_ Hx]|(c' & Hc' & ->)]; [contradiction|]. apply Fes in Hc, Hc'.
        destruct (uniq_parent sid sid c c' s Nsid Nsid Hc Hc') as [_ ->]. reflexivity.
    - rewrite (J2 s Hin). split; [intros E; left; auto|]. intros [[E _]|(c & Hc & _)]; [exact E|].
      exfalso. apply Hin. apply in_map_iff. exists (c, s). auto. }
  assert (Hold_placed : forall s i, nget s idmap = Some i -> ~ In s chs).
  { intros s i Hi Hin. destruct (Hchild s Hin) as (_ & _ & _ & _ & Hn). apply Hn. apply (di_im _ _ _ _ _ D). eauto. }
  assert (Hperm : forall t, In t ((sid :: proc) ++ stack2) <-> In t (proc ++ sid :: stack) \/ In t chs).
  { intros t. rewrite St2. cbn [app In]. rewrite !in_app_iff. cbn [In]. rewrite <- in_rev. fold chs. tauto. }
  constructor.
  - exact W3.
  - rewrite L3, L2. destruct M13 as (_ & _ & _ & ->). exact (di_cp _ _ _ _ _ D).
  - (* NoDup *)
    rewrite St2. cbn [app]. pose proof (di_nodup _ _ _ _ _ D) as Hnd. apply NoDup_remove in Hnd as [Hnd Hnsid].
    constructor.
    + intros Hin. apply in_app_iff in Hin as [Hin|Hin]; [apply Hnsid; apply in_app_iff; left; exact Hin|].
      apply in_app_iff in Hin as [Hin|Hin]; [apply Hsid_nin; apply in_rev; exact Hin|apply Hnsid; apply in_app_iff; right; exact Hin].
    + destruct (nodup_app_elim _ _ Hnd) as (Hp & Hst & Hdj). apply nodup_app_intro. split; [exact Hp|]. split.
      * apply nodup_app_intro. split; [apply NoDup_rev; exact Hv|]. split; [exact Hst|].
        intros x Hx Hy. apply in_rev in Hx. destruct (Hchild x Hx) as (_ & _ & _ & _ & Hn). apply Hn. apply in_app_iff. right. right. exact Hy.
      * intros x Hx Hy. apply in_app_iff in Hy as [Hy|Hy].
        -- apply in_rev in Hy. destruct (Hchild x Hy) as (_ & _ & _ & _ & Hn). apply Hn. apply in_app_iff. left. exact Hx.
        -- exact (Hdj x Hx Hy).
  - intros t Ht. apply Hperm in Ht as [Ht|Ht]; [exact (di_node _ _ _ _ _ D t Ht)|]. destruct (Hchild t Ht) as (_ & _ & Nt & _). exact Nt.
  - intros t Ht Hr. apply Hperm in Ht as [Ht|Ht].
    + destruct (di_par _ _ _ _ _ D t Ht Hr) as (p & c & Hp & Hc). exists p, c. split; [right; exact Hp|exact Hc].
    + destruct (Hchild t Ht) as (c & Hc & _). exists sid, c. split; [left; reflexivity|apply Fes; exact Hc].
  - intros s c t [<-|Hs] Hc; apply Hperm.
    + right. apply in_map_iff. exists (c, t). split; [reflexivity|apply Fes; exact Hc].
    + left. exact (di_chi _ _ _ _ _ D s c t Hs Hc).
  - intros s. rewrite Hperm. split.
    + intros [i Hi]. apply Him2 in Hi as [[Hi _]|(c & Hc & _)]; [left; apply (di_im _ _ _ _ _ D); eauto|right; apply in_map_iff; exists (c, s); auto].
    + intros [Hp|Hc].
      * apply (di_im _ _ _ _ _ D) in Hp as [i Hi]. exists i. apply Him2. left. split; [exact Hi|exact (Hold_placed s i Hi)].
      * destruct (Hchild s Hc) as (c & Hin & _). exists (N.lxor base c). apply Him2. right. eauto.
  - apply Him2. left. split; [exact (di_im_root _ _ _ _ _ D)|exact (Hold_placed _ _ (di_im_root _ _ _ _ _ D))].
  - intros s1 s2 i H1 H2. apply Him2 in H1, H2.
    destruct H1 as [[H1 _]|(c1 & Hc1 & E1)]; destruct H2 as [[H2 _]|(c2 & Hc2 & E2)].
    + exact (di_im_inj _ _ _ _ _ D s1 s2 i H1 H2).
    + exfalso. assert (Hsl : in_slots base es i = true) by (apply in_slots_iff; eauto). destruct (Hslot_occ i Hsl) as (_ & _ & _ & _ & Hn). exact (Hn s1 H1).
    + exfalso. assert (Hsl : in_slots base es i = true) by (apply in_slots_iff; eauto). destruct (Hslot_occ i Hsl) as (_ & _ & _ & _ & Hn). exact (Hn s2 H2).
    + subst i. apply lxor_inj_r in E2. subst c2. apply Fes in Hc1, Hc2. congruence.
  - intros s i Hi. rewrite L3, L2. apply Him2 in Hi as [[Hi _]|(c & Hc & ->)]; [exact (di_im_rng _ _ _ _ _ D s i Hi)|].
    assert (Hsl : in_slots base es (N.lxor base c) = true) by (apply in_slots_iff; eauto). destruct (Hslot_occ _ Hsl) as (_ & _ & Hl & H2 & _). auto.
  - (* used_index flags *)
    intros i Ai. assert (Ai1 : act h1 i) by (apply (act_meta h1 h3 i M13); exact Ai).
    destruct (F3 i (proj2 (act_meta h1 h2 i M2) Ai1)) as [U3 _]. destruct (F2 i Ai1) as [U2 _]. rewrite U3, U2.
    rewrite orb_true_iff, (di_ui _ _ _ _ _ D i Ai1), in_slots_iff. split.
    + intros [(c & ch & Hc & ->)|[->|[->|[s Hs]]]]; [right; right; exists ch; apply Him2; right; eauto|auto|auto|].
      right. right. exists s. apply Him2. left. split; [exact Hs|exact (Hold_placed s i Hs)].
    + intros [->|[->|[s Hs]]]; [auto|auto|]. apply Him2 in Hs as [[Hs _]|(c & Hc & ->)]; [right; right; right; eauto|left; eauto].
  - (* used_base flags *)
    intros b Ab. assert (Ab' : act h1 b) by (apply (act_meta h1 h3 b M13); exact Ab).
    destruct (F3 b (proj2 (act_meta h1 h2 b M2) Ab')) as [_ U3]. destruct (F2 b Ab') as [_ U2]. rewrite U3, U2.
    rewrite orb_true_iff, (di_ub _ _ _ _ _ D b Ab'). split.
    + intros [E|(s & i & Hs & Hi & Hbs & Hz)].
      * apply N.eqb_eq in E. subst b. exists sid, sidx. split; [left; reflexivity|]. split; [exact Hsidx2|]. rewrite Hbs3, N.eqb_refl. auto.
      * exists s, i. split; [right; exact Hs|]. split; [apply Him2; left; split; [exact Hi|exact (Hold_placed s i Hi)]|].
        rewrite Hbs3. assert ((i =? sidx) = false) as ->; [|auto]. apply N.eqb_neq. intros ->.
        rewrite (di_im_inj _ _ _ _ _ D s sid sidx Hi Hsidx) in Hs. pose proof (di_nodup _ _ _ _ _ D) as Hnd. apply NoDup_remove_2 in Hnd. apply Hnd. apply in_app_iff. left. exact Hs.
    + intros (s & i & [<-|Hs] & Hi & Hbs & Hz).
      * left. rewrite Hsidx2 in Hi. inversion Hi; subst i. rewrite Hbs3, N.eqb_refl in Hbs. apply N.eqb_eq. congruence.
      * right. apply Him2 in Hi as [[Hi _]|(c & Hc & _)].
        -- exists s, i. split; [exact Hs|]. split; [exact Hi|]. rewrite Hbs3 in Hbs. destruct (i =? sidx) eqn:Ei; [|auto].
           apply N.eqb_eq in Ei. subst i. rewrite (di_im_inj _ _ _ _ _ D s sid sidx Hi Hsidx) in Hs.
           exfalso. pose proof (di_nodup _ _ _ _ _ D) as Hnd. apply NoDup_remove_2 in Hnd. apply Hnd. apply in_app_iff. left. exact Hs.
        -- exfalso. assert (Hin : In s chs) by (apply in_map_iff; exists (c, s); auto). destruct (Hchild s Hin) as (_ & _ & _ & _ & Hn).
           apply Hn. apply in_app_iff. left. exact Hs.
  - (* the array at processed states *)
    intros s i [<-|Hs] Hi.
    + rewrite Hsidx2 in Hi. inversion Hi; subst i. split; [intros E; fold es in E; congruence|]. intros _.
      rewrite Hbs3, N.eqb_refl. split; [exact Hb0|]. split; [rewrite L3, L2; destruct Ab1 as [_ Ab1]; unfold active_index_end in Ab1; destruct W as (Wb & _); rewrite Wb in Ab1; rewrite (di_cp _ _ _ _ _ D); exact Ab1|].
      intros c ch Hin. fold es in Hin. split; [apply Him2; right; eauto|]. rewrite Hck3. exact (C2 c ch Hin).
    + apply Him2 in Hi as [[Hi _]|(c & Hc & _)].
      2:{ exfalso. assert (Hin : In s chs) by (apply in_map_iff; exists (c, s); auto). destruct (Hchild s Hin) as (_ & _ & _ & _ & Hn).
          apply Hn. apply in_app_iff. left. exact Hs. }
      assert (Hne : (i =? sidx) = false).
      { apply N.eqb_neq. intros ->. rewrite (di_im_inj _ _ _ _ _ D s sid sidx Hi Hsidx) in Hs.
        pose proof (di_nodup _ _ _ _ _ D) as Hnd. apply NoDup_remove_2 in Hnd. apply Hnd. apply in_app_iff. left. exact Hs. }
      rewrite Hbs3, Hne. destruct (di_arr _ _ _ _ _ D s i Hs Hi) as [A0 A1]. split; [exact A0|]. intros Hne'.
      destruct (A1 Hne') as (X1 & X2 & X3). split; [exact X1|]. split; [rewrite L3, L2; exact X2|].
      intros c ch Hin. destruct (X3 c ch Hin) as [Y1 Y2]. split; [apply Him2; left; split; [exact Y1|exact (Hold_placed ch _ Y1)]|].
      rewrite Hck3, K2; [exact Y2|]. destruct (in_slots base es (N.lxor (bs a1 i) c)) eqn:E; [|reflexivity].
      destruct (Hslot_occ _ E) as (_ & _ & _ & _ & Hn). exfalso. exact (Hn ch Y1).
  - (* the array at the stack *)
    intros s i Hs Hi. rewrite St2 in Hs. apply in_app_iff in Hs as [Hs|Hs].
    + apply in_rev in Hs. fold chs in Hs. destruct (Hchild s Hs) as (c & Hc & _). apply Him2 in Hi as [[_ Hx]|(c' & Hc' & ->)]; [contradiction|].
      assert (Hsl : in_slots base es (N.lxor base c') = true) by (apply in_slots_iff; eauto). destruct (Hslot_occ _ Hsl) as (_ & _ & _ & _ & Hn).
      rewrite Hbs3. assert ((N.lxor base c' =? sidx) = false) as -> by (apply N.eqb_neq; intros E; exact (Hn sid (eq_trans Hsidx (f_equal Some (eq_sym E))))).
      apply (di_vac _ _ _ _ _ D). exact Hn.
    + apply Him2 in Hi as [[Hi _]|(c & Hc & _)].
      * rewrite Hbs3. assert ((i =? sidx) = false) as ->.
        { apply N.eqb_neq. intros ->. rewrite (di_im_inj _ _ _ _ _ D s sid sidx Hi Hsidx) in Hs.
          pose proof (di_nodup _ _ _ _ _ D) as Hnd. apply NoDup_remove_2 in Hnd. apply Hnd. apply in_app_iff. right. exact Hs. }
        apply (di_arr_stack _ _ _ _ _ D s i); [right; exact Hs|exact Hi].
      * exfalso. assert (Hin : In s chs) by (apply in_map_iff; exists (c, s); auto). destruct (Hchild s Hin) as (_ & _ & _ & _ & Hn).
        apply Hn. apply in_app_iff. right. right. exact Hs.
  - (* closed blocks stay sealed *)
    intros B HB j Hj Hno s i Hs Hi Hbz Hx.
    assert (HB1 : B < active_block_start h1).
    { destruct M13 as (_ & _ & E1 & E2). unfold active_block_start in *. rewrite E1, E2 in HB. exact HB. }
    assert (Hno1 : ~ occ idmap j).
    { intros (s' & Hr & Hs'). apply Hno. exists s'. split; [exact Hr|]. apply Him2. left. split; [exact Hs'|exact (Hold_placed s' j Hs')]. }
    assert (Hjs : in_slots base es j = false).
    { destruct (in_slots base es j) eqn:E; [|reflexivity]. destruct (Hslot_occ j E) as (Aj & _). apply (act_block h1 j W) in Aj. lia. }
    rewrite Hck3, (K2 j Hjs) in Hx. rewrite Hbs3 in Hx, Hbz. destruct Hs as [<-|Hs].
    + rewrite Hsidx2 in Hi. inversion Hi; subst i. rewrite N.eqb_refl in Hx.
      assert (j / 256 = base / 256) by (rewrite <- Hx; apply xor_div; apply ck_lt).
      apply (act_block h1 base W) in Ab1. lia.
    + apply Him2 in Hi as [[Hi _]|(c & Hc & _)].
      * destruct (i =? sidx) eqn:Ei.
        -- apply N.eqb_eq in Ei. subst i. rewrite (di_im_inj _ _ _ _ _ D s sid sidx Hi Hsidx) in Hs.
           pose proof (di_nodup _ _ _ _ _ D) as Hnd. apply NoDup_remove_2 in Hnd. apply Hnd. apply in_app_iff. left. exact Hs.
        -- exact (di_sealed _ _ _ _ _ D B HB1 j Hj Hno1 s i Hs Hi Hbz Hx).
      * assert (Hin : In s chs) by (apply in_map_iff; exists (c, s); auto). destruct (Hchild s Hin) as (_ & _ & _ & _ & Hn).
        apply Hn. apply in_app_iff. left. exact Hs.
  - (* vacant slots have no base *)
    intros j Hj. rewrite Hbs3. assert ((j =? sidx) = false) as -> by (apply N.eqb_neq; intros ->; exact (Hj sid Hsidx2)).
    apply (di_vac _ _ _ _ _ D). intros s Hs. apply (Hj s). apply Him2. left. split; [exact Hs|exact (Hold_placed s j Hs)].
  - (* bases are unique *)
    intros s1 s2 i1 i2 H1 H2 X1 X2 Hbe Hbz.
    assert (Hold : forall s i, In s proc -> nget s idmap2 = Some i -> nget s idmap = Some i /\ bs a3 i = bs a1 i).
    { intros s i Hs Hi. apply Him2 in Hi as [[Hi _]|(c & Hc & _)].
      - split; [exact Hi|]. rewrite Hbs3. assert ((i =? sidx) = false) as ->; [|reflexivity]. apply N.eqb_neq. intros ->.
        rewrite (di_im_inj _ _ _ _ _ D s sid sidx Hi Hsidx) in Hs. pose proof (di_nodup _ _ _ _ _ D) as Hnd. apply NoDup_remove_2 in Hnd. apply Hnd. apply in_app_iff. left. exact Hs.
      - exfalso. assert (Hin : In s chs) by (apply in_map_iff; exists (c, s); auto). destruct (Hchild s Hin) as (_ & _ & _ & _ & Hn).
        apply Hn. apply in_app_iff. left. exact Hs. }
    assert (Hnew : forall s i, In s proc -> nget s idmap2 = Some i -> bs a3 i = base -> False).
    { intros s i Hs Hi Hb. destruct (Hold s i Hs Hi) as [Hi' Hb']. rewrite Hb' in Hb.
      assert (ub h1 base = true); [|congruence]. apply (di_ub _ _ _ _ _ D base Ab1). exists s, i. auto. }
    destruct H1 as [<-|H1]; destruct H2 as [<-|H2]; [reflexivity| | |].
    + exfalso. rewrite Hsidx2 in X1. inversion X1; subst i1. rewrite Hbs3, N.eqb_refl in Hbe. exact (Hnew s2 i2 H2 X2 (eq_sym Hbe)).
    + exfalso. rewrite Hsidx2 in X2. inversion X2; subst i2. rewrite (Hbs3 sidx), N.eqb_refl in Hbe. exact (Hnew s1 i1 H1 X1 Hbe).
    + destruct (Hold s1 i1 H1 X1) as [J1' B1']. destruct (Hold s2 i2 H2 X2) as [J2' B2']. rewrite B1' in Hbe, Hbz. rewrite B2' in Hbe.
      exact (di_binj _ _ _ _ _ D s1 s2 i1 i2 H1 H2 J1' J2' Hbe Hbz).
Qed.

(* ---- the depth-first loop ------------------------------------------------------------------------ *)
Lemma dfs_loop_DI : forall fuel a h idmap stack proc a' h' idmap',
  DI a h idmap stack proc -> dfs_loop V fuel n a h idmap stack = Ok (a', h', idmap') ->
  exists proc', DI a' h' idmap' [] proc'.
Proof.
  induction fuel as [|fuel IH]; intros a h idmap stack proc a' h' idmap' D H; destruct stack as [|sid stack]; cbn [dfs_loop] in H;
    try discriminate; try (inversion H; subst; exists proc; exact D).
  destruct (sid =? DEAD); [discriminate|]. bstep H. bstep H. destruct (a1 =? DEAD) eqn:Ed; [discriminate|].
  assert (Hsin : In sid (proc ++ sid :: stack)) by (apply in_app_iff; right; left; reflexivity).
  assert (Hed : edges_of sid = n_edges a0).
  { unfold edges_of. unfold nfa_get in E. destruct (sid <? n_nstates n); [|discriminate]. destruct (nget sid (n_states n)); [inversion E; reflexivity|discriminate]. }
  assert (Hsidx : nget sid idmap = Some a1).
  { destruct (proj2 (di_im _ _ _ _ _ D sid) Hsin) as [i Hi]. unfold idmap_get in E0. destruct (sid <? n_nstates n); [|discriminate].
    rewrite Hi in E0. inversion E0. subst. exact Hi. }
  destruct (n_edges a0) as [|e0 es0] eqn:Ee.
  - apply (IH a h idmap stack (sid :: proc) a' h' idmap'); [|exact H]. apply DI_leaf; assumption.
  - rewrite <- Hed in H.
    bstep H. bstep H. destruct a3 as [a3 h3]. bstep H. destruct a4 as [[[a4 h4] idmap4] stack4]. bstep H. bstep H.
    destruct (find_base_inv _ _ _ _ E1) as (_ & Hb0 & Hcase).
    assert (Hpre : DI a3 h3 idmap (sid :: stack) proc /\ ub h3 a2 = false).
    { pose proof (di_hw _ _ _ _ _ D) as W. pose proof (di_cp _ _ _ _ _ D) as Hcp. destruct Hcase as [(Ab & Ub & _) | ->].
      - assert (a2 < ba_len a).
        { destruct Ab as [_ Ab]. unfold active_index_end in Ab. destruct W as (Wb & _). rewrite Wb in Ab. lia. }
        assert ((ba_len a <=? a2) = false) as Hl by (apply N.leb_gt; assumption). rewrite Hl in E2. inversion E2; subst a3 h3. auto.
      - rewrite N.leb_refl in E2. destruct (DI_extend _ _ _ _ _ _ _ D E2) as (D1 & L1 & _ & Hfresh). split; [exact D1|].
        apply Hfresh. lia. }
    destruct Hpre as [D3 Hub].
    apply (IH a5 a6 idmap4 stack4 (sid :: proc) a' h' idmap'); [|exact H].
    apply (DI_node a3 h3 idmap sid stack proc a2 a1 a4 h4 idmap4 stack4 a5 a6 D3); try assumption.
    rewrite Hed. discriminate.
Qed.

(* DI only reads the bases, the length, and the check bytes of occupied slots and of closed blocks *)
Lemma DI_ext a a' h idmap stack proc : ba_len a' = ba_len a -> (forall j, bs a' j = bs a j) ->
  (forall j, occ idmap j \/ j / 256 < active_block_start h -> ck a' j = ck a j) ->
  DI a h idmap stack proc -> DI a' h idmap stack proc.
Proof.
  intros L Hb Hc D.
  constructor.
  - exact (di_hw _ _ _ _ _ D).
  - rewrite L. exact (di_cp _ _ _ _ _ D).
  - exact (di_nodup _ _ _ _ _ D).
  - exact (di_node _ _ _ _ _ D).
  - exact (di_par _ _ _ _ _ D).
  - exact (di_chi _ _ _ _ _ D).
  - exact (di_im _ _ _ _ _ D).
  - exact (di_im_root _ _ _ _ _ D).
  - exact (di_im_inj _ _ _ _ _ D).
  - rewrite L. exact (di_im_rng _ _ _ _ _ D).
  - exact (di_ui _ _ _ _ _ D).
  - intros b Ab. rewrite (di_ub _ _ _ _ _ D b Ab). split; intros (s & i & A & B & C & E); exists s, i; rewrite ?Hb in *; auto.
  - intros s i Hs' Hi. rewrite Hb, L. destruct (di_arr _ _ _ _ _ D s i Hs' Hi) as [A0 A1]. split; [exact A0|]. intros Hne.
    destruct (A1 Hne) as (X1 & X2 & X3). split; [exact X1|]. split; [exact X2|]. intros c ch Hin. destruct (X3 c ch Hin) as [Y1 Y2].
    split; [exact Y1|]. rewrite Hc; [exact Y2|]. left. exists ch. split; [|exact Y1].
    assert (Ns : node s) by (apply (di_node _ _ _ _ _ D); apply in_app_iff; left; exact Hs').
    apply (edges_child s c ch Ns) in Hin. exact (proj1 (proj2 (child_node s c ch Ns Hin))).
  - intros s i Hs' Hi. rewrite Hb. exact (di_arr_stack _ _ _ _ _ D s i Hs' Hi).
  - intros B HB j Hj Hno s i Hs' Hi. rewrite Hb, Hc by (right; lia). exact (di_sealed _ _ _ _ _ D B HB j Hj Hno s i Hs' Hi).
  - intros j Hj. rewrite Hb. exact (di_vac _ _ _ _ _ D j Hj).
  - intros s1 s2 i1 i2 H1 H2 I1 I2. rewrite !Hb. exact (di_binj _ _ _ _ _ D s1 s2 i1 i2 H1 H2 I1 I2).
Qed.


(* ---- the final remove_invalid_checks pass ------------------------------------------------------- *)
Lemma ric_seals a h idmap stack proc B a' : DI a h idmap stack proc -> remove_invalid_checks a h B = Ok a' ->
  active_block_start h <= B ->
  ba_len a' = ba_len a
  /\ (forall j, b_base (slot a' j) = b_base (slot a j) /\ b_fail (slot a' j) = b_fail (slot a j) /\ b_outpos (slot a' j) = b_outpos (slot a j))
  /\ (forall j, j / 256 <> B -> ck a' j = ck a j)
  /\ (forall j, occ idmap j -> ck a' j = ck a j)
  /\ Sealed a' idmap proc B.
Proof.
  intros D E HB. pose proof (di_hw _ _ _ _ _ D) as W.
  destruct (remove_invalid_checks_spec a h _ a' W E) as (L & S & K & Cs).
  split; [exact L|]. split; [exact S|]. split; [exact K|].
  assert (Hocc_ui : forall j, rootdead j = false -> act h j -> ui h j = true -> occ idmap j).
  { intros j Hrd Aj Uj. apply (di_ui _ _ _ _ _ D j Aj) in Uj as [->|[->|[s Hs]]]; [discriminate|discriminate|].
    exists s. split; [|exact Hs]. intros ->. rewrite (di_im_root _ _ _ _ _ D) in Hs. inversion Hs; subst j. discriminate. }
  destruct Cs as [(u & Hu & Au & Uu & Cu)|[-> Cfull]].
  - split.
    + intros j (s & Hsr & Hs). destruct (N.eq_dec (j / 256) B) as [Hj|Hj]; [|exact (K j Hj)].
      specialize (Cu j Hj). destruct (di_im_rng _ _ _ _ _ D s j Hs) as [_ Hr]. specialize (Hr Hsr).
      assert (rootdead j = false) as Er by (unfold rootdead, ROOT, DEAD; lia). rewrite Er in Cu. destruct Cu as [Aj Cu].
      assert (ui h j = true) as Eu by (apply (di_ui _ _ _ _ _ D j Aj); right; right; eauto). rewrite Eu in Cu. exact Cu.
    + intros j Hj Hno s i Hs Hi Hb Hx. specialize (Cu j Hj).
      assert (Hck : ck a' j = N.lxor u j).
      { destruct (rootdead j) eqn:Er; [exact Cu|]. destruct Cu as [Aj Cu]. destruct (ui h j) eqn:Eu; [|exact Cu].
        exfalso. apply Hno. exact (Hocc_ui j Er Aj Eu). }
      rewrite Hck in Hx. destruct (S i) as (Sb & _). fold (bs a' i) (bs a i) in Sb. rewrite Sb in Hx, Hb.
      assert (bs a i = u).
      { apply (f_equal (fun x => N.lxor x j)) in Hx. rewrite N.lxor_nilpotent in Hx.
        rewrite N.lxor_assoc, N.lxor_assoc, N.lxor_nilpotent, N.lxor_0_r in Hx. apply N.lxor_eq in Hx. exact Hx. }
      assert (ub h u = true); [|congruence]. apply (di_ub _ _ _ _ _ D u Au). exists s, i. repeat split; try assumption. congruence.
  - split; [auto|]. intros j Hj Hno. exfalso. apply Hno. exact (full_block_occupied a h idmap stack proc _ D Cfull j Hj).
Qed.

Lemma Sealed_ext a a' idmap proc B : (forall j, bs a' j = bs a j) -> (forall j, j / 256 = B -> ck a' j = ck a j) ->
  Sealed a idmap proc B -> Sealed a' idmap proc B.
Proof. intros Hb Hc H j Hj Hno s i Hs Hi. rewrite Hb, (Hc j Hj). exact (H j Hj Hno s i Hs Hi). Qed.

Lemma ric_blocks_seals : forall bl a h idmap stack proc a', DI a h idmap stack proc ->
  (forall B, In B bl -> active_block_start h <= B) ->
  ric_blocks a h bl = Ok a' ->
  DI a' h idmap stack proc
  /\ (forall j, b_base (slot a' j) = b_base (slot a j) /\ b_fail (slot a' j) = b_fail (slot a j) /\ b_outpos (slot a' j) = b_outpos (slot a j))
  /\ (forall j, occ idmap j -> ck a' j = ck a j)
  /\ (forall B, In B bl -> Sealed a' idmap proc B).
Proof.
  induction bl as [|B bl IH]; intros a h idmap stack proc a' D Hbl H; cbn [ric_blocks] in H.
  - inversion H; subst. split; [exact D|]. split; [auto|]. split; [auto|intros B []].
  - bstep H. destruct (ric_seals a h idmap stack proc B a0 D E (Hbl B (or_introl eq_refl))) as (L & S & K & KO & Se).
    assert (D1 : DI a0 h idmap stack proc).
    { apply (DI_ext a a0); [exact L|intros j; exact (proj1 (S j))| |exact D]. intros j [Ho|Hc]; [exact (KO j Ho)|].
      apply K. pose proof (Hbl B (or_introl eq_refl)). lia. }
    destruct (IH a0 h idmap stack proc a' D1 (fun B' HB' => Hbl B' (or_intror HB')) H) as (D2 & S2 & KO2 & Se2).
    split; [exact D2|]. split; [|split].
    + intros j. destruct (S2 j) as (X1 & X2 & X3). destruct (S j) as (Y1 & Y2 & Y3). repeat split; congruence.
    + intros j Ho. rewrite (KO2 j Ho). exact (KO j Ho).
    + intros B' [<-|HB']; [|exact (Se2 B' HB')].
      destruct (in_dec N.eq_dec B bl) as [Hin|Hnin]; [exact (Se2 B Hin)|].
      (* later passes touch other blocks only *)
      assert (Hlater : forall bl0 a1 a2, ~ In B bl0 -> ric_blocks a1 h bl0 = Ok a2 ->
                (forall j, bs a2 j = bs a1 j) /\ (forall j, j / 256 = B -> ck a2 j = ck a1 j)).
      { induction bl0 as [|B0 bl0 IH0]; intros a1 a2 Hn Hr; cbn [ric_blocks] in Hr; [inversion Hr; auto|]. bstep Hr.
        destruct (remove_invalid_checks_spec a1 h B0 a3 (di_hw _ _ _ _ _ D) E0) as (_ & S3 & K3 & _).
        destruct (IH0 a3 a2 (fun Hx => Hn (or_intror Hx)) Hr) as [X1 X2]. split.
        - intros j. rewrite X1. exact (proj1 (S3 j)).
        - intros j Hj. rewrite (X2 j Hj). apply K3. intros E'. apply Hn. left. congruence. }
      destruct (Hlater bl a0 a' Hnin H) as [X1 X2]. exact (Sealed_ext a0 a' idmap proc B X1 X2 Se).
Qed.

(* ---- set_fails_loop copies fail links and output positions through the map ------------------- *)
Definition fmap (idmap : nmap N) (f : N) : N :=
  if f =? DEAD then DEAD else match nget f idmap with Some x => x | None => DEAD end.

Lemma set_fails_loop_spec idmap : (forall s1 s2 i, nget s1 idmap = Some i -> nget s2 idmap = Some i -> s1 = s2) ->
  forall ids a a', NoDup ids -> set_fails_loop V n a idmap ids = Ok a' ->
  ba_len a' = ba_len a /\ (forall j, bs a' j = bs a j /\ ck a' j = ck a j)
  /\ (forall j, (forall s, In s ids -> s <> DEAD -> nget s idmap <> Some j) ->
        b_fail (slot a' j) = b_fail (slot a j) /\ b_outpos (slot a' j) = b_outpos (slot a j))
  /\ (forall s st i, In s ids -> s <> DEAD -> nfa_get V n s = Ok st -> nget s idmap = Some i ->
        b_fail (slot a' i) = fmap idmap (n_fail st) /\ b_outpos (slot a' i) = n_outpos st).
Proof.
  intros Hinj. induction ids as [|s0 ids IH]; intros a a' Hnd H; cbn [set_fails_loop] in H.
  - inversion H; subst. split; [reflexivity|]. split; [auto|]. split; [auto|]. intros s st i [].
  - apply NoDup_cons_iff in Hnd as [Hs0 Hnd]. destruct (s0 =? DEAD) eqn:Ed.
    + apply N.eqb_eq in Ed. destruct (IH a a' Hnd H) as (L & S & U & F). split; [exact L|]. split; [exact S|]. split.
      * intros j Hj. apply U. intros s Hs. apply Hj. right. exact Hs.
      * intros s st i [<-|Hs] Hne; [congruence|]. exact (F s st i Hs Hne).
    + apply N.eqb_neq in Ed. bstep H. destruct (a0 =? DEAD) eqn:Ea; [discriminate|]. bstep H.
      destruct (U24_MAX <? n_outpos a1); [discriminate|]. bstep H.
      assert (Hidx : nget s0 idmap = Some a0).
      { unfold idmap_get in E. destruct (s0 <? n_nstates n); [|discriminate]. destruct (nget s0 idmap) eqn:Eg; inversion E; subst; [reflexivity|].
        rewrite N.eqb_refl in Ea. discriminate. }
      destruct (ba_upd_slot _ _ _ _ E1) as (_ & L1 & S1).
      (* the second write *)
      assert (Hstep : exists a3, set_fails_loop V n a3 idmap ids = Ok a' /\ ba_len a3 = ba_len a
                 /\ (forall j, slot a3 j = if j =? a0 then set_bfail (fmap idmap (n_fail a1)) (set_outpos (n_outpos a1) (slot a a0)) else slot a j)).
      { destruct (n_fail a1 =? DEAD) eqn:Ef.
        - bstep H. exists a3. destruct (ba_upd_slot _ _ _ _ E2) as (_ & L2 & S2). split; [exact H|]. split; [congruence|].
          intros j. rewrite S2, !S1. unfold fmap. rewrite Ef, N.eqb_refl. destruct (j =? a0); reflexivity.
        - bstep H. destruct (a3 =? DEAD) eqn:Ea3; [discriminate|]. bstep H. exists a4. destruct (ba_upd_slot _ _ _ _ E3) as (_ & L2 & S2).
          split; [exact H|]. split; [congruence|]. intros j. rewrite S2, !S1. unfold fmap. rewrite Ef.
          assert (a3 = match nget (n_fail a1) idmap with Some x => x | None => DEAD end) as ->.
          { unfold idmap_get in E2. destruct (n_fail a1 <? n_nstates n); [|discriminate]. inversion E2. reflexivity. }
          rewrite N.eqb_refl. destruct (j =? a0); reflexivity. }
      destruct Hstep as (a3 & H3 & L3 & S3). destruct (IH a3 a' Hnd H3) as (L & S & U & F).
      assert (Hfields : forall j, bs a3 j = bs a j /\ ck a3 j = ck a j).
      { intros j. unfold bs, ck. rewrite S3. destruct (j =? a0) eqn:Ej; [|auto]. apply N.eqb_eq in Ej. subst j.
        unfold set_bfail, set_outpos, b_check. cbn [b_base b_opos_ch]. rewrite pk_b_set_a. auto. }
      split; [congruence|]. split; [|split].
      * intros j. destruct (S j) as [X1 X2]. destruct (Hfields j) as [Y1 Y2]. split; congruence.
      * intros j Hj. destruct (U j (fun s Hs => Hj s (or_intror Hs))) as [X1 X2]. rewrite X1, X2, S3.
        assert ((j =? a0) = false) as ->; [|auto]. apply N.eqb_neq. intros ->. exact (Hj s0 (or_introl eq_refl) Ed Hidx).
      * intros s st i [<-|Hs] Hne Hg Hi.
        -- rewrite Hidx in Hi. inversion Hi; subst i. rewrite E0 in Hg. inversion Hg; subst st.
           destruct (U a0) as [X1 X2].
           { intros s Hs Hsd Hx. rewrite (Hinj s s0 a0 Hx Hidx) in Hs. contradiction. }
           rewrite X1, X2, S3, N.eqb_refl. unfold set_bfail, set_outpos, b_outpos. cbn [b_fail b_opos_ch]. rewrite pk_a_set_a. auto.
        -- exact (F s st i Hs Hne Hg Hi).
Qed.

(* ---- init_array ------------------------------------------------------------------------------- *)
Lemma init_array_DI nfb aa hh : init_array nfb = Ok (aa, hh) -> DI aa hh (nset ROOT ROOT nempty) [ROOT] [].
Proof.
  unfold init_array, helper_new. intros H.
  destruct (U32_MAX <? BLOCK_LEN * nfb); [discriminate|]. destruct (BLOCK_LEN * nfb =? 0) eqn:Ez; [discriminate|]. cbn [bind] in H.
  set (hh0 := {| h_items := nempty; h_cap := BLOCK_LEN * nfb; h_block_len := BLOCK_LEN; h_nfb := nfb; h_nblocks := 0; h_head := None |}) in *.
  destruct (push_block hh0) as [a0| | | |] eqn:Ep; cbn [bind] in H; try discriminate.
  destruct (use_index a0 ROOT) as [a1| | | |] eqn:E1; cbn [bind] in H; try discriminate.
  destruct (use_index a1 DEAD) as [a2| | | |] eqn:E2; cbn [bind] in H; try discriminate.
  inversion H; subst aa hh; clear H.
  assert (W0 : HW hh0) by (unfold HW, hh0, BLOCK_LEN in *; cbn; split; [reflexivity|split; [reflexivity|lia]]).
  destruct (push_block_fl hh0 a0 W0 Ep) as (W1 & Nb1 & F1). cbn [h_nblocks hh0] in Nb1.
  destruct (use_index_fl a0 ROOT a1 W1 E1) as (_ & _ & M2 & F2). pose proof (HW_meta _ _ W1 M2) as W2.
  destruct (use_index_fl a1 DEAD a2 W2 E2) as (_ & _ & M3 & F3). pose proof (HW_meta _ _ W2 M3) as W3.
  assert (M13 : hmeta a0 a2) by exact (hmeta_trans _ _ _ M2 M3).
  assert (Hact : forall j, act a2 j <-> j < 256).
  { intros j. rewrite (act_meta a0 a2 j M13). unfold act, active_index_start, active_index_end, active_block_start.
    destruct W1 as (B1 & C1 & D1). rewrite B1, Nb1. replace (0 + 1 - h_nfb a0) with 0 by lia. lia. }
  assert (Hflags : forall j, j < 256 -> ui a2 j = ((j =? DEAD) || ((j =? ROOT) || false)) /\ ub a2 j = false).
  { intros j Hj. assert (A0 : act a0 j) by (apply (act_meta a0 a2 j M13); apply Hact; exact Hj).
    destruct (F1 j A0) as [Fn _]. destruct (Fn ltac:(unfold active_index_end, hh0; cbn; lia)) as [U1 B1].
    destruct (F2 j A0) as [U2 B2]. destruct (F3 j (proj2 (act_meta a0 a1 j M2) A0)) as [U3 B3].
    rewrite U3, B3, U2, B2, U1, B1. auto. }
  assert (Him : forall s i, nget s (nset ROOT ROOT nempty) = Some i <-> s = ROOT /\ i = ROOT).
  { intros s i. destruct (N.eq_dec s ROOT) as [->|Hne].
    - rewrite ngss. split; [intros E; inversion E; auto|intros [_ ->]; reflexivity].
    - rewrite ngso by exact Hne. rewrite nget_empty. split; [discriminate|intros [? _]; contradiction]. }
  assert (Hbs0 : forall j, bs {| ba_map := nempty; ba_len := BLOCK_LEN |} j = 0).
  { intros j. unfold bs, slot. cbn [ba_map]. rewrite nget_empty. reflexivity. }
  constructor.
  - exact W3.
  - cbn [ba_len]. destruct M13 as (_ & _ & _ & ->). rewrite Nb1. reflexivity.
  - cbn [app]. constructor; [intros []|constructor].
  - intros t [<-|[]]. exists []. reflexivity.
  - intros t [<-|[]] Hr. congruence.
  - intros s c t [].
  - intros s. cbn [app In]. split; [intros [i Hi]; apply Him in Hi as [-> _]; auto|intros [<-|[]]; exists ROOT; apply Him; auto].
  - apply Him. auto.
  - intros s1 s2 i H1 H2. apply Him in H1 as [-> _]. apply Him in H2 as [-> _]. reflexivity.
  - intros s i Hi. apply Him in Hi as [-> ->]. cbn [ba_len]. unfold ROOT, BLOCK_LEN. split; [lia|congruence].
  - intros i Ai. apply Hact in Ai. destruct (Hflags i Ai) as [-> _]. unfold ROOT, DEAD. split.
    + intros Hx. destruct (i =? 1) eqn:E1'; [right; left; lia|]. destruct (i =? 0) eqn:E0'; [left; lia|discriminate].
    + intros [->|[->|[s Hs]]]; [reflexivity|reflexivity|]. apply Him in Hs as [_ ->]. reflexivity.
  - intros b Ab. apply Hact in Ab. destruct (Hflags b Ab) as [_ ->]. split; [discriminate|]. intros (s & i & [] & _).
  - intros s i [].
  - intros s i _ _. apply Hbs0.
  - intros B HB. exfalso. unfold active_block_start in HB. destruct M13 as (_ & _ & E3 & E4). rewrite E3, E4, Nb1 in HB.
    destruct W1 as (_ & _ & D1). lia.
  - intros j _. apply Hbs0.
  - intros s1 s2 i1 i2 [].
Qed.

(* ---- the result: the double array is an isomorphic copy of the NFA ----------------------------- *)
Lemma nseq_nth : forall k a i, (i < k)%nat -> nth_error (nseq a k) i = Some (a + N.of_nat i).
Proof.
  induction k as [|k IH]; intros a i Hi; [lia|]. cbn [nseq]. destruct i as [|i]; [cbn; f_equal; lia|].
  cbn [nth_error]. rewrite IH by lia. f_equal. lia.
Qed.

Lemma barr_to_list_nth a j : j < ba_len a -> nth_error (barr_to_list a) (N.to_nat j) = Some (slot a j).
Proof.
  intros Hj. unfold barr_to_list. rewrite nth_error_map, nseq_nth by lia. cbn [option_map]. unfold slot. replace (0 + N.of_nat (N.to_nat j)) with j by lia. reflexivity.
Qed.

Record Refines (sts : list bstate) (idmap : nmap N) : Prop := {
  rf_root : nget ROOT idmap = Some ROOT;
  rf_tot : forall s, node s -> exists i, nget s idmap = Some i /\ i < N.of_nat (length sts) /\ (s <> ROOT -> 2 <= i);
  rf_inj : forall s1 s2 i, nget s1 idmap = Some i -> nget s2 idmap = Some i -> s1 = s2;
  rf_child : forall s i c, node s -> nget s idmap = Some i -> c < 256 ->
    bw_child (fun j => nth_error sts (N.to_nat j)) i c
    = Ok (match tchild V n s c with Some t => nget t idmap | None => None end);
  rf_links : forall s st i, node s -> s <> DEAD -> nfa_get V n s = Ok st -> nget s idmap = Some i ->
    exists sl, nth_error sts (N.to_nat i) = Some sl /\ b_fail sl = fmap idmap (n_fail st) /\ b_outpos sl = n_outpos st
}.

(* occupancy is decidable: the placed states are a list *)
Lemma occ_dec_list idmap (pl : list N) (j : N) : (forall s, (exists i, nget s idmap = Some i) -> In s pl) ->
  occ idmap j \/ ~ occ idmap j.
Proof.
  intros Hpl. assert (Hd : forall l, (exists s, In s l /\ s <> ROOT /\ nget s idmap = Some j) \/ ~ (exists s, In s l /\ s <> ROOT /\ nget s idmap = Some j)).
  { induction l as [|x l IH]; [right; intros (s & [] & _)|]. destruct IH as [(s & A & B & C)|IH]; [left; exists s; split; [right; exact A|auto]|].
    destruct (N.eq_dec x ROOT) as [->|Hx]; [right; intros (s & [<-|A] & B & C); [congruence|apply IH; eauto]|].
    destruct (nget x idmap) as [i|] eqn:E.
    - destruct (N.eq_dec i j) as [->|Hij]; [left; exists x; split; [left; reflexivity|auto]|].
      right. intros (s & [<-|A] & B & C); [congruence|apply IH; eauto].
    - right. intros (s & [<-|A] & B & C); [congruence|apply IH; eauto]. }
  destruct (Hd pl) as [(s & A & B & C)|Hn]; [left; exists s; auto|right]. intros (s & B & C). apply Hn. exists s. split; [apply Hpl; eauto|auto].
Qed.

Hypothesis root_node : node ROOT.
Hypothesis nstates_nodes : forall s, s < n_nstates n -> s <> DEAD -> node s.
Hypothesis dead_not_node : ~ node DEAD.

Theorem build_double_array_refines nfb sts : build_double_array V nfb n = Ok sts -> exists idmap, Refines sts idmap.
Proof.
  intros H. unfold build_double_array in H.
  destruct (init_array nfb) as [[a0 h0]| | | |] eqn:Ei; cbn [bind] in H; try discriminate.
  destruct (dfs_loop V _ n a0 h0 _ _) as [[[a1 h1] idmap]| | | |] eqn:Ed; cbn [bind] in H; try discriminate.
  destruct (set_fails_loop V n a1 idmap _) as [a2| | | |] eqn:Es; cbn [bind] in H; try discriminate.
  destruct (ric_blocks a2 h1 _) as [a3| | | |] eqn:Er; cbn [bind] in H; try discriminate.
  inversion H; subst sts; clear H. exists idmap.
  destruct (dfs_loop_DI _ _ _ _ _ _ _ _ _ (init_array_DI nfb a0 h0 Ei) Ed) as [proc D1].
  destruct (set_fails_loop_spec idmap (di_im_inj _ _ _ _ _ D1) _ a1 a2 (nseq_nodup' _ _) Es) as (L2 & S2 & _ & F2).
  assert (D2 : DI a2 h1 idmap [] proc).
  { apply (DI_ext a1 a2); [exact L2|intros j; exact (proj1 (S2 j))|intros j _; exact (proj2 (S2 j))|exact D1]. }
  assert (Hblk : forall B, In B (nseq (active_block_start h1) (N.to_nat (h_nblocks h1 - active_block_start h1))) -> active_block_start h1 <= B)
    by (intros B HB; apply nseq_in' in HB; lia).
  destruct (ric_blocks_seals _ a2 h1 idmap [] proc a3 D2 Hblk Er) as (D3 & S3 & KO3 & Se3).
  pose proof (di_hw _ _ _ _ _ D3) as W. pose proof (di_cp _ _ _ _ _ D3) as Hcp.
  assert (Hlen : N.of_nat (length (barr_to_list a3)) = ba_len a3).
  { unfold barr_to_list. rewrite map_length. assert (forall k a, length (nseq a k) = k) as Hl by (induction k; intros; cbn; auto). rewrite Hl. lia. }
  assert (Hplaced : forall s, node s -> In s proc).
  { intros s [w Hw]. revert s Hw. induction w as [|c w IHw] using rev_ind; intros s Hw.
    - cbn in Hw. inversion Hw; subst s. pose proof (di_im _ _ _ _ _ D3 ROOT) as Hx. rewrite app_nil_r in Hx. apply Hx. exists ROOT. exact (di_im_root _ _ _ _ _ D3).
    - rewrite twalk_snoc in Hw. destruct (twalk V n ROOT w) as [p|] eqn:Ep; [|discriminate].
      pose proof (di_chi _ _ _ _ _ D3 p c s (IHw p eq_refl) Hw) as Hx. rewrite app_nil_r in Hx. exact Hx. }
  assert (Hsealed : forall B, B < h_nblocks h1 -> Sealed a3 idmap proc B).
  { intros B HB. destruct (N.lt_ge_cases B (active_block_start h1)) as [Hc|Hc]; [exact (di_sealed _ _ _ _ _ D3 B Hc)|].
    apply Se3. apply nseq_in'. lia. }
  assert (Hidx : forall s, In s proc -> exists i, nget s idmap = Some i).
  { intros s Hs. apply (di_im _ _ _ _ _ D3). rewrite app_nil_r. exact Hs. }
  constructor.
  - exact (di_im_root _ _ _ _ _ D3).
  - intros s Ns. destruct (Hidx s (Hplaced s Ns)) as [i Hi]. exists i. split; [exact Hi|]. rewrite Hlen. exact (di_im_rng _ _ _ _ _ D3 s i Hi).
  - exact (di_im_inj _ _ _ _ _ D3).
  - (* children *)
    intros s i c Ns Hi Hc. pose proof (Hplaced s Ns) as Hs.
    destruct (di_im_rng _ _ _ _ _ D3 s i Hi) as [Hil _].
    unfold bw_child, st_at. rewrite (barr_to_list_nth a3 i Hil). cbn [bind]. fold (bs a3 i).
    destruct (di_arr _ _ _ _ _ D3 s i Hs Hi) as [A0 A1].
    destruct (edges_of s) as [|e0 es0] eqn:Ee.
    + rewrite (A0 eq_refl). cbn. destruct (tchild V n s c) as [t|] eqn:Et; [|reflexivity].
      apply (edges_child s c t Ns) in Et. rewrite Ee in Et. destruct Et.
    + destruct (A1 ltac:(discriminate)) as (Hbz & Hbl & Hch). assert ((bs a3 i =? 0) = false) as -> by (apply N.eqb_neq; exact Hbz).
      set (j := N.lxor (bs a3 i) c).
      assert (Hjl : j < ba_len a3).
      { assert (Hd : j / 256 = bs a3 i / 256) by (apply xor_div; exact Hc).
        assert (bs a3 i / 256 < h_nblocks h1) by (apply N.div_lt_upper_bound; [discriminate|lia]).
        pose proof (N.div_mod j 256 ltac:(discriminate)). pose proof (N.mod_lt j 256 ltac:(discriminate)). nia. }
      rewrite (barr_to_list_nth a3 j Hjl). cbn [bind]. fold (ck a3 j).
      destruct (tchild V n s c) as [t|] eqn:Et.
      * apply (edges_child s c t Ns) in Et. rewrite <- Ee in Hch. destruct (Hch c t Et) as [Y1 Y2]. fold j in Y1, Y2.
        rewrite Y2, N.eqb_refl, Y1. reflexivity.
      * destruct (ck a3 j =? c) eqn:Eck; [|reflexivity]. exfalso. apply N.eqb_eq in Eck.
        destruct (occ_dec_list idmap proc j ltac:(intros s0 Hs0; pose proof (di_im _ _ _ _ _ D3 s0) as Hx; rewrite app_nil_r in Hx; apply Hx; exact Hs0)) as [(t & Htr & Ht)|Hno].
        -- assert (Htp : In t proc) by (pose proof (di_im _ _ _ _ _ D3 t) as Hx; rewrite app_nil_r in Hx; apply Hx; eauto).
           destruct (di_par _ _ _ _ _ D3 t ltac:(rewrite app_nil_r; exact Htp) Htr) as (p & c' & Hp & Hc').
           destruct (Hidx p Hp) as [ip Hip]. destruct (di_arr _ _ _ _ _ D3 p ip Hp Hip) as [_ B1].
           assert (Np : node p) by (apply (di_node _ _ _ _ _ D3); rewrite app_nil_r; exact Hp).
           pose proof (proj2 (edges_child p c' t Np) Hc') as Hin.
           destruct (B1 ltac:(intros E0; rewrite E0 in Hin; destruct Hin)) as (Bz & _ & Bch). destruct (Bch c' t Hin) as [Z1 Z2].
           rewrite Ht in Z1. inversion Z1 as [Ej]. rewrite <- Ej in Z2. rewrite Eck in Z2. subst c'.
           unfold j in Ej. apply (f_equal (fun x => N.lxor x c)) in Ej. rewrite !lxor_cancel_r in Ej.
           assert (p = s) by (apply (di_binj _ _ _ _ _ D3 p s ip i Hp Hs Hip Hi); [symmetry; exact Ej|exact Bz]). subst p. congruence.
        -- apply (Hsealed (j / 256) ltac:(apply N.div_lt_upper_bound; [discriminate|lia]) j eq_refl Hno s i Hs Hi Hbz). rewrite Eck. reflexivity.
  - (* fail links and output positions *)
    intros s st i Ns Hd Hg Hi. destruct (di_im_rng _ _ _ _ _ D3 s i Hi) as [Hil _]. exists (slot a3 i). split; [exact (barr_to_list_nth a3 i Hil)|].
    destruct (S3 i) as (_ & X2 & X3). rewrite X2, X3. apply (F2 s st i); try assumption. apply nseq_in'. pose proof (node_lt s Ns). lia.
Qed.

End Refine.
