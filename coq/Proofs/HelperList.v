(* HelperList.v — src/build_helper.rs seen through its vacant list.  The unused indices of the active
   blocks form a doubly linked ring in increasing order, starting at head_idx; with that invariant
   (HL) every helper operation the builders perform SUCCEEDS (no failed assertion, no unwrap of
   None, no fuel exhaustion) and re-establishes the invariant:
     use_index on a vacant index removes it from the ring;
     push_block retires the vacancies of the block that leaves the window and appends a block;
     vacant_next walks the ring in order.
   Block length bl > 0 arbitrary (both builders). *)
From DV Require Import Model.Base Model.Helper Proofs.BuildSafe Proofs.HelperFlagsG.
From Coq Require Import Sorted ZifyN ZifyNat ZifyBool.
Local Open Scope N_scope.

Lemma nseq_in_c : forall n a x, In x (nseq a n) <-> a <= x < a + N.of_nat n.
Proof. induction n as [|n IH]; intros a x; cbn [nseq In]; [lia|]. rewrite IH. lia. Qed.

Section HLs.
Variable bl : N.
Hypothesis bl_pos : 0 < bl.
Notation HW := (HW bl).

Definition nxt (h : helper) (i : N) : N := i_next (fl h i).
Definition prv (h : helper) (i : N) : N := i_prev (fl h i).

Fixpoint links (h : helper) (l : list N) : Prop :=
  match l with
  | a :: ((b :: _) as r) => nxt h a = b /\ prv h b = a /\ links h r
  | _ => True
  end.

Definition ring (h : helper) (L : list N) : Prop :=
  match L with
  | [] => True
  | x :: r => links h L /\ nxt h (last r x) = x /\ prv h x = last r x
  end.

Record HL (h : helper) (L : list N) : Prop := {
  hl_sorted : StronglySorted N.lt L;
  hl_mem : forall i, In i L <-> act h i /\ ui h i = false;
  hl_head : h_head h = hd_error L;
  hl_ring : ring h L
}.

(* ---- lists ------------------------------------------------------------------------------------ *)
Lemma sorted_nodup (l : list N) : StronglySorted N.lt l -> NoDup l.
Proof.
  induction 1 as [|a l Hs IH Ha]; constructor; [|exact IH]. intros Hin. rewrite Forall_forall in Ha. specialize (Ha a Hin). lia.
Qed.

Lemma sorted_app_inv (l1 l2 : list N) : StronglySorted N.lt (l1 ++ l2) ->
  StronglySorted N.lt l1 /\ StronglySorted N.lt l2 /\ forall x y, In x l1 -> In y l2 -> x < y.
Proof.
  induction l1 as [|a l1 IH]; cbn [app]; intros H.
  - split; [constructor|]. split; [exact H|intros x y []].
  - inversion H as [|? ? Hs Ha]; subst. destruct (IH Hs) as (S1 & S2 & Hlt). rewrite Forall_forall in Ha. split.
    + constructor; [exact S1|]. apply Forall_forall. intros x Hx. apply Ha. apply in_or_app. left. exact Hx.
    + split; [exact S2|]. intros x y [<-|Hx] Hy; [apply Ha; apply in_or_app; right; exact Hy|exact (Hlt x y Hx Hy)].
Qed.

Lemma sorted_app_intro (l1 l2 : list N) : StronglySorted N.lt l1 -> StronglySorted N.lt l2 ->
  (forall x y, In x l1 -> In y l2 -> x < y) -> StronglySorted N.lt (l1 ++ l2).
Proof.
  induction l1 as [|a l1 IH]; cbn [app]; intros S1 S2 Hlt; [exact S2|].
  inversion S1 as [|? ? Hs Ha]; subst. constructor.
  - apply IH; [exact Hs|exact S2|]. intros x y Hx Hy. apply Hlt; [right; exact Hx|exact Hy].
  - apply Forall_forall. intros x Hx. apply in_app_or in Hx as [Hx|Hx]; [rewrite Forall_forall in Ha; exact (Ha x Hx)|].
    apply Hlt; [left; reflexivity|exact Hx].
Qed.

Lemma sorted_remove (l1 l2 : list N) x : StronglySorted N.lt (l1 ++ x :: l2) -> StronglySorted N.lt (l1 ++ l2).
Proof.
  intros H. destruct (sorted_app_inv _ _ H) as (S1 & S2 & Hlt). inversion S2 as [|? ? S2' _]; subst.
  apply sorted_app_intro; [exact S1|exact S2'|]. intros a b Ha Hb. apply Hlt; [exact Ha|right; exact Hb].
Qed.

Lemma sorted_split (e : N) : forall l, StronglySorted N.lt l ->
  exists l1 l2, l = l1 ++ l2 /\ (forall x, In x l1 -> x < e) /\ (forall x, In x l2 -> e <= x).
Proof.
  induction l as [|a l IH]; intros H.
  - exists [], []. split; [reflexivity|]. split; intros x [].
  - inversion H as [|? ? Hs Ha]; subst. destruct (N.lt_ge_cases a e) as [Hlt|Hge].
    + destruct (IH Hs) as (l1 & l2 & -> & H1 & H2). exists (a :: l1), l2. split; [reflexivity|]. split; [|exact H2].
      intros x [<-|Hx]; [exact Hlt|exact (H1 x Hx)].
    + exists [], (a :: l). split; [reflexivity|]. split; [intros x []|]. rewrite Forall_forall in Ha.
      intros x [<-|Hx]; [exact Hge|]. specialize (Ha x Hx). lia.
Qed.

Lemma range_length : forall (l : list N) a n, NoDup l -> (forall x, In x l -> a <= x < a + N.of_nat n) -> (length l <= n)%nat.
Proof.
  intros l a n Hnd Hr.
  assert (Hincl : incl l (nseq a n)) by (intros x Hx; apply (proj2 (nseq_in_c n a x)); exact (Hr x Hx)).
  pose proof (NoDup_incl_length Hnd Hincl) as H.
  assert (Hl : forall k b, length (nseq b k) = k) by (induction k as [|k IH]; intros b; cbn [nseq length]; [reflexivity|rewrite IH; reflexivity]).
  rewrite Hl in H. exact H.
Qed.

Lemma nseq_sorted : forall n a, StronglySorted N.lt (nseq a n).
Proof.
  induction n as [|n IH]; intros a; cbn [nseq]; constructor; [apply IH|]. apply Forall_forall. intros x Hx. apply nseq_in_c in Hx. lia.
Qed.

Lemma nseq_snoc : forall n a, nseq a (S n) = nseq a n ++ [a + N.of_nat n].
Proof.
  induction n as [|n IH]; intros a; [cbn; f_equal; lia|]. change (nseq a (S (S n))) with (a :: nseq (N.succ a) (S n)).
  rewrite IH. cbn [nseq app]. f_equal. f_equal. f_equal. lia.
Qed.

Lemma last_indep {X} (l : list X) d d' : l <> [] -> last l d = last l d'.
Proof.
  induction l as [|a l IH]; intros H; [congruence|]. destruct l as [|b l]; [reflexivity|].
  change (last (a :: b :: l) d) with (last (b :: l) d). change (last (a :: b :: l) d') with (last (b :: l) d'). apply IH. discriminate.
Qed.

Lemma last_cons_c {X} (l : list X) x d : last (x :: l) d = last l x.
Proof. destruct l as [|b l]; [reflexivity|]. change (last (x :: b :: l) d) with (last (b :: l) d). apply last_indep. discriminate. Qed.

Lemma last_app_cons {X} (l1 l2 : list X) x d : last (l1 ++ x :: l2) d = last l2 x.
Proof.
  induction l1 as [|a l1 IH]; cbn [app]; [apply last_cons_c|].
  rewrite last_cons_c. rewrite (last_indep _ a d); [exact IH|]. destruct l1; discriminate.
Qed.

Lemma last_in {X} (l : list X) d : In (last l d) (d :: l).
Proof.
  revert d. induction l as [|a l IH]; intros d; [left; reflexivity|]. rewrite last_cons_c. right. exact (IH a).
Qed.

(* ---- links ------------------------------------------------------------------------------------ *)
Lemma links_app_iff h l1 a l2 : links h (l1 ++ a :: l2) <-> links h (l1 ++ [a]) /\ links h (a :: l2).
Proof.
  induction l1 as [|x l1 IH]; cbn [app].
  - cbn [links]. tauto.
  - destruct l1 as [|y l1]; cbn [app] in *.
    + cbn [links]. tauto.
    + change (links h (x :: y :: l1 ++ a :: l2)) with (nxt h x = y /\ prv h y = x /\ links h (y :: l1 ++ a :: l2)).
      change (links h (x :: y :: l1 ++ [a])) with (nxt h x = y /\ prv h y = x /\ links h (y :: l1 ++ [a])). tauto.
Qed.

Lemma links_join h l1 a b l2 : links h (l1 ++ [a]) -> links h (b :: l2) -> nxt h a = b -> prv h b = a ->
  links h (l1 ++ a :: b :: l2).
Proof. intros H1 H2 Hn Hp. apply links_app_iff. split; [exact H1|]. cbn [links]. auto. Qed.

Lemma links_frame h h' : forall l, (forall i, In i (removelast l) -> nxt h' i = nxt h i) ->
  (forall i, In i (tl l) -> prv h' i = prv h i) -> links h l -> links h' l.
Proof.
  induction l as [|a l IH]; intros Hn Hp H; [exact I|]. destruct l as [|b l]; [exact I|].
  destruct H as (H1 & H2 & H3). split; [|split].
  - rewrite Hn; [exact H1|]. left. reflexivity.
  - rewrite Hp; [exact H2|]. left. reflexivity.
  - apply IH; [| |exact H3].
    + intros i Hi. apply Hn. change (removelast (a :: b :: l)) with (a :: removelast (b :: l)). right. exact Hi.
    + intros i Hi. apply Hp. cbn [tl]. right. exact Hi.
Qed.

Lemma in_removelast {X} (l : list X) x : In x (removelast l) -> In x l.
Proof.
  induction l as [|a l IH]; [intros []|]. destruct l as [|b l]; [intros []|].
  change (removelast (a :: b :: l)) with (a :: removelast (b :: l)). intros [<-|H]; [left; reflexivity|right; exact (IH H)].
Qed.

Lemma removelast_not_last (l : list N) d : NoDup (d :: l) -> l <> [] -> ~ In (last l d) (removelast l) .
Proof.
  intros Hnd Hne Hin. apply NoDup_cons_iff in Hnd as [_ Hnd].
  destruct (exists_last Hne) as (l' & z & E). subst l. rewrite last_last in Hin. rewrite removelast_last in Hin.
  apply NoDup_remove_2 in Hnd. apply Hnd. rewrite app_nil_r. exact Hin.
Qed.

Lemma removelast_not_last' (l : list N) d : NoDup l -> l <> [] -> ~ In (last l d) (removelast l).
Proof.
  intros Hnd Hne Hin. destruct (exists_last Hne) as (l' & z & E). subst l. rewrite last_last in Hin. rewrite removelast_last in Hin.
  apply NoDup_remove_2 in Hnd. apply Hnd. rewrite app_nil_r. exact Hin.
Qed.

Lemma links_app2 h b l2 d : forall l1, l1 <> [] ->
  (links h (l1 ++ b :: l2) <-> links h l1 /\ nxt h (last l1 d) = b /\ prv h b = last l1 d /\ links h (b :: l2)).
Proof.
  induction l1 as [|a l1 IH]; intros Hne; [congruence|]. destruct l1 as [|a' l1].
  - cbn [app last]. cbn [links]. tauto.
  - specialize (IH ltac:(discriminate)).
    change (links h ((a :: a' :: l1) ++ b :: l2)) with (nxt h a = a' /\ prv h a' = a /\ links h ((a' :: l1) ++ b :: l2)).
    change (links h (a :: a' :: l1)) with (nxt h a = a' /\ prv h a' = a /\ links h (a' :: l1)).
    change (last (a :: a' :: l1) d) with (last (a' :: l1) d). tauto.
Qed.

(* ---- where the neighbours of a ring member are ------------------------------------------------ *)
Lemma ring_next h l1 idx l2 : ring h (l1 ++ idx :: l2) ->
  nxt h idx = match l2 with y :: _ => y | [] => hd idx l1 end.
Proof.
  destruct l1 as [|x r1]; cbn [app hd].
  - intros (Hl & Hn & Hp). destruct l2 as [|y r2]; [exact Hn|destruct Hl as (H & _); exact H].
  - intros (Hl & Hn & Hp). change (x :: r1 ++ idx :: l2) with ((x :: r1) ++ idx :: l2) in Hl.
    apply (links_app2 h idx l2 idx (x :: r1) ltac:(discriminate)) in Hl as (_ & _ & _ & Hl).
    destruct l2 as [|y r2]; [|destruct Hl as (H & _); exact H].
    rewrite last_app_cons in Hn. exact Hn.
Qed.

Lemma ring_prev h l1 idx l2 : ring h (l1 ++ idx :: l2) ->
  prv h idx = match l1 with [] => last l2 idx | _ => last l1 idx end.
Proof.
  destruct l1 as [|x r1]; cbn [app].
  - intros (_ & _ & Hp). exact Hp.
  - intros (Hl & _ & _). change (x :: r1 ++ idx :: l2) with ((x :: r1) ++ idx :: l2) in Hl.
    apply (links_app2 h idx l2 idx (x :: r1) ltac:(discriminate)) in Hl as (_ & _ & Hp & _). exact Hp.
Qed.

Lemma ring_next_in h l1 idx l2 : ring h (l1 ++ idx :: l2) -> In (nxt h idx) (l1 ++ idx :: l2).
Proof.
  intros H. rewrite (ring_next _ _ _ _ H). destruct l2 as [|y r2].
  - destruct l1 as [|x r1]; cbn [hd app]; left; reflexivity.
  - apply in_or_app. right. right. left. reflexivity.
Qed.

Lemma ring_prev_in h l1 idx l2 : ring h (l1 ++ idx :: l2) -> In (prv h idx) (l1 ++ idx :: l2).
Proof.
  intros H. rewrite (ring_prev _ _ _ _ H). destruct l1 as [|x r1].
  - cbn [app]. apply last_in.
  - apply in_or_app. left. pose proof (last_in r1 x) as Hl. rewrite last_cons_c. exact Hl.
Qed.

(* ---- unlinking one member ---------------------------------------------------------------------- *)
Lemma ring_remove h h' l1 idx l2 : StronglySorted N.lt (l1 ++ idx :: l2) -> ring h (l1 ++ idx :: l2) ->
  (forall j, In j (l1 ++ l2) -> nxt h' j = if j =? prv h idx then nxt h idx else nxt h j) ->
  (forall j, In j (l1 ++ l2) -> prv h' j = if j =? nxt h idx then prv h idx else prv h j) ->
  ring h' (l1 ++ l2).
Proof.
  intros Hs Hr Hn Hp. pose proof (ring_next _ _ _ _ Hr) as En. pose proof (ring_prev _ _ _ _ Hr) as Ep.
  pose proof (sorted_nodup _ Hs) as Hnd. destruct (sorted_app_inv _ _ Hs) as (S1 & S2 & H12).
  inversion S2 as [|? ? S2' Hi2]; subst. rewrite Forall_forall in Hi2.
  destruct l1 as [|x r1]; destruct l2 as [|y r2]; cbn [app hd] in *.
  - exact I.
  - (* the head is removed *)
    destruct Hr as ((_ & _ & Hl) & _ & _). rewrite last_cons_c in Ep.
    assert (Hz : In (last r2 y) (y :: r2)) by apply last_in.
    assert (Hnd2 : NoDup (y :: r2)) by (apply sorted_nodup; exact S2').
    split; [|split].
    + apply (links_frame h h'); [| |exact Hl].
      * intros i Hi. rewrite (Hn i (in_removelast _ _ Hi)), Ep.
        assert ((i =? last r2 y) = false) as ->; [|reflexivity]. apply N.eqb_neq. intros ->.
        apply (removelast_not_last' (y :: r2) y Hnd2 ltac:(discriminate)). rewrite last_cons_c. exact Hi.
      * intros i Hi. cbn [tl] in Hi. rewrite (Hp i (or_intror Hi)), En.
        assert ((i =? y) = false) as ->; [|reflexivity]. apply N.eqb_neq. intros ->. apply NoDup_cons_iff in Hnd2 as [Hy _]. exact (Hy Hi).
    + rewrite (Hn _ Hz), Ep, N.eqb_refl. exact En.
    + rewrite (Hp y (or_introl eq_refl)), En, N.eqb_refl. exact Ep.
  - (* the last member is removed *)
    rewrite app_nil_r in *. destruct Hr as (Hl & _ & _). change (x :: r1 ++ [idx]) with ((x :: r1) ++ [idx]) in Hl.
    apply (links_app2 h idx [] idx (x :: r1) ltac:(discriminate)) in Hl as (Hl & _ & _ & _).
    rewrite last_cons_c in Ep.
    assert (Hz : In (last r1 x) (x :: r1)) by apply last_in.
    assert (Hnd1 : NoDup (x :: r1)) by (apply sorted_nodup; exact S1).
    split; [|split].
    + apply (links_frame h h'); [| |exact Hl].
      * intros i Hi. rewrite (Hn i (in_removelast _ _ Hi)), Ep.
        assert ((i =? last r1 x) = false) as ->; [|reflexivity]. apply N.eqb_neq. intros ->.
        apply (removelast_not_last' (x :: r1) x Hnd1 ltac:(discriminate)). rewrite last_cons_c. exact Hi.
      * intros i Hi. cbn [tl] in Hi. rewrite (Hp i (or_intror Hi)), En.
        assert ((i =? x) = false) as ->; [|reflexivity]. apply N.eqb_neq. intros ->. apply NoDup_cons_iff in Hnd1 as [Hx _]. exact (Hx Hi).
    + rewrite (Hn _ Hz), Ep, N.eqb_refl. exact En.
    + rewrite (Hp x (or_introl eq_refl)), En, N.eqb_refl. exact Ep.
  - (* a member in the middle is removed *)
    destruct Hr as (Hl & Hcn & Hcp). change (x :: r1 ++ idx :: y :: r2) with ((x :: r1) ++ idx :: y :: r2) in Hl.
    apply (links_app2 h idx (y :: r2) idx (x :: r1) ltac:(discriminate)) in Hl as (Hl1 & _ & _ & (_ & _ & Hl2)).
    rewrite last_app_cons in Hcn, Hcp. rewrite last_cons_c in Hcn, Hcp, Ep.
    assert (Hz : In (last r1 x) (x :: r1)) by apply last_in.
    assert (Hw : In (last r2 y) (y :: r2)) by apply last_in.
    assert (Hnd1 : NoDup (x :: r1)) by (apply sorted_nodup; exact S1).
    assert (Hnd2 : NoDup (y :: r2)) by (apply sorted_nodup; exact S2').
    assert (Hlt : forall a b, In a (x :: r1) -> In b (y :: r2) -> a < b).
    { intros a b Ha Hb. pose proof (H12 a idx Ha (or_introl eq_refl)). pose proof (Hi2 b Hb). lia. }
    change (x :: r1 ++ y :: r2) with ((x :: r1) ++ y :: r2) in *.
    split; [|split].
    + apply (links_app2 h' y r2 idx (x :: r1) ltac:(discriminate)). rewrite last_cons_c. split; [|split; [|split]].
      * apply (links_frame h h'); [| |exact Hl1].
        -- intros i Hi. rewrite (Hn i); [|apply in_or_app; left; exact (in_removelast _ _ Hi)]. rewrite Ep.
           assert ((i =? last r1 x) = false) as ->; [|reflexivity]. apply N.eqb_neq. intros ->.
           apply (removelast_not_last' (x :: r1) x Hnd1 ltac:(discriminate)). rewrite last_cons_c. exact Hi.
        -- intros i Hi. cbn [tl] in Hi. rewrite (Hp i); [|apply in_or_app; left; right; exact Hi]. rewrite En.
           assert ((i =? y) = false) as ->; [|reflexivity]. apply N.eqb_neq. intros ->.
           pose proof (Hlt y y (or_intror Hi) (or_introl eq_refl)). lia.
      * rewrite (Hn (last r1 x)); [|apply in_or_app; left; exact Hz]. rewrite Ep, N.eqb_refl. exact En.
      * rewrite (Hp y); [|apply in_or_app; right; left; reflexivity]. rewrite En, N.eqb_refl. exact Ep.
      * apply (links_frame h h'); [| |exact Hl2].
        -- intros i Hi. rewrite (Hn i); [|apply in_or_app; right; exact (in_removelast _ _ Hi)]. rewrite Ep.
           assert ((i =? last r1 x) = false) as ->; [|reflexivity]. apply N.eqb_neq. intros ->.
           pose proof (Hlt _ _ Hz (in_removelast _ _ Hi)). lia.
        -- intros i Hi. cbn [tl] in Hi. rewrite (Hp i); [|apply in_or_app; right; right; exact Hi]. rewrite En.
           assert ((i =? y) = false) as ->; [|reflexivity]. apply N.eqb_neq. intros ->. apply NoDup_cons_iff in Hnd2 as [Hy _]. exact (Hy Hi).
    + rewrite last_app_cons. rewrite (Hn (last r2 y)); [|apply in_or_app; right; exact Hw]. rewrite Ep.
      assert ((last r2 y =? last r1 x) = false) as ->; [|exact Hcn]. apply N.eqb_neq. intros E.
      pose proof (Hlt _ _ Hz Hw). lia.
    + rewrite last_app_cons. rewrite (Hp x); [|left; reflexivity]. rewrite En.
      assert ((x =? y) = false) as ->; [|exact Hcp]. apply N.eqb_neq. intros E.
      pose proof (Hlt x y (or_introl eq_refl) (or_introl eq_refl)). lia.
Qed.

(* ---- the operations succeed -------------------------------------------------------------------- *)
Lemma offset_act h i : act h i -> offset h i = Ok (i mod h_cap h).
Proof.
  intros [A B]. unfold offset. assert ((active_index_start h <=? i) && (i <? active_index_end h) = true) as ->; [|reflexivity].
  apply andb_true_iff. split; [apply N.leb_le; exact A|apply N.ltb_lt; exact B].
Qed.

Lemma upd_total h i f : act h i -> exists h', upd_item h i f = Ok h'.
Proof. intros A. unfold upd_item. rewrite (offset_act h i A). cbn [bind]. eexists. reflexivity. Qed.

Lemma is_used_index_act h i : act h i -> is_used_index h i = Ok (ui h i).
Proof. intros A. unfold is_used_index. rewrite (get_item_act h i A). reflexivity. Qed.
Lemma is_used_base_act h i : act h i -> is_used_base h i = Ok (ub h i).
Proof. intros A. unfold is_used_base. rewrite (get_item_act h i A). reflexivity. Qed.

Lemma use_base_total h b : act h b -> exists h', use_base h b = Ok h'.
Proof. apply upd_total. Qed.

Lemma HL_in_act h L i : HL h L -> In i L -> act h i /\ ui h i = false.
Proof. intros H Hi. apply (hl_mem h L H). exact Hi. Qed.

Lemma use_index_total h l1 idx l2 : HW h -> HL h (l1 ++ idx :: l2) ->
  exists h', use_index h idx = Ok h' /\ HL h' (l1 ++ l2).
Proof.
  intros W H. set (L := l1 ++ idx :: l2) in *.
  assert (Hin : In idx L) by (apply in_or_app; right; left; reflexivity).
  destruct (HL_in_act h L idx H Hin) as [A U].
  pose proof (hl_ring h L H) as Hr. pose proof (hl_sorted h L H) as Hs. pose proof (sorted_nodup _ Hs) as Hnd.
  destruct (HL_in_act h L _ H (ring_next_in h l1 idx l2 Hr)) as [An _].
  destruct (HL_in_act h L _ H (ring_prev_in h l1 idx l2 Hr)) as [Ap _].
  set (n := nxt h idx) in *. set (p := prv h idx) in *.
  destruct (upd_total h idx mark_index A) as [h1 E1].
  destruct (upd_item_fl bl bl_pos h idx mark_index h1 W E1) as (_ & M1 & Hd1 & F1). pose proof (HW_meta bl _ _ W M1) as W1.
  assert (Ap1 : act h1 p) by (apply (act_meta h h1 p M1); exact Ap).
  destruct (upd_total h1 p (set_next n) Ap1) as [h2 E2].
  destruct (upd_item_fl bl bl_pos h1 p (set_next n) h2 W1 E2) as (_ & M2 & Hd2 & F2). pose proof (HW_meta bl _ _ W1 M2) as W2.
  assert (An2 : act h2 n) by (apply (act_meta h1 h2 n M2); apply (act_meta h h1 n M1); exact An).
  destruct (upd_total h2 n (set_prev p) An2) as [h3 E3].
  destruct (upd_item_fl bl bl_pos h2 n (set_prev p) h3 W2 E3) as (_ & M3 & Hd3 & F3).
  assert (Hfl1 : fl h1 idx = mark_index (fl h idx)) by (rewrite (F1 idx A), N.eqb_refl; reflexivity).
  assert (Hhead : h_head h3 = hd_error L) by (rewrite Hd3, Hd2, Hd1; exact (hl_head h L H)).
  assert (Euse : exists h', use_index h idx = Ok h' /\ (forall j, fl h' j = fl h3 j)
                            /\ h_head h' = (if match hd_error L with Some hd => hd =? idx | None => false end
                                             then (if n =? idx then None else Some n) else hd_error L)).
  { unfold use_index. rewrite (get_item_act h idx A). cbn [bind]. fold (ui h idx). rewrite U, E1. cbn [bind].
    rewrite (get_item_act h1 idx (proj2 (act_meta h h1 idx M1) A)). cbn [bind]. rewrite Hfl1.
    change (i_next (mark_index (fl h idx))) with n. change (i_prev (mark_index (fl h idx))) with p.
    rewrite E2. cbn [bind]. rewrite E3. cbn [bind]. rewrite Hhead.
    destruct (hd_error L) as [hd0|] eqn:Eh; [|destruct l1; discriminate].
    destruct (hd0 =? idx); eexists; (split; [reflexivity|]); (split; [intros j; reflexivity|]); [reflexivity|exact Hhead]. }
  destruct Euse as (h' & Euse & Hfl' & Hhd'). exists h'. split; [exact Euse|].
  destruct (use_index_fl bl bl_pos h idx h' W Euse) as (_ & _ & M & F).
  assert (Hmem : forall j, In j (l1 ++ l2) <-> In j L /\ j <> idx).
  { intros j. unfold L. rewrite !in_app_iff. cbn [In]. split.
    - intros Hj. split; [tauto|]. intros ->. apply NoDup_remove_2 in Hnd. apply Hnd. apply in_or_app. exact Hj.
    - intros [[Hj|[Hj|Hj]] Hne]; [left; exact Hj|congruence|right; exact Hj]. }
  assert (Hnp : forall j, In j (l1 ++ l2) ->
            nxt h' j = (if j =? p then n else nxt h j) /\ prv h' j = (if j =? n then p else prv h j)).
  { intros j Hj. apply Hmem in Hj as [Hj Hne]. destruct (HL_in_act h L j H Hj) as [Aj _].
    assert (Aj1 : act h1 j) by (apply (act_meta h h1 j M1); exact Aj).
    assert (Aj2 : act h2 j) by (apply (act_meta h1 h2 j M2); exact Aj1).
    assert (G3 : fl h3 j = if j =? n then set_prev p (fl h2 j) else fl h2 j).
    { rewrite (F3 j Aj2). destruct (N.eqb_spec j n) as [e|e]; [rewrite e; reflexivity|reflexivity]. }
    assert (G2 : fl h2 j = if j =? p then set_next n (fl h1 j) else fl h1 j).
    { rewrite (F2 j Aj1). destruct (N.eqb_spec j p) as [e|e]; [rewrite e; reflexivity|reflexivity]. }
    assert (G1 : fl h1 j = fl h j).
    { rewrite (F1 j Aj). assert ((j =? idx) = false) as -> by (apply N.eqb_neq; exact Hne). reflexivity. }
    unfold nxt, prv. rewrite Hfl', G3, G2, G1.
    destruct (j =? n), (j =? p); unfold set_next, set_prev; cbn [i_next i_prev]; split; reflexivity. }
  constructor.
  - exact (sorted_remove l1 l2 idx Hs).
  - intros j. rewrite Hmem. split.
    + intros [Hj Hne]. destruct (HL_in_act h L j H Hj) as [Aj Uj]. split; [apply (act_meta h h' j M); exact Aj|].
      destruct (F j Aj) as [-> _]. rewrite Uj. apply N.eqb_neq in Hne. rewrite Hne. reflexivity.
    + intros [Aj Uj]. apply (act_meta h h' j M) in Aj. destruct (F j Aj) as [Uj' _]. rewrite Uj' in Uj.
      apply orb_false_iff in Uj as [Hne Uj]. apply N.eqb_neq in Hne. split; [|exact Hne]. apply (hl_mem h L H). auto.
  - rewrite Hhd'. unfold L. pose proof (ring_next h l1 idx l2 Hr) as En. fold n in En.
    destruct l1 as [|x r1]; cbn [app hd_error hd] in *.
    + rewrite N.eqb_refl. destruct l2 as [|y r2]; [rewrite En, N.eqb_refl; reflexivity|].
      rewrite En. assert ((y =? idx) = false) as ->; [|reflexivity]. apply N.eqb_neq. intros ->.
      apply NoDup_cons_iff in Hnd as [Hx _]. apply Hx. left. reflexivity.
    + assert ((x =? idx) = false) as ->; [|reflexivity]. apply N.eqb_neq. intros ->.
      apply NoDup_cons_iff in Hnd as [Hx _]. apply Hx. apply in_or_app. right. left. reflexivity.
  - apply (ring_remove h h' l1 idx l2 Hs Hr); intros j Hj; apply (Hnp j Hj).
Qed.

Lemma vacant_next_spec h l1 idx l2 : HL h (l1 ++ idx :: l2) -> vacant_next h idx = Ok (hd_error l2).
Proof.
  intros H. set (L := l1 ++ idx :: l2) in *.
  assert (Hin : In idx L) by (apply in_or_app; right; left; reflexivity).
  destruct (HL_in_act h L idx H Hin) as [A U].
  pose proof (hl_ring h L H) as Hr. pose proof (sorted_nodup _ (hl_sorted h L H)) as Hnd.
  unfold vacant_next. rewrite (get_item_act h idx A). cbn [bind]. rewrite (hl_head h L H).
  fold (nxt h idx). rewrite (ring_next h l1 idx l2 Hr). unfold L in *.
  destruct l1 as [|x r1]; cbn [app hd_error hd] in *.
  - destruct l2 as [|y r2]; [rewrite N.eqb_refl; reflexivity|].
    assert ((y =? idx) = false) as ->; [|reflexivity]. apply N.eqb_neq. intros ->.
    apply NoDup_cons_iff in Hnd as [Hx _]. apply Hx. left. reflexivity.
  - destruct l2 as [|y r2]; [rewrite N.eqb_refl; reflexivity|].
    assert ((y =? x) = false) as ->; [|reflexivity]. apply N.eqb_neq. intros ->.
    apply NoDup_cons_iff in Hnd as [Hx _]. apply Hx. apply in_or_app. right. right. left. reflexivity.
Qed.

(* ---- push_block --------------------------------------------------------------------------------- *)
Lemma drop_loop_total : forall l1 l2 fuel h e, HW h -> HL h (l1 ++ l2) ->
  (forall x, In x l1 -> x < e) -> (forall x, In x l2 -> e <= x) -> (length l1 < fuel)%nat ->
  exists h', drop_loop fuel h e = Ok h' /\ HL h' l2 /\ hmeta h h'.
Proof.
  induction l1 as [|x l1 IH]; intros l2 fuel h e W H H1 H2 Hf; (destruct fuel as [|fuel]; [cbn in Hf; lia|]); cbn [drop_loop].
  - cbn [app] in H. rewrite (hl_head h l2 H). destruct l2 as [|y r]; cbn [hd_error].
    + exists h. split; [reflexivity|]. split; [exact H|apply hmeta_refl].
    + assert ((e <=? y) = true) as -> by (apply N.leb_le; apply H2; left; reflexivity).
      exists h. split; [reflexivity|]. split; [exact H|apply hmeta_refl].
  - rewrite (hl_head h _ H). cbn [app hd_error].
    assert ((e <=? x) = false) as -> by (apply N.leb_gt; apply H1; left; reflexivity).
    destruct (use_index_total h [] x (l1 ++ l2) W H) as (h1 & E & H'). rewrite E. cbn [bind]. cbn [app] in H'.
    pose proof (use_index_meta _ _ _ E) as M.
    destruct (IH l2 fuel h1 e (HW_meta bl _ _ W M) H' (fun y Hy => H1 y (or_intror Hy)) H2 ltac:(cbn [length] in Hf; lia)) as (h' & E' & H'' & M').
    exists h'. split; [exact E'|]. split; [exact H''|exact (hmeta_trans _ _ _ M M')].
Qed.

Definition fresh (j : N) : item :=
  {| i_next := j + 1; i_prev := (if j =? 0 then U32_MAX else j - 1); i_used_base := false; i_used_index := false |}.

Lemma reset_range_total : forall idxs h, HW h -> (forall i, In i idxs -> act h i) ->
  exists h', reset_range h idxs = Ok h' /\ hmeta h h' /\ h_head h' = h_head h /\
    forall j, act h j -> (In j idxs -> fl h' j = fresh j) /\ (~ In j idxs -> fl h' j = fl h j).
Proof.
  induction idxs as [|idx r IH]; intros h W Ha; cbn [reset_range].
  - exists h. split; [reflexivity|]. split; [apply hmeta_refl|]. split; [reflexivity|]. intros j _. split; [intros []|reflexivity].
  - pose proof (Ha idx (or_introl eq_refl)) as Ai. rewrite (offset_act h idx Ai). cbn [bind]. fold (fresh idx).
    set (h1 := with_items h (nset (idx mod h_cap h) (fresh idx) (h_items h))).
    assert (M1 : hmeta h h1) by (unfold hmeta, h1, with_items; cbn; auto).
    assert (F1 : forall j, act h j -> fl h1 j = if j =? idx then fresh idx else fl h j).
    { intros j Aj. unfold fl, h1, with_items. cbn [h_items h_cap]. destruct (j =? idx) eqn:Ej.
      - apply N.eqb_eq in Ej. subst j. rewrite ngss. reflexivity.
      - apply N.eqb_neq in Ej. rewrite ngso; [reflexivity|]. intros Em. apply Ej. exact (act_mod_inj bl bl_pos h j idx W Aj Ai Em). }
    destruct (IH h1 (HW_meta bl _ _ W M1)) as (h' & E & M2 & Hd & F2).
    { intros i Hi. apply (act_meta h h1 i M1). apply Ha. right. exact Hi. }
    exists h'. split; [exact E|]. split; [exact (hmeta_trans _ _ _ M1 M2)|]. split; [rewrite Hd; reflexivity|].
    intros j Aj. destruct (F2 j (proj2 (act_meta h h1 j M1) Aj)) as [G1 G2]. split.
    + intros [<-|Hin]; [|exact (G1 Hin)]. destruct (in_dec N.eq_dec idx r) as [Hi|Hi]; [exact (G1 Hi)|].
      rewrite (G2 Hi), (F1 idx Aj), N.eqb_refl. reflexivity.
    + intros Hn. cbn [In] in Hn. rewrite (G2 ltac:(tauto)), (F1 j Aj).
      assert ((j =? idx) = false) as -> by (apply N.eqb_neq; intros ->; tauto). reflexivity.
Qed.

Lemma upd_set_next h i x h' : HW h -> upd_item h i (set_next x) = Ok h' ->
  hmeta h h' /\ h_head h' = h_head h /\
  forall j, act h j -> nxt h' j = (if j =? i then x else nxt h j) /\ prv h' j = prv h j /\ ui h' j = ui h j.
Proof.
  intros W E. destruct (upd_item_fl bl bl_pos h i _ h' W E) as (_ & M & Hd & F). split; [exact M|]. split; [exact Hd|].
  intros j Aj. unfold nxt, prv, ui. rewrite (F j Aj). destruct (N.eqb_spec j i) as [e|e]; [rewrite e; repeat split; reflexivity|repeat split; reflexivity].
Qed.

Lemma upd_set_prev h i x h' : HW h -> upd_item h i (set_prev x) = Ok h' ->
  hmeta h h' /\ h_head h' = h_head h /\
  forall j, act h j -> prv h' j = (if j =? i then x else prv h j) /\ nxt h' j = nxt h j /\ ui h' j = ui h j.
Proof.
  intros W E. destruct (upd_item_fl bl bl_pos h i _ h' W E) as (_ & M & Hd & F). split; [exact M|]. split; [exact Hd|].
  intros j Aj. unfold nxt, prv, ui. rewrite (F j Aj). destruct (N.eqb_spec j i) as [e|e]; [rewrite e; repeat split; reflexivity|repeat split; reflexivity].
Qed.

Lemma links_nseq h : forall k a, (forall i, In i (removelast (nseq a k)) -> nxt h i = i + 1) ->
  (forall i, In i (tl (nseq a k)) -> prv h i = i - 1) -> links h (nseq a k).
Proof.
  induction k as [|k IH]; intros a Hn Hp; [exact I|]. destruct k as [|k]; [exact I|].
  change (nseq a (S (S k))) with (a :: N.succ a :: nseq (N.succ (N.succ a)) k) in *. split; [|split].
  - rewrite Hn; [lia|]. left. reflexivity.
  - rewrite Hp; [lia|]. left. reflexivity.
  - apply (IH (N.succ a)).
    + intros i Hi. apply Hn. change (removelast (a :: N.succ a :: nseq (N.succ (N.succ a)) k)) with (a :: removelast (nseq (N.succ a) (S k))). right. exact Hi.
    + intros i Hi. apply Hp. cbn [tl]. right. exact Hi.
Qed.

Lemma last_nseq : forall k a d, last (nseq a (S k)) d = a + N.of_nat k.
Proof. intros k a d. rewrite nseq_snoc. apply last_last. Qed.

(* the window after one more block: members of the old list that stay, then the new block *)
Lemma HL_extend h1 h' l2 : HW h1 -> HL h1 l2 ->
  let e := (h_nblocks h1 + 1 - h_nfb h1) * bl in
  let old := h_nblocks h1 * bl in
  let NB := nseq old (N.to_nat bl) in
  (forall x, In x l2 -> e <= x) ->
  h_cap h' = h_cap h1 -> h_block_len h' = bl -> h_nfb h' = h_nfb h1 -> h_nblocks h' = h_nblocks h1 + 1 ->
  (forall j, act h' j -> ui h' j = if old <=? j then false else ui h1 j) ->
  h_head h' = hd_error (l2 ++ NB) -> ring h' (l2 ++ NB) -> HL h' (l2 ++ NB).
Proof.
  intros W H e old NB Hge C1 C2 C3 C4 Hui Hhd Hring. destruct W as (Wb & Wc & Wd).
  assert (Hact' : forall j, act h' j <-> e <= j < old + bl).
  { intros j. unfold act, active_index_start, active_index_end, active_block_start. rewrite C2, C3, C4. unfold e, old. lia. }
  assert (Hact1 : forall j, act h1 j <-> (h_nblocks h1 - h_nfb h1) * bl <= j < old).
  { intros j. unfold act, active_index_start, active_index_end, active_block_start. rewrite Wb. unfold old. lia. }
  assert (Hstart : (h_nblocks h1 - h_nfb h1) * bl <= e) by (unfold e; apply N.mul_le_mono_r; lia).
  assert (Heold : e <= old) by (unfold e, old; apply N.mul_le_mono_r; lia).
  assert (HNB : forall j, In j NB <-> old <= j < old + bl) by (intros j; unfold NB; rewrite nseq_in_c, N2Nat.id; reflexivity).
  constructor.
  - apply sorted_app_intro; [exact (hl_sorted h1 l2 H)|apply nseq_sorted|].
    intros x y Hx Hy. apply HNB in Hy. destruct (HL_in_act h1 l2 x H Hx) as [Ax _]. apply Hact1 in Ax. lia.
  - intros j. rewrite in_app_iff, HNB, Hact'. split.
    + intros [Hj|Hj].
      * destruct (HL_in_act h1 l2 j H Hj) as [Aj Uj]. pose proof (Hge j Hj). apply Hact1 in Aj. split; [lia|].
        rewrite Hui by (apply Hact'; lia). assert ((old <=? j) = false) as -> by (apply N.leb_gt; lia). exact Uj.
      * split; [lia|]. rewrite Hui by (apply Hact'; lia). assert ((old <=? j) = true) as -> by (apply N.leb_le; lia). reflexivity.
    + intros [Aj Uj]. rewrite Hui in Uj by (apply Hact'; exact Aj). destruct (old <=? j) eqn:Eo.
      * apply N.leb_le in Eo. right. lia.
      * apply N.leb_gt in Eo. left. apply (hl_mem h1 l2 H). split; [apply Hact1; lia|exact Uj].
  - exact Hhd.
  - exact Hring.
Qed.

Lemma push_block_total h L : HW h -> HL h L -> (U32_MAX - h_block_len h <? num_elements h) = false ->
  exists h' L', push_block h = Ok h' /\ HL h' L'.
Proof.
  intros W H Hsc. destruct W as (Wb & Wc & Wd). assert (W : HW h) by (split; [exact Wb|split; [exact Wc|exact Wd]]).
  set (nb := h_nblocks h) in *. set (nfb := h_nfb h) in *. set (e := (nb + 1 - nfb) * bl).
  assert (S1 : exists h1 l2,
             match dropped_block h with
             | Some closed => drop_loop (S (N.to_nat (h_block_len h))) h ((closed + 1) * h_block_len h)
             | None => Ok h
             end = Ok h1 /\ HL h1 l2 /\ hmeta h h1 /\ (forall x, In x l2 -> e <= x)).
  { unfold dropped_block. destruct (h_cap h <=? num_elements h) eqn:Ec.
    - apply N.leb_le in Ec. unfold num_elements in Ec. rewrite Wc, Wb in Ec. fold nb nfb in Ec.
      assert (Hge : nfb <= nb) by (rewrite (N.mul_comm nb) in Ec; apply (N.mul_le_mono_pos_l _ _ bl bl_pos); exact Ec).
      unfold active_block_start. fold nb nfb. rewrite Wb.
      replace ((nb - nfb + 1) * bl) with e by (unfold e; f_equal; lia).
      destruct (sorted_split e L (hl_sorted h L H)) as (l1 & l2 & EL & H1 & H2). subst L.
      assert (Hlen : (length l1 <= N.to_nat bl)%nat).
      { destruct (sorted_app_inv _ _ (hl_sorted h _ H)) as (Ss1 & _ & _).
        apply (range_length l1 ((nb - nfb) * bl)); [exact (sorted_nodup _ Ss1)|].
        intros x Hx. destruct (HL_in_act h _ x H (in_or_app _ _ _ (or_introl Hx))) as [[Ax _] _].
        unfold active_index_start, active_block_start in Ax. rewrite Wb in Ax. fold nb nfb in Ax.
        pose proof (H1 x Hx) as Hxe. unfold e in Hxe. rewrite N2Nat.id.
        replace (nb + 1 - nfb) with ((nb - nfb) + 1) in Hxe by lia. lia. }
      destruct (drop_loop_total l1 l2 (S (N.to_nat bl)) h e W H H1 H2 ltac:(lia)) as (h1 & E1 & H1' & M1).
      exists h1, l2. split; [exact E1|]. split; [exact H1'|]. split; [exact M1|exact H2].
    - apply N.leb_gt in Ec. unfold num_elements in Ec. rewrite Wc, Wb in Ec. fold nb nfb in Ec.
      exists h, L. split; [reflexivity|]. split; [exact H|]. split; [apply hmeta_refl|].
      intros x _. assert (nb < nfb) by (rewrite (N.mul_comm nb) in Ec; apply (N.mul_lt_mono_pos_l bl); assumption).
      unfold e. replace (nb + 1 - nfb) with 0 by lia. lia. }
  destruct S1 as (h1 & l2 & E1 & H1 & M1 & Hge).
  unfold push_block. rewrite Hsc, E1. cbn [bind].
  destruct M1 as (Mc & Mb & Mf & Mn). pose proof (HW_meta bl h h1 W (conj Mc (conj Mb (conj Mf Mn)))) as W1.
  set (h2 := {| h_items := h_items h1; h_cap := h_cap h1; h_block_len := h_block_len h1; h_nfb := h_nfb h1;
                h_nblocks := h_nblocks h1 + 1; h_head := h_head h1 |}).
  assert (Hbl1 : h_block_len h1 = bl) by congruence.
  assert (Hold : num_elements h1 = nb * bl) by (unfold num_elements; rewrite Mn, Hbl1; reflexivity).
  set (old := nb * bl) in *.
  assert (W2 : HW h2) by (destruct W1 as (A1 & A2 & A3); unfold h2; split; [exact A1|split; [exact A2|exact A3]]).
  assert (Hact2 : forall j, act h2 j <-> e <= j < old + bl).
  { intros j. unfold act, active_index_start, active_index_end, active_block_start, h2. cbn [h_nblocks h_nfb h_block_len].
    rewrite Mn, Mf, Hbl1. fold nb nfb. unfold e, old. lia. }
  assert (Hact1 : forall j, act h1 j <-> (nb - nfb) * bl <= j < old).
  { intros j. unfold act, active_index_start, active_index_end, active_block_start. rewrite Mn, Mf, Hbl1. fold nb nfb. unfold old. lia. }
  assert (Hstart : (nb - nfb) * bl <= e) by (unfold e; apply N.mul_le_mono_r; lia).
  assert (Hfl2 : forall j, fl h2 j = fl h1 j) by (intros j; reflexivity).
  change (h_block_len h2) with (h_block_len h1). rewrite Hbl1, Hold.
  set (NB := nseq old (N.to_nat bl)).
  assert (HNB : forall j, In j NB <-> old <= j < old + bl) by (intros j; unfold NB; rewrite nseq_in_c, N2Nat.id; reflexivity).
  destruct (reset_range_total NB h2 W2) as (h3 & E3 & M3 & Hd3 & F3).
  { intros i Hi. apply Hact2. apply HNB in Hi. pose proof (N.mul_le_mono_r (nb + 1 - nfb) nb bl ltac:(lia)). unfold e, old. lia. }
  rewrite E3. cbn [bind]. pose proof (HW_meta bl h2 h3 W2 M3) as W3.
  assert (Hact3 : forall j, act h3 j <-> act h2 j) by (intros j; apply act_meta; exact M3).
  assert (Hh3 : h_head h3 = hd_error l2) by (rewrite Hd3; exact (hl_head h1 l2 H1)).
  assert (Hl2 : forall x, In x l2 -> act h2 x /\ ~ In x NB /\ x < old).
  { intros x Hx. destruct (HL_in_act h1 l2 x H1 Hx) as [Ax _]. apply Hact1 in Ax. pose proof (Hge x Hx). split; [apply Hact2; lia|].
    split; [rewrite HNB; lia|lia]. }
  assert (Hn3 : forall j, act h2 j -> (In j NB -> nxt h3 j = j + 1 /\ prv h3 j = (if j =? 0 then U32_MAX else j - 1) /\ ui h3 j = false)
                                   /\ (~ In j NB -> nxt h3 j = nxt h1 j /\ prv h3 j = prv h1 j /\ ui h3 j = ui h1 j)).
  { intros j Aj. destruct (F3 j Aj) as [G1 G2]. unfold nxt, prv, ui. split; intros Hj.
    - rewrite (G1 Hj). repeat split; reflexivity.
    - rewrite (G2 Hj), Hfl2. repeat split; reflexivity. }
  assert (Hk : exists k, N.to_nat bl = S k) by (destruct (N.to_nat bl) eqn:Ek; [lia|eauto]). destruct Hk as [k Hk].
  assert (Hlast : old + bl - 1 = old + N.of_nat k) by lia.
  assert (Aold : act h2 old) by (apply Hact2; pose proof (N.mul_le_mono_r (nb + 1 - nfb) nb bl ltac:(lia)); unfold e, old; lia).
  assert (Anew : act h2 (old + bl - 1)) by (apply Hact2; pose proof (N.mul_le_mono_r (nb + 1 - nfb) nb bl ltac:(lia)); unfold e, old; lia).
  assert (HNBs : NB = old :: tl NB /\ last (tl NB) old = old + bl - 1).
  { unfold NB. rewrite Hk. cbn [nseq tl]. split; [reflexivity|]. rewrite Hlast. rewrite <- (last_nseq k old old). cbn [nseq].
    symmetry. apply last_cons_c. }
  destruct HNBs as [ENB ElastNB].
  assert (ENBx : NB = nseq (h_nblocks h1 * bl) (N.to_nat bl)) by (unfold NB, old, nb; rewrite Mn; reflexivity).
  assert (HNBnd : NoDup NB) by (apply sorted_nodup; apply nseq_sorted).
  rewrite Hh3. destruct l2 as [|hd r].
  - (* the list is empty: the new block becomes the ring *)
    cbn [hd_error].
    destruct (upd_total h3 old (set_prev (old + bl - 1)) (proj2 (Hact3 _) Aold)) as [h4 E4].
    destruct (upd_set_prev h3 old _ h4 W3 E4) as (M4 & Hd4 & F4). pose proof (HW_meta bl _ _ W3 M4) as W4.
    destruct (upd_total h4 (old + bl - 1) (set_next old)) as [h5 E5]. { apply (act_meta h3 h4 _ M4). apply Hact3. exact Anew. }
    destruct (upd_set_next h4 (old + bl - 1) _ h5 W4 E5) as (M5 & Hd5 & F5).
    rewrite E4. cbn [bind]. rewrite E5. cbn [bind]. eexists. exists ([] ++ NB). split; [reflexivity|].
    assert (G : forall j, act h2 j -> nxt h5 j = (if j =? old + bl - 1 then old else nxt h3 j)
                                     /\ prv h5 j = (if j =? old then old + bl - 1 else prv h3 j) /\ ui h5 j = ui h3 j).
    { intros j Aj. apply Hact3 in Aj. destruct (F4 j Aj) as (P4 & N4 & U4). apply (act_meta h3 h4 j M4) in Aj.
      destruct (F5 j Aj) as (N5 & P5 & U5). rewrite N5, P5, U5, P4, N4, U4. repeat split; reflexivity. }
    rewrite ENBx. apply (HL_extend h1 _ [] W1 H1).
    + intros x [].
    + cbn [with_head h_cap]. destruct M5 as (A & _), M4 as (B & _), M3 as (C & _). rewrite A, B, C. reflexivity.
    + cbn [with_head h_block_len]. destruct M5 as (_ & A & _), M4 as (_ & B & _), M3 as (_ & C & _). rewrite A, B, C. exact Hbl1.
    + cbn [with_head h_nfb]. destruct M5 as (_ & _ & A & _), M4 as (_ & _ & B & _), M3 as (_ & _ & C & _). rewrite A, B, C. reflexivity.
    + cbn [with_head h_nblocks]. destruct M5 as (_ & _ & _ & A), M4 as (_ & _ & _ & B), M3 as (_ & _ & _ & C). rewrite A, B, C. reflexivity.
    + intros j Aj. assert (Aj2 : act h2 j).
      { apply Hact3. apply (act_meta h3 h4 j M4). apply (act_meta h4 h5 j M5). exact Aj. }
      change (ui (with_head h5 (Some old)) j) with (ui h5 j). destruct (G j Aj2) as (_ & _ & ->).
      rewrite Mn. fold nb. fold old. destruct (Hn3 j Aj2) as [Y N']. destruct (old <=? j) eqn:Eo.
      * apply N.leb_le in Eo. apply Y. apply HNB. apply Hact2 in Aj2. lia.
      * apply N.leb_gt in Eo. apply N'. rewrite HNB. lia.
    + cbn [with_head h_head]. rewrite Mn. fold nb. fold old. fold NB. cbn [app]. rewrite ENB. reflexivity.
    + rewrite Mn. fold nb. fold old. fold NB. cbn [app]. rewrite ENB. cbn [ring].
      change (nxt (with_head h5 (Some old))) with (nxt h5). change (prv (with_head h5 (Some old))) with (prv h5).
      rewrite ElastNB. split; [|split].
      * assert (Hlk : links h5 NB); [|rewrite ENB in Hlk; apply (links_frame h5 (with_head h5 (Some old)) _ (fun i _ => eq_refl) (fun i _ => eq_refl) Hlk)].
        apply links_nseq.
        -- intros i Hi. pose proof (in_removelast _ _ Hi) as Hi'. fold NB in Hi'. apply HNB in Hi' as Hr.
           destruct (G i ltac:(apply Hact2; apply Hact2 in Aold; lia)) as (-> & _ & _).
           assert ((i =? old + bl - 1) = false) as ->.
           { apply N.eqb_neq. intros ->. apply (removelast_not_last' NB old HNBnd ltac:(rewrite ENB; discriminate)).
             rewrite ENB at 1. rewrite last_cons_c, ElastNB. exact Hi. }
           destruct (Hn3 i ltac:(apply Hact2; apply Hact2 in Aold; lia)) as [Y _]. apply Y. exact Hi'.
        -- intros i Hi. fold NB in Hi. assert (Hi' : In i NB) by (rewrite ENB; right; exact Hi). apply HNB in Hi' as Hr.
           destruct (G i ltac:(apply Hact2; apply Hact2 in Aold; lia)) as (_ & -> & _).
           assert ((i =? old) = false) as ->.
           { apply N.eqb_neq. intros ->. rewrite ENB in HNBnd. apply NoDup_cons_iff in HNBnd as [Hx _]. exact (Hx Hi). }
           destruct (Hn3 i ltac:(apply Hact2; apply Hact2 in Aold; lia)) as [Y _]. destruct (Y Hi') as (_ & -> & _).
           assert (i <> old) by (intros ->; rewrite ENB in HNBnd; apply NoDup_cons_iff in HNBnd as [Hx _]; exact (Hx Hi)).
           assert ((i =? 0) = false) as -> by (apply N.eqb_neq; lia). reflexivity.
      * destruct (G _ Anew) as (-> & _ & _). rewrite N.eqb_refl. reflexivity.
      * destruct (G _ Aold) as (_ & -> & _). rewrite N.eqb_refl. reflexivity.
  - (* the new block is appended behind the tail *)
    cbn [hd_error].
    destruct (Hl2 hd (or_introl eq_refl)) as (Ahd & HdNB & Hhdlt).
    rewrite (get_item_act h3 hd (proj2 (Hact3 _) Ahd)). cbn [bind].
    destruct (Hn3 hd Ahd) as [_ Nhd]. destruct (Nhd HdNB) as (_ & Ptl & _). fold (prv h3 hd). rewrite Ptl.
    pose proof (ring_prev h1 [] hd r (hl_ring h1 _ H1)) as Etl. cbn [app] in Etl. rewrite Etl.
    set (tail := last r hd).
    assert (Htl : In tail (hd :: r)) by apply last_in.
    destruct (Hl2 tail Htl) as (Atl & TlNB & Htllt).
    destruct (upd_total h3 old (set_prev tail) (proj2 (Hact3 _) Aold)) as [h4 E4].
    destruct (upd_set_prev h3 old _ h4 W3 E4) as (M4 & Hd4 & F4). pose proof (HW_meta bl _ _ W3 M4) as W4.
    destruct (upd_total h4 tail (set_next old)) as [h5 E5]. { apply (act_meta h3 h4 _ M4). apply Hact3. exact Atl. }
    destruct (upd_set_next h4 tail _ h5 W4 E5) as (M5 & Hd5 & F5). pose proof (HW_meta bl _ _ W4 M5) as W5.
    destruct (upd_total h5 (old + bl - 1) (set_next hd)) as [h6 E6].
    { apply (act_meta h4 h5 _ M5). apply (act_meta h3 h4 _ M4). apply Hact3. exact Anew. }
    destruct (upd_set_next h5 (old + bl - 1) _ h6 W5 E6) as (M6 & Hd6 & F6). pose proof (HW_meta bl _ _ W5 M6) as W6.
    destruct (upd_total h6 hd (set_prev (old + bl - 1))) as [h7 E7].
    { apply (act_meta h5 h6 _ M6). apply (act_meta h4 h5 _ M5). apply (act_meta h3 h4 _ M4). apply Hact3. exact Ahd. }
    destruct (upd_set_prev h6 hd _ h7 W6 E7) as (M7 & Hd7 & F7).
    rewrite E4. cbn [bind]. rewrite E5. cbn [bind]. rewrite E6. cbn [bind]. exists h7, ((hd :: r) ++ NB). split; [exact E7|].
    assert (G : forall j, act h2 j ->
                 nxt h7 j = (if j =? old + bl - 1 then hd else if j =? tail then old else nxt h3 j)
                 /\ prv h7 j = (if j =? hd then old + bl - 1 else if j =? old then tail else prv h3 j) /\ ui h7 j = ui h3 j).
    { intros j Aj. apply Hact3 in Aj. destruct (F4 j Aj) as (P4 & N4 & U4). apply (act_meta h3 h4 j M4) in Aj.
      destruct (F5 j Aj) as (N5 & P5 & U5). apply (act_meta h4 h5 j M5) in Aj.
      destruct (F6 j Aj) as (N6 & P6 & U6). apply (act_meta h5 h6 j M6) in Aj.
      destruct (F7 j Aj) as (P7 & N7 & U7). rewrite N7, P7, U7, N6, P6, U6, N5, P5, U5, P4, N4, U4. repeat split; reflexivity. }
    assert (Hmeta : hmeta h3 h7) by exact (hmeta_trans _ _ _ (hmeta_trans _ _ _ (hmeta_trans _ _ _ M4 M5) M6) M7).
    rewrite ENBx. apply (HL_extend h1 h7 (hd :: r) W1 H1).
    + intros x Hx. rewrite Mn, Mf. exact (Hge x Hx).
    + destruct Hmeta as (A & _), M3 as (C & _). rewrite A, C. reflexivity.
    + destruct Hmeta as (_ & A & _), M3 as (_ & C & _). rewrite A, C. exact Hbl1.
    + destruct Hmeta as (_ & _ & A & _), M3 as (_ & _ & C & _). rewrite A, C. reflexivity.
    + destruct Hmeta as (_ & _ & _ & A), M3 as (_ & _ & _ & C). rewrite A, C. reflexivity.
    + intros j Aj. assert (Aj2 : act h2 j) by (apply Hact3; apply (act_meta h3 h7 j Hmeta); exact Aj).
      destruct (G j Aj2) as (_ & _ & ->).
      rewrite Mn. fold nb. fold old. destruct (Hn3 j Aj2) as [Y N']. destruct (old <=? j) eqn:Eo.
      * apply N.leb_le in Eo. apply Y. apply HNB. apply Hact2 in Aj2. lia.
      * apply N.leb_gt in Eo. apply N'. rewrite HNB. lia.
    + rewrite Hd7, Hd6, Hd5, Hd4, Hh3. reflexivity.
    + rewrite Mn. fold nb. fold old. fold NB.
      assert (Hr1 : ring h1 (hd :: r)) by exact (hl_ring h1 _ H1). destruct Hr1 as (Hlk1 & _ & _).
      assert (Hnd2 : NoDup (hd :: r)) by (apply sorted_nodup; exact (hl_sorted h1 _ H1)).
      change ((hd :: r) ++ NB) with (hd :: (r ++ NB)). cbn [ring].
      assert (Elast : last (r ++ NB) hd = old + bl - 1).
      { rewrite ENB, last_app_cons. exact ElastNB. }
      rewrite Elast. split; [|split].
      * change (hd :: r ++ NB) with ((hd :: r) ++ NB). rewrite ENB.
        apply (links_app2 h7 old (tl NB) hd (hd :: r) ltac:(discriminate)). rewrite last_cons_c. fold tail. split; [|split; [|split]].
        -- apply (links_frame h1 h7); [| |exact Hlk1].
           ++ intros i Hi. pose proof (in_removelast _ _ Hi) as Hi'. destruct (Hl2 i Hi') as (Ai & INB & Hilt).
              destruct (G i Ai) as (-> & _ & _).
              assert ((i =? old + bl - 1) = false) as -> by (apply N.eqb_neq; lia).
              assert ((i =? tail) = false) as ->.
              { apply N.eqb_neq. intros ->. apply (removelast_not_last' (hd :: r) hd Hnd2 ltac:(discriminate)). rewrite last_cons_c. exact Hi. }
              destruct (Hn3 i Ai) as [_ N']. apply N'. exact INB.
           ++ intros i Hi. cbn [tl] in Hi. destruct (Hl2 i (or_intror Hi)) as (Ai & INB & Hilt).
              destruct (G i Ai) as (_ & -> & _).
              assert ((i =? hd) = false) as -> by (apply N.eqb_neq; intros ->; apply NoDup_cons_iff in Hnd2 as [Hx _]; exact (Hx Hi)).
              assert ((i =? old) = false) as -> by (apply N.eqb_neq; lia).
              destruct (Hn3 i Ai) as [_ N']. apply N'. exact INB.
        -- destruct (G tail Atl) as (-> & _ & _). assert ((tail =? old + bl - 1) = false) as -> by (apply N.eqb_neq; lia).
           rewrite N.eqb_refl. reflexivity.
        -- destruct (G old Aold) as (_ & -> & _). assert ((old =? hd) = false) as -> by (apply N.eqb_neq; lia).
           rewrite N.eqb_refl. reflexivity.
        -- assert (Hlk : links h7 NB); [|rewrite ENB in Hlk; exact Hlk].
           apply links_nseq.
           ++ intros i Hi. pose proof (in_removelast _ _ Hi) as Hi'. fold NB in Hi'. apply HNB in Hi' as Hr.
              assert (Ai : act h2 i) by (apply Hact2; apply Hact2 in Aold; lia).
              destruct (G i Ai) as (-> & _ & _).
              assert ((i =? old + bl - 1) = false) as ->.
              { apply N.eqb_neq. intros ->. apply (removelast_not_last' NB old HNBnd ltac:(rewrite ENB; discriminate)).
                rewrite ENB at 1. rewrite last_cons_c, ElastNB. exact Hi. }
              assert ((i =? tail) = false) as -> by (apply N.eqb_neq; lia).
              destruct (Hn3 i Ai) as [Y _]. apply Y. exact Hi'.
           ++ intros i Hi. fold NB in Hi. assert (Hi' : In i NB) by (rewrite ENB; right; exact Hi). apply HNB in Hi' as Hr.
              assert (Ai : act h2 i) by (apply Hact2; apply Hact2 in Aold; lia).
              destruct (G i Ai) as (_ & -> & _).
              assert (i <> old) by (intros ->; rewrite ENB in HNBnd; apply NoDup_cons_iff in HNBnd as [Hx _]; exact (Hx Hi)).
              assert ((i =? hd) = false) as -> by (apply N.eqb_neq; lia).
              assert ((i =? old) = false) as -> by (apply N.eqb_neq; assumption).
              destruct (Hn3 i Ai) as [Y _]. destruct (Y Hi') as (_ & -> & _).
              assert ((i =? 0) = false) as -> by (apply N.eqb_neq; lia). reflexivity.
      * destruct (G _ Anew) as (-> & _ & _). rewrite N.eqb_refl. reflexivity.
      * destruct (G hd Ahd) as (_ & -> & _). rewrite N.eqb_refl. reflexivity.
Qed.

End HLs.
