(* CliProps.v — C16: the line filter of daacfind (Model/Cli.v) prints exactly the lines that contain
   an occurrence of a pattern, unchanged after their prefixes, in order. *)
From DV Require Import Model.Base Model.Nfa Model.BwBuild Model.BwSearch Model.Api Model.Spec
     Model.Cert Model.Cli Proofs.GenAC Proofs.BwCert Theory.SpecAdequacy.
From Coq Require Import ZifyN ZifyNat ZifyBool.
Local Open Scope N_scope.

Definition is_nil_t {T} (l : list T) : bool := match l with [] => true | _ => false end.
Definition ueqb (a b : unit) : bool := true.
Lemma ueqb_sound a b : ueqb a b = true -> a = b.
Proof. destruct a, b. reflexivity. Qed.

Section Cli.
Variable A : bw_automaton unit.
Variable pvs : list (list N * unit).
Hypothesis CERT : bw_cert_ok ueqb A pvs = true.

(* "the line contains at least one pattern occurrence" *)
Definition has_occ (line : list N) : bool := negb (is_nil_t (spec_overlapping unit pvs line)).

Lemma has_occ_iff line :
  has_occ line = true <-> exists s e v, occ_at unit pvs line s e v.
Proof.
  unfold has_occ. split.
  - destruct (spec_overlapping unit pvs line) as [|[[s e] v] r] eqn:E; [discriminate|]. intros _.
    exists s, e, v. apply spec_overlapping_adequate. rewrite E. left. reflexivity.
  - intros (s & e & v & H). apply spec_overlapping_adequate in H.
    destruct (spec_overlapping unit pvs line); [destruct H|reflexivity].
Qed.

Lemma first_end_none_iff h from cands :
  first_end unit pvs h from cands = None <-> forall e, In e cands -> ends_at_from unit pvs h from e = [].
Proof.
  induction cands as [|e r IH]; cbn [first_end].
  - split; [intros _ e []|reflexivity].
  - destruct (ends_at_from unit pvs h from e) eqn:E.
    + rewrite IH. split.
      * intros H e' [<-|Hin]; [exact E|apply H; exact Hin].
      * intros H e' Hin. apply H. right. exact Hin.
    + split; [discriminate|]. intros H. specialize (H e (or_introl eq_refl)). congruence.
Qed.

Lemma no_occ_first_end line :
  has_occ line = false <-> first_end unit pvs line 0 (seq 1 (length line)) = None.
Proof.
  rewrite first_end_none_iff. unfold has_occ, spec_overlapping. split.
  - intros H e He. destruct (flat_map (ends_at unit pvs line) (seq 1 (length line))) eqn:E; [|discriminate].
    destruct (ends_at_from unit pvs line 0 e) eqn:E2; [reflexivity|]. exfalso.
    assert (In p (flat_map (ends_at unit pvs line) (seq 1 (length line)))) as Hin.
    { apply in_flat_map. exists e. split; [exact He|]. unfold ends_at. rewrite E2. left. reflexivity. }
    rewrite E in Hin. destruct Hin.
  - intros H. assert (flat_map (ends_at unit pvs line) (seq 1 (length line)) = []) as ->; [|reflexivity].
    apply flat_map_nil. intros e He. apply H. exact He.
Qed.

(* the colourless arm of find_and_output *)
Theorem find_and_output_plain prefix line : Forall (fun b => b < 256) line ->
  find_and_output A false prefix line
  = Ok (if has_occ line then Some (prefix ++ line ++ [10]) else None).
Proof.
  intros Hb. unfold find_and_output. cbn [negb].
  destruct (find_scan_spec unit ueqb ueqb_sound A pvs CERT line [] line [] ROOT 0 eq_refl Hb eq_refl)
    as (r & it' & Hr & Hm); [cbn; lia|].
  unfold find_next, find_init, src_of. cbn [f_src s_rest s_pulled f_ticks]. cbn [length Nat.add] in Hr, Hm.
  rewrite Hr. cbn [bind].
  destruct (has_occ line) eqn:E.
  - destruct (first_end unit pvs line 0 (seq 1 (length line))) as [x|] eqn:Ef.
    + destruct Hm as (m & -> & _). reflexivity.
    + apply no_occ_first_end in Ef. congruence.
  - apply no_occ_first_end in E. rewrite E in Hm. destruct Hm as [-> _]. reflexivity.
Qed.

(* the whole line loop without colour: exactly the lines with an occurrence, each after its
   prefix, unchanged, LF-terminated, in input order *)
Fixpoint expected_lines (fl : cli_flags) (fname : option (list N)) (i : nat) (ls : list (list N)) : list N :=
  match ls with
  | [] => []
  | l :: r => (if has_occ l then line_prefix fl fname i ++ l ++ [10] else []) ++ expected_lines fl fname (S i) r
  end.

Theorem run_lines_plain fl fname : cf_color fl = false -> forall ls i,
  Forall (Forall (fun b => b < 256)) ls ->
  run_lines A fl fname i ls = Ok (expected_lines fl fname i ls).
Proof.
  intros Hc. induction ls as [|l r IH]; intros i Hb; [reflexivity|].
  inversion Hb as [|? ? Hl Hr]; subst. cbn [run_lines expected_lines]. rewrite Hc.
  rewrite (find_and_output_plain _ l Hl). cbn [bind]. rewrite (IH (S i) Hr). cbn [bind].
  destruct (has_occ l); reflexivity.
Qed.

(* the colour arm prints something for exactly the same lines (what it prints between the escape
   sequences is compared with the real binaries by the correspondence check) *)
Lemma flat_map_nil_iff {X Y} (f : X -> list Y) l : flat_map f l = [] <-> forall x, In x l -> f x = [].
Proof.
  induction l as [|a l IH]; cbn [flat_map].
  - split; [intros _ x []|reflexivity].
  - split.
    + intros H. apply app_eq_nil in H as [H1 H2]. intros x [<-|Hx]; [exact H1|]. apply IH; assumption.
    + intros H. rewrite (H a (or_introl eq_refl)). cbn [app]. apply IH. intros x Hx. apply H. right. exact Hx.
Qed.

Lemma nosuffix_nil_iff line : spec_nosuffix unit pvs line = [] <-> has_occ line = false.
Proof.
  unfold has_occ, spec_nosuffix, spec_overlapping.
  destruct (flat_map (ends_at unit pvs line) (seq 1 (length line))) eqn:E.
  - split; [reflexivity|]. intros _. apply flat_map_nil_iff. intros e He.
    assert (ends_at unit pvs line e = []) as ->; [|reflexivity].
    revert e He. apply flat_map_nil_iff. exact E.
  - split; [|discriminate]. intros H. exfalso.
    assert (forall e, In e (seq 1 (length line)) -> ends_at unit pvs line e = []) as Hall.
    { intros e He. pose proof (proj1 (flat_map_nil_iff _ _) H e He) as H1. cbn beta in H1.
      destruct (ends_at unit pvs line e); [reflexivity|cbn in H1; discriminate]. }
    apply flat_map_nil_iff in Hall. congruence.
Qed.

Theorem find_and_output_colour_lines prefix line : Forall (fun b => b < 256) line ->
  match find_and_output A true prefix line with
  | Ok None => has_occ line = false
  | _ => has_occ line = true     (* a line is printed (or a slice panics: not UTF-8 text) *)
  end.
Proof.
  intros Hb. unfold find_and_output. cbn [negb].
  rewrite (bw_nosuffix_correct_lemma unit ueqb ueqb_sound A pvs CERT line Hb). cbn [bind].
  assert (Hocc : spec_nosuffix unit pvs line <> [] -> has_occ line = true).
  { intros H. destruct (has_occ line) eqn:E; [reflexivity|]. apply nosuffix_nil_iff in E. contradiction. }
  assert (Hex : existsb (fun m => (length line <? snd (fst m))%nat) (spec_nosuffix unit pvs line) = false).
  { destruct (existsb _ _) eqn:E; [|reflexivity]. apply existsb_exists in E as [[[s e] v] [Hin Hlt]].
    apply spec_nosuffix_adequate in Hin as (e' & He' & r & Hr).
    assert (In (s, e, v) (ends_at unit pvs line e')) as Hin2 by (rewrite Hr; left; reflexivity).
    apply ends_at_from_shape in Hin2 as [Hs _]. cbn [fst snd] in Hs, Hlt. apply Nat.ltb_lt in Hlt. lia. }
  rewrite Hex.
  destruct (spec_nosuffix unit pvs line) as [|m ms] eqn:E.
  - apply nosuffix_nil_iff. exact E.
  - assert (has_occ line = true) as Ht by (apply Hocc; discriminate).
    destruct (sweep line _ 0 0%Z 0 []) as [[out prev]| | | |]; cbn [bind]; try exact Ht.
    destruct (slice line prev (length line)); cbn [bind]; exact Ht.
Qed.
End Cli.
