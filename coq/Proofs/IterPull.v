(* IterPull.v — C12: the iterators pull their byte source strictly left to right, each byte once,
   and when a match ending at e is returned exactly e bytes have been pulled; when an iterator
   answers None the source is drained.  Purely structural: holds for ANY arrays (no hypothesis on
   the automaton), whenever the call returns normally. *)
From DV Require Import Model.Base Model.Nfa Model.BwBuild Model.BwSearch Model.Utf8 Model.CwBuild
     Model.CwSearch.
From Coq Require Import ZifyN ZifyNat ZifyBool.

(* the source invariant: [rest] is what remains of the haystack h after [pulled] bytes *)
Definition src_inv (h : list N) (s : src) : Prop :=
  s_rest s = skipn (s_pulled s) h /\ (s_pulled s <= length h)%nat.

Lemma src_inv_init h : src_inv h (src_of h).
Proof. split; cbn; [reflexivity|lia]. Qed.

Lemma skipn_S_cons {X} (h : list X) n c r : skipn n h = c :: r -> skipn (S n) h = r /\ (n < length h)%nat.
Proof.
  revert h; induction n as [|n IH]; intros h H.
  - cbn in H. subst h. cbn. split; [reflexivity|lia].
  - destruct h as [|x h]; [discriminate|]. cbn [skipn] in H. destruct (IH h H) as [H1 H2].
    split; [exact H1|cbn; lia].
Qed.

Lemma skipn_nil_len {X} (h : list X) n : skipn n h = [] -> (n <= length h)%nat -> n = length h.
Proof.
  revert h; induction n as [|n IH]; intros h H Hl.
  - cbn in H. subst. reflexivity.
  - destruct h as [|x h]; [cbn in Hl; lia|]. cbn in *. f_equal. apply IH; [exact H|lia].
Qed.

Section Bw.
Variable V : Type.
Variable sget : N -> option bstate.
Variable oget : N -> option (output V).
Variable nslots : N.
Variable h : list N.

(* ---- FindIterator ---- *)
Lemma find_scan_pull : forall rest pulled s t r it',
  rest = skipn pulled h -> (pulled <= length h)%nat ->
  find_scan V sget oget nslots rest pulled s t = Ok (r, it') ->
  src_inv h (f_src it') /\
  match r with
  | Some m => m_end m = s_pulled (f_src it') /\ (pulled < m_end m)%nat
  | None => s_pulled (f_src it') = length h
  end.
Proof.
  induction rest as [|c rest IH]; intros pulled s t r it' Hr Hl H.
  - cbn in H. inversion H; subst. cbn. symmetry in Hr. split; [split; [cbn; exact (eq_sym Hr)|exact Hl]|].
    apply skipn_nil_len; assumption.
  - symmetry in Hr. destruct (skipn_S_cons h pulled c rest Hr) as [Hr' Hlt].
    cbn [find_scan] in H.
    destruct (bw_next_state sget (fuel0 nslots) s c t) as [[s' t']| | | |]; cbn [bind] in H; try discriminate.
    destruct (st_at sget s') as [st| | | |]; cbn [bind] in H; try discriminate.
    destruct (b_outpos st =? 0).
    + destruct (IH (S pulled) s' t' r it' (eq_sym Hr') ltac:(lia) H) as [Hi Hm]. split; [exact Hi|].
      destruct r; [|exact Hm]. destruct Hm; split; [assumption|lia].
    + destruct (out_at V oget (b_outpos st)) as [o| | | |]; cbn [bind] in H; try discriminate.
      inversion H; subst. cbn. repeat split; auto; lia.
Qed.

Theorem find_next_pull it r it' : src_inv h (f_src it) ->
  find_next V sget oget nslots it = Ok (r, it') ->
  src_inv h (f_src it') /\
  match r with
  | Some m => m_end m = s_pulled (f_src it') /\ (s_pulled (f_src it) < m_end m)%nat
  | None => s_pulled (f_src it') = length h
  end.
Proof. intros [H1 H2] H. unfold find_next in H. eapply find_scan_pull; eauto. Qed.

(* ---- FindOverlappingNoSuffixIterator ---- *)
Lemma nos_scan_pull : forall rest pulled s t r it',
  rest = skipn pulled h -> (pulled <= length h)%nat ->
  nos_scan V sget oget nslots rest pulled s t = Ok (r, it') ->
  src_inv h (x_src it') /\
  match r with
  | Some m => m_end m = s_pulled (x_src it') /\ (pulled < m_end m)%nat
  | None => s_pulled (x_src it') = length h
  end.
Proof.
  induction rest as [|c rest IH]; intros pulled s t r it' Hr Hl H.
  - cbn in H. inversion H; subst. cbn. symmetry in Hr. split; [split; [cbn; exact (eq_sym Hr)|exact Hl]|].
    apply skipn_nil_len; assumption.
  - symmetry in Hr. destruct (skipn_S_cons h pulled c rest Hr) as [Hr' Hlt].
    cbn [nos_scan] in H.
    destruct (bw_next_state sget (fuel0 nslots) s c t) as [[s' t']| | | |]; cbn [bind] in H; try discriminate.
    destruct (st_at sget s') as [st| | | |]; cbn [bind] in H; try discriminate.
    destruct (b_outpos st =? 0).
    + destruct (IH (S pulled) s' t' r it' (eq_sym Hr') ltac:(lia) H) as [Hi Hm]. split; [exact Hi|].
      destruct r; [|exact Hm]. destruct Hm; split; [assumption|lia].
    + destruct (out_at V oget (b_outpos st)) as [o| | | |]; cbn [bind] in H; try discriminate.
      inversion H; subst. cbn. repeat split; auto; lia.
Qed.

Theorem nos_next_pull it r it' : src_inv h (x_src it) ->
  nos_next V sget oget nslots it = Ok (r, it') ->
  src_inv h (x_src it') /\
  match r with
  | Some m => m_end m = s_pulled (x_src it') /\ (s_pulled (x_src it) < m_end m)%nat
  | None => s_pulled (x_src it') = length h
  end.
Proof. intros [H1 H2] H. unfold nos_next in H. eapply nos_scan_pull; eauto. Qed.

(* ---- FindOverlappingIterator: a pending output chain is emitted without touching the source *)
Definition ovl_inv (it : ovl_it) : Prop :=
  src_inv h (v_src it) /\ (v_outpos it <> 0%N -> v_pos it = s_pulled (v_src it)).

Lemma ovl_scan_pull : forall rest pulled s pos t r it',
  rest = skipn pulled h -> (pulled <= length h)%nat ->
  ovl_scan V sget oget nslots rest pulled s pos t = Ok (r, it') ->
  ovl_inv it' /\
  match r with
  | Some m => m_end m = s_pulled (v_src it') /\ (pulled < m_end m)%nat
  | None => s_pulled (v_src it') = length h
  end.
Proof.
  induction rest as [|c rest IH]; intros pulled s pos t r it' Hr Hl H.
  - cbn in H. inversion H; subst. cbn. symmetry in Hr.
    split; [split; [split; [cbn; exact (eq_sym Hr)|exact Hl]|cbn; congruence]|].
    apply skipn_nil_len; assumption.
  - symmetry in Hr. destruct (skipn_S_cons h pulled c rest Hr) as [Hr' Hlt].
    cbn [ovl_scan] in H.
    destruct (bw_next_state sget (fuel0 nslots) s c t) as [[s' t']| | | |]; cbn [bind] in H; try discriminate.
    destruct (st_at sget s') as [st| | | |]; cbn [bind] in H; try discriminate.
    destruct (b_outpos st =? 0).
    + destruct (IH (S pulled) s' pos t' r it' (eq_sym Hr') ltac:(lia) H) as [Hi Hm]. split; [exact Hi|].
      destruct r; [|exact Hm]. destruct Hm; split; [assumption|lia].
    + destruct (out_at V oget (b_outpos st)) as [o| | | |]; cbn [bind] in H; try discriminate.
      inversion H; subst. cbn. unfold ovl_inv, src_inv. cbn. repeat split; auto; lia.
Qed.

Theorem ovl_next_pull it r it' : ovl_inv it ->
  ovl_next V sget oget nslots it = Ok (r, it') ->
  ovl_inv it' /\
  match r with
  | Some m => m_end m = s_pulled (v_src it') /\ (s_pulled (v_src it) <= m_end m)%nat
  | None => s_pulled (v_src it') = length h
  end.
Proof.
  intros [[H1 H2] H3] H. unfold ovl_next in H. destruct (v_outpos it =? 0)%N eqn:E.
  - destruct (ovl_scan_pull _ _ _ _ _ _ _ H1 H2 H) as [Hi Hm]. split; [exact Hi|].
    destruct r; [|exact Hm]. destruct Hm; split; [assumption|lia].
  - apply N.eqb_neq in E. destruct (out_at V oget (v_outpos it)) as [o| | | |]; cbn [bind] in H; try discriminate.
    inversion H; subst. cbn. unfold ovl_inv, src_inv. cbn. rewrite (H3 E). repeat split; auto.
Qed.

Lemma ovl_inv_init : ovl_inv (ovl_init h).
Proof. split; [apply src_inv_init|cbn; congruence]. Qed.
End Bw.

(* ---- character-wise: the decoder pulls the 1..4 bytes of one character; the reported end is the
   count after the last of them ---------------------------------------------------------------- *)
Lemma dec_next_pull rest pulled pos c rest' pulled' :
  dec_next rest pulled = Ok (Some (pos, c, rest', pulled')) ->
  pos = pulled' /\ exists k, (1 <= k <= 4)%nat /\ pulled' = (pulled + k)%nat /\ rest' = skipn k rest
                            /\ (k <= length rest)%nat.
Proof.
  unfold dec_next. destruct rest as [|b0 r0]; [discriminate|].
  destruct (b0 <? 128)%N.
  { intros H; inversion H; subst. split; [reflexivity|]. exists 1%nat. cbn [skipn length]. repeat split; try reflexivity; lia. }
  destruct r0 as [|b1 r1]; [discriminate|].
  destruct (b0 <? 224)%N.
  { destruct (is_scalar _); [|discriminate]. intros H; inversion H; subst. split; [reflexivity|].
    exists 2%nat. cbn [skipn length]. repeat split; try reflexivity; lia. }
  destruct r1 as [|b2 r2]; [discriminate|].
  destruct (b0 <? 240)%N.
  { destruct (is_scalar _); [|discriminate]. intros H; inversion H; subst. split; [reflexivity|].
    exists 3%nat. cbn [skipn length]. repeat split; try reflexivity; lia. }
  destruct r2 as [|b3 r3]; [discriminate|].
  destruct (is_scalar _); [|discriminate]. intros H; inversion H; subst. split; [reflexivity|].
  exists 4%nat. cbn [skipn length]. repeat split; try reflexivity; lia.
Qed.

Lemma dec_next_none rest pulled : dec_next rest pulled = Ok None -> rest = [].
Proof.
  unfold dec_next. destruct rest as [|b0 r0]; [reflexivity|].
  destruct (b0 <? 128)%N; [discriminate|]. destruct r0 as [|b1 r1]; [discriminate|].
  destruct (b0 <? 224)%N; [destruct (is_scalar _); discriminate|].
  destruct r1 as [|b2 r2]; [discriminate|].
  destruct (b0 <? 240)%N; [destruct (is_scalar _); discriminate|].
  destruct r2 as [|b3 r3]; [discriminate|]. destruct (is_scalar _); discriminate.
Qed.

Lemma skipn_skipn_add {X} (k n : nat) (l : list X) : skipn k (skipn n l) = skipn (n + k) l.
Proof.
  revert l; induction n as [|n IH]; intros l; [reflexivity|].
  destruct l as [|a l]; [rewrite !skipn_nil; reflexivity|]. cbn [skipn Nat.add]. apply IH.
Qed.

Section Cw.
Variable V : Type.
Variable sget : N -> option cstate.
Variable oget : N -> option (output V).
Variable tget : N -> option N.
Variable nslots : N.
Variable h : list N.

Lemma step_inv rest pulled pos c rest' pulled' :
  rest = skipn pulled h -> (pulled <= length h)%nat ->
  dec_next rest pulled = Ok (Some (pos, c, rest', pulled')) ->
  rest' = skipn pulled' h /\ (pulled' <= length h)%nat /\ (pulled < pulled')%nat /\ pos = pulled'.
Proof.
  intros Hr Hl H. destruct (dec_next_pull _ _ _ _ _ _ H) as [Hp (k & Hk & Hp' & Hr' & Hkl)].
  subst rest. rewrite skipn_length in Hkl. rewrite skipn_skipn_add in Hr'. subst.
  split; [reflexivity|]. split; [lia|]. split; [lia|reflexivity].
Qed.

Lemma cfind_scan_pull : forall fuel rest pulled s t r it',
  rest = skipn pulled h -> (pulled <= length h)%nat ->
  cfind_scan V sget oget tget nslots fuel rest pulled s t = Ok (r, it') ->
  src_inv h (f_src it') /\
  match r with
  | Some m => m_end m = s_pulled (f_src it') /\ (pulled < m_end m)%nat
  | None => s_pulled (f_src it') = length h
  end.
Proof.
  induction fuel as [|fuel IH]; intros rest pulled s t r it' Hr Hl H; [discriminate|].
  cbn [cfind_scan] in H. destruct (dec_next rest pulled) as [[[[[pos c] rest'] pulled']|]| | | |] eqn:Ed; cbn [bind] in H; try discriminate.
  - destruct (step_inv _ _ _ _ _ _ Hr Hl Ed) as (H1 & H2 & H3 & H4).
    destruct (cw_next_state sget tget nslots s c t) as [[s' t']| | | |]; cbn [bind] in H; try discriminate.
    destruct (cst_at sget s') as [st| | | |]; cbn [bind] in H; try discriminate.
    destruct (c_outpos st =? 0)%N.
    + destruct (IH rest' pulled' s' t' r it' H1 H2 H) as [Hi Hm]. split; [exact Hi|].
      destruct r; [|exact Hm]. destruct Hm; split; [assumption|lia].
    + destruct (cout_at V oget (c_outpos st)) as [o| | | |]; cbn [bind] in H; try discriminate.
      inversion H; subst. cbn. repeat split; auto; lia.
  - apply dec_next_none in Ed. inversion H. cbn.
    split; [split; [cbn; exact Hr|exact Hl]|]. apply skipn_nil_len; [congruence|exact Hl].
Qed.

Theorem cfind_next_pull it r it' : src_inv h (f_src it) ->
  cfind_next V sget oget tget nslots it = Ok (r, it') ->
  src_inv h (f_src it') /\
  match r with
  | Some m => m_end m = s_pulled (f_src it') /\ (s_pulled (f_src it) < m_end m)%nat
  | None => s_pulled (f_src it') = length h
  end.
Proof. intros [H1 H2] H. unfold cfind_next in H. eapply cfind_scan_pull; eauto. Qed.

Lemma cnos_scan_pull : forall fuel rest pulled s t r it',
  rest = skipn pulled h -> (pulled <= length h)%nat ->
  cnos_scan V sget oget tget nslots fuel rest pulled s t = Ok (r, it') ->
  src_inv h (x_src it') /\
  match r with
  | Some m => m_end m = s_pulled (x_src it') /\ (pulled < m_end m)%nat
  | None => s_pulled (x_src it') = length h
  end.
Proof.
  induction fuel as [|fuel IH]; intros rest pulled s t r it' Hr Hl H; [discriminate|].
  cbn [cnos_scan] in H. destruct (dec_next rest pulled) as [[[[[pos c] rest'] pulled']|]| | | |] eqn:Ed; cbn [bind] in H; try discriminate.
  - destruct (step_inv _ _ _ _ _ _ Hr Hl Ed) as (H1 & H2 & H3 & H4).
    destruct (cw_next_state sget tget nslots s c t) as [[s' t']| | | |]; cbn [bind] in H; try discriminate.
    destruct (cst_at sget s') as [st| | | |]; cbn [bind] in H; try discriminate.
    destruct (c_outpos st =? 0)%N.
    + destruct (IH rest' pulled' s' t' r it' H1 H2 H) as [Hi Hm]. split; [exact Hi|].
      destruct r; [|exact Hm]. destruct Hm; split; [assumption|lia].
    + destruct (cout_at V oget (c_outpos st)) as [o| | | |]; cbn [bind] in H; try discriminate.
      inversion H; subst. cbn. repeat split; auto; lia.
  - apply dec_next_none in Ed. inversion H. cbn.
    split; [split; [cbn; exact Hr|exact Hl]|]. apply skipn_nil_len; [congruence|exact Hl].
Qed.

Theorem cnos_next_pull it r it' : src_inv h (x_src it) ->
  cnos_next V sget oget tget nslots it = Ok (r, it') ->
  src_inv h (x_src it') /\
  match r with
  | Some m => m_end m = s_pulled (x_src it') /\ (s_pulled (x_src it) < m_end m)%nat
  | None => s_pulled (x_src it') = length h
  end.
Proof. intros [H1 H2] H. unfold cnos_next in H. eapply cnos_scan_pull; eauto. Qed.

Lemma covl_scan_pull : forall fuel rest pulled s pos t r it',
  rest = skipn pulled h -> (pulled <= length h)%nat ->
  covl_scan V sget oget tget nslots fuel rest pulled s pos t = Ok (r, it') ->
  ovl_inv h it' /\
  match r with
  | Some m => m_end m = s_pulled (v_src it') /\ (pulled < m_end m)%nat
  | None => s_pulled (v_src it') = length h
  end.
Proof.
  induction fuel as [|fuel IH]; intros rest pulled s pos t r it' Hr Hl H; [discriminate|].
  cbn [covl_scan] in H. destruct (dec_next rest pulled) as [[[[[p c] rest'] pulled']|]| | | |] eqn:Ed; cbn [bind] in H; try discriminate.
  - destruct (step_inv _ _ _ _ _ _ Hr Hl Ed) as (H1 & H2 & H3 & H4).
    destruct (cw_next_state sget tget nslots s c t) as [[s' t']| | | |]; cbn [bind] in H; try discriminate.
    destruct (cst_at sget s') as [st| | | |]; cbn [bind] in H; try discriminate.
    destruct (c_outpos st =? 0)%N.
    + destruct (IH rest' pulled' s' p t' r it' H1 H2 H) as [Hi Hm]. split; [exact Hi|].
      destruct r; [|exact Hm]. destruct Hm; split; [assumption|lia].
    + destruct (cout_at V oget (c_outpos st)) as [o| | | |]; cbn [bind] in H; try discriminate.
      inversion H; subst. cbn. unfold ovl_inv, src_inv. cbn. repeat split; auto; lia.
  - apply dec_next_none in Ed. inversion H. cbn.
    split; [split; [split; [cbn; exact Hr|exact Hl]|cbn; congruence]|].
    apply skipn_nil_len; [congruence|exact Hl].
Qed.

Theorem covl_next_pull it r it' : ovl_inv h it ->
  covl_next V sget oget tget nslots it = Ok (r, it') ->
  ovl_inv h it' /\
  match r with
  | Some m => m_end m = s_pulled (v_src it') /\ (s_pulled (v_src it) <= m_end m)%nat
  | None => s_pulled (v_src it') = length h
  end.
Proof.
  intros [[H1 H2] H3] H. unfold covl_next in H. destruct (v_outpos it =? 0)%N eqn:E.
  - destruct (covl_scan_pull _ _ _ _ _ _ _ _ H1 H2 H) as [Hi Hm]. split; [exact Hi|].
    destruct r; [|exact Hm]. destruct Hm; split; [assumption|lia].
  - apply N.eqb_neq in E. destruct (cout_at V oget (v_outpos it)) as [o| | | |]; cbn [bind] in H; try discriminate.
    inversion H; subst. cbn. unfold ovl_inv, src_inv. cbn. rewrite (H3 E). repeat split; auto.
Qed.
End Cw.
