(* BuildSafe.v — C07 for the byte-wise BUILDER, universally: every automaton the model's
   construction returns, for any byte patterns, match kind and num_free_blocks, passes the range
   check bw_safe_b (array length a positive multiple of 256; every base None or below the length;
   every fail below the length; every output position / parent at most the number of outputs).
   With Proofs/BwSafe.v: no search on a built automaton reaches an undefined-behaviour branch. *)
From DV Require Import Model.Base Model.Nfa Model.Helper Model.BwBuild Model.Spec Model.Cert.
From Coq Require Import ZifyN ZifyNat ZifyBool.
Local Open Scope N_scope.

(* ---- the packed word (intpack.rs U24nU8) ------------------------------------------------------ *)
Lemma pk_b_lt x : pk_b x < 256.
Proof.
  unfold pk_b. change 255 with (N.ones 8). rewrite N.land_ones. apply N.mod_lt. discriminate.
Qed.

Lemma pk_a_lor a c : c < 256 -> pk_a (N.lor (N.shiftl a 8) c) = a.
Proof.
  intros Hc. unfold pk_a. rewrite N.shiftr_lor, N.shiftr_shiftl_l by lia. rewrite N.sub_diag, N.shiftl_0_r.
  rewrite (N.shiftr_div_pow2 c). change (2 ^ 8) with 256. rewrite N.div_small by exact Hc. apply N.lor_0_r.
Qed.

Lemma pk_a_set_b x c : c < 256 -> pk_a (pk_set_b x c) = pk_a x.
Proof. intros Hc. unfold pk_set_b. apply pk_a_lor. exact Hc. Qed.

Lemma pk_a_set_a x a : pk_a (pk_set_a x a) = a.
Proof. unfold pk_set_a. apply pk_a_lor. apply pk_b_lt. Qed.

(* ---- NFA side: output positions and edge labels ----------------------------------------------- *)
Section NfaInv.
Variable V : Type.
Variable lbytes : N -> N.
Variable lab_ok : N -> Prop.          (* what is known of every label: a byte, or nothing *)

Ltac bstep H :=
  match type of H with
  | bind ?e _ = Ok _ => let E := fresh "E" in destruct e eqn:E; cbn [bind] in H; try discriminate
  end.

Definition AllSt (P : nstate V -> Prop) (n : nfa V) : Prop :=
  forall i st, nget i (n_states n) = Some st -> P st.

Lemma nfa_get_some (n : nfa V) i st : nfa_get V n i = Ok st -> nget i (n_states n) = Some st.
Proof.
  unfold nfa_get. destruct (i <? n_nstates n); [|discriminate]. destruct (nget i (n_states n)); [|discriminate].
  intros H. inversion H. reflexivity.
Qed.

Lemma AllSt_set P (n : nfa V) i st' : AllSt P n -> P st' -> AllSt P (nfa_set V n i st').
Proof.
  intros H Hp j st Hg. unfold nfa_set in Hg. cbn [n_states] in Hg.
  destruct (N.eq_dec j i) as [->|Hne]; [rewrite ngss in Hg; inversion Hg; subst; exact Hp|].
  rewrite ngso in Hg by exact Hne. exact (H j st Hg).
Qed.

Lemma AllSt_push P (n : nfa V) : AllSt P n -> P (nstate_default V) -> AllSt P (nfa_push_state V n).
Proof.
  intros H Hp j st Hg. unfold nfa_push_state in Hg. cbn [n_states] in Hg.
  destruct (N.eq_dec j (n_nstates n)) as [->|Hne]; [rewrite ngss in Hg; inversion Hg; subst; exact Hp|].
  rewrite ngso in Hg by exact Hne. exact (H j st Hg).
Qed.

(* before build_outputs: no output position assigned; labels are bytes *)
Definition PLO (st : nstate V) : Prop := n_outpos st = 0 /\ forall c t, In (c, t) (n_edges st) -> lab_ok c.

Lemma edge_insert_in es c t k v : In (k, v) (edge_insert es c t) -> (k = c /\ v = t) \/ In (k, v) es.
Proof.
  induction es as [|[k0 v0] r IH]; cbn [edge_insert].
  - intros [E|[]]. inversion E. auto.
  - destruct (c <? k0); [intros [E|H]; [inversion E; auto|right; exact H]|].
    destruct (c =? k0); [intros [E|H]; [inversion E; auto|right; right; exact H]|].
    intros [E|H]; [right; left; exact E|]. destruct (IH H) as [?|?]; [left; assumption|right; right; assumption].
Qed.

Lemma PLO_default : PLO (nstate_default V).
Proof. split; [reflexivity|intros c t []]. Qed.

Lemma add_walk_PLO : forall rest (n : nfa V) sid n' fin, Forall lab_ok rest -> AllSt PLO n ->
  add_walk V n sid rest = Ok (n', fin) -> AllSt PLO n'.
Proof.
  induction rest as [|c rest IH]; intros n sid n' fin Hb HA H; cbn [add_walk] in H.
  - inversion H; subst. exact HA.
  - inversion Hb as [|? ? Hc Hb']; subst. bstep H.
    destruct (is_leftmost_first (n_kind n) && isSome (n_output a)); [inversion H; subst; exact HA|].
    destruct (edge_get (n_edges a) c) as [nx|]; [exact (IH _ _ _ _ Hb' HA H)|].
    destruct (U32_MAX <? n_nstates n); [discriminate|].
    refine (IH _ _ _ _ Hb' _ H). apply AllSt_push; [|exact PLO_default]. apply AllSt_set; [exact HA|].
    destruct (HA sid a (nfa_get_some _ _ _ E)) as [H0 Hl]. split; [exact H0|]. cbn [n_edges].
    intros k v Hin. apply edge_insert_in in Hin as [[-> _]|Hin]; [exact Hc|exact (Hl k v Hin)].
Qed.

Lemma add_PLO (n : nfa V) p v n' : Forall lab_ok p -> AllSt PLO n ->
  add V lbytes n p v = Ok n' -> AllSt PLO n'.
Proof.
  intros Hb HA H. unfold add in H.
  destruct (U32_MAX <? _); [discriminate|]. destruct (_ =? 0); [discriminate|].
  bstep H. destruct a as [n1 fin]. pose proof (add_walk_PLO _ _ _ _ _ Hb HA E) as H1.
  destruct fin as [sid|].
  - bstep H. destruct (isSome (n_output a)); [discriminate|]. inversion H; subst. clear H.
    intros i st Hg. cbn [n_states] in Hg. revert i st Hg. apply AllSt_set; [exact H1|].
    destruct (H1 sid a (nfa_get_some _ _ _ E0)) as [H0 Hl]. split; [exact H0|exact Hl].
  - unfold check_shadowed_duplicate in H. bstep H. bstep H. destruct (_ || _); [discriminate|].
    inversion H; subst. exact H1.
Qed.

Lemma set_fail_PLO (n : nfa V) i f n' : AllSt PLO n -> set_fail V n i f = Ok n' -> AllSt PLO n'.
Proof.
  intros HA H. unfold set_fail in H. bstep H. inversion H; subst. apply AllSt_set; [exact HA|].
  destruct (HA i a (nfa_get_some _ _ _ E)) as [H0 Hl]. split; [exact H0|exact Hl].
Qed.

Lemma fails_edges_PLO : forall es (n : nfa V) sid sf q n' q', AllSt PLO n ->
  fails_edges V n sid sf es q = Ok (n', q') -> AllSt PLO n'.
Proof.
  induction es as [|[c ch] es IH]; intros n sid sf q n' q' HA H; cbn [fails_edges] in H.
  - inversion H; subst. exact HA.
  - bstep H. destruct (ch =? sid); [discriminate|]. bstep H. exact (IH _ _ _ _ _ _ (set_fail_PLO _ _ _ _ HA E0) H).
Qed.

Lemma fails_bfs_PLO : forall fuel (n : nfa V) pending done n' q, AllSt PLO n ->
  fails_bfs V fuel n pending done = Ok (n', q) -> AllSt PLO n'.
Proof.
  induction fuel as [|fuel IH]; intros n pending done n' q HA H; destruct pending as [|sid pending]; cbn [fails_bfs] in H;
    try (inversion H; subst; exact HA); try discriminate.
  bstep H. bstep H. destruct a0 as [n1 news]. exact (IH _ _ _ _ _ (fails_edges_PLO _ _ _ _ _ _ _ HA E0) H).
Qed.

Lemma fails_edges_lm_PLO : forall es (n : nfa V) sid sf q n' q', AllSt PLO n ->
  fails_edges_lm V n sid sf es q = Ok (n', q') -> AllSt PLO n'.
Proof.
  induction es as [|[c ch] es IH]; intros n sid sf q n' q' HA H; cbn [fails_edges_lm] in H.
  - inversion H; subst. exact HA.
  - bstep H. destruct (ch =? sid); [discriminate|]. bstep H. exact (IH _ _ _ _ _ _ (set_fail_PLO _ _ _ _ HA E0) H).
Qed.

Lemma fails_bfs_lm_PLO : forall fuel (n : nfa V) pending done n' q, AllSt PLO n ->
  fails_bfs_lm V fuel n pending done = Ok (n', q) -> AllSt PLO n'.
Proof.
  induction fuel as [|fuel IH]; intros n pending done n' q HA H; destruct pending as [|sid pending]; cbn [fails_bfs_lm] in H;
    try (inversion H; subst; exact HA); try discriminate.
  bstep H. bstep H. bstep H. destruct a1 as [n1 news].
  exact (IH _ _ _ _ _ (fails_edges_lm_PLO _ _ _ _ _ _ _ (set_fail_PLO _ _ _ _ HA E0) E1) H).
Qed.

(* build_outputs: every output position and parent stays within the output table *)
Definition PL2 (k : N) (st : nstate V) : Prop := n_outpos st <= k /\ forall c t, In (c, t) (n_edges st) -> lab_ok c.
Definition OutInv (n : nfa V) : Prop :=
  AllSt (PL2 (N.of_nat (length (n_outputs n)))) n
  /\ Forall (fun o => o_parent o <= N.of_nat (length (n_outputs n))) (n_outputs n).

Lemma outputs_loop_inv : forall q (n n' : nfa V), OutInv n -> outputs_loop V n q = Ok n' -> OutInv n'.
Proof.
  induction q as [|sid q IH]; intros n n' HI H; cbn [outputs_loop] in H; [inversion H; subst; exact HI|].
  bstep H. destruct (n_fail a =? sid); [discriminate|]. bstep H.
  destruct HI as [HA HO].
  destruct (HA sid a (nfa_get_some _ _ _ E)) as [Ha1 Ha2].
  destruct (HA _ a0 (nfa_get_some _ _ _ E0)) as [Hf1 _].
  destruct (n_output a) as [[v len]|].
  - destruct (U32_MAX <? _); [discriminate|]. refine (IH _ _ _ H). clear H IH.
    unfold OutInv. cbn [n_outputs n_states nfa_set]. rewrite app_length. cbn [length]. split.
    + intros i st Hg. cbn [n_states nfa_set] in Hg.
      destruct (N.eq_dec i sid) as [->|Hne].
      * rewrite ngss in Hg. inversion Hg; subst st. split; [cbn [n_outpos]; lia|exact Ha2].
      * rewrite ngso in Hg by exact Hne. destruct (HA i st Hg) as [H1 H2]. split; [lia|exact H2].
    + apply Forall_app. split.
      * eapply Forall_impl; [|exact HO]. intros o Ho. cbn beta in *. lia.
      * constructor; [cbn [o_parent]; lia|constructor].
  - refine (IH _ _ _ H). clear H IH. unfold OutInv. cbn [n_outputs nfa_set]. split; [|exact HO].
    apply AllSt_set; [exact HA|]. split; [cbn [n_outpos]; exact Hf1|exact Ha2].
Qed.

Lemma finish_nfa_inv (n n' : nfa V) : AllSt PLO n -> n_outputs n = [] -> finish_nfa V n = Ok n' -> OutInv n'.
Proof.
  intros HA Ho H. unfold finish_nfa in H. bstep H. destruct a as [n1 q].
  assert (H1 : AllSt PLO n1 /\ n_outputs n1 = []).
  { assert (Hso : forall (m : nfa V) i f m', set_fail V m i f = Ok m' -> n_outputs m' = n_outputs m).
    { intros m i f m' Hs. unfold set_fail in Hs. bstep Hs. inversion Hs. reflexivity. }
    assert (Hfe : forall es (m : nfa V) sid sf q m' q', fails_edges V m sid sf es q = Ok (m', q') -> n_outputs m' = n_outputs m).
    { induction es as [|[c ch] es IHe]; intros m sid sf q0 m' q' Hs; cbn [fails_edges] in Hs; [inversion Hs; reflexivity|].
      bstep Hs. destruct (ch =? sid); [discriminate|]. bstep Hs. rewrite (IHe _ _ _ _ _ _ Hs). exact (Hso _ _ _ _ E1). }
    assert (Hfel : forall es (m : nfa V) sid sf q m' q', fails_edges_lm V m sid sf es q = Ok (m', q') -> n_outputs m' = n_outputs m).
    { induction es as [|[c ch] es IHe]; intros m sid sf q0 m' q' Hs; cbn [fails_edges_lm] in Hs; [inversion Hs; reflexivity|].
      bstep Hs. destruct (ch =? sid); [discriminate|]. bstep Hs. rewrite (IHe _ _ _ _ _ _ Hs). exact (Hso _ _ _ _ E1). }
    assert (Hb : forall fuel (m : nfa V) p d m' q', fails_bfs V fuel m p d = Ok (m', q') -> n_outputs m' = n_outputs m).
    { induction fuel as [|fuel IHf]; intros m p d m' q' Hs; destruct p as [|s p]; cbn [fails_bfs] in Hs;
        try (inversion Hs; reflexivity); try discriminate.
      bstep Hs. bstep Hs. destruct a0 as [m1 news]. rewrite (IHf _ _ _ _ _ Hs). exact (Hfe _ _ _ _ _ _ _ E1). }
    assert (Hbl : forall fuel (m : nfa V) p d m' q', fails_bfs_lm V fuel m p d = Ok (m', q') -> n_outputs m' = n_outputs m).
    { induction fuel as [|fuel IHf]; intros m p d m' q' Hs; destruct p as [|s p]; cbn [fails_bfs_lm] in Hs;
        try (inversion Hs; reflexivity); try discriminate.
      bstep Hs. bstep Hs. bstep Hs. destruct a1 as [m1 news]. rewrite (IHf _ _ _ _ _ Hs).
      rewrite (Hfel _ _ _ _ _ _ _ E2). exact (Hso _ _ _ _ E1). }
    destruct (n_kind n); unfold build_fails, build_fails_leftmost in E; bstep E.
    - split; [exact (fails_bfs_PLO _ _ _ _ _ _ HA E)|rewrite (Hb _ _ _ _ _ _ E); exact Ho].
    - split; [exact (fails_bfs_lm_PLO _ _ _ _ _ _ HA E)|rewrite (Hbl _ _ _ _ _ _ E); exact Ho].
    - split; [exact (fails_bfs_lm_PLO _ _ _ _ _ _ HA E)|rewrite (Hbl _ _ _ _ _ _ E); exact Ho]. }
  destruct H1 as [HA1 Ho1].
  unfold build_outputs in H. destruct q as [|q0 q]; [discriminate|]. destruct (q0 =? ROOT); [discriminate|].
  refine (outputs_loop_inv _ _ _ _ H). unfold OutInv. rewrite Ho1. cbn [length]. split; [|constructor].
  intros i st Hg. destruct (HA1 i st Hg) as [H0 Hl]. split; [lia|exact Hl].
Qed.

End NfaInv.

(* ---- NFA side, continued: the pattern loop -------------------------------------------------- *)
Section NfaLoop.
Variable V : Type.
Notation byte := (fun b : N => b < 256).

Ltac bstep H :=
  match type of H with
  | bind ?e _ = Ok _ => let E := fresh "E" in destruct e eqn:E; cbn [bind] in H; try discriminate
  end.

Lemma add_walk_outputs : forall rest (n : nfa V) sid n' fin,
  add_walk V n sid rest = Ok (n', fin) -> n_outputs n' = n_outputs n.
Proof.
  induction rest as [|c rest IH]; intros n sid n' fin H; cbn [add_walk] in H; [inversion H; reflexivity|].
  bstep H. destruct (_ && _); [inversion H; reflexivity|].
  destruct (edge_get (n_edges a) c); [exact (IH _ _ _ _ H)|].
  destruct (U32_MAX <? n_nstates n); [discriminate|]. rewrite (IH _ _ _ _ H). reflexivity.
Qed.

Lemma add_outputs lb (n : nfa V) p v n' : add V lb n p v = Ok n' -> n_outputs n' = n_outputs n.
Proof.
  intros H. unfold add in H. destruct (U32_MAX <? _); [discriminate|]. destruct (_ =? 0); [discriminate|].
  bstep H. destruct a as [n1 fin]. apply add_walk_outputs in E. destruct fin as [sid|].
  - bstep H. destruct (isSome _); [discriminate|]. inversion H. cbn. exact E.
  - unfold check_shadowed_duplicate in H. bstep H. bstep H. destruct (_ || _); [discriminate|]. inversion H. cbn. exact E.
Qed.

Lemma add_all_inv : forall pvs (n n' : nfa V),
  (forall p v, In (p, v) pvs -> Forall (fun b => b < 256) p) ->
  AllSt V (PLO V byte) n -> n_outputs n = [] ->
  add_all V (fun _ => 1) n pvs = Ok n' -> AllSt V (PLO V byte) n' /\ n_outputs n' = [].
Proof.
  induction pvs as [|[p v] r IH]; intros n n' Hb HA Ho H; cbn [add_all] in H; [inversion H; subst; auto|].
  bstep H. apply (IH a n'); [intros q w Hq; apply (Hb q w); right; exact Hq| | |exact H].
  - exact (add_PLO V _ byte n p v a (Hb p v (or_introl eq_refl)) HA E).
  - rewrite (add_outputs _ _ _ _ _ E). exact Ho.
Qed.

Lemma nfa_new_PLO k : AllSt V (PLO V byte) (nfa_new V k).
Proof.
  intros i st Hg. unfold nfa_new in Hg. cbn [n_states] in Hg.
  destruct (N.eq_dec i 1) as [->|H1]; [rewrite ngss in Hg; inversion Hg; apply PLO_default|].
  rewrite ngso in Hg by exact H1. destruct (N.eq_dec i 0) as [->|H0]; [rewrite ngss in Hg; inversion Hg; apply PLO_default|].
  rewrite ngso in Hg by exact H0. rewrite nget_empty in Hg. discriminate.
Qed.

Theorem bw_sparse_nfa_inv k pvs (n : nfa V) : (forall p v, In (p, v) pvs -> Forall (fun b => b < 256) p) ->
  bw_build_sparse_nfa V k pvs = Ok n -> OutInv V byte n.
Proof.
  intros Hb H. unfold bw_build_sparse_nfa in H. bstep H.
  destruct (n_len a =? 0); [discriminate|]. destruct (U24_MAX <? n_len a); [discriminate|].
  destruct (add_all_inv pvs _ _ Hb (nfa_new_PLO k) eq_refl E) as [HA Ho].
  exact (finish_nfa_inv V (fun _ => 1) byte a n HA Ho H).
Qed.
End NfaLoop.

(* ---- the double-array side -------------------------------------------------------------------- *)
Section Da.
Variable V : Type.
Variable nout : N.

Ltac bstep H :=
  match type of H with
  | bind ?e _ = Ok _ => let E := fresh "E" in destruct e eqn:E; cbn [bind] in H; try discriminate
  end.

Definition slot_inv (len : N) (s : bstate) : Prop :=
  (b_base s = 0 \/ b_base s < len) /\ b_fail s < len /\ b_outpos s <= nout.
Definition BI (a : barr) : Prop :=
  0 < ba_len a /\ ba_len a mod 256 = 0
  /\ forall i s, nget i (ba_map a) = Some s -> slot_inv (ba_len a) s.

Lemma BI_len a : BI a -> 256 <= ba_len a.
Proof.
  intros (H0 & Hm & _). pose proof (N.div_mod (ba_len a) 256 ltac:(discriminate)) as Hd. rewrite Hm in Hd.
  destruct (N.eq_dec (ba_len a / 256) 0) as [E|E]; [rewrite E in Hd; lia|]. lia.
Qed.

Lemma slot_inv_default len : 0 < len -> slot_inv len bstate_default.
Proof. intros H. unfold slot_inv, bstate_default, b_outpos. cbn [b_base b_fail b_opos_ch]. repeat split; [left; reflexivity|exact H|cbn; lia]. Qed.

Lemma ba_upd_BI a i f a' : BI a -> (forall s, slot_inv (ba_len a) s -> slot_inv (ba_len a) (f s)) ->
  ba_upd a i f = Ok a' -> BI a' /\ ba_len a' = ba_len a /\ i < ba_len a.
Proof.
  intros (H0 & Hm & Hs) Hf H. unfold ba_upd, ba_get in H. destruct (i <? ba_len a) eqn:Ei; [|discriminate].
  cbn [bind] in H. inversion H; subst a'; clear H. unfold BI. cbn [ba_len ba_map]. split; [|split; [reflexivity|lia]].
  split; [exact H0|]. split; [exact Hm|]. intros j s Hg.
  destruct (N.eq_dec j i) as [->|Hne].
  - rewrite ngss in Hg. inversion Hg; subst s. apply Hf. destruct (nget i (ba_map a)) eqn:E; [exact (Hs i b E)|].
    apply slot_inv_default. exact H0.
  - rewrite ngso in Hg by exact Hne. exact (Hs j s Hg).
Qed.

Lemma set_check_inv len c s : c < 256 -> slot_inv len s -> slot_inv len (set_check c s).
Proof.
  intros Hc (H1 & H2 & H3). unfold slot_inv, set_check, b_outpos in *. cbn [b_base b_fail b_opos_ch].
  rewrite pk_a_set_b by exact Hc. auto.
Qed.
Lemma set_base_inv len b s : b < len -> slot_inv len s -> slot_inv len (set_base b s).
Proof. intros Hb (H1 & H2 & H3). unfold slot_inv, set_base, b_outpos in *. cbn [b_base b_fail b_opos_ch]. auto. Qed.
Lemma set_bfail_inv len f s : f < len -> slot_inv len s -> slot_inv len (set_bfail f s).
Proof. intros Hb (H1 & H2 & H3). unfold slot_inv, set_bfail, b_outpos in *. cbn [b_base b_fail b_opos_ch]. auto. Qed.
Lemma set_outpos_inv len p s : p <= nout -> slot_inv len s -> slot_inv len (set_outpos p s).
Proof.
  intros Hp (H1 & H2 & H3). unfold slot_inv, set_outpos, b_outpos in *. cbn [b_base b_fail b_opos_ch].
  rewrite pk_a_set_a. auto.
Qed.

(* ---- helper bookkeeping fields -------------------------------------------------------------- *)
Definition hmeta (h h' : helper) : Prop :=
  h_cap h' = h_cap h /\ h_block_len h' = h_block_len h /\ h_nfb h' = h_nfb h /\ h_nblocks h' = h_nblocks h.
Lemma hmeta_refl h : hmeta h h. Proof. unfold hmeta; auto. Qed.
Lemma hmeta_trans a b c : hmeta a b -> hmeta b c -> hmeta a c.
Proof. unfold hmeta. intros (A1 & A2 & A3 & A4) (B1 & B2 & B3 & B4). repeat split; congruence. Qed.

Lemma upd_item_meta h i f h' : upd_item h i f = Ok h' -> hmeta h h'.
Proof. unfold upd_item. intros H. bstep H. inversion H. unfold hmeta, with_items. cbn. auto. Qed.

Lemma use_index_meta h i h' : use_index h i = Ok h' -> hmeta h h'.
Proof.
  unfold use_index. intros H. bstep H. destruct (i_used_index a); [discriminate|]. bstep H. bstep H. bstep H. bstep H.
  pose proof (hmeta_trans _ _ _ (hmeta_trans _ _ _ (upd_item_meta _ _ _ _ E0) (upd_item_meta _ _ _ _ E2)) (upd_item_meta _ _ _ _ E3)) as M.
  destruct (h_head a3); [|discriminate]. destruct (n =? i); inversion H; subst; [|exact M].
  unfold hmeta, with_head in *. cbn. exact M.
Qed.

Lemma use_base_meta h b h' : use_base h b = Ok h' -> hmeta h h'.
Proof. apply upd_item_meta. Qed.

Lemma drop_loop_meta : forall fuel h e h', drop_loop fuel h e = Ok h' -> hmeta h h'.
Proof.
  induction fuel as [|fuel IH]; intros h e h' H; cbn [drop_loop] in H; [discriminate|].
  destruct (h_head h) as [hd|]; [|inversion H; apply hmeta_refl]. destruct (e <=? hd); [inversion H; apply hmeta_refl|].
  bstep H. exact (hmeta_trans _ _ _ (use_index_meta _ _ _ E) (IH _ _ _ H)).
Qed.

Lemma reset_range_meta : forall idxs h h', reset_range h idxs = Ok h' -> hmeta h h'.
Proof.
  induction idxs as [|i r IH]; intros h h' H; cbn [reset_range] in H; [inversion H; apply hmeta_refl|].
  bstep H. apply IH in H. unfold hmeta, with_items in *. cbn in H. exact H.
Qed.

Lemma push_block_meta h h' : push_block h = Ok h' ->
  h_cap h' = h_cap h /\ h_block_len h' = h_block_len h /\ h_nfb h' = h_nfb h /\ h_nblocks h' = h_nblocks h + 1.
Proof.
  unfold push_block. intros H. destruct (_ <? num_elements h); [discriminate|]. bstep H.
  assert (M1 : hmeta h a) by (destruct (dropped_block h); [exact (drop_loop_meta _ _ _ _ E)|inversion E; apply hmeta_refl]).
  bstep H. apply reset_range_meta in E0. unfold hmeta in E0, M1. cbn in E0.
  destruct M1 as (A1 & A2 & A3 & A4). destruct E0 as (B1 & B2 & B3 & B4).
  assert (M2 : h_cap a0 = h_cap h /\ h_block_len a0 = h_block_len h /\ h_nfb a0 = h_nfb h /\ h_nblocks a0 = h_nblocks h + 1)
    by (repeat split; congruence).
  destruct (h_head a0) as [hd|].
  - bstep H. bstep H. bstep H. bstep H.
    pose proof (hmeta_trans _ _ _ (hmeta_trans _ _ _ (hmeta_trans _ _ _ (upd_item_meta _ _ _ _ E1) (upd_item_meta _ _ _ _ E2)) (upd_item_meta _ _ _ _ E3)) (upd_item_meta _ _ _ _ H)) as (C1 & C2 & C3 & C4).
    destruct M2 as (D1 & D2 & D3 & D4). repeat split; congruence.
  - bstep H. bstep H. inversion H; subst h'.
    pose proof (hmeta_trans _ _ _ (upd_item_meta _ _ _ _ E0) (upd_item_meta _ _ _ _ E1)) as (C1 & C2 & C3 & C4).
    destruct M2 as (D1 & D2 & D3 & D4). unfold with_head. cbn. repeat split; congruence.
Qed.

Lemma get_item_lt h i it : get_item h i = Ok it -> i < h_nblocks h * h_block_len h.
Proof.
  unfold get_item, offset. intros H. destruct ((active_index_start h <=? i) && (i <? active_index_end h)) eqn:E; [|discriminate].
  apply andb_true_iff in E as [_ E]. unfold active_index_end in E. lia.
Qed.

(* array and helper grow together *)
Definition CP (a : barr) (h : helper) : Prop := ba_len a = h_nblocks h * 256 /\ h_block_len h = 256.

Lemma CP_meta a h h' : CP a h -> hmeta h h' -> CP a h'.
Proof. unfold CP, hmeta. intros [A B] (_ & C & _ & D). split; congruence. Qed.

End Da.

Section Da2.
Variable V : Type.
Variable nout : N.
Notation BI := (BI nout).
Notation slot_inv := (slot_inv nout).

Ltac bstep H :=
  match type of H with
  | bind ?e _ = Ok _ => let E := fresh "E" in destruct e eqn:E; cbn [bind] in H; try discriminate
  end.

Lemma nseq_in : forall n a x, In x (nseq a n) -> a <= x < a + N.of_nat n.
Proof.
  induction n as [|n IH]; intros a x; cbn [nseq]; [intros []|]. intros [<-|H]; [lia|]. apply IH in H. lia.
Qed.
Lemma nseq_len : forall n a, length (nseq a n) = n.
Proof. induction n as [|n IH]; intros a; cbn [nseq length]; [reflexivity|]. rewrite IH. reflexivity. Qed.

(* remove_invalid_checks only rewrites check bytes *)
Lemma ric_loop_BI : forall cs a h ub a', (forall c, In c cs -> c < 256) -> BI a ->
  ric_loop a h ub cs = Ok a' -> BI a' /\ ba_len a' = ba_len a.
Proof.
  induction cs as [|c cs IH]; intros a h ub a' Hc HB H; cbn [ric_loop] in H; [inversion H; subst; auto|].
  bstep H. assert (Hcs : forall c0, In c0 cs -> c0 < 256) by (intros c0 H0; apply Hc; right; exact H0).
  destruct a0.
  - bstep H. destruct (ba_upd_BI nout a _ _ a0 HB (fun s => set_check_inv nout _ c s (Hc c (or_introl eq_refl))) E0) as (HB1 & L1 & _).
    destruct (IH _ _ _ _ Hcs HB1 H) as [HB2 L2]. split; [exact HB2|congruence].
  - exact (IH _ _ _ _ Hcs HB H).
Qed.

Lemma remove_invalid_checks_BI a h b a' : BI a -> remove_invalid_checks a h b = Ok a' -> BI a' /\ ba_len a' = ba_len a.
Proof.
  intros HB H. unfold remove_invalid_checks in H. bstep H. destruct a0 as [u|]; [|inversion H; subst; auto].
  apply (ric_loop_BI (nseq 0 256) a h u a'); [|exact HB|exact H]. intros c Hc. apply nseq_in in Hc. lia.
Qed.

Lemma ric_blocks_BI : forall bs a h a', BI a -> ric_blocks a h bs = Ok a' -> BI a' /\ ba_len a' = ba_len a.
Proof.
  induction bs as [|b bs IH]; intros a h a' HB H; cbn [ric_blocks] in H; [inversion H; subst; auto|].
  bstep H. destruct (remove_invalid_checks_BI _ _ _ _ HB E) as [HB1 L1]. destruct (IH _ _ _ HB1 H) as [HB2 L2].
  split; [exact HB2|congruence].
Qed.

Lemma BI_grow a : BI a -> BI {| ba_map := ba_map a; ba_len := ba_len a + BLOCK_LEN |}.
Proof.
  intros (H0 & Hm & Hs). unfold BI, BLOCK_LEN. cbn [ba_len ba_map]. split; [lia|]. split.
  - rewrite N.add_mod by discriminate. rewrite Hm. reflexivity.
  - intros i s Hg. destruct (Hs i s Hg) as (A & B & C). unfold BuildSafe.slot_inv. repeat split; [destruct A; [left; assumption|right; lia]|lia|exact C].
Qed.

Lemma extend_array_inv a h a' h' : BI a -> CP a h -> extend_array a h = Ok (a', h') ->
  BI a' /\ CP a' h' /\ ba_len a' = ba_len a + 256.
Proof.
  intros HB [C1 C2] H. unfold extend_array in H. destruct (_ <? ba_len a); [discriminate|]. bstep H. bstep H.
  inversion H; subst a' h'; clear H.
  assert (HB1 : BI a0 /\ ba_len a0 = ba_len a).
  { destruct (dropped_block h); [exact (remove_invalid_checks_BI _ _ _ _ HB E)|inversion E; subst; auto]. }
  destruct HB1 as [HB1 L1]. destruct (push_block_meta _ _ E0) as (_ & P2 & _ & P4).
  split; [apply BI_grow; exact HB1|]. unfold CP, BLOCK_LEN. cbn [ba_len]. split; [split; [|congruence]|lia].
  rewrite P4, L1, C1. lia.
Qed.

Lemma init_array_inv nfb a h : init_array nfb = Ok (a, h) -> BI a /\ CP a h.
Proof.
  unfold init_array. intros H. bstep H. bstep H. bstep H. bstep H. inversion H; subst a h; clear H.
  unfold helper_new in E. destruct (_ <? _); [discriminate|]. destruct (_ =? 0); [discriminate|]. inversion E; subst a0; clear E.
  destruct (push_block _) as [hh| | | |] eqn:Ep; try discriminate. inversion E0; subst hh; clear E0.
  destruct (push_block_meta _ _ Ep) as (_ & P2 & _ & P4). cbn [h_block_len h_nblocks] in P2, P4.
  pose proof (hmeta_trans _ _ _ (use_index_meta _ _ _ E1) (use_index_meta _ _ _ E2)) as (_ & M2 & _ & M4).
  split.
  - unfold BuildSafe.BI, BLOCK_LEN. cbn [ba_len ba_map]. split; [lia|]. split; [reflexivity|].
    intros i s Hg. rewrite nget_empty in Hg. discriminate.
  - unfold CP, BLOCK_LEN in *. cbn [ba_len]. split; [rewrite M4, P4; lia|congruence].
Qed.

(* find_base answers an index inside the array, or the array length itself *)
Lemma find_base_loop_lt : forall fuel h cur l0 labels b,
  find_base_loop fuel h cur l0 labels = Ok (Some b) -> b < h_nblocks h * h_block_len h.
Proof.
  induction fuel as [|fuel IH]; intros h cur l0 labels b H; destruct cur as [idx|]; cbn [find_base_loop] in H; try discriminate.
  bstep H. bstep H. destruct a0 as [b'|].
  - inversion H; subst b'. unfold check_valid_base in E0. bstep E0. destruct a0; [discriminate|]. bstep E0.
    destruct a0; [|discriminate]. destruct (N.lxor idx l0 =? 0); [discriminate|]. inversion E0; subst b.
    unfold is_used_base in E1. bstep E1. exact (get_item_lt _ _ _ E3).
  - exact (IH _ _ _ _ _ H).
Qed.

Lemma find_base_range a h labels base : CP a h -> find_base a h labels = Ok base -> base <= ba_len a.
Proof.
  intros [C1 C2] H. unfold find_base in H. destruct labels as [|l0 r]; [discriminate|]. bstep H. destruct a0 as [b|].
  - inversion H; subst b. apply find_base_loop_lt in E. rewrite C2 in E. lia.
  - destruct (U32_MAX <? ba_len a); [discriminate|]. destruct (ba_len a =? 0); [discriminate|]. inversion H. lia.
Qed.

(* the state-id map holds array indices *)
Definition IM (idmap : nmap N) (len : N) : Prop := forall i x, nget i idmap = Some x -> x < len.

Lemma place_children_inv : forall es a h idmap nst base stack a' h' idmap' stack',
  (forall c t, In (c, t) es -> c < 256) -> BI a -> IM idmap (ba_len a) ->
  place_children a h idmap nst base es stack = Ok (a', h', idmap', stack') ->
  BI a' /\ ba_len a' = ba_len a /\ hmeta h h' /\ IM idmap' (ba_len a).
Proof.
  induction es as [|[c ch] es IH]; intros a h idmap nst base stack a' h' idmap' stack' Hl HB HI H; cbn [place_children] in H.
  - inversion H; subst. split; [exact HB|]. split; [reflexivity|]. split; [apply hmeta_refl|exact HI].
  - bstep H. bstep H. destruct (ch <? nst); [|discriminate].
    destruct (ba_upd_BI nout a _ _ a1 HB (fun s => set_check_inv nout _ c s (Hl c ch (or_introl eq_refl))) E0) as (HB1 & L1 & Hlt).
    assert (HI1 : IM (nset ch (N.lxor base c) idmap) (ba_len a1)).
    { intros i x Hg. rewrite L1. destruct (N.eq_dec i ch) as [->|Hne]; [rewrite ngss in Hg; inversion Hg; subst; exact Hlt|].
      rewrite ngso in Hg by exact Hne. exact (HI i x Hg). }
    destruct (IH _ _ _ _ _ _ _ _ _ _ (fun c0 t H0 => Hl c0 t (or_intror H0)) HB1 HI1 H) as (HB2 & L2 & M2 & HI2).
    split; [exact HB2|]. split; [congruence|]. split; [exact (hmeta_trans _ _ _ (use_index_meta _ _ _ E) M2)|].
    rewrite <- L1. exact HI2.
Qed.

Lemma IM_mono idmap l1 l2 : l1 <= l2 -> IM idmap l1 -> IM idmap l2.
Proof. intros Hl H i x Hg. specialize (H i x Hg). lia. Qed.

Lemma dfs_loop_inv (n : nfa V) : AllSt V (PL2 V (fun b : N => b < 256) nout) n ->
  forall fuel a h idmap stack a' h' idmap',
  BI a -> CP a h -> IM idmap (ba_len a) ->
  dfs_loop V fuel n a h idmap stack = Ok (a', h', idmap') -> BI a' /\ IM idmap' (ba_len a').
Proof.
  intros HN. induction fuel as [|fuel IH]; intros a h idmap stack a' h' idmap' HB HC HI H;
    destruct stack as [|sid stack]; cbn [dfs_loop] in H; try (inversion H; subst; auto; fail); try discriminate.
  destruct (sid =? DEAD); [discriminate|]. bstep H. bstep H. destruct (a1 =? DEAD); [discriminate|].
  destruct (n_edges a0) as [|e0 es0] eqn:Ee; [exact (IH _ _ _ _ _ _ _ HB HC HI H)|]. rewrite <- Ee in H.
  bstep H. bstep H. destruct a3 as [a3 h3]. bstep H. destruct a4 as [[[a4 h4] idmap4] stack4]. bstep H. bstep H.
  pose proof (find_base_range _ _ _ _ HC E1) as Hbase.
  assert (Hext : BI a3 /\ CP a3 h3 /\ ba_len a <= ba_len a3 /\ a2 < ba_len a3).
  { destruct (ba_len a <=? a2) eqn:El.
    - destruct (extend_array_inv _ _ _ _ HB HC E2) as (X1 & X2 & X3). split; [exact X1|]. split; [exact X2|]. split; lia.
    - inversion E2; subst a3 h3. split; [exact HB|]. split; [exact HC|]. split; lia. }
  destruct Hext as (HB3 & HC3 & Hle & Hb).
  destruct (HN sid a0 (nfa_get_some V n sid a0 E)) as [_ Hlab].
  destruct (place_children_inv _ _ _ _ _ _ _ _ _ _ _ Hlab HB3 (IM_mono _ _ _ Hle HI) E3) as (HB4 & L4 & M4 & HI4).
  assert (Hb4 : a2 < ba_len a4) by lia.
  destruct (ba_upd_BI nout a4 _ _ a5 HB4 (fun s => set_base_inv nout _ a2 s Hb4) E4) as (HB5 & L5 & _).
  apply (IH a5 a6 idmap4 stack4 a' h' idmap'); [exact HB5| |rewrite L5, L4; exact HI4|exact H].
  apply (CP_meta a5 h3); [|exact (hmeta_trans _ _ _ M4 (use_base_meta _ _ _ E5))].
  destruct HC3 as [C1 C2]. split; [congruence|exact C2].
Qed.

Lemma set_fails_loop_inv (n : nfa V) : AllSt V (PL2 V (fun b : N => b < 256) nout) n ->
  forall ids a idmap a', BI a -> IM idmap (ba_len a) ->
  set_fails_loop V n a idmap ids = Ok a' -> BI a' /\ ba_len a' = ba_len a.
Proof.
  intros HN. induction ids as [|i ids IH]; intros a idmap a' HB HI H; cbn [set_fails_loop] in H; [inversion H; subst; auto|].
  destruct (i =? DEAD); [exact (IH _ _ _ HB HI H)|]. bstep H. destruct (a0 =? DEAD); [discriminate|]. bstep H.
  destruct (U24_MAX <? n_outpos a1); [discriminate|]. bstep H.
  destruct (HN i a1 (nfa_get_some V n i a1 E0)) as [Hop _].
  destruct (ba_upd_BI nout a _ _ a2 HB (fun s => set_outpos_inv nout _ _ s Hop) E1) as (HB2 & L2 & _).
  pose proof (BI_len nout a HB) as Hlen.
  destruct (n_fail a1 =? DEAD).
  - bstep H. assert (Hd : DEAD < ba_len a2) by (unfold DEAD; lia).
    destruct (ba_upd_BI nout a2 _ _ a3 HB2 (fun s => set_bfail_inv nout _ _ s Hd) E2) as (HB3 & L3 & _).
    destruct (IH a3 idmap a' HB3 ltac:(rewrite L3, L2; exact HI) H) as [X1 X2]. split; [exact X1|congruence].
  - bstep H. destruct (a3 =? DEAD); [discriminate|]. bstep H.
    assert (Hf : a3 < ba_len a2).
    { unfold idmap_get in E2. destruct (_ <? _); [|discriminate]. inversion E2; subst a3.
      destruct (nget (n_fail a1) idmap) eqn:Eg; [rewrite L2; exact (HI _ _ Eg)|unfold DEAD; lia]. }
    destruct (ba_upd_BI nout a2 _ _ a4 HB2 (fun s => set_bfail_inv nout _ _ s Hf) E3) as (HB3 & L3 & _).
    destruct (IH a4 idmap a' HB3 ltac:(rewrite L3, L2; exact HI) H) as [X1 X2]. split; [exact X1|congruence].
Qed.

Theorem build_double_array_inv nfb (n : nfa V) sts : AllSt V (PL2 V (fun b : N => b < 256) nout) n ->
  build_double_array V nfb n = Ok sts ->
  0 < N.of_nat (length sts) /\ N.of_nat (length sts) mod 256 = 0
  /\ Forall (slot_inv (N.of_nat (length sts))) sts.
Proof.
  intros HN H. unfold build_double_array in H.
  destruct (init_array nfb) as [[a0 h0]| | | |] eqn:E; cbn [bind] in H; try discriminate.
  destruct (dfs_loop V _ n a0 h0 _ _) as [[[a1 h1] idmap]| | | |] eqn:E0; cbn [bind] in H; try discriminate.
  destruct (set_fails_loop V n a1 idmap _) as [a2| | | |] eqn:E1; cbn [bind] in H; try discriminate.
  destruct (ric_blocks a2 h1 _) as [a3| | | |] eqn:E2; cbn [bind] in H; try discriminate.
  inversion H; subst sts; clear H.
  destruct (init_array_inv _ _ _ E) as [HB0 HC0].
  assert (HI0 : IM (nset ROOT ROOT nempty) (ba_len a0)).
  { intros i x Hg. destruct (N.eq_dec i ROOT) as [->|Hne]; [rewrite ngss in Hg; inversion Hg; destruct HB0; unfold ROOT; lia|].
    rewrite ngso in Hg by exact Hne. rewrite nget_empty in Hg. discriminate. }
  destruct (dfs_loop_inv n HN _ _ _ _ _ _ _ _ HB0 HC0 HI0 E0) as [HB1 HI1].
  destruct (set_fails_loop_inv n HN _ _ _ _ HB1 HI1 E1) as [HB2 L2].
  destruct (ric_blocks_BI _ _ _ _ HB2 E2) as [(H0 & Hm & Hs) L3].
  unfold barr_to_list. rewrite map_length, nseq_len, N2Nat.id. split; [exact H0|]. split; [exact Hm|].
  apply Forall_forall. intros s Hin. apply in_map_iff in Hin as [i [<- _]].
  destruct (nget i (ba_map a3)) eqn:Eg; [exact (Hs i b Eg)|apply slot_inv_default; exact H0].
Qed.
End Da2.

(* ---- C07 for the byte-wise builder ------------------------------------------------------------ *)
Theorem bw_build_safe_lemma (V : Type) k nfb (pvs : list (list N * V)) A :
  (forall p v, In (p, v) pvs -> Forall (fun b => b < 256) p) ->
  bw_build_with_values V k nfb pvs = Ok A -> bw_safe_b A = true.
Proof.
  intros Hb H. unfold bw_build_with_values in H. destruct (nfb =? 0); [discriminate|].
  destruct (bw_build_sparse_nfa V k pvs) as [n| | | |] eqn:En; cbn [bind] in H; try discriminate.
  destruct (build_double_array V nfb n) as [sts| | | |] eqn:Ed; cbn [bind] in H; try discriminate.
  destruct (U32_MAX <? n_nstates n - 1); [discriminate|]. inversion H; subst A; clear H.
  destruct (bw_sparse_nfa_inv V k pvs n Hb En) as [HA HO].
  destruct (build_double_array_inv V _ nfb n sts HA Ed) as (H0 & Hm & Hs).
  unfold bw_safe_b. cbn [bw_states bw_outputs]. rewrite !andb_true_iff. repeat split.
  - apply N.ltb_lt. exact H0.
  - apply N.eqb_eq. exact Hm.
  - apply forallb_forall. intros s Hin. rewrite Forall_forall in Hs. destruct (Hs s Hin) as (A1 & A2 & A3).
    unfold bw_slot_ok. rewrite !andb_true_iff. repeat split; [|apply N.ltb_lt; exact A2|apply N.leb_le; exact A3].
    apply orb_true_iff. destruct A1 as [A1|A1]; [left; apply N.eqb_eq; exact A1|right; apply N.ltb_lt; exact A1].
  - apply forallb_forall. intros o Hin. rewrite Forall_forall in HO. apply N.leb_le. exact (HO o Hin).
Qed.
