(* HelperFlagsG.v — HelperFlags.v for an arbitrary block length bl > 0 (character-wise builder) — src/build_helper.rs seen through its two flags.  For every index of the active
   blocks, used_index / used_base are a function of the history of use_index / use_base / push_block
   calls: the ring of items indexed by idx mod capacity never aliases two active indices, the list
   links (next / prev) never disturb a flag, and push_block hands out a block of fresh flags while
   leaving the flags of the blocks that stay active alone.  (Byte-wise block length bl.) *)
From DV Require Import Model.Base Model.Helper Proofs.BuildSafe.
From Coq Require Import ZifyN ZifyNat ZifyBool.
Local Open Scope N_scope.

Ltac bstep H :=
  match type of H with
  | bind ?e _ = Ok _ => let E := fresh "E" in destruct e eqn:E; cbn [bind] in H; try discriminate
  end.

Section G.
Variable bl : N.
Hypothesis bl_pos : 0 < bl.

Definition act (h : helper) (i : N) : Prop := active_index_start h <= i < active_index_end h.
Definition fl (h : helper) (i : N) : item :=
  match nget (i mod h_cap h) (h_items h) with Some it => it | None => item_default end.
Definition ui (h : helper) (i : N) : bool := i_used_index (fl h i).
Definition ub (h : helper) (i : N) : bool := i_used_base (fl h i).

Definition HW (h : helper) : Prop := h_block_len h = bl /\ h_cap h = bl * h_nfb h /\ 1 <= h_nfb h.

Lemma HW_meta h h' : HW h -> hmeta h h' -> HW h'.
Proof. unfold HW, hmeta. intros (A & B & C) (D & E & F & _). rewrite D, E, F. auto. Qed.

Lemma act_meta h h' i : hmeta h h' -> (act h' i <-> act h i).
Proof.
  unfold hmeta, act, active_index_start, active_index_end, active_block_start. intros (_ & B & C & D). rewrite B, C, D. reflexivity.
Qed.

Lemma get_item_act h i : act h i -> get_item h i = Ok (fl h i).
Proof.
  intros [A B]. unfold get_item, offset. assert ((active_index_start h <=? i) && (i <? active_index_end h) = true) as ->.
  { apply andb_true_iff. split; [apply N.leb_le; exact A|apply N.ltb_lt; exact B]. }
  reflexivity.
Qed.

Lemma get_item_inv h i it : get_item h i = Ok it -> act h i /\ it = fl h i.
Proof.
  unfold get_item, offset. destruct ((active_index_start h <=? i) && (i <? active_index_end h)) eqn:E; [|discriminate].
  apply andb_true_iff in E as [A B]. apply N.leb_le in A. apply N.ltb_lt in B. cbn [bind]. intros H. inversion H. split; [split; assumption|reflexivity].
Qed.

(* two active indices never share a ring slot *)
Lemma act_mod_inj h i j : HW h -> act h i -> act h j -> i mod h_cap h = j mod h_cap h -> i = j.
Proof.
  intros (B & C & D) [Ai Bi] [Aj Bj] E.
  unfold active_index_start, active_index_end, active_block_start in *. rewrite B in *.
  assert (Hc : 0 < h_cap h) by (rewrite C; nia).
  assert (Hspan : h_nblocks h * bl <= (h_nblocks h - h_nfb h) * bl + h_cap h).
  { rewrite C. destruct (N.le_gt_cases (h_nblocks h) (h_nfb h)) as [L|L].
    - replace (h_nblocks h - h_nfb h) with 0 by lia. rewrite N.mul_0_l, N.add_0_l, (N.mul_comm bl). apply N.mul_le_mono_r. exact L.
    - replace (h_nblocks h) with ((h_nblocks h - h_nfb h) + h_nfb h) at 1 by lia. rewrite N.mul_add_distr_r, (N.mul_comm bl). lia. }
  set (cap := h_cap h) in *.
  pose proof (N.div_mod i cap ltac:(lia)) as Di. pose proof (N.div_mod j cap ltac:(lia)) as Dj.
  pose proof (N.mod_lt i cap ltac:(lia)) as Mi.
  rewrite E in Di. set (r := j mod cap) in *. set (qi := i / cap) in *. set (qj := j / cap) in *.
  assert (Hq : qi = qj); [|rewrite Hq in Di; lia].
  destruct (N.lt_trichotomy qi qj) as [L|[L|L]]; [|exact L|].
  - exfalso. assert (cap * (qi + 1) <= cap * qj) by (apply N.mul_le_mono_l; lia). lia.
  - exfalso. assert (cap * (qj + 1) <= cap * qi) by (apply N.mul_le_mono_l; lia). lia.
Qed.

(* ---- single updates --------------------------------------------------------------------------- *)
Lemma upd_item_inv h i f h' : upd_item h i f = Ok h' ->
  act h i /\ h' = with_items h (nset (i mod h_cap h) (f (fl h i)) (h_items h)).
Proof.
  unfold upd_item, offset. destruct ((active_index_start h <=? i) && (i <? active_index_end h)) eqn:E; [|discriminate].
  apply andb_true_iff in E as [A B]. apply N.leb_le in A. apply N.ltb_lt in B. cbn [bind]. intros H. inversion H.
  split; [split; assumption|reflexivity].
Qed.

Lemma upd_item_fl h i f h' : HW h -> upd_item h i f = Ok h' ->
  act h i /\ hmeta h h' /\ h_head h' = h_head h /\
  forall j, act h j -> fl h' j = if j =? i then f (fl h i) else fl h j.
Proof.
  intros W H. pose proof (upd_item_meta _ _ _ _ H) as M. destruct (upd_item_inv _ _ _ _ H) as [A ->].
  split; [exact A|]. split; [exact M|]. split; [reflexivity|]. intros j Aj. unfold fl, with_items. cbn [h_items h_cap].
  destruct (j =? i) eqn:E.
  - apply N.eqb_eq in E. subst j. rewrite ngss. reflexivity.
  - apply N.eqb_neq in E. rewrite ngso; [reflexivity|]. intros Em. apply E. exact (act_mod_inj h j i W Aj A Em).
Qed.

(* the flags of all active indices agree *)
Definition feq (h h' : helper) : Prop := forall j, act h j -> ui h' j = ui h j /\ ub h' j = ub h j.
Lemma feq_refl h : feq h h. Proof. intros j _. auto. Qed.
Lemma feq_trans a b c : hmeta a b -> feq a b -> feq b c -> feq a c.
Proof. intros M H1 H2 j Aj. destruct (H1 j Aj) as [A B]. destruct (H2 j (proj2 (act_meta a b j M) Aj)) as [C D]. split; congruence. Qed.

Lemma upd_item_links h i f h' : HW h -> (forall it, i_used_index (f it) = i_used_index it /\ i_used_base (f it) = i_used_base it) ->
  upd_item h i f = Ok h' -> hmeta h h' /\ feq h h' /\ h_head h' = h_head h.
Proof.
  intros W Hf H. destruct (upd_item_fl h i f h' W H) as (A & M & Hd & F). split; [exact M|]. split; [|exact Hd].
  intros j Aj. unfold ui, ub. rewrite (F j Aj). destruct (j =? i) eqn:E; [|auto]. apply N.eqb_eq in E. subst j. apply Hf.
Qed.

Lemma set_next_flags x it : i_used_index (set_next x it) = i_used_index it /\ i_used_base (set_next x it) = i_used_base it.
Proof. split; reflexivity. Qed.
Lemma set_prev_flags x it : i_used_index (set_prev x it) = i_used_index it /\ i_used_base (set_prev x it) = i_used_base it.
Proof. split; reflexivity. Qed.

Lemma with_head_feq h hd : feq h (with_head h hd) /\ hmeta h (with_head h hd).
Proof. split; [intros j _; split; reflexivity|unfold hmeta, with_head; cbn; auto]. Qed.

Lemma use_index_fl h i h' : HW h -> use_index h i = Ok h' ->
  act h i /\ ui h i = false /\ hmeta h h' /\
  forall j, act h j -> ui h' j = ((j =? i) || ui h j) /\ ub h' j = ub h j.
Proof.
  intros W H. pose proof (use_index_meta _ _ _ H) as M. unfold use_index in H. bstep H.
  destruct (get_item_inv _ _ _ E) as [A ->]. destruct (i_used_index (fl h i)) eqn:Eu; [discriminate|].
  bstep H. bstep H. bstep H. bstep H.
  destruct (upd_item_fl h i mark_index a W E0) as (_ & M1 & _ & F1).
  pose proof (HW_meta _ _ W M1) as W1.
  destruct (upd_item_links a _ _ a1 W1 (set_next_flags _) E2) as (M2 & F2 & _).
  pose proof (HW_meta _ _ W1 M2) as W2.
  destruct (upd_item_links a1 _ _ a2 W2 (set_prev_flags _) E3) as (M3 & F3 & _).
  assert (F23 : feq a a2) by (apply (feq_trans a a1 a2 M2 F2 F3)).
  assert (Hfin : feq a2 h' /\ hmeta a2 h').
  { destruct (h_head a2); [|discriminate]. destruct (n =? i); inversion H; subst; [apply with_head_feq|split; [apply feq_refl|apply hmeta_refl]]. }
  destruct Hfin as [F4 M4].
  assert (F : feq a h') by (apply (feq_trans a a2 h' (hmeta_trans _ _ _ M2 M3) F23 F4)).
  split; [exact A|]. split; [exact Eu|]. split; [exact M|].
  intros j Aj. destruct (F j (proj2 (act_meta h a j M1) Aj)) as [U B]. rewrite U, B. unfold ui, ub. rewrite (F1 j Aj).
  destruct (j =? i) eqn:Ej; [|auto]. apply N.eqb_eq in Ej. subst j. cbn. auto.
Qed.

Lemma use_base_fl h b h' : HW h -> use_base h b = Ok h' ->
  act h b /\ hmeta h h' /\ h_head h' = h_head h /\
  forall j, act h j -> ui h' j = ui h j /\ ub h' j = ((j =? b) || ub h j).
Proof.
  intros W H. unfold use_base in H. destruct (upd_item_fl h b mark_base h' W H) as (A & M & Hd & F).
  split; [exact A|]. split; [exact M|]. split; [exact Hd|]. intros j Aj. unfold ui, ub. rewrite (F j Aj).
  destruct (j =? b) eqn:Ej; [|auto]. apply N.eqb_eq in Ej. subst j. cbn. auto.
Qed.

Lemma is_used_index_inv h i b : is_used_index h i = Ok b -> act h i /\ b = ui h i.
Proof. unfold is_used_index. intros H. bstep H. destruct (get_item_inv _ _ _ E) as [A ->]. inversion H. auto. Qed.
Lemma is_used_base_inv h i b : is_used_base h i = Ok b -> act h i /\ b = ub h i.
Proof. unfold is_used_base. intros H. bstep H. destruct (get_item_inv _ _ _ E) as [A ->]. inversion H. auto. Qed.

(* ---- push_block ------------------------------------------------------------------------------- *)
Lemma drop_loop_fl : forall fuel h e h', HW h -> drop_loop fuel h e = Ok h' ->
  hmeta h h' /\ forall j, act h j -> e <= j -> ui h' j = ui h j /\ ub h' j = ub h j.
Proof.
  induction fuel as [|fuel IH]; intros h e h' W H; cbn [drop_loop] in H; [discriminate|].
  destruct (h_head h) as [hd|]; [|inversion H; subst; split; [apply hmeta_refl|auto]].
  destruct (e <=? hd) eqn:El; [inversion H; subst; split; [apply hmeta_refl|auto]|].
  bstep H. destruct (use_index_fl h hd a W E) as (_ & _ & M & F).
  destruct (IH a e h' (HW_meta _ _ W M) H) as [M2 F2]. split; [exact (hmeta_trans _ _ _ M M2)|].
  intros j Aj Hj. destruct (F j Aj) as [U B]. destruct (F2 j (proj2 (act_meta h a j M) Aj) Hj) as [U2 B2].
  rewrite U2, B2, U, B. assert ((j =? hd) = false) as -> by (apply N.eqb_neq; lia). auto.
Qed.

Lemma reset_range_fl : forall idxs h h', HW h -> reset_range h idxs = Ok h' ->
  hmeta h h' /\ h_head h' = h_head h /\
  forall j, act h j -> (In j idxs -> ui h' j = false /\ ub h' j = false)
                       /\ (~ In j idxs -> ui h' j = ui h j /\ ub h' j = ub h j).
Proof.
  induction idxs as [|idx r IH]; intros h h' W H; cbn [reset_range] in H.
  - inversion H; subst. split; [apply hmeta_refl|]. split; [reflexivity|]. intros j _. split; [intros []|auto].
  - bstep H. unfold offset in E. destruct ((active_index_start h <=? idx) && (idx <? active_index_end h)) eqn:Ea; [|discriminate].
    inversion E; subst a; clear E. apply andb_true_iff in Ea as [A B]. apply N.leb_le in A. apply N.ltb_lt in B.
    assert (Ai : act h idx) by (split; assumption).
    set (it := {| i_next := idx + 1; i_prev := if idx =? 0 then U32_MAX else idx - 1; i_used_base := false; i_used_index := false |}) in *.
    set (h1 := with_items h (nset (idx mod h_cap h) it (h_items h))) in *.
    assert (M1 : hmeta h h1) by (unfold hmeta, h1, with_items; cbn; auto).
    destruct (IH h1 h' (HW_meta _ _ W M1) H) as (M2 & Hd & F2).
    split; [exact (hmeta_trans _ _ _ M1 M2)|]. split; [rewrite Hd; reflexivity|].
    assert (F1 : forall j, act h j -> fl h1 j = if j =? idx then it else fl h j).
    { intros j Aj. unfold fl, h1, with_items. cbn [h_items h_cap]. destruct (j =? idx) eqn:Ej.
      - apply N.eqb_eq in Ej. subst j. rewrite ngss. reflexivity.
      - apply N.eqb_neq in Ej. rewrite ngso; [reflexivity|]. intros Em. apply Ej. exact (act_mod_inj h j idx W Aj Ai Em). }
    intros j Aj. destruct (F2 j (proj2 (act_meta h h1 j M1) Aj)) as [G1 G2]. split.
    + intros [<-|Hin]; [|exact (G1 Hin)]. destruct (in_dec N.eq_dec idx r) as [Hi|Hi]; [exact (G1 Hi)|].
      destruct (G2 Hi) as [U B2]. rewrite U, B2. unfold ui, ub. rewrite (F1 idx Aj), N.eqb_refl. auto.
    + intros Hn. cbn [In] in Hn. destruct (G2 ltac:(tauto)) as [U B2]. rewrite U, B2. unfold ui, ub. rewrite (F1 j Aj).
      assert ((j =? idx) = false) as -> by (apply N.eqb_neq; intros ->; tauto). auto.
Qed.

Lemma nseq_in' : forall n a x, In x (nseq a n) <-> a <= x < a + N.of_nat n.
Proof.
  induction n as [|n IH]; intros a x; cbn [nseq In]; [lia|]. rewrite IH. lia.
Qed.

Lemma push_block_fl h h' : HW h -> push_block h = Ok h' ->
  HW h' /\ h_nblocks h' = h_nblocks h + 1 /\
  forall j, act h' j ->
    (active_index_end h <= j -> ui h' j = false /\ ub h' j = false)
    /\ (j < active_index_end h -> act h j /\ ui h' j = ui h j /\ ub h' j = ub h j).
Proof.
  intros W H. destruct (push_block_meta _ _ H) as (P1 & P2 & P3 & P4).
  assert (W' : HW h') by (destruct W as (A & B & C); unfold HW; rewrite P1, P2, P3; auto).
  split; [exact W'|]. split; [exact P4|].
  unfold push_block in H. destruct (_ <? num_elements h); [discriminate|]. bstep H.
  (* h -> a : the vacancies of the closing block are consumed *)
  assert (S1 : hmeta h a /\ forall j, act h j -> (h_nblocks h + 1 - h_nfb h) * bl <= j -> ui a j = ui h j /\ ub a j = ub h j).
  { unfold dropped_block in E. destruct (h_cap h <=? num_elements h) eqn:Ec.
    - destruct (drop_loop_fl _ _ _ _ W E) as [M F]. split; [exact M|]. intros j Aj Hj. apply (F j Aj).
      destruct W as (B & C & D). unfold active_block_start, num_elements in *. rewrite B in *.
      assert (h_nfb h <= h_nblocks h).
      { apply N.leb_le in Ec. rewrite C, (N.mul_comm (h_nblocks h)) in Ec. apply (N.mul_le_mono_pos_l _ _ bl bl_pos). exact Ec. }
      replace (h_nblocks h - h_nfb h + 1) with (h_nblocks h + 1 - h_nfb h) by lia. exact Hj.
    - inversion E; subst a. split; [apply hmeta_refl|auto]. }
  destruct S1 as [M1 F1]. pose proof (HW_meta _ _ W M1) as Wa.
  set (h2 := {| h_items := h_items a; h_cap := h_cap a; h_block_len := h_block_len a; h_nfb := h_nfb a;
                h_nblocks := h_nblocks a + 1; h_head := h_head a |}) in *.
  assert (W2 : HW h2) by (destruct Wa as (A & B & C); unfold HW, h2; cbn; auto).
  assert (Hfl2 : forall j, fl h2 j = fl a j) by (intros j; reflexivity).
  bstep H. destruct (reset_range_fl _ _ _ W2 E0) as (M3 & Hd3 & F3).
  assert (Hrest : hmeta a0 h' /\ feq a0 h').
  { pose proof (HW_meta _ _ W2 M3) as W3. destruct (h_head a0) as [hd|].
    - bstep H. bstep H. bstep H. bstep H.
      destruct (upd_item_links _ _ _ _ W3 (set_prev_flags _) E2) as (N1 & G1 & _). pose proof (HW_meta _ _ W3 N1) as X1.
      destruct (upd_item_links _ _ _ _ X1 (set_next_flags _) E3) as (N2 & G2 & _). pose proof (HW_meta _ _ X1 N2) as X2.
      destruct (upd_item_links _ _ _ _ X2 (set_next_flags _) E4) as (N3 & G3 & _). pose proof (HW_meta _ _ X2 N3) as X3.
      destruct (upd_item_links _ _ _ _ X3 (set_prev_flags _) H) as (N4 & G4 & _).
      split; [exact (hmeta_trans _ _ _ (hmeta_trans _ _ _ (hmeta_trans _ _ _ N1 N2) N3) N4)|].
      apply (feq_trans a0 a4 h' (hmeta_trans _ _ _ (hmeta_trans _ _ _ N1 N2) N3)); [|exact G4].
      apply (feq_trans a0 a3 a4 (hmeta_trans _ _ _ N1 N2)); [|exact G3]. exact (feq_trans a0 a2 a3 N1 G1 G2).
    - bstep H. bstep H. inversion H; subst h'; clear H.
      destruct (upd_item_links _ _ _ _ W3 (set_prev_flags _) E1) as (N1 & G1 & _). pose proof (HW_meta _ _ W3 N1) as X1.
      destruct (upd_item_links _ _ _ _ X1 (set_next_flags _) E2) as (N2 & G2 & _).
      destruct (with_head_feq a2 (Some (num_elements a))) as [G3 N3].
      split; [exact (hmeta_trans _ _ _ (hmeta_trans _ _ _ N1 N2) N3)|].
      apply (feq_trans a0 a2 _ (hmeta_trans _ _ _ N1 N2)); [|exact G3]. exact (feq_trans a0 a1 a2 N1 G1 G2). }
  destruct Hrest as [M4 F4].
  intros j Aj'.
  assert (A2 : act h2 j) by (apply (act_meta h2 a0 j M3); apply (act_meta a0 h' j M4); exact Aj').
  destruct (F4 j (proj2 (act_meta h2 a0 j M3) A2)) as [U4 B4]. destruct (F3 j A2) as [G1 G2].
  destruct M1 as (Ma1 & Ma2 & Ma3 & Ma4). destruct W as (Wb & Wc & Wd).
  assert (Hold : num_elements a = active_index_end h) by (unfold num_elements, active_index_end; rewrite Ma2, Ma4; reflexivity).
  assert (Hbl : h_block_len h2 = bl) by (unfold h2; cbn; congruence).
  split.
  - intros Hj. rewrite U4, B4. apply G1. apply nseq_in'. rewrite Hbl, Hold.
    destruct A2 as [_ A2]. unfold active_index_end, h2 in A2. cbn in A2. unfold active_index_end in *. rewrite Ma2, Ma4, Wb in A2. rewrite N2Nat.id. lia.
  - intros Hj.
    assert (Hnin : ~ In j (nseq (num_elements a) (N.to_nat (h_block_len h2)))) by (rewrite nseq_in', Hold; lia).
    destruct (G2 Hnin) as [U3 B3].
    assert (Aj : act h j).
    { destruct A2 as [A2 _]. unfold act, active_index_start, active_index_end, active_block_start, h2 in *. cbn in A2.
      rewrite Ma2, Ma3, Ma4, Wb in A2. rewrite Wb. lia. }
    split; [exact Aj|].
    assert (Hge : (h_nblocks h + 1 - h_nfb h) * bl <= j).
    { destruct A2 as [A2 _]. unfold active_index_start, active_block_start, h2 in A2. cbn in A2. rewrite Ma2, Ma3, Ma4, Wb in A2. exact A2. }
    destruct (F1 j Aj Hge) as [U1 B1].
    rewrite U4, B4, U3, B3. unfold ui, ub. rewrite !Hfl2. fold (ui a j) (ub a j). rewrite U1, B1. auto.
Qed.
End G.
