(* Extract.v — extraction of the executable model for the correspondence driver.
   Only ExtrOcamlBasic's directives are used (bool, option, list, prod, unit, sumbool, sumor ->
   the OCaml natives); N, Z, positive and nat stay the extracted inductives.  No Extract Constant
   or Extract Inductive of our own. *)
From DV Require Import Model.Base Model.Nfa Model.Helper Model.BwBuild Model.Utf8 Model.CwBuild
     Model.BwSearch Model.CwSearch Model.Api Model.Ser Model.Spec Model.Cli Model.CliRaw Model.Cert.
Require Extraction.
Require Import ExtrOcamlBasic.
Extraction Language OCaml.
Set Extraction KeepSingleton.
Extraction "extracted/model.ml"
  bw_build bw_build_with_values cw_build cw_build_with_values
  bw_serialize bw_deserialize cw_serialize cw_deserialize
  find_next ovl_next nos_next lm_next cfind_next covl_next cnos_next clm_next
  find_init ovl_init nos_init lm_init
  bw_sget bw_oget bw_nslots cw_sget cw_oget cw_tget cw_nslots
  bw_child bw_next_state bw_next_state_lm fuel0
  cw_child cw_next_state cw_next_state_lm cfuel0 mapper_get
  triple vt_conv vt_serializable chars_of encode_utf8 kind_of_u8
  bw_heap_bytes cw_heap_bytes
  bw_find_iter bw_find_overlapping_iter bw_find_overlapping_no_suffix_iter bw_leftmost_find_iter
  cw_find_iter cw_find_overlapping_iter cw_find_overlapping_no_suffix_iter cw_leftmost_find_iter
  spec_overlapping spec_find spec_nosuffix spec_lml spec_lmf effective distinct_nonempty_prefixes
  spec_build_error spec_build_error_conv
  cli_main cli_main_raw cli_patterns buf_lines covered
  bw_cert_ok bw_cert_count bw_ranges_b cw_ranges_b bw_safe_b bw_stats_ok bw_lm_cert_ok cw_cert_ok cw_safe_b cw_lm_cert_ok.
