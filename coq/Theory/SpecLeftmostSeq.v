(* SpecLeftmostSeq.v — C03 / C04: the executable specifications [spec_lml] and [spec_lmf] against the
   property text, each as ONE declarative statement on [occ_at] alone.
   [lm_seq pick pvs h from ms]: every element of ms is the occurrence chosen by the rule [pick]
   at the smallest start >= the end of the previous element (initially [from]) at which any
   occurrence starts -- so no occurrence starts in a gap -- and the sequence stops exactly when no
   occurrence starts at or after the end of the last element.
   leftmost-longest: [pick] = the longest pattern occurring at that start;
   leftmost-first:   [pick] = the earliest-registered pattern occurring at that start. *)
From DV Require Import Model.Base Model.Spec Proofs.GenAC Proofs.Leftmost Proofs.BwLeftmost Theory.LmfSpec.
From Coq Require Import ZifyN ZifyNat ZifyBool.

Section LmSeq.
Variable V : Type.
Notation occ_at := (occ_at V).

(* "pattern p (non-empty) occurs in h at start s" *)
Definition occurs_at (h : list N) (s : nat) (p : list N) : Prop :=
  p <> [] /\ (s + length p <= length h)%nat /\ sub h s (s + length p) = p.

Lemma skipn_skipn_add {X} (a b : nat) (l : list X) : skipn a (skipn b l) = skipn (b + a) l.
Proof. revert l; induction b as [|b IH]; intros l; [reflexivity|]. destruct l; [destruct a; reflexivity|]. cbn [skipn Nat.add]. apply IH. Qed.

Lemma occurs_at_prefix h s p : p <> [] -> (is_prefix p (skipn s h) = true <-> occurs_at h s p).
Proof.
  intros Hne. rewrite is_prefix_iff. unfold occurs_at, sub. split.
  - intros [r Hr]. split; [exact Hne|]. assert (Hl : (s + length p <= length h)%nat).
    { apply (f_equal (@length N)) in Hr. rewrite skipn_length, app_length in Hr. destruct p; [congruence|cbn [length] in *; lia]. }
    split; [exact Hl|]. replace (s + length p - s)%nat with (length p) by lia. rewrite Hr, firstn_app, Nat.sub_diag, firstn_all.
    cbn [firstn]. apply app_nil_r.
  - intros (_ & Hl & Hs). exists (skipn (length p) (skipn s h)). rewrite <- Hs at 1.
    replace (s + length p - s)%nat with (length p) by lia. symmetry. apply firstn_skipn.
Qed.

Lemma occ_at_occurs pvs h s e v : occ_at pvs h s e v <->
  exists p, In (p, v) pvs /\ occurs_at h s p /\ e = (s + length p)%nat.
Proof.
  unfold Spec.occ_at, occurs_at. split.
  - intros [Hse Hin]. exists (sub h s e). split; [exact Hin|].
    assert (Hlen : length (sub h s e) = (e - s)%nat) by (unfold sub; rewrite firstn_length, skipn_length; lia).
    split; [split|lia]; [intros E; rewrite E in Hlen; cbn [length] in Hlen; lia|]. split; [lia|]. rewrite Hlen. replace (s + (e - s))%nat with e by lia. reflexivity.
  - intros (p & Hin & (Hne & Hl & Hs) & ->). split; [destruct p; [congruence|cbn [length] in *; lia]|]. rewrite Hs. exact Hin.
Qed.

(* the two choice rules at a start position s *)
Definition lml_pick (pvs : list (list N * V)) (h : list N) (s : nat) (pv : list N * V) : Prop :=
  In pv pvs /\ occurs_at h s (fst pv)
  /\ forall e' v', occ_at pvs h s e' v' -> (e' <= s + length (fst pv))%nat.
Definition lmf_pick (pvs : list (list N * V)) (h : list N) (s : nat) (pv : list N * V) : Prop :=
  exists l1 l2, pvs = l1 ++ pv :: l2 /\ occurs_at h s (fst pv)
                /\ forall pv', In pv' l1 -> ~ occurs_at h s (fst pv').   (* nothing registered earlier occurs at s *)

Inductive lm_seq (pick : nat -> list N * V -> Prop) (pvs : list (list N * V)) (h : list N)
  : nat -> list (nat * nat * V) -> Prop :=
| lm_nil from :
    (forall s e v, occ_at pvs h s e v -> (from <= s)%nat -> False) ->
    lm_seq pick pvs h from []
| lm_cons from s pv ms :
    (from <= s)%nat -> pick s pv ->
    (forall s' e' v', occ_at pvs h s' e' v' -> (from <= s')%nat -> (s <= s')%nat) ->   (* leftmost: no occurrence in the gap *)
    lm_seq pick pvs h (s + length (fst pv)) ms ->
    lm_seq pick pvs h from ((s, (s + length (fst pv))%nat, snd pv) :: ms).

(* what [first_start] finds, for any choice function that answers exactly at the starts of occurrences *)
Lemma leftmost_from_seq (pick : nat -> list N * V -> Prop) pvs h (choose : nat -> option (list N * V)) :
  (forall s pv, choose s = Some pv -> pick s pv /\ In pv pvs /\ occurs_at h s (fst pv)) ->
  (forall s, choose s = None -> forall e v, ~ occ_at pvs h s e v) ->
  forall fuel from, (length h - from < fuel)%nat ->
    lm_seq pick pvs h from (spec_leftmost_from V fuel choose (length h) from).
Proof.
  intros Hsome Hnone. induction fuel as [|fuel IH]; intros from Hf; [lia|]. cbn [spec_leftmost_from].
  pose proof (first_start_spec V choose (length h - from) from) as Hfs.
  destruct (first_start V choose (seq from (length h - from))) as [[s pv]|].
  - destruct Hfs as (Hs & Hch & Hbefore). destruct (Hsome s pv Hch) as (Hp & Hin & Hocc).
    apply lm_cons; [lia|exact Hp| |].
    + intros s' e' v' Ho Hfs'. destruct (Nat.le_gt_cases s s') as [H|H]; [exact H|exfalso].
      exact (Hnone s' (Hbefore s' ltac:(lia)) e' v' Ho).
    + apply IH. destruct Hocc as (Hne & Hl & _). destruct (fst pv); [congruence|cbn [length] in *; lia].
  - apply lm_nil. intros s e v Ho Hfs'. pose proof Ho as [Hse _].
    exact (Hnone s (Hfs s ltac:(lia)) e v Ho).
Qed.

Lemma in_nonempty_pats (pvs : list (list N * V)) pv : In pv (nonempty_pats V pvs) <-> In pv pvs /\ fst pv <> [].
Proof.
  unfold nonempty_pats. rewrite filter_In. split; intros [H1 H2]; (split; [exact H1|]).
  - intros E. rewrite E in H2. cbn in H2. discriminate.
  - destruct (list_eqb (fst pv) []) eqn:E; [apply list_eqb_eq in E; contradiction|reflexivity].
Qed.

(* ---- C03 as one statement ---- *)
Theorem spec_lml_is_the_leftmost_longest_sequence pvs h :
  lm_seq (lml_pick pvs h) pvs h 0 (spec_lml V pvs h).
Proof.
  unfold spec_lml. apply leftmost_from_seq; [| |lia].
  - intros s pv Hc. unfold longest_at in Hc.
    pose proof (longest_at_spec V (fun _ _ => Ok None) [] (fun p v (H : In (p, v) []) => match H with end) h s
                                (nonempty_pats V pvs) None I) as Hl.
    rewrite Hc in Hl. destruct Hl as (Hin & Hp & Hmax & _). destruct Hin as [Hin|Hin]; [|discriminate].
    apply in_nonempty_pats in Hin as [Hin Hne]. apply (occurs_at_prefix h s _ Hne) in Hp.
    split; [|split; [exact Hin|exact Hp]]. split; [exact Hin|]. split; [exact Hp|].
    intros e' v' Ho. apply occ_at_occurs in Ho as (p' & Hin' & Hocc' & ->).
    assert (Hle : (length p' <= length (fst pv))%nat); [|lia].
    apply (Hmax (p', v')); [apply in_nonempty_pats; split; [exact Hin'|exact (proj1 Hocc')]|].
    cbn [fst]. apply occurs_at_prefix; [exact (proj1 Hocc')|exact Hocc'].
  - intros s Hc e v Ho. unfold longest_at in Hc.
    pose proof (longest_at_spec V (fun _ _ => Ok None) [] (fun p v (H : In (p, v) []) => match H with end) h s
                                (nonempty_pats V pvs) None I) as Hl.
    rewrite Hc in Hl. destruct Hl as [_ Hall]. apply occ_at_occurs in Ho as (p' & Hin' & Hocc' & _).
    specialize (Hall (p', v) ltac:(apply in_nonempty_pats; split; [exact Hin'|exact (proj1 Hocc')])). cbn [fst] in Hall.
    apply (occurs_at_prefix h s p' (proj1 Hocc')) in Hocc'. congruence.
Qed.

(* ---- C04 as one statement ---- *)
Lemma filter_split {X} (f : X -> bool) : forall l l1 x l2, filter f l = l1 ++ x :: l2 ->
  exists m1 m2, l = m1 ++ x :: m2 /\ filter f m1 = l1 /\ f x = true.
Proof.
  induction l as [|a l IH]; intros l1 x l2 H; cbn [filter] in H; [destruct l1; discriminate|].
  destruct (f a) eqn:E.
  - destruct l1 as [|y l1]; cbn [app] in H; inversion H; subst.
    + exists [], l. repeat split. exact E.
    + destruct (IH l1 x l2 ltac:(assumption)) as (m1 & m2 & -> & Hm & Hx). exists (y :: m1), m2. repeat split; [|exact Hx].
      cbn [filter]. rewrite E, Hm. reflexivity.
  - destruct (IH l1 x l2 H) as (m1 & m2 & -> & Hm & Hx). exists (a :: m1), m2. repeat split; [|exact Hx].
    cbn [filter]. rewrite E. exact Hm.
Qed.

Theorem spec_lmf_is_the_leftmost_first_sequence pvs h :
  lm_seq (lmf_pick pvs h) pvs h 0 (spec_lmf V pvs h).
Proof.
  unfold spec_lmf. apply leftmost_from_seq; [| |lia].
  - intros s pv Hc. unfold first_at in Hc. apply find_split in Hc as (l1 & l2 & Hsplit & Hp & Hbefore).
    assert (Hin : In pv (nonempty_pats V pvs)) by (rewrite Hsplit; apply in_or_app; right; left; reflexivity).
    apply in_nonempty_pats in Hin as [Hin Hne]. apply (occurs_at_prefix h s _ Hne) in Hp.
    split; [|split; [exact Hin|exact Hp]].
    unfold nonempty_pats in Hsplit. apply filter_split in Hsplit as (m1 & m2 & Hpvs & Hm1 & _).
    exists m1, m2. split; [exact Hpvs|]. split; [exact Hp|]. intros pv' Hin' Hocc'.
    assert (Hl1 : In pv' l1).
    { rewrite <- Hm1. apply filter_In. split; [exact Hin'|]. destruct (list_eqb (fst pv') []) eqn:E; [|reflexivity].
      apply list_eqb_eq in E. exfalso. exact (proj1 Hocc' E). }
    specialize (Hbefore pv' Hl1). apply (occurs_at_prefix h s _ (proj1 Hocc')) in Hocc'. congruence.
  - intros s Hc e v Ho. unfold first_at in Hc. apply occ_at_occurs in Ho as (p' & Hin' & Hocc' & _).
    pose proof (find_none _ _ Hc (p', v) ltac:(apply in_nonempty_pats; split; [exact Hin'|exact (proj1 Hocc')])) as Hf. cbn [fst] in Hf.
    apply (occurs_at_prefix h s p' (proj1 Hocc')) in Hocc'. congruence.
Qed.

(* ---- consequences the property lists: true occurrences, non-overlapping, increasing ---- *)
Lemma lm_seq_sound (pick : nat -> list N * V -> Prop) pvs h :
  (forall s pv, pick s pv -> In pv pvs /\ occurs_at h s (fst pv)) ->
  forall from ms, lm_seq pick pvs h from ms ->
  forall s e v, In (s, e, v) ms -> occ_at pvs h s e v /\ (from <= s)%nat.
Proof.
  intros Hpick. induction 1 as [|from s pv ms Hf Hp Hleft Hrest IH]; intros s0 e0 v0 Hin; [destruct Hin|].
  destruct (Hpick s pv Hp) as [Hinp Hocc]. destruct Hin as [E|Hin].
  - inversion E; subst. split; [|exact Hf]. apply occ_at_occurs. exists (fst pv). split; [destruct pv; exact Hinp|auto].
  - destruct (IH _ _ _ Hin) as [H1 H2]. split; [exact H1|lia].
Qed.

Lemma lml_pick_occ pvs h s pv : lml_pick pvs h s pv -> In pv pvs /\ occurs_at h s (fst pv).
Proof. intros (H1 & H2 & _). auto. Qed.
Lemma lmf_pick_occ pvs h s pv : lmf_pick pvs h s pv -> In pv pvs /\ occurs_at h s (fst pv).
Proof. intros (l1 & l2 & -> & H2 & _). split; [apply in_or_app; right; left; reflexivity|exact H2]. Qed.

Lemma lm_seq_non_overlapping (pick : nat -> list N * V -> Prop) pvs h :
  (forall s pv, pick s pv -> In pv pvs /\ occurs_at h s (fst pv)) ->
  forall from ms, lm_seq pick pvs h from ms ->
  forall a m b m' c, ms = a ++ m :: b ++ m' :: c -> (snd (fst m) <= fst (fst m'))%nat.
Proof.
  intros Hpick. induction 1 as [|from s pv ms Hf Hp Hleft Hrest IH]; intros a m b m' c E; [destruct a; discriminate|].
  destruct a as [|x a]; cbn [app] in E; inversion E; subst.
  - cbn [fst snd]. destruct m' as [[s' e'] v']. cbn [fst snd].
    apply (lm_seq_sound pick pvs h Hpick _ _ Hrest s' e' v'). apply in_or_app. right. left. reflexivity.
  - eapply IH. reflexivity.
Qed.

(* the leftmost-longest sequence of positions is unique *)
Lemma lml_seq_positions_unique pvs h : forall from ms, lm_seq (lml_pick pvs h) pvs h from ms ->
  forall ms', lm_seq (lml_pick pvs h) pvs h from ms' -> map fst ms = map fst ms'.
Proof.
  induction 1 as [from Hno|from s pv ms Hf Hp Hleft Hrest IH]; intros ms' H'.
  - inversion H' as [|? s' pv' ms0 Hf' Hp' _ _]; subst; [reflexivity|]. exfalso.
    destruct (lml_pick_occ _ _ _ _ Hp') as [Hin' Hocc'].
    apply (Hno s' (s' + length (fst pv'))%nat (snd pv')); [|exact Hf']. apply occ_at_occurs. exists (fst pv'). split; [destruct pv'; exact Hin'|auto].
  - destruct (lml_pick_occ _ _ _ _ Hp) as [Hin Hocc].
    assert (Ho : occ_at pvs h s (s + length (fst pv)) (snd pv)) by (apply occ_at_occurs; exists (fst pv); split; [destruct pv; exact Hin|auto]).
    inversion H' as [? Hno|? s' pv' ms0 Hf' Hp' Hleft' Hrest']; subst; [exfalso; exact (Hno _ _ _ Ho Hf)|].
    destruct (lml_pick_occ _ _ _ _ Hp') as [Hin' Hocc'].
    assert (Ho' : occ_at pvs h s' (s' + length (fst pv')) (snd pv')) by (apply occ_at_occurs; exists (fst pv'); split; [destruct pv'; exact Hin'|auto]).
    assert (s' = s) by (pose proof (Hleft _ _ _ Ho' Hf'); pose proof (Hleft' _ _ _ Ho Hf); lia). subst s'.
    destruct Hp as (_ & _ & Hmax). destruct Hp' as (_ & _ & Hmax').
    pose proof (Hmax _ _ Ho'). pose proof (Hmax' _ _ Ho).
    assert (El : length (fst pv') = length (fst pv)) by lia. rewrite El in *.
    cbn [map fst]. f_equal. apply IH. exact Hrest'.
Qed.

End LmSeq.
