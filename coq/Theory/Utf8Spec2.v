(* Utf8Spec2.v — C08 on the level of the specifications, the remaining searches: for distinct
   non-empty scalar patterns and every scalar text, the byte-level specifications of find,
   no-suffix, leftmost-longest and leftmost-first search of the ENCODED patterns on the ENCODED
   text are the character-level specifications with positions translated to byte offsets.
   Method: byte positions that are not character boundaries never start or end an occurrence
   (UTF-8 self-synchronisation), so every candidate loop of a specification skips them; at
   boundaries the candidate sets correspond (Utf8Spec.spec_bytes_eq_spec_chars). *)
From DV Require Import Model.Base Model.Utf8 Model.Spec Proofs.GenAC Theory.SpecAdequacy Proofs.Utf8Props Proofs.IterPull
     Theory.Utf8Spec Theory.LmfSpec.
From Coq Require Import Sorted ZifyN ZifyNat ZifyBool.

Section U8b.
Variable V : Type.

Lemma first_end_app (pvs : list (list N * V)) h from c1 c2 :
  first_end V pvs h from (c1 ++ c2) =
  match first_end V pvs h from c1 with Some m => Some m | None => first_end V pvs h from c2 end.
Proof.
  induction c1 as [|e r IH]; cbn [app first_end]; [reflexivity|].
  destruct (ends_at_from V pvs h from e); [exact IH|reflexivity].
Qed.

Lemma first_end_some (pvs : list (list N * V)) h from cands m :
  first_end V pvs h from cands = Some m -> exists e, In e cands /\ In m (ends_at_from V pvs h from e).
Proof.
  induction cands as [|e r IH]; cbn [first_end]; [discriminate|].
  destruct (ends_at_from V pvs h from e) as [|x l] eqn:E.
  - intros H. destruct (IH H) as (e' & H1 & H2). exists e'. split; [right; exact H1|exact H2].
  - intros H. inversion H; subst. exists e. split; [left; reflexivity|]. rewrite E. left. reflexivity.
Qed.

Lemma first_start_app (choose : nat -> option (list N * V)) c1 c2 :
  first_start V choose (c1 ++ c2) =
  match first_start V choose c1 with Some m => Some m | None => first_start V choose c2 end.
Proof.
  induction c1 as [|e r IH]; cbn [app first_start]; [reflexivity|].
  destruct (choose e); [reflexivity|exact IH].
Qed.

Lemma first_start_in (choose : nat -> option (list N * V)) cands s pv :
  first_start V choose cands = Some (s, pv) -> In s cands.
Proof.
  induction cands as [|c r IH]; cbn [first_start]; [discriminate|].
  destruct (choose c) eqn:E; [intros H; inversion H; subst; left; reflexivity|intros H; right; exact (IH H)].
Qed.

Lemma ends_at_from_ssorted (pvs : list (list N * V)) h from e : NoDup (map fst pvs) ->
  StronglySorted (slt V) (ends_at_from V pvs h from e).
Proof.
  intros Hn. unfold ends_at_from. apply ssorted_flat_map.
  - intros l _. unfold occs_len. pose proof (filter_nodup_le1 V pvs (sub h (e - l) e) Hn) as Hl.
    destruct (filter (fun pv => list_eqb (fst pv) (sub h (e - l) e)) pvs) as [|a [|b r]]; cbn [map];
      [constructor|constructor; constructor|cbn [length] in Hl; lia].
  - intros l1 a l2 b l3 E x y Hx Hy. apply occs_len_shape in Hx as [Hx1 Hx2]. apply occs_len_shape in Hy as [Hy1 Hy2].
    right. split; [congruence|]. rewrite Hx1, Hy1.
    assert (b < a)%nat.
    { apply (f_equal (@rev nat)) in E. rewrite rev_involutive in E.
      rewrite rev_app_distr in E. cbn [rev] in E. rewrite rev_app_distr in E. cbn [rev] in E.
      rewrite <- !app_assoc in E. cbn [app] in E. eapply seq_split_lt. exact E. }
    assert (Hal : In a (rev (seq 1 (e - from)))) by (rewrite E; apply in_or_app; right; left; reflexivity).
    apply in_rev, in_seq in Hal. lia.
Qed.

(* members of ends_at_from, as members of the overlapping specification *)
Lemma ends_at_from_ovl (pvs : list (list N * V)) h from e x : (e <= length h)%nat ->
  In x (ends_at_from V pvs h from e) <->
  In x (spec_overlapping V pvs h) /\ (from <= fst (fst x))%nat /\ snd (fst x) = e.
Proof.
  intros He. destruct x as [[s e'] v]. cbn [fst snd]. rewrite spec_overlapping_adequate, in_ends_at_from. unfold occ_at. split.
  - intros (l & p & v' & Hl & Hin & Hp & Hx). inversion Hx; subst. split; [|lia].
    split; [lia|]. exact Hin.
  - intros ((Hse & Hin) & Hf & ->). exists (e - s)%nat, (sub h s e), v.
    replace (e - (e - s))%nat with s by lia. repeat split; auto; lia.
Qed.

Variable pvs : list (list N * V).
Hypothesis pats_ne : forall p v, In (p, v) pvs -> p <> [].
Hypothesis pats_sc : forall p v, In (p, v) pvs -> Forall scalar p.
Hypothesis pats_nd : NoDup (map fst pvs).
Variable cs : list N.
Hypothesis Hcs : Forall scalar cs.

Notation B := (fun i : nat => boff (firstn i cs)).
Notation bp := (bpvs V pvs).
Notation ecs := (encode_utf8 cs).
Notation len := (length cs).
Notation blen := (length (encode_utf8 cs)).
Notation tbc := (tb V cs).

Definition boundary (b : nat) : Prop := exists i, (i <= len)%nat /\ b = B i.

Lemma B_lt i j : (i < j <= len)%nat -> (B i < B j)%nat.
Proof. apply boff_mono. Qed.
Lemma B_le i j : (i <= j <= len)%nat -> (B i <= B j)%nat.
Proof. intros H. destruct (Nat.eq_dec i j) as [->|Hn]; [lia|]. pose proof (B_lt i j). lia. Qed.
Lemma B_inj i j : (i <= len)%nat -> (j <= len)%nat -> B i = B j -> i = j.
Proof.
  intros Hi Hj E. destruct (lt_eq_lt_dec i j) as [[H|H]|H]; [|exact H|].
  - pose proof (B_lt i j). lia.
  - pose proof (B_lt j i). lia.
Qed.
Lemma B_lt_inv i j : (i <= len)%nat -> (j <= len)%nat -> (B i < B j)%nat -> (i < j)%nat.
Proof. intros Hi Hj H. destruct (le_lt_dec j i) as [Hle|Hlt]; [|exact Hlt]. pose proof (B_le j i). lia. Qed.
Lemma B_le_inv i j : (i <= len)%nat -> (j <= len)%nat -> (B i <= B j)%nat -> (i <= j)%nat.
Proof. intros Hi Hj H. destruct (le_lt_dec i j) as [Hle|Hlt]; [exact Hle|]. pose proof (B_lt j i). lia. Qed.
Lemma B_len : B len = blen.
Proof. cbv beta. rewrite firstn_all. reflexivity. Qed.
Lemma B_0 : B 0%nat = 0%nat.
Proof. reflexivity. Qed.
Lemma B_bound i : (B i <= blen)%nat.
Proof. apply boff_le_total. Qed.

Lemma between_not_boundary j b : (j < len)%nat -> (B j < b < B (S j))%nat -> ~ boundary b.
Proof.
  intros Hj Hb (i & Hi & E). subst b. destruct Hb as [H1 H2].
  apply B_lt_inv in H1; [|lia|exact Hi]. apply B_lt_inv in H2; [|exact Hi|lia]. lia.
Qed.

(* ---- the overlapping specification, member by member ----------------------------------------- *)
Lemma ovl_mem xb : In xb (spec_overlapping V bp ecs) <-> exists x, In x (spec_overlapping V pvs cs) /\ xb = tbc x.
Proof.
  rewrite (spec_bytes_eq_spec_chars V pvs pats_ne pats_sc pats_nd cs Hcs). rewrite in_map_iff.
  split; intros [x [H1 H2]]; exists x; auto.
Qed.

Lemma ovl_range x : In x (spec_overlapping V pvs cs) -> (fst (fst x) < snd (fst x) <= len)%nat.
Proof. destruct x as [[s e] v]. intros H. apply spec_overlapping_adequate in H as [H _]. exact H. Qed.

Lemma tb_slt x y : In x (spec_overlapping V pvs cs) -> In y (spec_overlapping V pvs cs) ->
  slt V x y -> slt V (tbc x) (tbc y).
Proof.
  intros Hx Hy Hlt. apply ovl_range in Hx. apply ovl_range in Hy.
  destruct x as [[s e] v], y as [[s' e'] v']. unfold slt, tb in *. cbn [fst snd] in *. destruct Hlt as [Hlt|[-> Hlt]].
  - left. apply B_lt. lia.
  - right. split; [reflexivity|]. apply B_lt. lia.
Qed.

(* ---- ends_at_from at boundaries and elsewhere ------------------------------------------------- *)
Lemma ends_enc from e : (from <= e <= len)%nat ->
  ends_at_from V bp ecs (B from) (B e) = map tbc (ends_at_from V pvs cs from e).
Proof.
  intros Hfe. apply slt_sorted_unique.
  - apply ends_at_from_ssorted. apply bpvs_nodup; assumption.
  - apply smap_sorted; [apply ends_at_from_ssorted; exact pats_nd|].
    intros x y Hx Hy. apply ends_at_from_ovl in Hx as [Hx _]; [|lia]. apply ends_at_from_ovl in Hy as [Hy _]; [|lia].
    apply tb_slt; assumption.
  - intros xb. rewrite ends_at_from_ovl by apply B_bound. rewrite in_map_iff, ovl_mem. split.
    + intros ((x & Hx & ->) & Hf & He). exists x. split; [reflexivity|].
      pose proof (ovl_range x Hx) as Hr. apply ends_at_from_ovl; [lia|]. split; [exact Hx|].
      destruct x as [[s e'] v]. unfold tb in Hf, He. cbn [fst snd] in *. split.
      * apply B_le_inv; [lia|lia|exact Hf].
      * apply B_inj; [lia|lia|exact He].
    + intros (x & <- & Hx). apply ends_at_from_ovl in Hx as (Hx & Hf & He); [|lia].
      pose proof (ovl_range x Hx) as Hr. split; [exists x; auto|].
      destruct x as [[s e'] v]. unfold tb. cbn [fst snd] in *. subst e'. split; [apply B_le; lia|reflexivity].
Qed.

Lemma ends_nb fb eb : (eb <= blen)%nat -> ~ boundary eb -> ends_at_from V bp ecs fb eb = [].
Proof.
  intros Hle Hnb. destruct (ends_at_from V bp ecs fb eb) as [|xb l] eqn:E; [reflexivity|]. exfalso.
  assert (Hin : In xb (ends_at_from V bp ecs fb eb)) by (rewrite E; left; reflexivity).
  apply ends_at_from_ovl in Hin as (Hin & _ & He); [|exact Hle]. apply ovl_mem in Hin as (x & Hx & ->).
  apply ovl_range in Hx. destruct x as [[s e] v]. unfold tb in He. cbn [fst snd] in *.
  apply Hnb. exists e. split; [lia|]. symmetry. exact He.
Qed.

(* ---- the byte positions between two boundaries ------------------------------------------------ *)
Definition nbseg (j : nat) : list nat := seq (S (B j)) (B (S j) - B j - 1).

Lemma nbseg_nb j b : (j < len)%nat -> In b (nbseg j) -> (b <= blen)%nat /\ ~ boundary b.
Proof.
  intros Hj Hb. unfold nbseg in Hb. apply in_seq in Hb. pose proof (B_lt j (S j) ltac:(lia)) as Hlt.
  pose proof (B_bound (S j)) as Hbd. cbv beta in *. split; [lia|].
  apply (between_not_boundary j b Hj). cbv beta. lia.
Qed.

Lemma bseq_decomp j : (j < len)%nat ->
  seq (S (B j)) (blen - B j) = nbseg j ++ B (S j) :: seq (S (B (S j))) (blen - B (S j)).
Proof.
  intros Hj. pose proof (B_lt j (S j) ltac:(lia)) as Hlt. pose proof (B_bound (S j)) as Hbd. cbv beta in *.
  unfold nbseg. cbv beta.
  replace (blen - boff (firstn j cs))%nat
    with ((boff (firstn (S j) cs) - boff (firstn j cs) - 1) + S (blen - boff (firstn (S j) cs)))%nat by lia.
  rewrite seq_app. f_equal. cbn [seq]. f_equal; [lia|]. f_equal; lia.
Qed.

Lemma bseq_decomp0 j : (j < len)%nat ->
  seq (B j) (blen - B j) = B j :: nbseg j ++ seq (B (S j)) (blen - B (S j)).
Proof.
  intros Hj. pose proof (B_lt j (S j) ltac:(lia)) as Hlt. pose proof (B_bound (S j)) as Hbd. cbv beta in *.
  unfold nbseg. cbv beta.
  replace (blen - boff (firstn j cs))%nat
    with (S ((boff (firstn (S j) cs) - boff (firstn j cs) - 1) + (blen - boff (firstn (S j) cs))))%nat by lia.
  cbn [seq]. f_equal. rewrite seq_app. f_equal. f_equal. lia.
Qed.

(* ---- find ----------------------------------------------------------------------------------- *)
Lemma first_end_nb fb cands : (forall b, In b cands -> (b <= blen)%nat /\ ~ boundary b) ->
  first_end V bp ecs fb cands = None.
Proof.
  induction cands as [|b r IH]; intros H; cbn [first_end]; [reflexivity|].
  destruct (H b (or_introl eq_refl)) as [H1 H2]. rewrite (ends_nb fb b H1 H2). apply IH. intros b' Hb'. apply H. right. exact Hb'.
Qed.

Lemma first_end_enc from : forall k j, (len - j = k)%nat -> (from <= j <= len)%nat ->
  first_end V bp ecs (B from) (seq (S (B j)) (blen - B j)) = option_map tbc (first_end V pvs cs from (seq (S j) (len - j))).
Proof.
  induction k as [|k IH]; intros j Hk Hj.
  - assert (j = len) as -> by lia. rewrite B_len, !Nat.sub_diag. reflexivity.
  - rewrite bseq_decomp by lia. rewrite first_end_app, first_end_nb by (intros b Hb; apply (nbseg_nb j); [lia|exact Hb]).
    replace (len - j)%nat with (S (len - S j)) by lia. cbn [seq first_end].
    rewrite (ends_enc from (S j)) by lia.
    destruct (ends_at_from V pvs cs from (S j)) as [|m l]; cbn [map option_map]; [|reflexivity].
    apply IH; lia.
Qed.

Lemma spec_find_from_enc : forall fc fb from, (from <= len)%nat -> (len - from < fc)%nat -> (blen - B from < fb)%nat ->
  spec_find_from V fb bp ecs (B from) = map tbc (spec_find_from V fc pvs cs from).
Proof.
  induction fc as [|fc IH]; intros fb from Hf Hc Hb; [lia|]. destruct fb as [|fb]; [lia|].
  cbn [spec_find_from]. rewrite (first_end_enc from (len - from) from eq_refl) by lia.
  destruct (first_end V pvs cs from (seq (S from) (len - from))) as [[[s e] v]|] eqn:E; cbn [option_map map]; [|reflexivity].
  apply first_end_some in E as (e' & He' & Hin). apply in_seq in He'. apply ends_at_from_shape in Hin as (He & _). cbn [fst snd] in He. subst e'.
  unfold tb at 1 2. cbn [fst snd]. f_equal. apply IH; [lia|lia|].
  pose proof (B_lt from e ltac:(lia)). pose proof (B_bound e). cbv beta in *. lia.
Qed.

Theorem spec_find_bytes_eq_chars : spec_find V bp ecs = map tbc (spec_find V pvs cs).
Proof. unfold spec_find. rewrite <- B_0. apply spec_find_from_enc; cbv beta; cbn [firstn]; unfold boff; cbn; lia. Qed.

(* ---- no-suffix -------------------------------------------------------------------------------- *)
Lemma flat_map_nb (g : nat -> list (nat * nat * V)) cands : (forall b, In b cands -> g b = []) -> flat_map g cands = [].
Proof.
  induction cands as [|b r IH]; intros H; cbn [flat_map]; [reflexivity|].
  rewrite (H b (or_introl eq_refl)). apply IH. intros b' Hb'. apply H. right. exact Hb'.
Qed.

Lemma flat_map_enc (gb gc : nat -> list (nat * nat * V)) :
  (forall j, (1 <= j <= len)%nat -> gb (B j) = map tbc (gc j)) ->
  (forall b, (b <= blen)%nat -> ~ boundary b -> gb b = []) ->
  forall k j, (len - j = k)%nat -> (j <= len)%nat ->
  flat_map gb (seq (S (B j)) (blen - B j)) = map tbc (flat_map gc (seq (S j) (len - j))).
Proof.
  intros H1 H2. induction k as [|k IH]; intros j Hk Hj.
  - assert (j = len) as -> by lia. rewrite B_len, !Nat.sub_diag. reflexivity.
  - rewrite bseq_decomp by lia. rewrite flat_map_app.
    rewrite flat_map_nb by (intros b Hb; destruct (nbseg_nb j b ltac:(lia) Hb); apply H2; assumption).
    replace (len - j)%nat with (S (len - S j)) by lia. cbn [seq flat_map app]. rewrite map_app.
    rewrite (H1 (S j)) by lia. f_equal. apply IH; lia.
Qed.

Theorem spec_nosuffix_bytes_eq_chars : spec_nosuffix V bp ecs = map tbc (spec_nosuffix V pvs cs).
Proof.
  unfold spec_nosuffix.
  pose proof (flat_map_enc (fun e => firstn 1 (ends_at V bp ecs e)) (fun e => firstn 1 (ends_at V pvs cs e))) as H.
  specialize (H ltac:(intros j Hj; unfold ends_at; rewrite <- B_0; rewrite (ends_enc 0 j) by lia; rewrite firstn_map; reflexivity)).
  specialize (H ltac:(intros b Hb Hnb; unfold ends_at; rewrite (ends_nb 0 b Hb Hnb); reflexivity)).
  specialize (H len 0%nat ltac:(lia) ltac:(lia)). cbv beta in H. change (boff (firstn 0 cs)) with 0%nat in H. rewrite !Nat.sub_0_r in H. exact H.
Qed.

(* ---- prefixes at boundaries and elsewhere ----------------------------------------------------- *)
Lemma pref_enc p i : Forall scalar p -> p <> [] -> (i <= len)%nat ->
  is_prefix (encode_utf8 p) (skipn (B i) ecs) = is_prefix p (skipn i cs).
Proof.
  intros Hp Hne Hi. destruct (is_prefix p (skipn i cs)) eqn:E.
  - apply utf8_occ_sync_conv; assumption.
  - destruct (is_prefix (encode_utf8 p) (skipn (B i) ecs)) eqn:E2; [|reflexivity].
    destruct (utf8_occ_sync cs p (B i) Hcs Hp Hne E2) as (i' & Hi' & HB & Hpre).
    apply B_inj in HB; [|exact Hi|exact Hi']. subst i'. congruence.
Qed.

Lemma pref_nb p b : Forall scalar p -> p <> [] -> ~ boundary b -> is_prefix (encode_utf8 p) (skipn b ecs) = false.
Proof.
  intros Hp Hne Hnb. destruct (is_prefix (encode_utf8 p) (skipn b ecs)) eqn:E; [|reflexivity].
  destruct (utf8_occ_sync cs p b Hcs Hp Hne E) as (i & Hi & HB & _). exfalso. apply Hnb. exists i. auto.
Qed.

Definition encpv (pv : list N * V) : list N * V := (encode_utf8 (fst pv), snd pv).

Lemma enc_nonempty p : p <> [] -> encode_utf8 p <> [].
Proof.
  destruct p as [|c p]; [congruence|]. intros _ H. cbn [encode_utf8 flat_map] in H. apply app_eq_nil in H as [H _].
  exact (encode_char_nonempty c H).
Qed.

Lemma nonempty_bp : nonempty_pats V bp = bp.
Proof.
  apply nonempty_pats_all. intros p v Hin. unfold bpvs in Hin. apply in_map_iff in Hin as [[q w] [E Hq]]. cbn [fst snd] in E.
  inversion E; subst. apply enc_nonempty. exact (pats_ne q _ Hq).
Qed.
Lemma nonempty_cp : nonempty_pats V pvs = pvs.
Proof. apply nonempty_pats_all. exact pats_ne. Qed.

(* ---- the greedy leftmost tiling, generically in the choice function --------------------------- *)
Section Choose.
Variable chb chc : nat -> option (list N * V).
Hypothesis ch_pre : forall s pv, chc s = Some pv -> fst pv <> [] /\ is_prefix (fst pv) (skipn s cs) = true.
Hypothesis ch_enc : forall i, (i < len)%nat -> chb (B i) = option_map encpv (chc i).
Hypothesis ch_nb : forall b, ~ boundary b -> chb b = None.

Lemma first_start_nb cands : (forall b, In b cands -> (b <= blen)%nat /\ ~ boundary b) -> first_start V chb cands = None.
Proof.
  induction cands as [|b r IH]; intros H; cbn [first_start]; [reflexivity|].
  rewrite (ch_nb b (proj2 (H b (or_introl eq_refl)))). apply IH. intros b' Hb'. apply H. right. exact Hb'.
Qed.

Lemma first_start_enc : forall k j, (len - j = k)%nat -> (j <= len)%nat ->
  first_start V chb (seq (B j) (blen - B j)) =
  option_map (fun x : nat * (list N * V) => (B (fst x), encpv (snd x))) (first_start V chc (seq j (len - j))).
Proof.
  induction k as [|k IH]; intros j Hk Hj.
  - assert (j = len) as -> by lia. rewrite B_len, !Nat.sub_diag. reflexivity.
  - rewrite bseq_decomp0 by lia. replace (len - j)%nat with (S (len - S j)) by lia. cbn [seq first_start].
    rewrite ch_enc by lia. destruct (chc j) as [pv|]; cbn [option_map fst snd]; [reflexivity|].
    rewrite first_start_app, first_start_nb by (intros b Hb; apply (nbseg_nb j); [lia|exact Hb]).
    apply IH; lia.
Qed.

Lemma pre_end s p : (s <= len)%nat -> is_prefix p (skipn s cs) = true ->
  (s + length p <= len)%nat /\ B (s + length p)%nat = (B s + length (encode_utf8 p))%nat.
Proof.
  intros Hs Hp. apply is_prefix_ex in Hp as [r Hr].
  assert (Hl : (s + length p <= len)%nat).
  { apply (f_equal (@length N)) in Hr. rewrite skipn_length, app_length in Hr. lia. }
  split; [exact Hl|]. cbv beta. rewrite firstn_plus_u, boff_app. f_equal.
  rewrite Hr, firstn_app, Nat.sub_diag, firstn_all. cbn [firstn]. rewrite app_nil_r. reflexivity.
Qed.

Lemma spec_leftmost_enc : forall fc fb from, (from <= len)%nat -> (len - from < fc)%nat -> (blen - B from < fb)%nat ->
  spec_leftmost_from V fb chb blen (B from) = map tbc (spec_leftmost_from V fc chc len from).
Proof.
  induction fc as [|fc IH]; intros fb from Hf Hc Hb; [lia|]. destruct fb as [|fb]; [lia|].
  cbn [spec_leftmost_from]. rewrite (first_start_enc (len - from) from eq_refl Hf).
  destruct (first_start V chc (seq from (len - from))) as [[s pv]|] eqn:E; cbn [option_map map fst snd]; [|reflexivity].
  pose proof (first_start_in _ _ _ _ E) as Hin. apply in_seq in Hin.
  apply first_start_some in E. destruct (ch_pre s pv E) as [Hne Hpre].
  destruct (pre_end s (fst pv) ltac:(lia) Hpre) as [Hl HB]. cbv beta in HB.
  assert (0 < length (fst pv))%nat by (destruct (fst pv); [congruence|cbn; lia]).
  unfold encpv at 1 2 3. cbn [fst snd]. rewrite <- HB.
  unfold tb at 1. cbn [fst snd]. f_equal. apply IH; [lia|lia|].
  pose proof (B_lt from (s + length (fst pv))%nat ltac:(lia)). pose proof (B_bound (s + length (fst pv))%nat). cbv beta in *. lia.
Qed.
End Choose.

(* ---- leftmost-first: the earliest registered pattern at a position --------------------------- *)
Lemma find_map_ext {X Y} (f : Y -> bool) (g : X -> Y) (f' : X -> bool) l :
  (forall x, In x l -> f (g x) = f' x) -> find f (map g l) = option_map g (find f' l).
Proof.
  induction l as [|x l IH]; intros H; cbn [map find]; [reflexivity|].
  rewrite (H x (or_introl eq_refl)). destruct (f' x); [reflexivity|]. apply IH. intros y Hy. apply H. right. exact Hy.
Qed.

Lemma find_all_false {X} (f : X -> bool) l : (forall x, In x l -> f x = false) -> find f l = None.
Proof.
  induction l as [|x l IH]; intros H; cbn [find]; [reflexivity|]. rewrite (H x (or_introl eq_refl)). apply IH.
  intros y Hy. apply H. right. exact Hy.
Qed.

Lemma bp_in pvb : In pvb bp -> exists pv, In pv pvs /\ pvb = encpv pv.
Proof. unfold bpvs. intros H. apply in_map_iff in H as [pv [E Hin]]. exists pv. split; [exact Hin|symmetry; exact E]. Qed.

Theorem spec_lmf_bytes_eq_chars : spec_lmf V bp ecs = map tbc (spec_lmf V pvs cs).
Proof.
  unfold spec_lmf. rewrite nonempty_bp, nonempty_cp.
  refine (spec_leftmost_enc (first_at V bp ecs) (first_at V pvs cs) _ _ _ (S len) (S blen) 0%nat _ _ _).
  - intros s [p v] H. unfold first_at in H. apply find_some in H as [Hin Hp]. split; [exact (pats_ne p v Hin)|exact Hp].
  - intros i Hi. unfold first_at, bpvs. apply find_map_ext. intros [p v] Hin. cbn [fst].
    apply pref_enc; [exact (pats_sc p v Hin)|exact (pats_ne p v Hin)|lia].
  - intros b Hnb. unfold first_at. apply find_all_false. intros pvb Hin. apply bp_in in Hin as ([p v] & Hin & ->).
    cbn [encpv fst]. apply pref_nb; [exact (pats_sc p v Hin)|exact (pats_ne p v Hin)|exact Hnb].
  - lia.
  - lia.
  - cbv beta. cbn [firstn]. unfold boff. cbn. lia.
Qed.

(* ---- leftmost-longest: the longest pattern at a position --------------------------------------- *)
Notation lstep h s := (fun (best : option (list N * V)) (pv : list N * V) =>
                     if is_prefix (fst pv) (skipn s h) then
                       match best with
                       | Some b => if (length (fst b) <? length (fst pv))%nat then Some pv else best
                       | None => Some pv
                       end
                     else best).

Lemma enc_len_cmp a b t : is_prefix a t = true -> is_prefix b t = true ->
  (length (encode_utf8 a) <? length (encode_utf8 b))%nat = (length a <? length b)%nat.
Proof.
  intros Ha Hb. apply is_prefix_ex in Ha as [ra Ha]. apply is_prefix_ex in Hb as [rb Hb].
  destruct (length a <? length b)%nat eqn:E.
  - apply Nat.ltb_lt in E. apply Nat.ltb_lt.
    assert (b = a ++ firstn (length b - length a) ra) as Hba.
    { assert (firstn (length b) t = b) as H1 by (rewrite Hb, firstn_app, Nat.sub_diag, firstn_all; cbn [firstn]; apply app_nil_r).
      rewrite <- H1 at 1. rewrite Ha. rewrite firstn_app. rewrite firstn_all2 by lia. reflexivity. }
    rewrite Hba, encode_utf8_app, app_length.
    pose proof (encode_utf8_length_ge (firstn (length b - length a) ra)) as Hge.
    rewrite firstn_length in Hge.
    assert (length b - length a <= length ra)%nat.
    { apply (f_equal (@length N)) in Ha. apply (f_equal (@length N)) in Hb. rewrite app_length in Ha, Hb. lia. }
    lia.
  - apply Nat.ltb_ge in E. apply Nat.ltb_ge.
    assert (a = b ++ firstn (length a - length b) rb) as Hab.
    { assert (firstn (length a) t = a) as H1 by (rewrite Ha, firstn_app, Nat.sub_diag, firstn_all; cbn [firstn]; apply app_nil_r).
      rewrite <- H1 at 1. rewrite Hb. rewrite firstn_app. rewrite firstn_all2 by lia. reflexivity. }
    rewrite Hab at 1. rewrite encode_utf8_app, app_length. lia.
Qed.

Lemma longest_fold_enc i : (i <= len)%nat -> forall (l : list (list N * V)) (acc : option (list N * V)),
  (forall p v, In (p, v) l -> Forall scalar p /\ p <> []) ->
  (match acc with Some b => is_prefix (fst b) (skipn i cs) = true | None => True end) ->
  fold_left (lstep ecs (B i)) (map encpv l) (option_map encpv acc) = option_map encpv (fold_left (lstep cs i) l acc).
Proof.
  intros Hi. induction l as [|[p v] l IH]; intros acc Hl Hacc; cbn [map fold_left]; [reflexivity|].
  destruct (Hl p v (or_introl eq_refl)) as [Hsc Hne].
  assert (Hl' : forall q w, In (q, w) l -> Forall scalar q /\ q <> []) by (intros q w Hq; apply (Hl q w); right; exact Hq).
  unfold encpv at 2. cbn [fst]. rewrite (pref_enc p i Hsc Hne Hi).
  destruct (is_prefix p (skipn i cs)) eqn:Ep.
  - destruct acc as [b|]; cbn [option_map].
    + change (fst (encpv b)) with (encode_utf8 (fst b)). change (fst (encpv (p, v))) with (encode_utf8 p). rewrite (enc_len_cmp (fst b) p (skipn i cs) Hacc Ep).
      destruct (length (fst b) <? length p)%nat.
      * apply (IH (Some (p, v))); [exact Hl'|exact Ep].
      * apply (IH (Some b)); [exact Hl'|exact Hacc].
    + apply (IH (Some (p, v))); [exact Hl'|exact Ep].
  - apply IH; [exact Hl'|exact Hacc].
Qed.

Lemma longest_fold_nb b : ~ boundary b -> forall (l : list (list N * V)),
  (forall p v, In (p, v) l -> Forall scalar p /\ p <> []) ->
  fold_left (lstep ecs b) (map encpv l) None = None.
Proof.
  intros Hnb. induction l as [|[p v] l IH]; intros Hl; cbn [map fold_left]; [reflexivity|].
  destruct (Hl p v (or_introl eq_refl)) as [Hsc Hne]. unfold encpv at 2. cbn [fst]. rewrite (pref_nb p b Hsc Hne Hnb).
  apply IH. intros q w Hq. apply (Hl q w). right. exact Hq.
Qed.

Lemma longest_fold_pre s : forall (l : list (list N * V)) (acc : option (list N * V)) pv,
  (forall p v, In (p, v) l -> p <> []) ->
  (match acc with Some b => fst b <> [] /\ is_prefix (fst b) (skipn s cs) = true | None => True end) ->
  fold_left (lstep cs s) l acc = Some pv -> fst pv <> [] /\ is_prefix (fst pv) (skipn s cs) = true.
Proof.
  induction l as [|[p v] l IH]; intros acc pv Hl Hacc; cbn [fold_left].
  - intros ->. exact Hacc.
  - assert (Hl' : forall q w, In (q, w) l -> q <> []) by (intros q w Hq; apply (Hl q w); right; exact Hq).
    cbn [fst]. destruct (is_prefix p (skipn s cs)) eqn:Ep.
    + destruct acc as [b|].
      * destruct (length (fst b) <? length p)%nat.
        -- apply IH; [exact Hl'|]. cbn [fst]. split; [apply (Hl p v); left; reflexivity|exact Ep].
        -- apply IH; [exact Hl'|exact Hacc].
      * apply IH; [exact Hl'|]. cbn [fst]. split; [apply (Hl p v); left; reflexivity|exact Ep].
    + apply IH; [exact Hl'|exact Hacc].
Qed.

Theorem spec_lml_bytes_eq_chars : spec_lml V bp ecs = map tbc (spec_lml V pvs cs).
Proof.
  unfold spec_lml. rewrite nonempty_bp, nonempty_cp.
  assert (Hall : forall p v, In (p, v) pvs -> Forall scalar p /\ p <> []) by (intros p v Hin; split; [exact (pats_sc p v Hin)|exact (pats_ne p v Hin)]).
  refine (spec_leftmost_enc (longest_at V bp ecs) (longest_at V pvs cs) _ _ _ (S len) (S blen) 0%nat _ _ _).
  - intros s pv H. unfold longest_at in H. apply (longest_fold_pre s pvs None pv pats_ne I H).
  - intros i Hi. unfold longest_at, bpvs. exact (longest_fold_enc i ltac:(lia) pvs None Hall I).
  - intros b Hnb. unfold longest_at, bpvs. exact (longest_fold_nb b Hnb pvs Hall).
  - lia.
  - lia.
  - cbv beta. cbn [firstn]. unfold boff. cbn. lia.
Qed.

End U8b.
