(* SpecFind.v — C02: the executable specification [spec_find] against the property text, as ONE
   declarative statement.  [find_seq pvs h from ms] says: ms is the sequence in which every element
   is, among the occurrences that lie entirely at or after the end of the previous element
   (initially [from]), the one that ends first and, among those ending there, the longest; the
   sequence ends exactly when no such occurrence remains. *)
From DV Require Import Model.Base Model.Spec Proofs.GenAC Theory.SpecAdequacy.
From Coq Require Import ZifyN ZifyNat ZifyBool.

Section SpecFind.
Variable V : Type.
Notation occ_at := (occ_at V).

Inductive find_seq (pvs : list (list N * V)) (h : list N) : nat -> list (nat * nat * V) -> Prop :=
| fs_nil from :
    (forall s e v, occ_at pvs h s e v -> (from <= s)%nat -> False) ->
    find_seq pvs h from []
| fs_cons from s e v ms :
    occ_at pvs h s e v -> (from <= s)%nat ->
    (forall s' e' v', occ_at pvs h s' e' v' -> (from <= s')%nat -> (e <= e')%nat /\ (e' = e -> (s <= s')%nat)) ->
    find_seq pvs h e ms ->
    find_seq pvs h from ((s, e, v) :: ms).

Lemma head_flat_rev {X} (f : nat -> list X) : forall n x r,
  flat_map f (rev (seq 1 n)) = x :: r ->
  exists l, (1 <= l <= n)%nat /\ (exists r', f l = x :: r') /\ forall l', (l < l' <= n)%nat -> f l' = [].
Proof.
  induction n as [|n IH]; intros x r H; [discriminate|].
  rewrite seq_S, rev_app_distr in H. cbn [rev app flat_map] in H. replace (1 + n)%nat with (S n) in H by lia.
  destruct (f (S n)) as [|y ys] eqn:E.
  - cbn [app] in H. destruct (IH x r H) as (l & Hl & Hx & Hz). exists l. split; [lia|]. split; [exact Hx|].
    intros l' Hl'. destruct (Nat.eq_dec l' (S n)) as [->|Hne]; [exact E|apply Hz; lia].
  - cbn [app] in H. inversion H; subst. exists (S n). split; [lia|]. split; [eauto|]. intros l' Hl'. lia.
Qed.

Lemma first_end_some pvs h from : forall cands m,
  first_end V pvs h from cands = Some m ->
  exists c1 e c2 r, cands = c1 ++ e :: c2 /\ ends_at_from V pvs h from e = m :: r
                    /\ forall e', In e' c1 -> ends_at_from V pvs h from e' = [].
Proof.
  induction cands as [|e r IH]; intros m H; cbn [first_end] in H; [discriminate|].
  destruct (ends_at_from V pvs h from e) as [|x xs] eqn:E.
  - destruct (IH m H) as (c1 & e0 & c2 & r0 & -> & He0 & Hc1). exists (e :: c1), e0, c2, r0. split; [reflexivity|]. split; [exact He0|].
    intros e' [<-|Hin]; [exact E|apply Hc1; exact Hin].
  - inversion H; subst. exists [], e, r, xs. split; [reflexivity|]. split; [exact E|]. intros e' [].
Qed.

Lemma first_end_none pvs h from : forall cands,
  first_end V pvs h from cands = None -> forall e, In e cands -> ends_at_from V pvs h from e = [].
Proof.
  induction cands as [|e r IH]; intros H e' Hin; [destruct Hin|]. cbn [first_end] in H.
  destruct (ends_at_from V pvs h from e) eqn:E; [|discriminate]. destruct Hin as [<-|Hin]; [exact E|apply IH; assumption].
Qed.

Lemma occ_in_ends_at_from pvs h from s e v : occ_at pvs h s e v -> (from <= s)%nat ->
  In (s, e, v) (ends_at_from V pvs h from e).
Proof.
  intros [Hse Hin] Hf. apply in_ends_at_from. exists (e - s)%nat, (sub h s e), v.
  replace (e - (e - s))%nat with s by lia. repeat split; auto; lia.
Qed.

Lemma seq_split_order a n c1 e c2 : seq a n = c1 ++ e :: c2 ->
  (a <= e < a + n)%nat /\ (forall x, In x c1 <-> (a <= x < e)%nat).
Proof.
  revert a c1. induction n as [|n IH]; intros a c1 H; [destruct c1; discriminate|]. cbn [seq] in H.
  destruct c1 as [|y ys]; cbn [app] in H; injection H as Ha Hs.
  - rewrite <- Ha. split; [lia|]. intros x. split; [intros []|lia].
  - rewrite <- Ha. destruct (IH (S a) ys Hs) as [He Hc]. split; [lia|].
    intros x. split.
    + intros [<-|Hin]; [lia|]. apply Hc in Hin. lia.
    + intros Hx. destruct (Nat.eq_dec x a) as [->|Hne]; [left; reflexivity|right; apply Hc; lia].
Qed.

(* one step of the specification *)
Theorem first_end_characterised pvs h from :
  match first_end V pvs h from (seq (S from) (length h - from)) with
  | Some (s, e, v) =>
      occ_at pvs h s e v /\ (from <= s)%nat /\
      forall s' e' v', occ_at pvs h s' e' v' -> (from <= s')%nat -> (e <= e')%nat /\ (e' = e -> (s <= s')%nat)
  | None => forall s e v, occ_at pvs h s e v -> (from <= s)%nat -> False
  end.
Proof.
  destruct (first_end V pvs h from (seq (S from) (length h - from))) as [[[s e] v]|] eqn:E.
  - destruct (first_end_some pvs h from _ _ E) as (c1 & e0 & c2 & r & Hsplit & He0 & Hc1).
    destruct (seq_split_order _ _ _ _ _ Hsplit) as [Hrange Hin1].
    unfold ends_at_from in He0. destruct (head_flat_rev _ _ _ _ He0) as (l & Hl & (r' & Hx) & Hz).
    assert (Hin : In (s, e, v) (occs_len V pvs h e0 l)) by (rewrite Hx; left; reflexivity).
    apply in_occs_len in Hin as (p & v0 & Hp & Hsub & Heq). inversion Heq; subst s e v0.
    split; [|split; [lia|]].
    + unfold Spec.occ_at. split; [lia|]. rewrite <- Hsub. exact Hp.
    + intros s' e' v' Hocc Hf. pose proof Hocc as [Hse _].
      assert (He' : (e0 <= e')%nat).
      { destruct (Nat.le_gt_cases e0 e') as [Hle|Hgt]; [exact Hle|exfalso].
        pose proof (occ_in_ends_at_from pvs h from s' e' v' Hocc Hf) as Hin'.
        rewrite (Hc1 e') in Hin'; [destruct Hin'|]. apply Hin1. lia. }
      split; [exact He'|]. intros ->.
      destruct (Nat.le_gt_cases (e0 - l) s') as [Hle|Hgt]; [exact Hle|exfalso].
      assert (Hnil : occs_len V pvs h e0 (e0 - s') = []) by (apply Hz; lia).
      destruct Hocc as [_ Hin']. assert (Hin2 : In (s', e0, v') (occs_len V pvs h e0 (e0 - s'))).
      { apply in_occs_len. exists (sub h s' e0), v'. replace (e0 - (e0 - s'))%nat with s' by lia. auto. }
      rewrite Hnil in Hin2. destruct Hin2.
  - intros s e v Hocc Hf. pose proof Hocc as [Hse _].
    pose proof (occ_in_ends_at_from pvs h from s e v Hocc Hf) as Hin.
    rewrite (first_end_none pvs h from _ E e) in Hin; [destruct Hin|]. apply in_seq. lia.
Qed.

Lemma spec_find_from_seq pvs h : forall fuel from, (length h - from < fuel)%nat ->
  find_seq pvs h from (spec_find_from V fuel pvs h from).
Proof.
  induction fuel as [|fuel IH]; intros from Hf; [lia|]. cbn [spec_find_from].
  pose proof (first_end_characterised pvs h from) as C.
  destruct (first_end V pvs h from (seq (S from) (length h - from))) as [[[s e] v]|].
  - destruct C as (Hocc & Hfs & Hmin). apply fs_cons; try assumption. apply IH. destruct Hocc as [Hse _]. lia.
  - apply fs_nil. exact C.
Qed.

(* C02 as one statement *)
Theorem spec_find_is_the_earliest_ending_sequence pvs h : find_seq pvs h 0 (spec_find V pvs h).
Proof. unfold spec_find. apply spec_find_from_seq. lia. Qed.

(* consequences spelled out in the property: strictly increasing, never overlapping, true occurrences *)
Lemma find_seq_sound pvs h : forall from ms, find_seq pvs h from ms ->
  forall s e v, In (s, e, v) ms -> occ_at pvs h s e v /\ (from <= s)%nat.
Proof.
  induction 1 as [|from s e v ms Hocc Hf Hmin Hrest IH]; intros s0 e0 v0 Hin; [destruct Hin|].
  destruct Hin as [E|Hin]; [inversion E; subst; auto|]. destruct (IH _ _ _ Hin) as [H1 H2]. split; [exact H1|].
  destruct Hocc as [Hse _]. lia.
Qed.

Lemma find_seq_non_overlapping pvs h : forall from ms, find_seq pvs h from ms ->
  forall a m b m' c, ms = a ++ m :: b ++ m' :: c -> (snd (fst m) <= fst (fst m'))%nat.
Proof.
  induction 1 as [|from s e v ms Hocc Hf Hmin Hrest IH]; intros a m b m' c E; [destruct a; discriminate|].
  destruct a as [|x a]; cbn [app] in E; inversion E; subst.
  - cbn [fst snd]. destruct m' as [[s' e'] v']. cbn [fst snd].
    apply (find_seq_sound pvs h e (b ++ (s', e', v') :: c) Hrest s' e' v'). apply in_or_app. right. left. reflexivity.
  - eapply IH. reflexivity.
Qed.

(* the sequence is unique up to the value when two patterns are equal (never, in a valid
   collection): positions are determined *)
Lemma find_seq_positions_unique pvs h : forall from ms, find_seq pvs h from ms ->
  forall ms', find_seq pvs h from ms' -> map fst ms = map fst ms'.
Proof.
  induction 1 as [from Hno|from s e v ms Hocc Hf Hmin Hrest IH]; intros ms' H'.
  - inversion H' as [|? s' e' v' ms0 Hocc' Hf' _ _]; subst; [reflexivity|]. exfalso. exact (Hno _ _ _ Hocc' Hf').
  - inversion H' as [? Hno|? s' e' v' ms0 Hocc' Hf' Hmin' Hrest']; subst; [exfalso; exact (Hno _ _ _ Hocc Hf)|].
    destruct (Hmin _ _ _ Hocc' Hf') as [H1 H2]. destruct (Hmin' _ _ _ Hocc Hf) as [H3 H4].
    assert (e' = e) by lia. subst e'. assert (s' = s) by (specialize (H2 eq_refl); specialize (H4 eq_refl); lia). subst s'.
    cbn [map fst]. f_equal. apply IH. exact Hrest'.
Qed.

End SpecFind.
