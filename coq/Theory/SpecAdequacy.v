(* SpecAdequacy.v — the executable specifications of Model/Spec.v against the one notion a reader
   has to trust: [occ_at pvs h s e v] = "h[s..e] is a registered pattern carrying v". *)
From DV Require Import Model.Base Model.Spec Proofs.GenAC.
From Coq Require Import ZifyN ZifyNat ZifyBool Sorted.

Section Adequacy.
Variable V : Type.
Notation occ_at := (occ_at V).

Lemma in_occs_len pvs h e l x :
  In x (occs_len V pvs h e l) <->
  exists p v, In (p, v) pvs /\ p = sub h (e - l) e /\ x = ((e - l)%nat, e, v).
Proof.
  unfold occs_len. rewrite in_map_iff. split.
  - intros [[p v] [E Hin]]. apply filter_In in Hin as [Hin Heq]. cbn [fst snd] in *.
    apply list_eqb_eq in Heq. exists p, v. auto.
  - intros (p & v & Hin & Hp & Hx). exists (p, v). split; [cbn; congruence|].
    apply filter_In. split; [exact Hin|]. cbn [fst]. apply list_eqb_eq. exact Hp.
Qed.

Lemma in_ends_at_from pvs h from e x :
  In x (ends_at_from V pvs h from e) <->
  exists l p v, (1 <= l <= e - from)%nat /\ In (p, v) pvs /\ p = sub h (e - l) e /\ x = ((e - l)%nat, e, v).
Proof.
  unfold ends_at_from. rewrite in_flat_map. split.
  - intros [l [Hl Hx]]. apply in_rev, in_seq in Hl. apply in_occs_len in Hx as (p & v & H1 & H2 & H3).
    exists l, p, v. repeat split; auto; lia.
  - intros (l & p & v & Hl & H1 & H2 & H3). exists l. split.
    + apply -> in_rev. apply in_seq. lia.
    + apply in_occs_len. eauto.
Qed.

(* C01: the overlapping specification contains exactly the occurrences *)
Theorem spec_overlapping_adequate pvs h s e v :
  In (s, e, v) (spec_overlapping V pvs h) <-> occ_at pvs h s e v.
Proof.
  unfold spec_overlapping, ends_at, Spec.occ_at. rewrite in_flat_map. split.
  - intros [e' [He Hx]]. apply in_seq in He.
    apply in_ends_at_from in Hx as (l & p & v' & Hl & Hin & Hp & Hx). inversion Hx; subst.
    split; [lia|]. replace (e' - (e' - l))%nat with l in * by lia. exact Hin.
  - intros [Hse Hin]. exists e. split; [apply in_seq; lia|].
    apply in_ends_at_from. exists (e - s)%nat, (sub h s e), v.
    replace (e - (e - s))%nat with s by lia. repeat split; auto; lia.
Qed.

(* ... in increasing order of end position and, at one end position, longest first *)
Definition ord_le (x y : nat * nat * V) : Prop :=
  (snd (fst x) < snd (fst y))%nat \/ (snd (fst x) = snd (fst y) /\ (fst (fst x) <= fst (fst y))%nat).

Lemma occs_len_shape pvs h e l x : In x (occs_len V pvs h e l) -> fst (fst x) = (e - l)%nat /\ snd (fst x) = e.
Proof. intros H. apply in_occs_len in H as (p & v & _ & _ & E). subst x. auto. Qed.

Lemma ends_at_from_shape pvs h from e x :
  In x (ends_at_from V pvs h from e) -> snd (fst x) = e /\ (from <= fst (fst x) < e)%nat /\ (e - from >= 1)%nat.
Proof.
  intros H. apply in_ends_at_from in H as (l & p & v & Hl & _ & _ & E). subst x. cbn. lia.
Qed.

Lemma sorted_app (l1 l2 : list (nat * nat * V)) :
  Sorted ord_le l1 -> Sorted ord_le l2 -> (forall x y, In x l1 -> In y l2 -> ord_le x y) ->
  Sorted ord_le (l1 ++ l2).
Proof.
  induction l1 as [|a l1 IH]; intros H1 H2 H; [exact H2|].
  cbn [app]. inversion H1 as [|? ? Hs Hh]; subst. constructor.
  - apply IH; auto. intros x y Hx Hy. apply H; [right; exact Hx|exact Hy].
  - destruct l1 as [|b l1]; cbn [app].
    + destruct l2 as [|c l2]; constructor. apply H; left; reflexivity.
    + constructor. inversion Hh; subst. assumption.
Qed.

Lemma sorted_flat_map {X} (f : X -> list (nat * nat * V)) (l : list X) :
  (forall x, In x l -> Sorted ord_le (f x)) ->
  (forall l1 a l2 b l3, l = l1 ++ a :: l2 ++ b :: l3 -> forall x y, In x (f a) -> In y (f b) -> ord_le x y) ->
  Sorted ord_le (flat_map f l).
Proof.
  induction l as [|a l IH]; intros Hs Hc; [constructor|]. cbn [flat_map]. apply sorted_app.
  - apply Hs. left. reflexivity.
  - apply IH.
    + intros x Hx. apply Hs. right. exact Hx.
    + intros l1 a' l2 b l3 E x y Hx Hy. apply (Hc (a :: l1) a' l2 b l3); [cbn; congruence|exact Hx|exact Hy].
  - intros x y Hx Hy. apply in_flat_map in Hy as [b [Hb Hy]]. apply in_split in Hb as [l2 [l3 E]].
    apply (Hc [] a l2 b l3); [cbn; congruence|exact Hx|exact Hy].
Qed.

Lemma seq_split_lt a n l1 x l2 y l3 : seq a n = l1 ++ x :: l2 ++ y :: l3 -> (x < y)%nat.
Proof.
  intros E.
  assert (Hs : Sorted lt (seq a n)) by (apply Sorted_StronglySorted_inv || idtac; clear; revert a; induction n; intros a; cbn; constructor; auto;
    destruct n; cbn; constructor; lia).
  rewrite E in Hs. apply Sorted_StronglySorted in Hs; [|intros p q r; lia].
  clear E. induction l1 as [|z l1 IH]; cbn [app] in Hs.
  - inversion Hs as [|? ? _ Hall]; subst. rewrite Forall_forall in Hall. apply Hall.
    apply in_or_app. right. left. reflexivity.
  - inversion Hs; subst. auto.
Qed.

Theorem spec_overlapping_sorted pvs h : Sorted ord_le (spec_overlapping V pvs h).
Proof.
  unfold spec_overlapping. apply sorted_flat_map.
  - intros e _. unfold ends_at, ends_at_from. apply sorted_flat_map.
    + intros l _. unfold occs_len.
      induction (filter (fun pv => list_eqb (fst pv) (sub h (e - l) e)) pvs) as [|a r IH]; cbn [map]; [constructor|].
      constructor; [exact IH|]. destruct r; cbn [map]; constructor. right. cbn. split; [reflexivity|lia].
    + intros l1 a l2 b l3 E x y Hx Hy. apply occs_len_shape in Hx as [Hx1 Hx2]. apply occs_len_shape in Hy as [Hy1 Hy2].
      right. split; [congruence|]. rewrite Hx1, Hy1.
      (* rev (seq ..) lists a before b, so b < a *)
      assert (b < a)%nat; [|lia].
      apply (f_equal (@rev nat)) in E. rewrite rev_involutive in E.
      rewrite rev_app_distr in E. cbn [rev] in E. rewrite rev_app_distr in E. cbn [rev] in E.
      rewrite <- !app_assoc in E. cbn [app] in E.
      eapply seq_split_lt. exact E.
  - intros l1 a l2 b l3 E x y Hx Hy. left.
    apply ends_at_from_shape in Hx as [Hx _]. apply ends_at_from_shape in Hy as [Hy _].
    rewrite Hx, Hy. eapply seq_split_lt. exact E.
Qed.

(* C05: the no-suffix specification holds, for every end position with an occurrence, exactly the
   longest occurrence ending there *)
Theorem spec_nosuffix_adequate pvs h x :
  In x (spec_nosuffix V pvs h) <->
  exists e, (1 <= e <= length h)%nat /\ exists r, ends_at V pvs h e = x :: r.
Proof.
  unfold spec_nosuffix. rewrite in_flat_map. split.
  - intros [e [He Hx]]. apply in_seq in He. exists e. split; [lia|].
    destruct (ends_at V pvs h e) as [|y r]; cbn in Hx; [tauto|]. destruct Hx as [->|[]]. eauto.
  - intros [e [He [r Hr]]]. exists e. split; [apply in_seq; lia|]. rewrite Hr. left. reflexivity.
Qed.

(* the head of [ends_at] is a longest occurrence ending at e: every occurrence ending at e starts
   at or after it *)
Theorem ends_at_head_longest pvs h e x r : (e <= length h)%nat ->
  ends_at V pvs h e = x :: r ->
  (exists v, x = (fst (fst x), e, v) /\ occ_at pvs h (fst (fst x)) e v) /\
  forall s v, occ_at pvs h s e v -> (fst (fst x) <= s)%nat.
Proof.
  intros Hle Hr. assert (Hin : In x (ends_at V pvs h e)) by (rewrite Hr; left; reflexivity).
  split.
  - unfold ends_at in Hin. apply in_ends_at_from in Hin as (l & p & v & Hl & Hp & Hs & Hx).
    exists v. subst x. cbn [fst snd]. split; [reflexivity|].
    unfold Spec.occ_at. split; [lia|]. subst p. exact Hp.
  - intros s v Hocc. destruct Hocc as [Hse Hin2].
    assert (Hy : In (s, e, v) (ends_at V pvs h e)).
    { unfold ends_at. apply in_ends_at_from. exists (e - s)%nat, (sub h s e), v.
      replace (e - (e - s))%nat with s by lia. repeat split; auto; lia. }
    pose proof (spec_overlapping_sorted pvs h) as _.
    (* within one end position the list is sorted by start *)
    assert (Hs : Sorted ord_le (ends_at V pvs h e)).
    { unfold ends_at, ends_at_from. apply sorted_flat_map.
      - intros l _. unfold occs_len.
        induction (filter (fun pv => list_eqb (fst pv) (sub h (e - l) e)) pvs) as [|a r' IH]; cbn [map]; [constructor|].
        constructor; [exact IH|]. destruct r'; cbn [map]; constructor. right. cbn. split; [reflexivity|lia].
      - intros l1 a l2 b l3 E x' y' Hx' Hy'. apply occs_len_shape in Hx' as [Hx1 Hx2]. apply occs_len_shape in Hy' as [Hy1 Hy2].
        right. split; [congruence|]. rewrite Hx1, Hy1. assert (b < a)%nat; [|lia].
        apply (f_equal (@rev nat)) in E. rewrite rev_involutive in E.
        rewrite rev_app_distr in E. cbn [rev] in E. rewrite rev_app_distr in E. cbn [rev] in E.
        rewrite <- !app_assoc in E. cbn [app] in E. eapply seq_split_lt. exact E. }
    rewrite Hr in Hs, Hy. apply Sorted_StronglySorted in Hs.
    + inversion Hs as [|? ? _ Hall]; subst. destruct Hy as [Hy|Hy]; [subst x; cbn; lia|].
      rewrite Forall_forall in Hall. specialize (Hall _ Hy). destruct Hall as [Hlt|[_ Hle2]]; cbn in *; [|exact Hle2].
      apply ends_at_from_shape in Hin as [He1 _]. cbn in Hlt. lia.
    + intros a b c [H1|[H1 H1']] [H2|[H2 H2']]; unfold ord_le; lia.
Qed.

End Adequacy.
