(* LmfSpec.v — C04 on the level of the specifications: under leftmost-first semantics the pattern
   reported at a start position is the earliest-registered one occurring there, and that is the
   longest EFFECTIVE pattern there, where a pattern is effective iff no earlier-registered pattern
   is a proper prefix of it.  Hence spec_lmf pvs = spec_lml (effective pvs): shadowed patterns are
   never reported and their presence changes nothing. *)
From DV Require Import Model.Base Model.Spec Proofs.GenAC Proofs.Leftmost Proofs.BwLeftmost.
From Coq Require Import ZifyN ZifyNat ZifyBool.

Section Lmf.
Variable V : Type.

Definition pp (q p : list N) : bool := is_prefix q p && negb (list_eqb q p).

Lemma is_prefix_iff' p t : is_prefix p t = true <-> exists r, t = p ++ r.
Proof.
  revert t; induction p as [|x p IH]; intros t; cbn [is_prefix].
  - split; [intros _; exists t; reflexivity|reflexivity].
  - destruct t as [|y t]; [split; [discriminate|intros [r H]; discriminate]|].
    rewrite andb_true_iff, IH, N.eqb_eq. split.
    + intros [-> [r ->]]. exists r. reflexivity.
    + intros [r H]. cbn [app] in H. inversion H; subst. split; [reflexivity|eauto].
Qed.

(* two prefixes of one text are comparable *)
Lemma prefixes_comparable : forall a b t, is_prefix a t = true -> is_prefix b t = true ->
  (length a <= length b)%nat -> is_prefix a b = true.
Proof.
  induction a as [|x a IH]; intros b t Ha Hb Hl; [reflexivity|].
  destruct b as [|y b]; [cbn in Hl; lia|]. destruct t as [|z t]; [discriminate|].
  cbn [is_prefix] in *. apply andb_true_iff in Ha as [Ha1 Ha2]. apply andb_true_iff in Hb as [Hb1 Hb2].
  apply N.eqb_eq in Ha1. apply N.eqb_eq in Hb1. subst. rewrite N.eqb_refl. cbn [andb].
  apply (IH b t Ha2 Hb2). cbn [length] in Hl. lia.
Qed.

Lemma prefixes_same_length : forall a b t, is_prefix a t = true -> is_prefix b t = true -> length a = length b -> a = b.
Proof.
  induction a as [|x a IH]; intros b t Ha Hb Hl; destruct b as [|y b]; try discriminate; [reflexivity|].
  destruct t as [|z t]; [discriminate|].
  cbn [is_prefix] in *. apply andb_true_iff in Ha as [Ha1 Ha2]. apply andb_true_iff in Hb as [Hb1 Hb2].
  apply N.eqb_eq in Ha1. apply N.eqb_eq in Hb1. subst. f_equal. apply (IH b t Ha2 Hb2). cbn [length] in Hl. lia.
Qed.

Lemma is_prefix_trans a b t : is_prefix a b = true -> is_prefix b t = true -> is_prefix a t = true.
Proof.
  intros H1 H2. apply is_prefix_iff' in H1 as [r1 ->]. apply is_prefix_iff' in H2 as [r2 ->].
  apply is_prefix_iff'. exists (r1 ++ r2). rewrite app_assoc. reflexivity.
Qed.

(* ---- effective ------------------------------------------------------------------------------- *)
Lemma effective_go_in seen (l : list (list N * V)) p v :
  In (p, v) (effective_go V seen l) ->
  exists l1 l2, l = l1 ++ (p, v) :: l2 /\ forall q, In q (seen ++ map fst l1) -> pp q p = false.
Proof.
  revert seen; induction l as [|[p0 v0] l IH]; intros seen H; cbn [effective_go] in H; [destruct H|].
  destruct (existsb (fun q => is_prefix q p0 && negb (list_eqb q p0)) seen) eqn:E.
  - destruct (IH _ H) as (l1 & l2 & -> & Hq). exists ((p0, v0) :: l1), l2. split; [reflexivity|].
    intros q Hin. apply Hq. cbn [map fst] in Hin. rewrite <- app_assoc. exact Hin.
  - destruct H as [H|H].
    + inversion H; subst. exists [], l. split; [reflexivity|]. intros q Hin. cbn [map] in Hin. rewrite app_nil_r in Hin.
      destruct (pp q p) eqn:Eq; [|reflexivity].
      assert (existsb (fun q => is_prefix q p && negb (list_eqb q p)) seen = true); [|congruence].
      apply existsb_exists. exists q. split; [exact Hin|exact Eq].
    + destruct (IH _ H) as (l1 & l2 & -> & Hq). exists ((p0, v0) :: l1), l2. split; [reflexivity|].
      intros q Hin. apply Hq. cbn [map fst] in Hin. rewrite <- app_assoc. exact Hin.
Qed.

Lemma effective_go_keeps seen (l : list (list N * V)) l1 p v l2 :
  l = l1 ++ (p, v) :: l2 -> (forall q, In q (seen ++ map fst l1) -> pp q p = false) ->
  In (p, v) (effective_go V seen l).
Proof.
  revert seen l; induction l1 as [|[p0 v0] l1 IH]; intros seen l -> Hq; cbn [app effective_go].
  - assert (existsb (fun q => is_prefix q p && negb (list_eqb q p)) seen = false) as ->.
    { destruct (existsb _ seen) eqn:E; [|reflexivity]. apply existsb_exists in E as [q [Hin Hp]].
      change (pp q p = true) in Hp. rewrite (Hq q) in Hp; [discriminate|]. cbn [map]. rewrite app_nil_r. exact Hin. }
    left. reflexivity.
  - assert (In (p, v) (effective_go V (seen ++ [p0]) (l1 ++ (p, v) :: l2))) as H.
    { apply (IH (seen ++ [p0]) _ eq_refl). intros q Hin. apply Hq. cbn [map fst]. rewrite <- app_assoc in Hin. exact Hin. }
    destruct (existsb _ seen); [exact H|right; exact H].
Qed.

Lemma effective_go_incl seen (l : list (list N * V)) x : In x (effective_go V seen l) -> In x l.
Proof.
  destruct x as [p v]. intros H. destruct (effective_go_in _ _ _ _ H) as (l1 & l2 & -> & _).
  apply in_or_app. right. left. reflexivity.
Qed.

(* a duplicate-free list splits around an element in only one way *)
Lemma nodup_split_unique {X} (l1 l2 m1 m2 : list X) x :
  NoDup (l1 ++ x :: l2) -> l1 ++ x :: l2 = m1 ++ x :: m2 -> l1 = m1.
Proof.
  revert m1; induction l1 as [|a l1 IH]; intros m1 Hn He.
  - destruct m1 as [|b m1]; [reflexivity|]. cbn [app] in He. inversion He; subst. exfalso.
    cbn [app] in Hn. inversion Hn as [|? ? Hnot _]; subst. apply Hnot. apply in_or_app. right. left. reflexivity.
  - destruct m1 as [|b m1]; cbn [app] in He; inversion He; subst.
    + exfalso. cbn [app] in Hn. inversion Hn as [|? ? Hnot _]; subst. apply Hnot. apply in_or_app. right. left. reflexivity.
    + f_equal. apply IH; [cbn [app] in Hn; inversion Hn; assumption|assumption].
Qed.

Lemma find_split {X} (f : X -> bool) l x : find f l = Some x ->
  exists l1 l2, l = l1 ++ x :: l2 /\ f x = true /\ forall y, In y l1 -> f y = false.
Proof.
  induction l as [|a l IH]; cbn [find]; [discriminate|]. destruct (f a) eqn:E.
  - intros H; inversion H; subst. exists [], l. repeat split; [exact E|intros y []].
  - intros H. destruct (IH H) as (l1 & l2 & -> & Hx & Hall). exists (a :: l1), l2. repeat split; [exact Hx|].
    intros y [<-|Hy]; [exact E|apply Hall; exact Hy].
Qed.

Variable pvs : list (list N * V).
Hypothesis pats_ne : forall p v, In (p, v) pvs -> p <> [].
Hypothesis pats_nd : NoDup (map fst pvs).

Lemma pvs_nodup : NoDup pvs.
Proof. apply (NoDup_map_inv fst). exact pats_nd. Qed.

(* the choice functions of the two specifications agree at every position *)
Theorem first_at_is_longest_effective h s :
  first_at V pvs h s = longest_at V (effective V pvs) h s.
Proof.
  set (t := skipn s h). set (f := fun pv : list N * V => is_prefix (fst pv) t).
  unfold first_at, longest_at. fold t. change (fun pv : list N * V => is_prefix (fst pv) t) with f.
  pose proof (longest_at_spec V (fun _ _ => Ok None) [] (fun p v (H : In (p, v) []) => match H with end) h s (effective V pvs) None I) as Hl. fold t in Hl.
  destruct (find f pvs) as [[p1 v1]|] eqn:Ef.
  - destruct (find_split f pvs _ Ef) as (l1 & l2 & Hsplit & Hf1 & Hl1). unfold f in Hf1. cbn [fst] in Hf1.
    assert (Heff1 : In (p1, v1) (effective V pvs)).
    { apply (effective_go_keeps [] pvs l1 p1 v1 l2 Hsplit). intros q Hin. cbn [app] in Hin.
      apply in_map_iff in Hin as [[q0 x] [<- Hin]]. cbn [fst].
      destruct (pp q0 p1) eqn:E; [|reflexivity]. unfold pp in E. apply andb_true_iff in E as [E _].
      pose proof (is_prefix_trans _ _ _ E Hf1) as Ht. specialize (Hl1 _ Hin). unfold f in Hl1. cbn [fst] in Hl1. congruence. }
    assert (Hmaxlen : forall p v, In (p, v) (effective V pvs) -> is_prefix p t = true -> (length p <= length p1)%nat).
    { intros p v Hin Hp. destruct (effective_go_in _ _ _ _ Hin) as (m1 & m2 & Hm & Hq). cbn [app] in Hq.
      destruct (le_lt_dec (length p) (length p1)) as [H|H]; [exact H|]. exfalso.
      assert (Hp1p : is_prefix p1 p = true) by (apply (prefixes_comparable p1 p t Hf1 Hp); lia).
      assert (Hne : p1 <> p) by (intros ->; lia).
      (* where does (p, v) stand relative to (p1, v1)?  not in l1 (there nothing is a prefix of t) *)
      assert (Hin_m1 : In (p1, v1) m1).
      { assert (Hinp : In (p, v) pvs) by (rewrite Hm; apply in_or_app; right; left; reflexivity).
        rewrite Hsplit in Hinp. apply in_app_or in Hinp as [Hinp|[Hinp|Hinp]].
        - specialize (Hl1 _ Hinp). unfold f in Hl1. cbn [fst] in Hl1. congruence.
        - inversion Hinp; subst. contradiction.
        - apply in_split in Hinp as (a1 & a2 & ->).
          assert (pvs = (l1 ++ (p1, v1) :: a1) ++ (p, v) :: a2) as Hm' by (rewrite Hsplit, <- app_assoc; reflexivity).
          assert (l1 ++ (p1, v1) :: a1 = m1) as <-.
          { eapply nodup_split_unique; [|rewrite <- Hm'; exact Hm]. rewrite <- Hm'. exact pvs_nodup. }
          apply in_or_app. right. left. reflexivity. }
      assert (pp p1 p = false) as Hpp.
      { apply Hq. apply in_map_iff. exists (p1, v1). split; [reflexivity|exact Hin_m1]. }
      unfold pp in Hpp. rewrite Hp1p in Hpp. cbn [andb] in Hpp. apply negb_false_iff in Hpp. apply list_eqb_eq in Hpp. contradiction. }
    destruct (fold_left _ (effective V pvs) None) as [[b vb]|].
    + destruct Hl as (Hin & Hpb & Hmax & _). destruct Hin as [Hin|Hin]; [|discriminate]. cbn [fst] in *.
      pose proof (Hmaxlen b vb Hin Hpb) as H1. pose proof (Hmax (p1, v1) Heff1 Hf1) as H2. cbn [fst] in H2.
      assert (b = p1) as -> by (apply (prefixes_same_length b p1 t Hpb Hf1); lia).
      f_equal. f_equal.
      apply (value_unique_gen V pvs p1 v1 vb pats_nd).
      * rewrite Hsplit. apply in_or_app. right. left. reflexivity.
      * apply (effective_go_incl [] pvs). exact Hin.
    + destruct Hl as [_ Hall]. specialize (Hall (p1, v1) Heff1). cbn [fst] in Hall. congruence.
  - destruct (fold_left _ (effective V pvs) None) as [[b vb]|]; [|reflexivity]. exfalso.
    destruct Hl as (Hin & Hpb & _). destruct Hin as [Hin|Hin]; [|discriminate].
    apply (effective_go_incl [] pvs) in Hin. pose proof (find_none _ _ Ef _ Hin) as Hn. unfold f in Hn. congruence.
Qed.

Lemma spec_leftmost_from_ext (c1 c2 : nat -> option (list N * V)) hlen : (forall s, c1 s = c2 s) ->
  forall fuel from, spec_leftmost_from V fuel c1 hlen from = spec_leftmost_from V fuel c2 hlen from.
Proof.
  intros Hc. induction fuel as [|fuel IH]; intros from; cbn [spec_leftmost_from]; [reflexivity|].
  assert (forall l, first_start V c1 l = first_start V c2 l) as Hfs.
  { induction l as [|s l IHl]; cbn [first_start]; [reflexivity|]. rewrite Hc, IHl. reflexivity. }
  rewrite Hfs. destruct (first_start V c2 _) as [[s pv]|]; [|reflexivity]. rewrite IH. reflexivity.
Qed.

Lemma nonempty_pats_all (l : list (list N * V)) : (forall p v, In (p, v) l -> p <> []) -> nonempty_pats V l = l.
Proof.
  unfold nonempty_pats. induction l as [|[p v] l IH]; intros Hl; [reflexivity|]. cbn [filter fst].
  destruct (list_eqb p []) eqn:E.
  - apply list_eqb_eq in E. exfalso. apply (Hl p v); [left; reflexivity|exact E].
  - cbn [negb]. f_equal. apply IH. intros q x Hin. apply (Hl q x). right. exact Hin.
Qed.

(* C04: leftmost-first over the registered sequence = leftmost-longest over its effective part *)
Theorem spec_lmf_is_lml_of_effective h : spec_lmf V pvs h = spec_lml V (effective V pvs) h.
Proof.
  unfold spec_lmf, spec_lml. rewrite (nonempty_pats_all pvs pats_ne).
  rewrite (nonempty_pats_all (effective V pvs)).
  - apply spec_leftmost_from_ext. intros s. apply first_at_is_longest_effective.
  - intros p v Hin. apply (pats_ne p v). apply (effective_go_incl [] pvs). exact Hin.
Qed.

(* every reported match is an occurrence of the pattern chosen at its start *)
Lemma first_start_some (choose : nat -> option (list N * V)) cands s pv :
  first_start V choose cands = Some (s, pv) -> choose s = Some pv.
Proof.
  induction cands as [|c r IH]; cbn [first_start]; [discriminate|].
  destruct (choose c) eqn:E; [intros H; inversion H; subst; exact E|exact IH].
Qed.

Lemma spec_leftmost_from_in (choose : nat -> option (list N * V)) hlen : forall fuel from s e v,
  In (s, e, v) (spec_leftmost_from V fuel choose hlen from) ->
  exists pv, choose s = Some pv /\ e = (s + length (fst pv))%nat /\ v = snd pv.
Proof.
  induction fuel as [|fuel IH]; intros from s e v; cbn [spec_leftmost_from]; [intros []|].
  destruct (first_start V choose (seq from (hlen - from))) as [[s0 pv0]|] eqn:E; [|intros []].
  intros [H|H].
  - inversion H; subst. exists pv0. split; [exact (first_start_some _ _ _ _ E)|auto].
  - exact (IH _ _ _ _ H).
Qed.

Theorem lmf_reports_only_effective h s e v :
  In (s, e, v) (spec_lmf V pvs h) ->
  exists p, In (p, v) (effective V pvs) /\ is_prefix p (skipn s h) = true /\ e = (s + length p)%nat.
Proof.
  rewrite spec_lmf_is_lml_of_effective. unfold spec_lml. intros H.
  apply spec_leftmost_from_in in H as ([p x] & Hc & -> & ->). cbn [fst snd].
  unfold longest_at in Hc.
  pose proof (longest_at_spec V (fun _ _ => Ok None) [] (fun p v (H : In (p, v) []) => match H with end) h s
                              (nonempty_pats V (effective V pvs)) None I) as Hl.
  rewrite Hc in Hl. destruct Hl as (Hin & Hp & _). destruct Hin as [Hin|Hin]; [|discriminate].
  exists p. split; [|split; [exact Hp|reflexivity]].
  unfold nonempty_pats in Hin. apply filter_In in Hin as [Hin _]. exact Hin.
Qed.

(* a pattern that has an earlier-registered proper prefix is not effective: it is never reported *)
Theorem shadowed_not_effective l1 p v l2 q :
  pvs = l1 ++ (p, v) :: l2 -> In q (map fst l1) -> pp q p = true ->
  forall v', ~ In (p, v') (effective V pvs).
Proof.
  intros Hs Hq Hpp v' Hin.
  assert (v' = v) as ->.
  { apply (value_unique_gen V pvs p v' v pats_nd); [apply (effective_go_incl [] pvs); exact Hin|].
    rewrite Hs. apply in_or_app. right. left. reflexivity. }
  destruct (effective_go_in _ _ _ _ Hin) as (m1 & m2 & Hm & Hno). cbn [app] in Hno.
  assert (l1 = m1) as <-.
  { eapply nodup_split_unique; [|rewrite <- Hs; exact Hm]. rewrite <- Hs. exact pvs_nodup. }
  rewrite (Hno q Hq) in Hpp. discriminate.
Qed.

End Lmf.
