(* SpecPerm.v — C14 on the level of the specifications: for duplicate-free pattern collections the
   overlapping, no-suffix, find and leftmost-longest specifications do not depend on the order in
   which the pattern/value pairs are listed.  (Leftmost-first does: that is its definition.) *)
From DV Require Import Model.Base Model.Spec Proofs.GenAC Theory.SpecAdequacy Theory.LmfSpec.
From Coq Require Import Permutation ZifyN ZifyNat ZifyBool.

Section Perm.
Variable V : Type.

Lemma filter_perm {X} (f : X -> bool) (l l' : list X) : Permutation l l' -> Permutation (filter f l) (filter f l').
Proof.
  induction 1 as [|x l l' HP IH|x y l|l l' l'' H1 IH1 H2 IH2]; cbn [filter].
  - constructor.
  - destruct (f x); [constructor; exact IH|exact IH].
  - destruct (f x), (f y); try apply Permutation_refl. apply perm_swap.
  - eapply Permutation_trans; eassumption.
Qed.

Lemma filter_le1 (pvs : list (list N * V)) x : NoDup (map fst pvs) ->
  (length (filter (fun pv => list_eqb (fst pv) x) pvs) <= 1)%nat.
Proof.
  induction pvs as [|[p v] l IH]; intros Hn; cbn [filter map fst length]; [lia|].
  inversion Hn as [|? ? Hnot Hn']; subst. destruct (list_eqb p x) eqn:E.
  - apply list_eqb_eq in E. subst p. cbn [length].
    assert (filter (fun pv => list_eqb (fst pv) x) l = []) as ->; [|cbn; lia].
    assert (forall l0 : list (list N * V), (forall pv, In pv l0 -> list_eqb (fst pv) x = false) -> filter (fun pv => list_eqb (fst pv) x) l0 = []) as Hnil.
    { induction l0 as [|a l0 IH0]; intros H; cbn [filter]; [reflexivity|]. rewrite (H a (or_introl eq_refl)). apply IH0. intros pv Hpv. apply H. right. exact Hpv. }
    apply Hnil. intros [q y] Hin. cbn [fst]. destruct (list_eqb q x) eqn:E2; [|reflexivity].
    apply list_eqb_eq in E2. subst q. exfalso. apply Hnot. apply in_map_iff. exists (x, y). auto.
  - apply IH. exact Hn'.
Qed.

Lemma perm_le1 {X} (l l' : list X) : Permutation l l' -> (length l <= 1)%nat -> l = l'.
Proof.
  intros HP Hl. destruct l as [|a [|b r]]; [| |cbn [length] in Hl; lia].
  - apply Permutation_nil in HP. congruence.
  - apply Permutation_length_1_inv in HP. congruence.
Qed.

Variables pvs pvs' : list (list N * V).
Hypothesis HP : Permutation pvs pvs'.
Hypothesis Hnd : NoDup (map fst pvs).

Lemma occs_len_perm h e l : occs_len V pvs h e l = occs_len V pvs' h e l.
Proof.
  unfold occs_len. f_equal. apply perm_le1; [apply filter_perm; exact HP|apply filter_le1; exact Hnd].
Qed.

Lemma ends_at_from_perm h from e : ends_at_from V pvs h from e = ends_at_from V pvs' h from e.
Proof.
  unfold ends_at_from. induction (rev (seq 1 (e - from))) as [|l r IH]; cbn [flat_map]; [reflexivity|]. rewrite occs_len_perm, IH. reflexivity.
Qed.

Theorem spec_overlapping_perm h : spec_overlapping V pvs h = spec_overlapping V pvs' h.
Proof.
  unfold spec_overlapping, ends_at. induction (seq 1 (length h)) as [|e r IH]; cbn [flat_map]; [reflexivity|]. rewrite ends_at_from_perm, IH. reflexivity.
Qed.

Theorem spec_nosuffix_perm h : spec_nosuffix V pvs h = spec_nosuffix V pvs' h.
Proof.
  unfold spec_nosuffix, ends_at. induction (seq 1 (length h)) as [|e r IH]; cbn [flat_map]; [reflexivity|]. rewrite ends_at_from_perm, IH. reflexivity.
Qed.

Lemma first_end_perm h from cands : first_end V pvs h from cands = first_end V pvs' h from cands.
Proof. induction cands as [|e r IH]; cbn [first_end]; [reflexivity|]. rewrite ends_at_from_perm, IH. reflexivity. Qed.

Theorem spec_find_perm h : spec_find V pvs h = spec_find V pvs' h.
Proof.
  unfold spec_find. generalize 0%nat as from. induction (S (length h)) as [|fuel IH]; intros from; cbn [spec_find_from]; [reflexivity|].
  rewrite first_end_perm. destruct (first_end V pvs' h from _) as [[[s e] v]|]; [|reflexivity]. rewrite IH. reflexivity.
Qed.

(* ---- leftmost-longest: the longest pattern at a position is unique ------------------------------ *)
Notation lstep h s := (fun (best : option (list N * V)) (pv : list N * V) =>
                     if is_prefix (fst pv) (skipn s h) then
                       match best with
                       | Some b => if (length (fst b) <? length (fst pv))%nat then Some pv else best
                       | None => Some pv
                       end
                     else best).

(* characterisation of the fold: the result is a longest matching member (or the accumulator) *)
Lemma longest_fold_char h s : forall (l : list (list N * V)) (acc : option (list N * V)),
  (match acc with Some b => is_prefix (fst b) (skipn s h) = true | None => True end) ->
  match fold_left (lstep h s) l acc with
  | None => acc = None /\ forall pv, In pv l -> is_prefix (fst pv) (skipn s h) = false
  | Some b => (In b l \/ acc = Some b) /\ is_prefix (fst b) (skipn s h) = true
              /\ (forall pv, In pv l -> is_prefix (fst pv) (skipn s h) = true -> (length (fst pv) <= length (fst b))%nat)
              /\ (forall a, acc = Some a -> (length (fst a) <= length (fst b))%nat)
  end.
Proof.
  induction l as [|pv l IH]; intros acc Hacc; cbn [fold_left].
  - destruct acc as [b|]; [|split; [reflexivity|intros ? []]].
    split; [right; reflexivity|]. split; [exact Hacc|]. split; [intros ? []|]. intros a E. inversion E. lia.
  - destruct (is_prefix (fst pv) (skipn s h)) eqn:Ep.
    + destruct acc as [b0|].
      * destruct (length (fst b0) <? length (fst pv))%nat eqn:El.
        -- specialize (IH (Some pv) Ep). destruct (fold_left _ l (Some pv)) as [b|].
           ++ destruct IH as (H1 & H2 & H3 & H4). split; [destruct H1 as [H1|H1]; [left; right; exact H1|inversion H1; subst; left; left; reflexivity]|].
              split; [exact H2|]. split.
              ** intros q [<-|Hq] Hpq; [apply H4; reflexivity|apply H3; assumption].
              ** intros a E. inversion E; subst. apply Nat.ltb_lt in El. specialize (H4 pv eq_refl). lia.
           ++ destruct IH as [H _]. discriminate.
        -- specialize (IH (Some b0) Hacc). destruct (fold_left _ l (Some b0)) as [b|].
           ++ destruct IH as (H1 & H2 & H3 & H4). split; [destruct H1 as [H1|H1]; [left; right; exact H1|right; exact H1]|].
              split; [exact H2|]. split.
              ** intros q [<-|Hq] Hpq; [apply Nat.ltb_ge in El; specialize (H4 b0 eq_refl); lia|apply H3; assumption].
              ** exact H4.
           ++ destruct IH as [H _]. discriminate.
      * specialize (IH (Some pv) Ep). destruct (fold_left _ l (Some pv)) as [b|].
        -- destruct IH as (H1 & H2 & H3 & H4). split; [destruct H1 as [H1|H1]; [left; right; exact H1|inversion H1; subst; left; left; reflexivity]|].
           split; [exact H2|]. split; [|intros a E; discriminate].
           intros q [<-|Hq] Hpq; [apply H4; reflexivity|apply H3; assumption].
        -- destruct IH as [H _]. discriminate.
    + specialize (IH acc Hacc). destruct (fold_left _ l acc) as [b|].
      * destruct IH as (H1 & H2 & H3 & H4). split; [destruct H1 as [H1|H1]; [left; right; exact H1|right; exact H1]|].
        split; [exact H2|]. split; [|exact H4]. intros q [<-|Hq] Hpq; [congruence|apply H3; assumption].
      * destruct IH as [H1 H2]. split; [exact H1|]. intros q [<-|Hq]; [exact Ep|apply H2; exact Hq].
Qed.

Lemma nonempty_perm : Permutation (nonempty_pats V pvs) (nonempty_pats V pvs').
Proof. unfold nonempty_pats. apply filter_perm. exact HP. Qed.

Lemma nonempty_nodup : NoDup (map fst (nonempty_pats V pvs)).
Proof.
  unfold nonempty_pats. clear HP. induction pvs as [|[p v] l IH]; cbn [filter map fst]; [constructor|].
  inversion Hnd as [|? ? Hnot Hn']; subst. destruct (negb (list_eqb p [])); cbn [map fst]; [|exact (IH Hn')].
  constructor; [|exact (IH Hn')]. intros Hin. apply Hnot. apply in_map_iff in Hin as [[q w] [E Hq]]. apply filter_In in Hq as [Hq _].
  apply in_map_iff. exists (q, w). auto.
Qed.

Lemma longest_at_perm (l l' : list (list N * V)) h s : Permutation l l' -> NoDup (map fst l) ->
  longest_at V l h s = longest_at V l' h s.
Proof.
  intros Hp Hn. unfold longest_at.
  pose proof (longest_fold_char h s l None I) as H1. pose proof (longest_fold_char h s l' None I) as H2.
  destruct (fold_left (lstep h s) l None) as [b|]; destruct (fold_left (lstep h s) l' None) as [b'|].
  - destruct H1 as ([Hb|Hb] & Pb & Mb & _); [|discriminate]. destruct H2 as ([Hb'|Hb'] & Pb' & Mb' & _); [|discriminate].
    assert (Hbl' : In b l') by (eapply Permutation_in; eassumption).
    assert (Hb'l : In b' l) by (eapply Permutation_in; [apply Permutation_sym; eassumption|exact Hb']).
    pose proof (Mb b' Hb'l Pb'). pose proof (Mb' b Hbl' Pb).
    assert (Efst : fst b = fst b') by (apply (prefixes_same_length (fst b) (fst b') (skipn s h) Pb Pb'); lia).
    f_equal. destruct b as [p v], b' as [p' v']. cbn [fst] in Efst. subst p'.
    (* same pattern in a duplicate-free list: same pair *)
    clear -Hb Hb'l Hn. induction l as [|[q w] l IH]; [destruct Hb|]. cbn [map fst] in Hn. apply NoDup_cons_iff in Hn as [Hq Hn].
    destruct Hb as [E|Hb]; destruct Hb'l as [E'|Hb'].
    + congruence.
    + inversion E; subst. exfalso. apply Hq. apply in_map_iff. exists (p, v'). auto.
    + inversion E'; subst. exfalso. apply Hq. apply in_map_iff. exists (p, v). auto.
    + exact (IH Hn Hb Hb').
  - exfalso. destruct H1 as ([Hb|Hb] & Pb & _); [|discriminate]. destruct H2 as [_ H2]. rewrite (H2 b) in Pb; [discriminate|].
    eapply Permutation_in; eassumption.
  - exfalso. destruct H2 as ([Hb|Hb] & Pb & _); [|discriminate]. destruct H1 as [_ H1]. rewrite (H1 b') in Pb; [discriminate|].
    eapply Permutation_in; [apply Permutation_sym; eassumption|exact Hb].
  - reflexivity.
Qed.

Theorem spec_lml_perm h : spec_lml V pvs h = spec_lml V pvs' h.
Proof.
  unfold spec_lml. apply spec_leftmost_from_ext. intros s. apply longest_at_perm; [exact nonempty_perm|exact nonempty_nodup].
Qed.

End Perm.
