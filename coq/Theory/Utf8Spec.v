(* Utf8Spec.v — C08 on the level of the specifications (overlapping search): the byte-level
   specification of the ENCODED patterns on the ENCODED text is the character-level specification
   with its positions translated to byte offsets.  Proof: both lists are strictly sorted by
   (end, start) and have the same members (UTF-8 self-synchronisation), hence are equal. *)
From DV Require Import Model.Base Model.Utf8 Model.Spec Proofs.GenAC Theory.SpecAdequacy Proofs.Utf8Props Proofs.IterPull.
From Coq Require Import Sorted ZifyN ZifyNat ZifyBool.

Section U8.
Variable V : Type.

Definition slt (x y : nat * nat * V) : Prop :=
  (snd (fst x) < snd (fst y))%nat \/ (snd (fst x) = snd (fst y) /\ (fst (fst x) < fst (fst y))%nat).

Lemma slt_trans x y z : slt x y -> slt y z -> slt x z.
Proof. unfold slt. lia. Qed.
Lemma slt_irrefl x : ~ slt x x.
Proof. unfold slt. lia. Qed.

(* two strictly sorted lists with the same members are equal, provided members are determined by
   their (start, end) *)
Lemma slt_sorted_unique (l l' : list (nat * nat * V)) :
  StronglySorted slt l -> StronglySorted slt l' -> (forall x, In x l <-> In x l') -> l = l'.
Proof.
  revert l'. induction l as [|a r IH]; intros l' Hs Hs' Hi.
  - destruct l' as [|b r']; [reflexivity|]. exfalso. apply (Hi b). left. reflexivity.
  - destruct l' as [|b r']; [exfalso; apply (Hi a); left; reflexivity|].
    inversion Hs as [|? ? Hsr Ha]; subst. inversion Hs' as [|? ? Hsr' Hb]; subst.
    rewrite Forall_forall in Ha, Hb.
    assert (a = b) as ->.
    { destruct (proj1 (Hi a) (or_introl eq_refl)) as [->|H1]; [reflexivity|].
      destruct (proj2 (Hi b) (or_introl eq_refl)) as [->|H2]; [reflexivity|].
      specialize (Ha _ H2). specialize (Hb _ H1). exfalso. apply (slt_irrefl a). eapply slt_trans; eassumption. }
    f_equal. apply IH; auto. intros x. split; intros Hx.
    + destruct (proj1 (Hi x) (or_intror Hx)) as [<-|H]; [|exact H]. specialize (Ha _ Hx). exfalso. exact (slt_irrefl _ Ha).
    + destruct (proj2 (Hi x) (or_intror Hx)) as [<-|H]; [|exact H]. specialize (Hb _ Hx). exfalso. exact (slt_irrefl _ Hb).
Qed.

(* ---- strict sortedness of spec_overlapping for duplicate-free patterns ------------------------ *)
Lemma ssorted_app (l1 l2 : list (nat * nat * V)) :
  StronglySorted slt l1 -> StronglySorted slt l2 -> (forall x y, In x l1 -> In y l2 -> slt x y) ->
  StronglySorted slt (l1 ++ l2).
Proof.
  induction l1 as [|a l1 IH]; intros H1 H2 H; [exact H2|].
  cbn [app]. inversion H1 as [|? ? Hs Hh]; subst. constructor.
  - apply IH; auto. intros x y Hx Hy. apply H; [right; exact Hx|exact Hy].
  - apply Forall_forall. intros x Hx. apply in_app_or in Hx as [Hx|Hx].
    + rewrite Forall_forall in Hh. apply Hh. exact Hx.
    + apply H; [left; reflexivity|exact Hx].
Qed.

Lemma ssorted_flat_map {X} (f : X -> list (nat * nat * V)) (l : list X) :
  (forall x, In x l -> StronglySorted slt (f x)) ->
  (forall l1 a l2 b l3, l = l1 ++ a :: l2 ++ b :: l3 -> forall x y, In x (f a) -> In y (f b) -> slt x y) ->
  StronglySorted slt (flat_map f l).
Proof.
  induction l as [|a l IH]; intros Hs Hc; [constructor|]. cbn [flat_map]. apply ssorted_app.
  - apply Hs. left. reflexivity.
  - apply IH.
    + intros x Hx. apply Hs. right. exact Hx.
    + intros l1 a' l2 b l3 E x y Hx Hy. apply (Hc (a :: l1) a' l2 b l3); [cbn; congruence|exact Hx|exact Hy].
  - intros x y Hx Hy. apply in_flat_map in Hy as [b [Hb Hy]]. apply in_split in Hb as [l2 [l3 E]].
    apply (Hc [] a l2 b l3); [cbn; congruence|exact Hx|exact Hy].
Qed.

Lemma filter_nodup_le1 (pvs : list (list N * V)) v : NoDup (map fst pvs) ->
  (length (filter (fun pv => list_eqb (fst pv) v) pvs) <= 1)%nat.
Proof.
  induction pvs as [|[p x] l IH]; intros Hn; cbn [filter map fst length]; [lia|].
  inversion Hn as [|? ? Hnot Hn']; subst. destruct (list_eqb p v) eqn:E.
  - apply list_eqb_eq in E. subst p. cbn [length].
    assert (filter (fun pv => list_eqb (fst pv) v) l = []) as ->; [|cbn; lia].
    apply (filter_nil). intros [q y] Hin. cbn [fst]. destruct (list_eqb q v) eqn:E2; [|reflexivity].
    apply list_eqb_eq in E2. subst q. exfalso. apply Hnot. apply in_map_iff. exists (v, y). auto.
  - apply IH. exact Hn'.
Qed.

Lemma spec_overlapping_ssorted (pvs : list (list N * V)) h : NoDup (map fst pvs) ->
  StronglySorted slt (spec_overlapping V pvs h).
Proof.
  intros Hn. unfold spec_overlapping. apply ssorted_flat_map.
  - intros e _. unfold ends_at, ends_at_from. apply ssorted_flat_map.
    + intros l _. unfold occs_len. pose proof (filter_nodup_le1 pvs (sub h (e - l) e) Hn) as Hl.
      destruct (filter (fun pv => list_eqb (fst pv) (sub h (e - l) e)) pvs) as [|a [|b r]]; cbn [map];
        [constructor|constructor; constructor|cbn [length] in Hl; lia].
    + intros l1 a l2 b l3 E x y Hx Hy. apply occs_len_shape in Hx as [Hx1 Hx2]. apply occs_len_shape in Hy as [Hy1 Hy2].
      right. split; [congruence|]. rewrite Hx1, Hy1.
      assert (b < a)%nat.
      { apply (f_equal (@rev nat)) in E. rewrite rev_involutive in E.
        rewrite rev_app_distr in E. cbn [rev] in E. rewrite rev_app_distr in E. cbn [rev] in E.
        rewrite <- !app_assoc in E. cbn [app] in E. eapply seq_split_lt. exact E. }
      assert (Hal : In a (rev (seq 1 (e - 0)))) by (rewrite E; apply in_or_app; right; left; reflexivity).
      apply in_rev, in_seq in Hal. lia.
  - intros l1 a l2 b l3 E x y Hx Hy. left.
    apply ends_at_from_shape in Hx as [Hx _]. apply ends_at_from_shape in Hy as [Hy _].
    rewrite Hx, Hy. eapply seq_split_lt. exact E.
Qed.

(* ---- translation of character positions to byte offsets ------------------------------------- *)
Definition tb (cs : list N) (x : nat * nat * V) : nat * nat * V :=
  (boff (firstn (fst (fst x)) cs), boff (firstn (snd (fst x)) cs), snd x).

Lemma firstn_plus_u {X} (i j : nat) (l : list X) : firstn (i + j) l = firstn i l ++ firstn j (skipn i l).
Proof.
  revert l; induction i as [|i IH]; intros l; [reflexivity|].
  destruct l as [|x l]; [cbn; rewrite firstn_nil; reflexivity|]. cbn [Nat.add firstn skipn app]. f_equal. apply IH.
Qed.

Lemma boff_app a b : boff (a ++ b) = (boff a + boff b)%nat.
Proof. unfold boff. rewrite encode_utf8_app, app_length. reflexivity. Qed.

Lemma boff_mono cs i j : (i < j <= length cs)%nat -> (boff (firstn i cs) < boff (firstn j cs))%nat.
Proof.
  intros H. replace j with (i + (j - i))%nat by lia. rewrite firstn_plus_u, boff_app.
  assert (1 <= boff (firstn (j - i) (skipn i cs)))%nat; [|lia].
  unfold boff. pose proof (encode_utf8_length_ge (firstn (j - i) (skipn i cs))) as Hl.
  rewrite firstn_length, skipn_length in Hl. lia.
Qed.

Lemma boff_le_total cs i : (boff (firstn i cs) <= length (encode_utf8 cs))%nat.
Proof. rewrite <- (firstn_skipn i cs) at 2. rewrite encode_utf8_app, app_length. unfold boff. lia. Qed.

Lemma sub_enc cs s e : (s <= e <= length cs)%nat ->
  sub (encode_utf8 cs) (boff (firstn s cs)) (boff (firstn e cs)) = encode_utf8 (sub cs s e).
Proof.
  intros H. unfold sub.
  assert (Hcs : cs = firstn s cs ++ firstn (e - s) (skipn s cs) ++ skipn e cs).
  { rewrite <- (firstn_skipn s cs) at 1. f_equal. rewrite <- (firstn_skipn (e - s) (skipn s cs)) at 1. f_equal.
    rewrite skipn_skipn_add. f_equal. lia. }
  assert (He : firstn e cs = firstn s cs ++ firstn (e - s) (skipn s cs)).
  { replace e with (s + (e - s))%nat at 1 by lia. apply firstn_plus_u. }
  set (A := firstn s cs) in *. set (B := firstn (e - s) (skipn s cs)) in *. set (C := skipn e cs) in *.
  assert (Henc : encode_utf8 cs = encode_utf8 A ++ encode_utf8 B ++ encode_utf8 C)
    by (rewrite <- !encode_utf8_app; f_equal; exact Hcs).
  assert (Hbe : boff (firstn e cs) = (boff A + boff B)%nat) by (rewrite He; apply boff_app).
  rewrite Henc, Hbe. unfold boff. rewrite skipn_app, skipn_all, Nat.sub_diag. cbn [app skipn].
  replace (length (encode_utf8 A) + length (encode_utf8 B) - length (encode_utf8 A))%nat
    with (length (encode_utf8 B)) by lia.
  rewrite firstn_app, Nat.sub_diag, firstn_all. cbn [firstn]. apply app_nil_r.
Qed.

Lemma smap_sorted (f : nat * nat * V -> nat * nat * V) l :
  StronglySorted slt l -> (forall x y, In x l -> In y l -> slt x y -> slt (f x) (f y)) ->
  StronglySorted slt (map f l).
Proof.
  induction l as [|a l IH]; intros Hs Hf; cbn [map]; [constructor|].
  inversion Hs as [|? ? Hsl Ha]; subst. constructor.
  - apply IH; [exact Hsl|]. intros x y Hx Hy. apply Hf; right; assumption.
  - apply Forall_forall. intros y Hy. apply in_map_iff in Hy as [x [<- Hx]].
    rewrite Forall_forall in Ha. apply Hf; [left; reflexivity|right; exact Hx|apply Ha; exact Hx].
Qed.

Lemma enc_inj p q : Forall scalar p -> Forall scalar q -> encode_utf8 p = encode_utf8 q -> p = q.
Proof.
  intros Hp Hq H. pose proof (chars_of_encode p Hp) as H1. pose proof (chars_of_encode q Hq) as H2.
  rewrite H in H1. congruence.
Qed.

Variable pvs : list (list N * V).
Hypothesis pats_ne : forall p v, In (p, v) pvs -> p <> [].
Hypothesis pats_sc : forall p v, In (p, v) pvs -> Forall scalar p.
Hypothesis pats_nd : NoDup (map fst pvs).

Definition bpvs : list (list N * V) := map (fun pv => (encode_utf8 (fst pv), snd pv)) pvs.

Lemma bpvs_nodup : NoDup (map fst bpvs).
Proof.
  unfold bpvs. rewrite map_map. cbn [fst].
  assert (forall l : list (list N * V), (forall p v, In (p, v) l -> Forall scalar p) -> NoDup (map fst l) ->
                                        NoDup (map (fun pv => encode_utf8 (fst pv)) l)) as H.
  { induction l as [|[p v] l IH]; intros Hsc Hn; cbn [map fst]; [constructor|].
    inversion Hn as [|? ? Hnot Hn']; subst. constructor.
    - intros Hin. apply in_map_iff in Hin as [[q w] [He Hq]]. cbn [fst] in He.
      apply enc_inj in He; [|apply (Hsc q w); right; exact Hq|apply (Hsc p v); left; reflexivity].
      subst q. apply Hnot. apply in_map_iff. exists (p, w). auto.
    - apply IH; [|exact Hn']. intros q w Hq. apply (Hsc q w). right. exact Hq. }
  apply H; assumption.
Qed.

(* C08, overlapping search, on specifications *)
Theorem spec_bytes_eq_spec_chars cs : Forall scalar cs ->
  spec_overlapping V bpvs (encode_utf8 cs) = map (tb cs) (spec_overlapping V pvs cs).
Proof.
  intros Hcs. apply slt_sorted_unique.
  - apply spec_overlapping_ssorted. exact bpvs_nodup.
  - apply smap_sorted; [apply spec_overlapping_ssorted; exact pats_nd|].
    intros [[s e] v] [[s' e'] v'] Hx Hy Hlt.
    apply spec_overlapping_adequate in Hx as [Hx _]. apply spec_overlapping_adequate in Hy as [Hy _].
    unfold slt, tb in *. cbn [fst snd] in *. destruct Hlt as [Hlt|[-> Hlt]].
    + left. apply boff_mono. lia.
    + right. split; [reflexivity|]. apply boff_mono. lia.
  - intros [[sb eb] v]. split.
    + (* a byte-level occurrence is a character-level occurrence at a boundary *)
      intros Hin. apply spec_overlapping_adequate in Hin as [Hr Hin].
      unfold bpvs in Hin. apply in_map_iff in Hin as [[p w] [E Hp]]. cbn [fst snd] in E. inversion E as [[Hsub Hw]]. subst w.
      assert (Hpre : is_prefix (encode_utf8 p) (skipn sb (encode_utf8 cs)) = true).
      { apply is_prefix_ex. rewrite Hsub. unfold sub. exists (skipn (eb - sb) (skipn sb (encode_utf8 cs))).
        symmetry. apply firstn_skipn. }
      destruct (utf8_occ_sync cs p sb Hcs (pats_sc p v Hp) (pats_ne p v Hp) Hpre) as (i & Hi & Hsb & Hpc).
      apply is_prefix_ex in Hpc as [r Hr2].
      assert (Hlenp : (i + length p <= length cs)%nat).
      { apply (f_equal (@length N)) in Hr2. rewrite skipn_length, app_length in Hr2. lia. }
      assert (Hsubc : sub cs i (i + length p) = p).
      { unfold sub. replace (i + length p - i)%nat with (length p) by lia. rewrite Hr2.
        rewrite firstn_app, Nat.sub_diag, firstn_all. cbn [firstn]. apply app_nil_r. }
      assert (Hlen : (eb - sb)%nat = length (encode_utf8 p)).
      { rewrite Hsub. unfold sub. rewrite firstn_length, skipn_length. lia. }
      apply in_map_iff. exists (i, (i + length p)%nat, v). split.
      * unfold tb. cbn [fst snd]. rewrite <- Hsb. f_equal. f_equal.
        rewrite firstn_plus_u, boff_app, <- Hsb.
        replace (firstn (length p) (skipn i cs)) with p by (rewrite Hr2, firstn_app, Nat.sub_diag, firstn_all; cbn [firstn]; symmetry; apply app_nil_r).
        unfold boff at 1. lia.
      * apply spec_overlapping_adequate. split; [|rewrite Hsubc; exact Hp].
        pose proof (pats_ne p v Hp). destruct p; [congruence|cbn [length] in *; lia].
    + (* and conversely *)
      intros Hin. apply in_map_iff in Hin as [[[s e] w] [E Hin]]. unfold tb in E. cbn [fst snd] in E. inversion E; subst. clear E.
      apply spec_overlapping_adequate in Hin as [Hr Hin]. apply spec_overlapping_adequate. split.
      * split; [apply boff_mono; lia|apply boff_le_total].
      * rewrite sub_enc by lia. unfold bpvs. apply in_map_iff. exists (sub cs s e, v). auto.
Qed.
End U8.
