(* SpecNoSuffix.v — C05 as ONE declarative statement on occ_at alone: the no-suffix search reports
   exactly the triples (s, e, v) such that h[s..e] is an occurrence carrying v and no occurrence
   ending at e starts before s (the longest one ending there) -- one per end position that has an
   occurrence, none for the others -- in strictly increasing order of end position. *)
From DV Require Import Model.Base Model.Spec Proofs.GenAC Proofs.Leftmost Proofs.BwLeftmost Theory.SpecAdequacy.
From Coq Require Import Sorted ZifyN ZifyNat ZifyBool.

Section NoSuffix.
Variable V : Type.
Notation occ_at := (occ_at V).

Definition longest_ending_at (pvs : list (list N * V)) (h : list N) (s e : nat) (v : V) : Prop :=
  occ_at pvs h s e v /\ forall s' v', occ_at pvs h s' e v' -> (s <= s')%nat.

Definition end_lt (x y : nat * nat * V) : Prop := (snd (fst x) < snd (fst y))%nat.

Theorem spec_nosuffix_characterised pvs h : NoDup (map fst pvs) ->
  forall s e v, In (s, e, v) (spec_nosuffix V pvs h) <-> longest_ending_at pvs h s e v.
Proof.
  intros Hnd s e v. split.
  - intros Hin. apply spec_nosuffix_adequate in Hin as (e' & He' & r & Hr).
    destruct (ends_at_head_longest V pvs h e' (s, e, v) r ltac:(lia) Hr) as ((v0 & Ex & Hocc) & Hlong). cbn [fst snd] in *.
    inversion Ex; subst e' v0. split; [exact Hocc|]. intros s' v' Ho. exact (Hlong s' v' Ho).
  - intros [Hocc Hlong]. pose proof Hocc as [Hse Hin].
    assert (Hmem : In (s, e, v) (ends_at V pvs h e)).
    { unfold ends_at. apply in_ends_at_from. exists (e - s)%nat, (sub h s e), v. replace (e - (e - s))%nat with s by lia. repeat split; auto; lia. }
    destruct (ends_at V pvs h e) as [|x r] eqn:Ee; [destruct Hmem|].
    destruct (ends_at_head_longest V pvs h e x r ltac:(lia) Ee) as ((v0 & Ex & Hocc0) & Hlong0).
    assert (Es : fst (fst x) = s).
    { pose proof (Hlong0 s v Hocc). pose proof (Hlong (fst (fst x)) v0 Hocc0). lia. }
    rewrite Es in *. assert (v0 = v).
    { destruct Hocc0 as [_ Hin0]. exact (value_unique_gen V pvs (sub h s e) v0 v Hnd Hin0 Hin). }
    subst v0. apply spec_nosuffix_adequate. exists e. split; [lia|]. exists r. rewrite Ee, Ex. reflexivity.
Qed.

Lemma nosuffix_sorted_aux pvs h : forall n a,
  StronglySorted end_lt (flat_map (fun e => firstn 1 (ends_at V pvs h e)) (seq a n))
  /\ forall x, In x (flat_map (fun e => firstn 1 (ends_at V pvs h e)) (seq a n)) -> (a <= snd (fst x))%nat.
Proof.
  induction n as [|n IH]; intros a; cbn [seq flat_map]; [split; [constructor|intros x []]|].
  destruct (IH (S a)) as [Hs Hge].
  destruct (ends_at V pvs h a) as [|x r] eqn:Ea; cbn [firstn app].
  - split; [exact Hs|]. intros y Hy. specialize (Hge y Hy). lia.
  - assert (Hx : snd (fst x) = a).
    { assert (In x (ends_at V pvs h a)) as Hin by (rewrite Ea; left; reflexivity). apply ends_at_from_shape in Hin as [H _]. exact H. }
    split.
    + constructor; [exact Hs|]. apply Forall_forall. intros y Hy. specialize (Hge y Hy). unfold end_lt. lia.
    + intros y [<-|Hy]; [lia|]. specialize (Hge y Hy). lia.
Qed.

Theorem spec_nosuffix_increasing pvs h : StronglySorted end_lt (spec_nosuffix V pvs h).
Proof. unfold spec_nosuffix. exact (proj1 (nosuffix_sorted_aux pvs h (length h) 1%nat)). Qed.
End NoSuffix.
