
val negb : bool -> bool

type nat =
| O
| S of nat

val fst : ('a1 * 'a2) -> 'a1

val snd : ('a1 * 'a2) -> 'a2

val length : 'a1 list -> nat

val app : 'a1 list -> 'a1 list -> 'a1 list

type comparison =
| Eq
| Lt
| Gt

val compOpp : comparison -> comparison

val add : nat -> nat -> nat

val mul : nat -> nat -> nat

val sub : nat -> nat -> nat

module Nat :
 sig
  val leb : nat -> nat -> bool

  val ltb : nat -> nat -> bool
 end

val rev : 'a1 list -> 'a1 list

val map : ('a1 -> 'a2) -> 'a1 list -> 'a2 list

val flat_map : ('a1 -> 'a2 list) -> 'a1 list -> 'a2 list

val fold_left : ('a1 -> 'a2 -> 'a1) -> 'a2 list -> 'a1 -> 'a1

val fold_right : ('a2 -> 'a1 -> 'a1) -> 'a1 -> 'a2 list -> 'a1

val existsb : ('a1 -> bool) -> 'a1 list -> bool

val filter : ('a1 -> bool) -> 'a1 list -> 'a1 list

val find : ('a1 -> bool) -> 'a1 list -> 'a1 option

val firstn : nat -> 'a1 list -> 'a1 list

val skipn : nat -> 'a1 list -> 'a1 list

val seq : nat -> nat -> nat list

type positive =
| XI of positive
| XO of positive
| XH

type n =
| N0
| Npos of positive

type z =
| Z0
| Zpos of positive
| Zneg of positive

module Pos :
 sig
  type mask =
  | IsNul
  | IsPos of positive
  | IsNeg
 end

module Coq_Pos :
 sig
  val succ : positive -> positive

  val add : positive -> positive -> positive

  val add_carry : positive -> positive -> positive

  val pred_double : positive -> positive

  type mask = Pos.mask =
  | IsNul
  | IsPos of positive
  | IsNeg

  val succ_double_mask : mask -> mask

  val double_mask : mask -> mask

  val double_pred_mask : positive -> mask

  val sub_mask : positive -> positive -> mask

  val sub_mask_carry : positive -> positive -> mask

  val mul : positive -> positive -> positive

  val iter : ('a1 -> 'a1) -> 'a1 -> positive -> 'a1

  val compare_cont : comparison -> positive -> positive -> comparison

  val compare : positive -> positive -> comparison

  val eqb : positive -> positive -> bool

  val coq_Nsucc_double : n -> n

  val coq_Ndouble : n -> n

  val coq_lor : positive -> positive -> positive

  val coq_land : positive -> positive -> n

  val coq_lxor : positive -> positive -> n

  val shiftl : positive -> n -> positive

  val iter_op : ('a1 -> 'a1 -> 'a1) -> positive -> 'a1 -> 'a1

  val to_nat : positive -> nat

  val of_succ_nat : nat -> positive
 end

module N :
 sig
  val succ_double : n -> n

  val double : n -> n

  val succ : n -> n

  val add : n -> n -> n

  val sub : n -> n -> n

  val mul : n -> n -> n

  val compare : n -> n -> comparison

  val eqb : n -> n -> bool

  val leb : n -> n -> bool

  val ltb : n -> n -> bool

  val max : n -> n -> n

  val div2 : n -> n

  val pos_div_eucl : positive -> n -> n * n

  val div_eucl : n -> n -> n * n

  val div : n -> n -> n

  val modulo : n -> n -> n

  val coq_lor : n -> n -> n

  val coq_land : n -> n -> n

  val coq_lxor : n -> n -> n

  val shiftl : n -> n -> n

  val shiftr : n -> n -> n

  val to_nat : n -> nat

  val of_nat : nat -> n
 end

module Z :
 sig
  val double : z -> z

  val succ_double : z -> z

  val pred_double : z -> z

  val pos_sub : positive -> positive -> z

  val add : z -> z -> z

  val opp : z -> z

  val sub : z -> z -> z

  val mul : z -> z -> z

  val pow_pos : z -> positive -> z

  val pow : z -> z -> z

  val compare : z -> z -> comparison

  val leb : z -> z -> bool

  val ltb : z -> z -> bool

  val eqb : z -> z -> bool

  val to_N : z -> n

  val of_nat : nat -> z

  val of_N : n -> z

  val pos_div_eucl : positive -> z -> z * z

  val div_eucl : z -> z -> z * z

  val div : z -> z -> z

  val modulo : z -> z -> z
 end

type errkind =
| InvalidArgument
| DuplicatePattern
| AutomatonScale
| InvalidConversion

type ptag =
| PIndex
| PUnwrap
| PBorrow
| PAssert
| PDebugAssert
| POverflow
| PKind

type utag =
| UStateIndex
| UOutputIndex
| UUnwrapNone
| UBadChar
| UStrSlice

type 'a res =
| Ok of 'a
| Err of errkind
| Panic of ptag
| UB of utag
| OutOfFuel

val bind : 'a1 res -> ('a1 -> 'a2 res) -> 'a2 res

val bLOCK_LEN : n

val rOOT : n

val dEAD : n

val u24_MAX : n

val u32_MAX : n

val iNVALID_CODE : n

type mkind =
| Standard
| LeftmostLongest
| LeftmostFirst

val mkind_eqb : mkind -> mkind -> bool

val is_standard : mkind -> bool

val is_leftmost : mkind -> bool

val is_leftmost_first : mkind -> bool

type 'a ptree =
| PLeaf
| PNode of 'a ptree * 'a option * 'a ptree

val pget : positive -> 'a1 ptree -> 'a1 option

val pset : positive -> 'a1 -> 'a1 ptree -> 'a1 ptree

type 'a nmap = { nm0 : 'a option; nmt : 'a ptree }

val nempty : 'a1 nmap

val nget : n -> 'a1 nmap -> 'a1 option

val nset : n -> 'a1 -> 'a1 nmap -> 'a1 nmap

val index_from : n -> 'a1 list -> 'a1 nmap -> 'a1 nmap

val index_list : 'a1 list -> 'a1 nmap

val nseq : n -> nat -> n list

val list_eqb : n list -> n list -> bool

val isSome : 'a1 option -> bool

type 'v output = { o_value : 'v; o_length : n; o_parent : n }

type 'v nstate = { n_edges : (n * n) list; n_fail : n;
                   n_output : ('v * n) option; n_outpos : n }

val nstate_default : 'a1 nstate

type 'v nfa = { n_states : 'v nstate nmap; n_nstates : n;
                n_outputs : 'v output list; n_len : n; n_kind : mkind;
                n_shadowed : n list list }

val nfa_new : mkind -> 'a1 nfa

val nfa_get : 'a1 nfa -> n -> 'a1 nstate res

val nfa_set : 'a1 nfa -> n -> 'a1 nstate -> 'a1 nfa

val nfa_push_state : 'a1 nfa -> 'a1 nfa

val edge_get : (n * n) list -> n -> n option

val edge_insert : (n * n) list -> n -> n -> (n * n) list

val child_id : 'a1 nfa -> n -> n -> n option res

val add_walk : 'a1 nfa -> n -> n list -> ('a1 nfa * n option) res

val walk_existing : 'a1 nfa -> n option -> n list -> n option res

val check_shadowed_duplicate : 'a1 nfa -> n list -> 'a1 nfa res

val add0 : (n -> n) -> 'a1 nfa -> n list -> 'a1 -> 'a1 nfa res

val set_fail : 'a1 nfa -> n -> n -> 'a1 nfa res

val fail_loop : nat -> 'a1 nfa -> n -> n -> n res

val fails_edges :
  'a1 nfa -> n -> n -> (n * n) list -> n list -> ('a1 nfa * n list) res

val fails_bfs : nat -> 'a1 nfa -> n list -> n list -> ('a1 nfa * n list) res

val build_fails : 'a1 nfa -> ('a1 nfa * n list) res

val fail_loop_lm : nat -> 'a1 nfa -> n -> n -> n -> n res

val fails_edges_lm :
  'a1 nfa -> n -> n -> (n * n) list -> n list -> ('a1 nfa * n list) res

val fails_bfs_lm :
  nat -> 'a1 nfa -> n list -> n list -> ('a1 nfa * n list) res

val build_fails_leftmost : 'a1 nfa -> ('a1 nfa * n list) res

val outputs_loop : 'a1 nfa -> n list -> 'a1 nfa res

val build_outputs : 'a1 nfa -> n list -> 'a1 nfa res

val finish_nfa : 'a1 nfa -> 'a1 nfa res

type item = { i_next : n; i_prev : n; i_used_base : bool; i_used_index : bool }

val item_default : item

type helper = { h_items : item nmap; h_cap : n; h_block_len : n; h_nfb : 
                n; h_nblocks : n; h_head : n option }

val helper_new : n -> n -> helper res

val num_elements : helper -> n

val active_block_start : helper -> n

val active_index_start : helper -> n

val active_index_end : helper -> n

val offset : helper -> n -> n res

val get_item : helper -> n -> item res

val with_items : helper -> item nmap -> helper

val with_head : helper -> n option -> helper

val upd_item : helper -> n -> (item -> item) -> helper res

val set_next : n -> item -> item

val set_prev : n -> item -> item

val mark_base : item -> item

val mark_index : item -> item

val is_used_base : helper -> n -> bool res

val is_used_index : helper -> n -> bool res

val use_base : helper -> n -> helper res

val use_index : helper -> n -> helper res

val dropped_block : helper -> n option

val drop_loop : nat -> helper -> n -> helper res

val reset_range : helper -> n list -> helper res

val push_block : helper -> helper res

val find_unused_base : helper -> n list -> n option res

val unused_base_in_block : helper -> n -> n option res

val vacant_next : helper -> n -> n option res

val pk_a : n -> n

val pk_b : n -> n

val pk_set_a : n -> n -> n

val pk_set_b : n -> n -> n

type bstate = { b_base : n; b_fail : n; b_opos_ch : n }

val bstate_default : bstate

val b_check : bstate -> n

val b_outpos : bstate -> n

type 'v bw_automaton = { bw_states : bstate list;
                         bw_outputs : 'v output list; bw_kind : mkind;
                         bw_num_states : n }

type barr = { ba_map : bstate nmap; ba_len : n }

val ba_get : barr -> n -> bstate res

val ba_upd : barr -> n -> (bstate -> bstate) -> barr res

val set_check : n -> bstate -> bstate

val set_base : n -> bstate -> bstate

val set_bfail : n -> bstate -> bstate

val set_outpos : n -> bstate -> bstate

val all_indices_free : helper -> n -> n list -> bool res

val check_valid_base : helper -> n -> n list -> n option res

val find_base_loop : nat -> helper -> n option -> n -> n list -> n option res

val find_base : barr -> helper -> n list -> n res

val ric_loop : barr -> helper -> n -> n list -> barr res

val remove_invalid_checks : barr -> helper -> n -> barr res

val extend_array : barr -> helper -> (barr * helper) res

val init_array : n -> (barr * helper) res

val idmap_get : n nmap -> n -> n -> n res

val place_children :
  barr -> helper -> n nmap -> n -> n -> (n * n) list -> n list ->
  (((barr * helper) * n nmap) * n list) res

val dfs_loop :
  nat -> 'a1 nfa -> barr -> helper -> n nmap -> n list ->
  ((barr * helper) * n nmap) res

val set_fails_loop : 'a1 nfa -> barr -> n nmap -> n list -> barr res

val ric_blocks : barr -> helper -> n list -> barr res

val barr_to_list : barr -> bstate list

val build_double_array : n -> 'a1 nfa -> bstate list res

val add_all : (n -> n) -> 'a1 nfa -> (n list * 'a1) list -> 'a1 nfa res

val bw_build_sparse_nfa : mkind -> (n list * 'a1) list -> 'a1 nfa res

val bw_build_with_values :
  mkind -> n -> (n list * 'a1) list -> 'a1 bw_automaton res

val enumerate_conv :
  (nat -> 'a1 option) -> nat -> n list list -> (n list * 'a1) list option

val bw_build :
  (nat -> 'a1 option) -> mkind -> n -> n list list -> 'a1 bw_automaton res

val is_scalar : n -> bool

val len_utf8 : n -> n

val encode_char : n -> n list

val encode_utf8 : n list -> n list

val is_cont : n -> bool

val decode_one : n list -> (n * n list) option

val decode_utf8 : nat -> n list -> n list option

val chars_of : n list -> n list option

val dec_next : n list -> nat -> (((nat * n) * n list) * nat) option res

type cstate = { c_base : n; c_check : n; c_fail : n; c_outpos : n }

val cstate_default : cstate

type mapper = { mp_table : n list; mp_alpha : n }

val freq_before : (n * n) -> (n * n) -> bool

val freq_insert : (n * n) -> (n * n) list -> (n * n) list

val freq_sort : (n * n) list -> (n * n) list

type freqs = { fq_map : n nmap; fq_len : n }

val fq_get : freqs -> n -> n

val fq_bump : freqs -> n -> freqs

val assign_codes : (n * n) list -> n -> n nmap -> n nmap

val mapper_new : freqs -> n list -> mapper

val sorted_insert : n -> n list -> n list

type 'v cw_automaton = { cw_states : cstate list; cw_mapper : mapper;
                         cw_outputs : 'v output list; cw_kind : mkind;
                         cw_num_states : n }

type carr = { ca_map : cstate nmap; ca_len : n }

val ca_get : carr -> n -> cstate res

val ca_upd : carr -> n -> (cstate -> cstate) -> carr res

val cset_check : n -> cstate -> cstate

val cset_base : n -> cstate -> cstate

val cset_fail : n -> cstate -> cstate

val cset_outpos : n -> cstate -> cstate

val cw_add_all :
  'a1 nfa -> freqs -> n list -> (n list * 'a1) list -> (('a1 nfa * freqs) * n
  list) res

val code_of : n nmap -> n -> n option

val code_insert : (n * n) -> (n * n) list -> (n * n) list

val map_edges : n nmap -> (n * n) list -> (n * n) list res

val cw_all_free : helper -> n -> (n * n) list -> bool res

val verify_base : helper -> n -> (n * n) list -> n option res

val cw_find_base_loop :
  nat -> helper -> n option -> n -> (n * n) list -> n option res

val cw_find_base : carr -> helper -> (n * n) list -> n res

val cw_extend_array : n -> carr -> helper -> (carr * helper) res

val npow2_loop : nat -> n -> n -> n

val next_power_of_two : n -> n

val cw_init_array : n -> n -> ((carr * helper) * n) res

val cidmap_get : n nmap -> n -> n -> n res

val cw_place_children :
  carr -> helper -> n nmap -> n -> n -> n -> (n * n) list -> n list ->
  (((carr * helper) * n nmap) * n list) res

val cw_dfs_loop :
  nat -> n nmap -> n -> 'a1 nfa -> carr -> helper -> n nmap -> n list ->
  ((carr * helper) * n nmap) res

val cw_set_fails_loop : 'a1 nfa -> carr -> n nmap -> n list -> carr res

val carr_to_list : carr -> cstate list

val cw_build_with_values :
  mkind -> n -> (n list * 'a1) list -> 'a1 cw_automaton res

val cw_enumerate_conv :
  (nat -> 'a1 option) -> nat -> n list list -> (n list * 'a1) list option

val cw_build :
  (nat -> 'a1 option) -> mkind -> n -> n list list -> 'a1 cw_automaton res

type 'v mtch = { m_length : n; m_end : nat; m_value : 'v }

val st_at : (n -> bstate option) -> n -> bstate res

val out_at : (n -> 'a1 output option) -> n -> 'a1 output res

val bw_child : (n -> bstate option) -> n -> n -> n option res

val bw_next_state : (n -> bstate option) -> nat -> n -> n -> n -> (n * n) res

val bw_next_state_lm :
  (n -> bstate option) -> nat -> n -> n -> n -> (n * n) res

val fuel0 : n -> nat

type src = { s_rest : n list; s_pulled : nat }

val src_of : n list -> src

type find_it = { f_src : src; f_ticks : n }

val find_scan :
  (n -> bstate option) -> (n -> 'a1 output option) -> n -> n list -> nat -> n
  -> n -> ('a1 mtch option * find_it) res

val find_next :
  (n -> bstate option) -> (n -> 'a1 output option) -> n -> find_it -> ('a1
  mtch option * find_it) res

val find_init : n list -> find_it

type ovl_it = { v_src : src; v_state : n; v_pos : nat; v_outpos : n;
                v_ticks : n }

val ovl_scan :
  (n -> bstate option) -> (n -> 'a1 output option) -> n -> n list -> nat -> n
  -> nat -> n -> ('a1 mtch option * ovl_it) res

val ovl_next :
  (n -> bstate option) -> (n -> 'a1 output option) -> n -> ovl_it -> ('a1
  mtch option * ovl_it) res

val ovl_init : n list -> ovl_it

type nos_it = { x_src : src; x_state : n; x_ticks : n }

val nos_scan :
  (n -> bstate option) -> (n -> 'a1 output option) -> n -> n list -> nat -> n
  -> n -> ('a1 mtch option * nos_it) res

val nos_next :
  (n -> bstate option) -> (n -> 'a1 output option) -> n -> nos_it -> ('a1
  mtch option * nos_it) res

val nos_init : n list -> nos_it

type lm_it = { l_hay : n list; l_pos : nat; l_ticks : n }

val lm_scan :
  (n -> bstate option) -> n -> n list -> nat -> n -> n -> nat -> n ->
  (((n * nat) option * nat) * n) res

val lm_next :
  (n -> bstate option) -> (n -> 'a1 output option) -> n -> lm_it -> ('a1 mtch
  option * lm_it) res

val lm_init : n list -> lm_it

val drain :
  ('a2 -> ('a1 mtch option * 'a2) res) -> nat -> 'a2 -> ('a1 mtch list * 'a2)
  res

val bw_sget : 'a1 bw_automaton -> n -> bstate option

val bw_oget : 'a1 bw_automaton -> n -> 'a1 output option

val bw_nslots : 'a1 bw_automaton -> n

val cst_at : (n -> cstate option) -> n -> cstate res

val cout_at : (n -> 'a1 output option) -> n -> 'a1 output res

val mapper_get : (n -> n option) -> n -> n option

val cw_child : (n -> cstate option) -> n -> n -> n option res

val cw_next_loop : (n -> cstate option) -> nat -> n -> n -> n -> (n * n) res

val cfuel0 : n -> nat

val cw_next_state :
  (n -> cstate option) -> (n -> n option) -> n -> n -> n -> n -> (n * n) res

val cw_next_loop_lm :
  (n -> cstate option) -> nat -> n -> n -> n -> (n * n) res

val cw_next_state_lm :
  (n -> cstate option) -> (n -> n option) -> n -> n -> n -> n -> (n * n) res

val cfind_scan :
  (n -> cstate option) -> (n -> 'a1 output option) -> (n -> n option) -> n ->
  nat -> n list -> nat -> n -> n -> ('a1 mtch option * find_it) res

val cfind_next :
  (n -> cstate option) -> (n -> 'a1 output option) -> (n -> n option) -> n ->
  find_it -> ('a1 mtch option * find_it) res

val covl_scan :
  (n -> cstate option) -> (n -> 'a1 output option) -> (n -> n option) -> n ->
  nat -> n list -> nat -> n -> nat -> n -> ('a1 mtch option * ovl_it) res

val covl_next :
  (n -> cstate option) -> (n -> 'a1 output option) -> (n -> n option) -> n ->
  ovl_it -> ('a1 mtch option * ovl_it) res

val cnos_scan :
  (n -> cstate option) -> (n -> 'a1 output option) -> (n -> n option) -> n ->
  nat -> n list -> nat -> n -> n -> ('a1 mtch option * nos_it) res

val cnos_next :
  (n -> cstate option) -> (n -> 'a1 output option) -> (n -> n option) -> n ->
  nos_it -> ('a1 mtch option * nos_it) res

val clm_scan :
  (n -> cstate option) -> (n -> n option) -> n -> n list -> n -> n -> nat ->
  nat -> n -> (((n * nat) option * nat) * n) res

val clm_next :
  (n -> cstate option) -> (n -> 'a1 output option) -> (n -> n option) -> n ->
  lm_it -> ('a1 mtch option * lm_it) res

val cw_sget : 'a1 cw_automaton -> n -> cstate option

val cw_oget : 'a1 cw_automaton -> n -> 'a1 output option

val cw_tget : 'a1 cw_automaton -> n -> n option

val cw_nslots : 'a1 cw_automaton -> n

val triple : 'a1 mtch -> ((nat * nat) * 'a1) res

val triples : 'a1 mtch list -> ((nat * nat) * 'a1) list res

val run_iter :
  ('a2 -> ('a1 mtch option * 'a2) res) -> nat -> 'a2 -> ((nat * nat) * 'a1)
  list res

val bw_find_iter : 'a1 bw_automaton -> n list -> ((nat * nat) * 'a1) list res

val bw_find_overlapping_iter :
  'a1 bw_automaton -> n list -> ((nat * nat) * 'a1) list res

val bw_find_overlapping_no_suffix_iter :
  'a1 bw_automaton -> n list -> ((nat * nat) * 'a1) list res

val bw_leftmost_find_iter :
  'a1 bw_automaton -> n list -> ((nat * nat) * 'a1) list res

val cw_find_iter : 'a1 cw_automaton -> n list -> ((nat * nat) * 'a1) list res

val cw_find_overlapping_iter :
  'a1 cw_automaton -> n list -> ((nat * nat) * 'a1) list res

val cw_find_overlapping_no_suffix_iter :
  'a1 cw_automaton -> n list -> ((nat * nat) * 'a1) list res

val cw_leftmost_find_iter :
  'a1 cw_automaton -> n list -> ((nat * nat) * 'a1) list res

val bw_heap_bytes : n -> 'a1 bw_automaton -> n

val cw_heap_bytes : n -> 'a1 cw_automaton -> n

val to_le : nat -> n -> n list

val of_le : n list -> n

val take_n : nat -> n list -> (n list * n list) res

val ser_u32 : n -> n list

val de_u32 : n list -> (n * n list) res

val ser_onz : n -> n list

val de_onz : n list -> (n * n list) res

type 'v serializable = { sv_ser : ('v -> n list);
                         sv_de : (n list -> ('v * n list) res); sv_bytes : 
                         nat }

type vtype =
| VUnsigned of nat
| VSigned of nat
| VEmpty

val pow256 : nat -> z

val vt_in_range : vtype -> z -> bool

val vt_ser : vtype -> z -> n list

val vt_de : vtype -> n list -> (z * n list) res

val vt_bytes : vtype -> nat

val vt_serializable : vtype -> z serializable

val vt_conv : vtype -> nat -> z option

val kind_to_u8 : mkind -> n

val kind_of_u8 : n -> mkind

val de_kind : n list -> (mkind * n list) res

val ser_vec : ('a1 -> n list) -> 'a1 list -> n list

val de_items :
  (n list -> ('a1 * n list) res) -> nat -> n list -> ('a1 list * n list) res

val de_vec :
  (n list -> ('a1 * n list) res) -> n list -> ('a1 list * n list) res

val ser_output : 'a1 serializable -> 'a1 output -> n list

val de_output : 'a1 serializable -> n list -> ('a1 output * n list) res

val ser_bstate : bstate -> n list

val de_bstate : n list -> (bstate * n list) res

val ser_cstate : cstate -> n list

val de_cstate : n list -> (cstate * n list) res

val ser_mapper : mapper -> n list

val de_mapper : n list -> (mapper * n list) res

val bw_serialize : 'a1 serializable -> 'a1 bw_automaton -> n list

val bw_deserialize :
  'a1 serializable -> n list -> ('a1 bw_automaton * n list) res

val cw_serialize : 'a1 serializable -> 'a1 cw_automaton -> n list

val cw_deserialize :
  'a1 serializable -> n list -> ('a1 cw_automaton * n list) res

val sub0 : n list -> nat -> nat -> n list

val occs_len :
  (n list * 'a1) list -> n list -> nat -> nat -> ((nat * nat) * 'a1) list

val ends_at_from :
  (n list * 'a1) list -> n list -> nat -> nat -> ((nat * nat) * 'a1) list

val ends_at : (n list * 'a1) list -> n list -> nat -> ((nat * nat) * 'a1) list

val spec_overlapping :
  (n list * 'a1) list -> n list -> ((nat * nat) * 'a1) list

val spec_nosuffix : (n list * 'a1) list -> n list -> ((nat * nat) * 'a1) list

val first_end :
  (n list * 'a1) list -> n list -> nat -> nat list -> ((nat * nat) * 'a1)
  option

val spec_find_from :
  nat -> (n list * 'a1) list -> n list -> nat -> ((nat * nat) * 'a1) list

val spec_find : (n list * 'a1) list -> n list -> ((nat * nat) * 'a1) list

val is_prefix : n list -> n list -> bool

val longest_at : (n list * 'a1) list -> n list -> nat -> (n list * 'a1) option

val first_at : (n list * 'a1) list -> n list -> nat -> (n list * 'a1) option

val first_start :
  (nat -> (n list * 'a1) option) -> nat list -> (nat * (n list * 'a1)) option

val spec_leftmost_from :
  nat -> (nat -> (n list * 'a1) option) -> nat -> nat -> ((nat * nat) * 'a1)
  list

val nonempty_pats : (n list * 'a1) list -> (n list * 'a1) list

val spec_lml : (n list * 'a1) list -> n list -> ((nat * nat) * 'a1) list

val spec_lmf : (n list * 'a1) list -> n list -> ((nat * nat) * 'a1) list

val effective_go : n list list -> (n list * 'a1) list -> (n list * 'a1) list

val effective : (n list * 'a1) list -> (n list * 'a1) list

val prefixes_of : n list -> n list list

val dedup : n list list -> n list list

val distinct_nonempty_prefixes : (n list * 'a1) list -> n list list
