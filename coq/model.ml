
(** val negb : bool -> bool **)

let negb = function
| true -> false
| false -> true

type nat =
| O
| S of nat

(** val fst : ('a1 * 'a2) -> 'a1 **)

let fst = function
| (x, _) -> x

(** val snd : ('a1 * 'a2) -> 'a2 **)

let snd = function
| (_, y) -> y

(** val length : 'a1 list -> nat **)

let rec length = function
| [] -> O
| _ :: l' -> S (length l')

(** val app : 'a1 list -> 'a1 list -> 'a1 list **)

let rec app l m =
  match l with
  | [] -> m
  | a :: l1 -> a :: (app l1 m)

type comparison =
| Eq
| Lt
| Gt

(** val compOpp : comparison -> comparison **)

let compOpp = function
| Eq -> Eq
| Lt -> Gt
| Gt -> Lt

module Coq__1 = struct
 (** val add : nat -> nat -> nat **)
 let rec add n0 m =
   match n0 with
   | O -> m
   | S p -> S (add p m)
end
include Coq__1

(** val mul : nat -> nat -> nat **)

let rec mul n0 m =
  match n0 with
  | O -> O
  | S p -> add m (mul p m)

(** val sub : nat -> nat -> nat **)

let rec sub n0 m =
  match n0 with
  | O -> n0
  | S k -> (match m with
            | O -> n0
            | S l -> sub k l)

module Nat =
 struct
  (** val leb : nat -> nat -> bool **)

  let rec leb n0 m =
    match n0 with
    | O -> true
    | S n' -> (match m with
               | O -> false
               | S m' -> leb n' m')

  (** val ltb : nat -> nat -> bool **)

  let ltb n0 m =
    leb (S n0) m
 end

(** val rev : 'a1 list -> 'a1 list **)

let rec rev = function
| [] -> []
| x :: l' -> app (rev l') (x :: [])

(** val map : ('a1 -> 'a2) -> 'a1 list -> 'a2 list **)

let rec map f = function
| [] -> []
| a :: t -> (f a) :: (map f t)

(** val flat_map : ('a1 -> 'a2 list) -> 'a1 list -> 'a2 list **)

let rec flat_map f = function
| [] -> []
| x :: t -> app (f x) (flat_map f t)

(** val fold_left : ('a1 -> 'a2 -> 'a1) -> 'a2 list -> 'a1 -> 'a1 **)

let rec fold_left f l a0 =
  match l with
  | [] -> a0
  | b :: t -> fold_left f t (f a0 b)

(** val fold_right : ('a2 -> 'a1 -> 'a1) -> 'a1 -> 'a2 list -> 'a1 **)

let rec fold_right f a0 = function
| [] -> a0
| b :: t -> f b (fold_right f a0 t)

(** val existsb : ('a1 -> bool) -> 'a1 list -> bool **)

let rec existsb f = function
| [] -> false
| a :: l0 -> (||) (f a) (existsb f l0)

(** val filter : ('a1 -> bool) -> 'a1 list -> 'a1 list **)

let rec filter f = function
| [] -> []
| x :: l0 -> if f x then x :: (filter f l0) else filter f l0

(** val find : ('a1 -> bool) -> 'a1 list -> 'a1 option **)

let rec find f = function
| [] -> None
| x :: tl -> if f x then Some x else find f tl

(** val firstn : nat -> 'a1 list -> 'a1 list **)

let rec firstn n0 l =
  match n0 with
  | O -> []
  | S n1 -> (match l with
             | [] -> []
             | a :: l0 -> a :: (firstn n1 l0))

(** val skipn : nat -> 'a1 list -> 'a1 list **)

let rec skipn n0 l =
  match n0 with
  | O -> l
  | S n1 -> (match l with
             | [] -> []
             | _ :: l0 -> skipn n1 l0)

(** val seq : nat -> nat -> nat list **)

let rec seq start = function
| O -> []
| S len0 -> start :: (seq (S start) len0)

type positive =
| XI of positive
| XO of positive
| XH

type n =
| N0
| Npos of positive

type z =
| Z0
| Zpos of positive
| Zneg of positive

module Pos =
 struct
  type mask =
  | IsNul
  | IsPos of positive
  | IsNeg
 end

module Coq_Pos =
 struct
  (** val succ : positive -> positive **)

  let rec succ = function
  | XI p -> XO (succ p)
  | XO p -> XI p
  | XH -> XO XH

  (** val add : positive -> positive -> positive **)

  let rec add x y =
    match x with
    | XI p ->
      (match y with
       | XI q -> XO (add_carry p q)
       | XO q -> XI (add p q)
       | XH -> XO (succ p))
    | XO p ->
      (match y with
       | XI q -> XI (add p q)
       | XO q -> XO (add p q)
       | XH -> XI p)
    | XH -> (match y with
             | XI q -> XO (succ q)
             | XO q -> XI q
             | XH -> XO XH)

  (** val add_carry : positive -> positive -> positive **)

  and add_carry x y =
    match x with
    | XI p ->
      (match y with
       | XI q -> XI (add_carry p q)
       | XO q -> XO (add_carry p q)
       | XH -> XI (succ p))
    | XO p ->
      (match y with
       | XI q -> XO (add_carry p q)
       | XO q -> XI (add p q)
       | XH -> XO (succ p))
    | XH ->
      (match y with
       | XI q -> XI (succ q)
       | XO q -> XO (succ q)
       | XH -> XI XH)

  (** val pred_double : positive -> positive **)

  let rec pred_double = function
  | XI p -> XI (XO p)
  | XO p -> XI (pred_double p)
  | XH -> XH

  type mask = Pos.mask =
  | IsNul
  | IsPos of positive
  | IsNeg

  (** val succ_double_mask : mask -> mask **)

  let succ_double_mask = function
  | IsNul -> IsPos XH
  | IsPos p -> IsPos (XI p)
  | IsNeg -> IsNeg

  (** val double_mask : mask -> mask **)

  let double_mask = function
  | IsPos p -> IsPos (XO p)
  | x0 -> x0

  (** val double_pred_mask : positive -> mask **)

  let double_pred_mask = function
  | XI p -> IsPos (XO (XO p))
  | XO p -> IsPos (XO (pred_double p))
  | XH -> IsNul

  (** val sub_mask : positive -> positive -> mask **)

  let rec sub_mask x y =
    match x with
    | XI p ->
      (match y with
       | XI q -> double_mask (sub_mask p q)
       | XO q -> succ_double_mask (sub_mask p q)
       | XH -> IsPos (XO p))
    | XO p ->
      (match y with
       | XI q -> succ_double_mask (sub_mask_carry p q)
       | XO q -> double_mask (sub_mask p q)
       | XH -> IsPos (pred_double p))
    | XH -> (match y with
             | XH -> IsNul
             | _ -> IsNeg)

  (** val sub_mask_carry : positive -> positive -> mask **)

  and sub_mask_carry x y =
    match x with
    | XI p ->
      (match y with
       | XI q -> succ_double_mask (sub_mask_carry p q)
       | XO q -> double_mask (sub_mask p q)
       | XH -> IsPos (pred_double p))
    | XO p ->
      (match y with
       | XI q -> double_mask (sub_mask_carry p q)
       | XO q -> succ_double_mask (sub_mask_carry p q)
       | XH -> double_pred_mask p)
    | XH -> IsNeg

  (** val mul : positive -> positive -> positive **)

  let rec mul x y =
    match x with
    | XI p -> add y (XO (mul p y))
    | XO p -> XO (mul p y)
    | XH -> y

  (** val iter : ('a1 -> 'a1) -> 'a1 -> positive -> 'a1 **)

  let rec iter f x = function
  | XI n' -> f (iter f (iter f x n') n')
  | XO n' -> iter f (iter f x n') n'
  | XH -> f x

  (** val compare_cont : comparison -> positive -> positive -> comparison **)

  let rec compare_cont r x y =
    match x with
    | XI p ->
      (match y with
       | XI q -> compare_cont r p q
       | XO q -> compare_cont Gt p q
       | XH -> Gt)
    | XO p ->
      (match y with
       | XI q -> compare_cont Lt p q
       | XO q -> compare_cont r p q
       | XH -> Gt)
    | XH -> (match y with
             | XH -> r
             | _ -> Lt)

  (** val compare : positive -> positive -> comparison **)

  let compare =
    compare_cont Eq

  (** val eqb : positive -> positive -> bool **)

  let rec eqb p q =
    match p with
    | XI p0 -> (match q with
                | XI q0 -> eqb p0 q0
                | _ -> false)
    | XO p0 -> (match q with
                | XO q0 -> eqb p0 q0
                | _ -> false)
    | XH -> (match q with
             | XH -> true
             | _ -> false)

  (** val coq_Nsucc_double : n -> n **)

  let coq_Nsucc_double = function
  | N0 -> Npos XH
  | Npos p -> Npos (XI p)

  (** val coq_Ndouble : n -> n **)

  let coq_Ndouble = function
  | N0 -> N0
  | Npos p -> Npos (XO p)

  (** val coq_lor : positive -> positive -> positive **)

  let rec coq_lor p q =
    match p with
    | XI p0 ->
      (match q with
       | XI q0 -> XI (coq_lor p0 q0)
       | XO q0 -> XI (coq_lor p0 q0)
       | XH -> p)
    | XO p0 ->
      (match q with
       | XI q0 -> XI (coq_lor p0 q0)
       | XO q0 -> XO (coq_lor p0 q0)
       | XH -> XI p0)
    | XH -> (match q with
             | XO q0 -> XI q0
             | _ -> q)

  (** val coq_land : positive -> positive -> n **)

  let rec coq_land p q =
    match p with
    | XI p0 ->
      (match q with
       | XI q0 -> coq_Nsucc_double (coq_land p0 q0)
       | XO q0 -> coq_Ndouble (coq_land p0 q0)
       | XH -> Npos XH)
    | XO p0 ->
      (match q with
       | XI q0 -> coq_Ndouble (coq_land p0 q0)
       | XO q0 -> coq_Ndouble (coq_land p0 q0)
       | XH -> N0)
    | XH -> (match q with
             | XO _ -> N0
             | _ -> Npos XH)

  (** val coq_lxor : positive -> positive -> n **)

  let rec coq_lxor p q =
    match p with
    | XI p0 ->
      (match q with
       | XI q0 -> coq_Ndouble (coq_lxor p0 q0)
       | XO q0 -> coq_Nsucc_double (coq_lxor p0 q0)
       | XH -> Npos (XO p0))
    | XO p0 ->
      (match q with
       | XI q0 -> coq_Nsucc_double (coq_lxor p0 q0)
       | XO q0 -> coq_Ndouble (coq_lxor p0 q0)
       | XH -> Npos (XI p0))
    | XH ->
      (match q with
       | XI q0 -> Npos (XO q0)
       | XO q0 -> Npos (XI q0)
       | XH -> N0)

  (** val shiftl : positive -> n -> positive **)

  let shiftl p = function
  | N0 -> p
  | Npos n1 -> iter (fun x -> XO x) p n1

  (** val iter_op : ('a1 -> 'a1 -> 'a1) -> positive -> 'a1 -> 'a1 **)

  let rec iter_op op p a =
    match p with
    | XI p0 -> op a (iter_op op p0 (op a a))
    | XO p0 -> iter_op op p0 (op a a)
    | XH -> a

  (** val to_nat : positive -> nat **)

  let to_nat x =
    iter_op Coq__1.add x (S O)

  (** val of_succ_nat : nat -> positive **)

  let rec of_succ_nat = function
  | O -> XH
  | S x -> succ (of_succ_nat x)
 end

module N =
 struct
  (** val succ_double : n -> n **)

  let succ_double = function
  | N0 -> Npos XH
  | Npos p -> Npos (XI p)

  (** val double : n -> n **)

  let double = function
  | N0 -> N0
  | Npos p -> Npos (XO p)

  (** val succ : n -> n **)

  let succ = function
  | N0 -> Npos XH
  | Npos p -> Npos (Coq_Pos.succ p)

  (** val add : n -> n -> n **)

  let add n0 m =
    match n0 with
    | N0 -> m
    | Npos p -> (match m with
                 | N0 -> n0
                 | Npos q -> Npos (Coq_Pos.add p q))

  (** val sub : n -> n -> n **)

  let sub n0 m =
    match n0 with
    | N0 -> N0
    | Npos n' ->
      (match m with
       | N0 -> n0
       | Npos m' ->
         (match Coq_Pos.sub_mask n' m' with
          | Coq_Pos.IsPos p -> Npos p
          | _ -> N0))

  (** val mul : n -> n -> n **)

  let mul n0 m =
    match n0 with
    | N0 -> N0
    | Npos p -> (match m with
                 | N0 -> N0
                 | Npos q -> Npos (Coq_Pos.mul p q))

  (** val compare : n -> n -> comparison **)

  let compare n0 m =
    match n0 with
    | N0 -> (match m with
             | N0 -> Eq
             | Npos _ -> Lt)
    | Npos n' -> (match m with
                  | N0 -> Gt
                  | Npos m' -> Coq_Pos.compare n' m')

  (** val eqb : n -> n -> bool **)

  let eqb n0 m =
    match n0 with
    | N0 -> (match m with
             | N0 -> true
             | Npos _ -> false)
    | Npos p -> (match m with
                 | N0 -> false
                 | Npos q -> Coq_Pos.eqb p q)

  (** val leb : n -> n -> bool **)

  let leb x y =
    match compare x y with
    | Gt -> false
    | _ -> true

  (** val ltb : n -> n -> bool **)

  let ltb x y =
    match compare x y with
    | Lt -> true
    | _ -> false

  (** val max : n -> n -> n **)

  let max n0 n' =
    match compare n0 n' with
    | Gt -> n0
    | _ -> n'

  (** val div2 : n -> n **)

  let div2 = function
  | N0 -> N0
  | Npos p0 -> (match p0 with
                | XI p -> Npos p
                | XO p -> Npos p
                | XH -> N0)

  (** val pos_div_eucl : positive -> n -> n * n **)

  let rec pos_div_eucl a b =
    match a with
    | XI a' ->
      let (q, r) = pos_div_eucl a' b in
      let r' = succ_double r in
      if leb b r' then ((succ_double q), (sub r' b)) else ((double q), r')
    | XO a' ->
      let (q, r) = pos_div_eucl a' b in
      let r' = double r in
      if leb b r' then ((succ_double q), (sub r' b)) else ((double q), r')
    | XH ->
      (match b with
       | N0 -> (N0, (Npos XH))
       | Npos p -> (match p with
                    | XH -> ((Npos XH), N0)
                    | _ -> (N0, (Npos XH))))

  (** val div_eucl : n -> n -> n * n **)

  let div_eucl a b =
    match a with
    | N0 -> (N0, N0)
    | Npos na -> (match b with
                  | N0 -> (N0, a)
                  | Npos _ -> pos_div_eucl na b)

  (** val div : n -> n -> n **)

  let div a b =
    fst (div_eucl a b)

  (** val modulo : n -> n -> n **)

  let modulo a b =
    snd (div_eucl a b)

  (** val coq_lor : n -> n -> n **)

  let coq_lor n0 m =
    match n0 with
    | N0 -> m
    | Npos p -> (match m with
                 | N0 -> n0
                 | Npos q -> Npos (Coq_Pos.coq_lor p q))

  (** val coq_land : n -> n -> n **)

  let coq_land n0 m =
    match n0 with
    | N0 -> N0
    | Npos p -> (match m with
                 | N0 -> N0
                 | Npos q -> Coq_Pos.coq_land p q)

  (** val coq_lxor : n -> n -> n **)

  let coq_lxor n0 m =
    match n0 with
    | N0 -> m
    | Npos p -> (match m with
                 | N0 -> n0
                 | Npos q -> Coq_Pos.coq_lxor p q)

  (** val shiftl : n -> n -> n **)

  let shiftl a n0 =
    match a with
    | N0 -> N0
    | Npos a0 -> Npos (Coq_Pos.shiftl a0 n0)

  (** val shiftr : n -> n -> n **)

  let shiftr a = function
  | N0 -> a
  | Npos p -> Coq_Pos.iter div2 a p

  (** val to_nat : n -> nat **)

  let to_nat = function
  | N0 -> O
  | Npos p -> Coq_Pos.to_nat p

  (** val of_nat : nat -> n **)

  let of_nat = function
  | O -> N0
  | S n' -> Npos (Coq_Pos.of_succ_nat n')
 end

module Z =
 struct
  (** val double : z -> z **)

  let double = function
  | Z0 -> Z0
  | Zpos p -> Zpos (XO p)
  | Zneg p -> Zneg (XO p)

  (** val succ_double : z -> z **)

  let succ_double = function
  | Z0 -> Zpos XH
  | Zpos p -> Zpos (XI p)
  | Zneg p -> Zneg (Coq_Pos.pred_double p)

  (** val pred_double : z -> z **)

  let pred_double = function
  | Z0 -> Zneg XH
  | Zpos p -> Zpos (Coq_Pos.pred_double p)
  | Zneg p -> Zneg (XI p)

  (** val pos_sub : positive -> positive -> z **)

  let rec pos_sub x y =
    match x with
    | XI p ->
      (match y with
       | XI q -> double (pos_sub p q)
       | XO q -> succ_double (pos_sub p q)
       | XH -> Zpos (XO p))
    | XO p ->
      (match y with
       | XI q -> pred_double (pos_sub p q)
       | XO q -> double (pos_sub p q)
       | XH -> Zpos (Coq_Pos.pred_double p))
    | XH ->
      (match y with
       | XI q -> Zneg (XO q)
       | XO q -> Zneg (Coq_Pos.pred_double q)
       | XH -> Z0)

  (** val add : z -> z -> z **)

  let add x y =
    match x with
    | Z0 -> y
    | Zpos x' ->
      (match y with
       | Z0 -> x
       | Zpos y' -> Zpos (Coq_Pos.add x' y')
       | Zneg y' -> pos_sub x' y')
    | Zneg x' ->
      (match y with
       | Z0 -> x
       | Zpos y' -> pos_sub y' x'
       | Zneg y' -> Zneg (Coq_Pos.add x' y'))

  (** val opp : z -> z **)

  let opp = function
  | Z0 -> Z0
  | Zpos x0 -> Zneg x0
  | Zneg x0 -> Zpos x0

  (** val sub : z -> z -> z **)

  let sub m n0 =
    add m (opp n0)

  (** val mul : z -> z -> z **)

  let mul x y =
    match x with
    | Z0 -> Z0
    | Zpos x' ->
      (match y with
       | Z0 -> Z0
       | Zpos y' -> Zpos (Coq_Pos.mul x' y')
       | Zneg y' -> Zneg (Coq_Pos.mul x' y'))
    | Zneg x' ->
      (match y with
       | Z0 -> Z0
       | Zpos y' -> Zneg (Coq_Pos.mul x' y')
       | Zneg y' -> Zpos (Coq_Pos.mul x' y'))

  (** val pow_pos : z -> positive -> z **)

  let pow_pos z0 =
    Coq_Pos.iter (mul z0) (Zpos XH)

  (** val pow : z -> z -> z **)

  let pow x = function
  | Z0 -> Zpos XH
  | Zpos p -> pow_pos x p
  | Zneg _ -> Z0

  (** val compare : z -> z -> comparison **)

  let compare x y =
    match x with
    | Z0 -> (match y with
             | Z0 -> Eq
             | Zpos _ -> Lt
             | Zneg _ -> Gt)
    | Zpos x' -> (match y with
                  | Zpos y' -> Coq_Pos.compare x' y'
                  | _ -> Gt)
    | Zneg x' ->
      (match y with
       | Zneg y' -> compOpp (Coq_Pos.compare x' y')
       | _ -> Lt)

  (** val leb : z -> z -> bool **)

  let leb x y =
    match compare x y with
    | Gt -> false
    | _ -> true

  (** val ltb : z -> z -> bool **)

  let ltb x y =
    match compare x y with
    | Lt -> true
    | _ -> false

  (** val eqb : z -> z -> bool **)

  let eqb x y =
    match x with
    | Z0 -> (match y with
             | Z0 -> true
             | _ -> false)
    | Zpos p -> (match y with
                 | Zpos q -> Coq_Pos.eqb p q
                 | _ -> false)
    | Zneg p -> (match y with
                 | Zneg q -> Coq_Pos.eqb p q
                 | _ -> false)

  (** val to_N : z -> n **)

  let to_N = function
  | Zpos p -> Npos p
  | _ -> N0

  (** val of_nat : nat -> z **)

  let of_nat = function
  | O -> Z0
  | S n1 -> Zpos (Coq_Pos.of_succ_nat n1)

  (** val of_N : n -> z **)

  let of_N = function
  | N0 -> Z0
  | Npos p -> Zpos p

  (** val pos_div_eucl : positive -> z -> z * z **)

  let rec pos_div_eucl a b =
    match a with
    | XI a' ->
      let (q, r) = pos_div_eucl a' b in
      let r' = add (mul (Zpos (XO XH)) r) (Zpos XH) in
      if ltb r' b
      then ((mul (Zpos (XO XH)) q), r')
      else ((add (mul (Zpos (XO XH)) q) (Zpos XH)), (sub r' b))
    | XO a' ->
      let (q, r) = pos_div_eucl a' b in
      let r' = mul (Zpos (XO XH)) r in
      if ltb r' b
      then ((mul (Zpos (XO XH)) q), r')
      else ((add (mul (Zpos (XO XH)) q) (Zpos XH)), (sub r' b))
    | XH -> if leb (Zpos (XO XH)) b then (Z0, (Zpos XH)) else ((Zpos XH), Z0)

  (** val div_eucl : z -> z -> z * z **)

  let div_eucl a b =
    match a with
    | Z0 -> (Z0, Z0)
    | Zpos a' ->
      (match b with
       | Z0 -> (Z0, a)
       | Zpos _ -> pos_div_eucl a' b
       | Zneg b' ->
         let (q, r) = pos_div_eucl a' (Zpos b') in
         (match r with
          | Z0 -> ((opp q), Z0)
          | _ -> ((opp (add q (Zpos XH))), (add b r))))
    | Zneg a' ->
      (match b with
       | Z0 -> (Z0, a)
       | Zpos _ ->
         let (q, r) = pos_div_eucl a' b in
         (match r with
          | Z0 -> ((opp q), Z0)
          | _ -> ((opp (add q (Zpos XH))), (sub b r)))
       | Zneg b' -> let (q, r) = pos_div_eucl a' (Zpos b') in (q, (opp r)))

  (** val div : z -> z -> z **)

  let div a b =
    let (q, _) = div_eucl a b in q

  (** val modulo : z -> z -> z **)

  let modulo a b =
    let (_, r) = div_eucl a b in r
 end

type errkind =
| InvalidArgument
| DuplicatePattern
| AutomatonScale
| InvalidConversion

type ptag =
| PIndex
| PUnwrap
| PBorrow
| PAssert
| PDebugAssert
| POverflow
| PKind

type utag =
| UStateIndex
| UOutputIndex
| UUnwrapNone
| UBadChar
| UStrSlice

type 'a res =
| Ok of 'a
| Err of errkind
| Panic of ptag
| UB of utag
| OutOfFuel

(** val bind : 'a1 res -> ('a1 -> 'a2 res) -> 'a2 res **)

let bind r f =
  match r with
  | Ok a -> f a
  | Err k -> Err k
  | Panic t -> Panic t
  | UB t -> UB t
  | OutOfFuel -> OutOfFuel

(** val bLOCK_LEN : n **)

let bLOCK_LEN =
  Npos (XO (XO (XO (XO (XO (XO (XO (XO XH))))))))

(** val rOOT : n **)

let rOOT =
  N0

(** val dEAD : n **)

let dEAD =
  Npos XH

(** val u24_MAX : n **)

let u24_MAX =
  Npos (XI (XI (XI (XI (XI (XI (XI (XI (XI (XI (XI (XI (XI (XI (XI (XI (XI
    (XI (XI (XI (XI (XI (XI XH)))))))))))))))))))))))

(** val u32_MAX : n **)

let u32_MAX =
  Npos (XI (XI (XI (XI (XI (XI (XI (XI (XI (XI (XI (XI (XI (XI (XI (XI (XI
    (XI (XI (XI (XI (XI (XI (XI (XI (XI (XI (XI (XI (XI (XI
    XH)))))))))))))))))))))))))))))))

(** val iNVALID_CODE : n **)

let iNVALID_CODE =
  Npos (XI (XI (XI (XI (XI (XI (XI (XI (XI (XI (XI (XI (XI (XI (XI (XI (XI
    (XI (XI (XI (XI (XI (XI (XI (XI (XI (XI (XI (XI (XI (XI
    XH)))))))))))))))))))))))))))))))

type mkind =
| Standard
| LeftmostLongest
| LeftmostFirst

(** val mkind_eqb : mkind -> mkind -> bool **)

let mkind_eqb a b =
  match a with
  | Standard -> (match b with
                 | Standard -> true
                 | _ -> false)
  | LeftmostLongest -> (match b with
                        | LeftmostLongest -> true
                        | _ -> false)
  | LeftmostFirst -> (match b with
                      | LeftmostFirst -> true
                      | _ -> false)

(** val is_standard : mkind -> bool **)

let is_standard k =
  mkind_eqb k Standard

(** val is_leftmost : mkind -> bool **)

let is_leftmost k =
  negb (mkind_eqb k Standard)

(** val is_leftmost_first : mkind -> bool **)

let is_leftmost_first k =
  mkind_eqb k LeftmostFirst

type 'a ptree =
| PLeaf
| PNode of 'a ptree * 'a option * 'a ptree

(** val pget : positive -> 'a1 ptree -> 'a1 option **)

let rec pget p = function
| PLeaf -> None
| PNode (l, o, r) ->
  (match p with
   | XI q -> pget q r
   | XO q -> pget q l
   | XH -> o)

(** val pset : positive -> 'a1 -> 'a1 ptree -> 'a1 ptree **)

let rec pset p v = function
| PLeaf ->
  (match p with
   | XI q -> PNode (PLeaf, None, (pset q v PLeaf))
   | XO q -> PNode ((pset q v PLeaf), None, PLeaf)
   | XH -> PNode (PLeaf, (Some v), PLeaf))
| PNode (l, o, r) ->
  (match p with
   | XI q -> PNode (l, o, (pset q v r))
   | XO q -> PNode ((pset q v l), o, r)
   | XH -> PNode (l, (Some v), r))

type 'a nmap = { nm0 : 'a option; nmt : 'a ptree }

(** val nempty : 'a1 nmap **)

let nempty =
  { nm0 = None; nmt = PLeaf }

(** val nget : n -> 'a1 nmap -> 'a1 option **)

let nget i m =
  match i with
  | N0 -> m.nm0
  | Npos p -> pget p m.nmt

(** val nset : n -> 'a1 -> 'a1 nmap -> 'a1 nmap **)

let nset i v m =
  match i with
  | N0 -> { nm0 = (Some v); nmt = m.nmt }
  | Npos p -> { nm0 = m.nm0; nmt = (pset p v m.nmt) }

(** val index_from : n -> 'a1 list -> 'a1 nmap -> 'a1 nmap **)

let rec index_from i l m =
  match l with
  | [] -> m
  | x :: r -> index_from (N.succ i) r (nset i x m)

(** val index_list : 'a1 list -> 'a1 nmap **)

let index_list l =
  index_from N0 l nempty

(** val nseq : n -> nat -> n list **)

let rec nseq a = function
| O -> []
| S k -> a :: (nseq (N.succ a) k)

(** val list_eqb : n list -> n list -> bool **)

let rec list_eqb a b =
  match a with
  | [] -> (match b with
           | [] -> true
           | _ :: _ -> false)
  | x :: a' ->
    (match b with
     | [] -> false
     | y :: b' -> (&&) (N.eqb x y) (list_eqb a' b'))

(** val isSome : 'a1 option -> bool **)

let isSome = function
| Some _ -> true
| None -> false

type 'v output = { o_value : 'v; o_length : n; o_parent : n }

type 'v nstate = { n_edges : (n * n) list; n_fail : n;
                   n_output : ('v * n) option; n_outpos : n }

(** val nstate_default : 'a1 nstate **)

let nstate_default =
  { n_edges = []; n_fail = rOOT; n_output = None; n_outpos = N0 }

type 'v nfa = { n_states : 'v nstate nmap; n_nstates : n;
                n_outputs : 'v output list; n_len : n; n_kind : mkind;
                n_shadowed : n list list }

(** val nfa_new : mkind -> 'a1 nfa **)

let nfa_new k =
  { n_states =
    (nset (Npos XH) nstate_default (nset N0 nstate_default nempty));
    n_nstates = (Npos (XO XH)); n_outputs = []; n_len = N0; n_kind = k;
    n_shadowed = [] }

(** val nfa_get : 'a1 nfa -> n -> 'a1 nstate res **)

let nfa_get n0 i =
  if N.ltb i n0.n_nstates
  then (match nget i n0.n_states with
        | Some s -> Ok s
        | None -> Panic PIndex)
  else Panic PIndex

(** val nfa_set : 'a1 nfa -> n -> 'a1 nstate -> 'a1 nfa **)

let nfa_set n0 i s =
  { n_states = (nset i s n0.n_states); n_nstates = n0.n_nstates; n_outputs =
    n0.n_outputs; n_len = n0.n_len; n_kind = n0.n_kind; n_shadowed =
    n0.n_shadowed }

(** val nfa_push_state : 'a1 nfa -> 'a1 nfa **)

let nfa_push_state n0 =
  { n_states = (nset n0.n_nstates nstate_default n0.n_states); n_nstates =
    (N.add n0.n_nstates (Npos XH)); n_outputs = n0.n_outputs; n_len =
    n0.n_len; n_kind = n0.n_kind; n_shadowed = n0.n_shadowed }

(** val edge_get : (n * n) list -> n -> n option **)

let rec edge_get es c =
  match es with
  | [] -> None
  | p :: r -> let (k, v) = p in if N.eqb k c then Some v else edge_get r c

(** val edge_insert : (n * n) list -> n -> n -> (n * n) list **)

let rec edge_insert es c t =
  match es with
  | [] -> (c, t) :: []
  | p :: r ->
    let (k, v) = p in
    if N.ltb c k
    then (c, t) :: es
    else if N.eqb c k then (c, t) :: r else (k, v) :: (edge_insert r c t)

(** val child_id : 'a1 nfa -> n -> n -> n option res **)

let child_id n0 s c =
  bind (nfa_get n0 s) (fun st -> Ok (edge_get st.n_edges c))

(** val add_walk : 'a1 nfa -> n -> n list -> ('a1 nfa * n option) res **)

let rec add_walk n0 sid = function
| [] -> Ok (n0, (Some sid))
| c :: rest' ->
  bind (nfa_get n0 sid) (fun st ->
    if (&&) (is_leftmost_first n0.n_kind) (isSome st.n_output)
    then Ok (n0, None)
    else (match edge_get st.n_edges c with
          | Some nx -> add_walk n0 nx rest'
          | None ->
            let nx = n0.n_nstates in
            if N.ltb u32_MAX nx
            then Err AutomatonScale
            else let st' = { n_edges = (edge_insert st.n_edges c nx);
                   n_fail = st.n_fail; n_output = st.n_output; n_outpos =
                   st.n_outpos }
                 in
                 add_walk (nfa_push_state (nfa_set n0 sid st')) nx rest'))

(** val walk_existing : 'a1 nfa -> n option -> n list -> n option res **)

let rec walk_existing n0 sid = function
| [] -> Ok sid
| c :: rest' ->
  (match sid with
   | Some s -> bind (child_id n0 s c) (fun nx -> walk_existing n0 nx rest')
   | None -> walk_existing n0 None rest')

(** val check_shadowed_duplicate : 'a1 nfa -> n list -> 'a1 nfa res **)

let check_shadowed_duplicate n0 pat =
  bind (walk_existing n0 (Some rOOT) pat) (fun sid ->
    bind
      (match sid with
       | Some s -> bind (nfa_get n0 s) (fun st -> Ok (isSome st.n_output))
       | None -> Ok false) (fun registered ->
      if (||) registered (existsb (list_eqb pat) n0.n_shadowed)
      then Err DuplicatePattern
      else Ok { n_states = n0.n_states; n_nstates = n0.n_nstates; n_outputs =
             n0.n_outputs; n_len = n0.n_len; n_kind = n0.n_kind; n_shadowed =
             (pat :: n0.n_shadowed) }))

(** val add0 : (n -> n) -> 'a1 nfa -> n list -> 'a1 -> 'a1 nfa res **)

let add0 lbytes n0 pat v =
  let plen = fold_left (fun acc c -> N.add acc (lbytes c)) pat N0 in
  if N.ltb u32_MAX plen
  then Err InvalidArgument
  else if N.eqb plen N0
       then Err InvalidArgument
       else bind (add_walk n0 rOOT pat) (fun pat0 ->
              let (n1, fin) = pat0 in
              (match fin with
               | Some sid ->
                 bind (nfa_get n1 sid) (fun st ->
                   if isSome st.n_output
                   then Err DuplicatePattern
                   else let st' = { n_edges = st.n_edges; n_fail = st.n_fail;
                          n_output = (Some (v, plen)); n_outpos =
                          st.n_outpos }
                        in
                        let n2 = nfa_set n1 sid st' in
                        Ok { n_states = n2.n_states; n_nstates =
                        n2.n_nstates; n_outputs = n2.n_outputs; n_len =
                        (N.add n2.n_len (Npos XH)); n_kind = n2.n_kind;
                        n_shadowed = n2.n_shadowed })
               | None -> check_shadowed_duplicate n1 pat))

(** val set_fail : 'a1 nfa -> n -> n -> 'a1 nfa res **)

let set_fail n0 i f =
  bind (nfa_get n0 i) (fun st -> Ok
    (nfa_set n0 i { n_edges = st.n_edges; n_fail = f; n_output = st.n_output;
      n_outpos = st.n_outpos }))

(** val fail_loop : nat -> 'a1 nfa -> n -> n -> n res **)

let rec fail_loop fuel n0 fail_id c =
  match fuel with
  | O -> OutOfFuel
  | S fuel' ->
    bind (child_id n0 fail_id c) (fun ch ->
      match ch with
      | Some t -> Ok t
      | None ->
        bind (nfa_get n0 fail_id) (fun fs ->
          let next = fs.n_fail in
          if (&&) (N.eqb fail_id rOOT) (N.eqb next rOOT)
          then Ok rOOT
          else fail_loop fuel' n0 next c))

(** val fails_edges :
    'a1 nfa -> n -> n -> (n * n) list -> n list -> ('a1 nfa * n list) res **)

let rec fails_edges n0 sid sfail es newq =
  match es with
  | [] -> Ok (n0, newq)
  | p :: es' ->
    let (c, child) = p in
    bind (fail_loop (S (N.to_nat n0.n_nstates)) n0 sfail c) (fun nf ->
      if N.eqb child sid
      then Panic PBorrow
      else bind (set_fail n0 child nf) (fun n' ->
             fails_edges n' sid sfail es' (app newq (child :: []))))

(** val fails_bfs :
    nat -> 'a1 nfa -> n list -> n list -> ('a1 nfa * n list) res **)

let rec fails_bfs fuel n0 pending done0 =
  match pending with
  | [] -> Ok (n0, (rev done0))
  | sid :: pending' ->
    (match fuel with
     | O -> OutOfFuel
     | S fuel' ->
       bind (nfa_get n0 sid) (fun st ->
         bind (fails_edges n0 sid st.n_fail st.n_edges []) (fun pat ->
           let (n', news) = pat in
           fails_bfs fuel' n' (app pending' news) (sid :: done0))))

(** val build_fails : 'a1 nfa -> ('a1 nfa * n list) res **)

let build_fails n0 =
  bind (nfa_get n0 rOOT) (fun root ->
    fails_bfs (S (N.to_nat n0.n_nstates)) n0 (map snd root.n_edges) [])

(** val fail_loop_lm : nat -> 'a1 nfa -> n -> n -> n -> n res **)

let rec fail_loop_lm fuel n0 holder fail_id c =
  match fuel with
  | O -> OutOfFuel
  | S fuel' ->
    if N.eqb fail_id holder
    then Panic PBorrow
    else bind (child_id n0 fail_id c) (fun ch ->
           match ch with
           | Some t -> Ok t
           | None ->
             bind (nfa_get n0 fail_id) (fun fs ->
               let next = fs.n_fail in
               if N.eqb next dEAD
               then Ok dEAD
               else if (&&) (N.eqb fail_id rOOT) (N.eqb next rOOT)
                    then Ok rOOT
                    else fail_loop_lm fuel' n0 holder next c))

(** val fails_edges_lm :
    'a1 nfa -> n -> n -> (n * n) list -> n list -> ('a1 nfa * n list) res **)

let rec fails_edges_lm n0 sid sfail es newq =
  match es with
  | [] -> Ok (n0, newq)
  | p :: es' ->
    let (c, child) = p in
    bind
      (if N.eqb sfail dEAD
       then Ok dEAD
       else fail_loop_lm (S (N.to_nat n0.n_nstates)) n0 sid sfail c)
      (fun nf ->
      if N.eqb child sid
      then Panic PBorrow
      else bind (set_fail n0 child nf) (fun n' ->
             fails_edges_lm n' sid sfail es' (app newq (child :: []))))

(** val fails_bfs_lm :
    nat -> 'a1 nfa -> n list -> n list -> ('a1 nfa * n list) res **)

let rec fails_bfs_lm fuel n0 pending done0 =
  match pending with
  | [] -> Ok (n0, (rev done0))
  | sid :: pending' ->
    (match fuel with
     | O -> OutOfFuel
     | S fuel' ->
       bind (nfa_get n0 sid) (fun st ->
         let f = if isSome st.n_output then dEAD else st.n_fail in
         bind (set_fail n0 sid f) (fun n1 ->
           bind (fails_edges_lm n1 sid f st.n_edges []) (fun pat ->
             let (n', news) = pat in
             fails_bfs_lm fuel' n' (app pending' news) (sid :: done0)))))

(** val build_fails_leftmost : 'a1 nfa -> ('a1 nfa * n list) res **)

let build_fails_leftmost n0 =
  bind (nfa_get n0 rOOT) (fun root ->
    fails_bfs_lm (S (N.to_nat n0.n_nstates)) n0 (map snd root.n_edges) [])

(** val outputs_loop : 'a1 nfa -> n list -> 'a1 nfa res **)

let rec outputs_loop n0 = function
| [] -> Ok n0
| sid :: q' ->
  bind (nfa_get n0 sid) (fun st ->
    if N.eqb st.n_fail sid
    then Panic PBorrow
    else bind (nfa_get n0 st.n_fail) (fun fs ->
           match st.n_output with
           | Some p ->
             let (v, len) = p in
             let pos = N.add (N.of_nat (length n0.n_outputs)) (Npos XH) in
             if N.ltb u32_MAX pos
             then Panic PUnwrap
             else let st' = { n_edges = st.n_edges; n_fail = st.n_fail;
                    n_output = st.n_output; n_outpos = pos }
                  in
                  let n1 = nfa_set n0 sid st' in
                  outputs_loop { n_states = n1.n_states; n_nstates =
                    n1.n_nstates; n_outputs =
                    (app n1.n_outputs ({ o_value = v; o_length = len;
                      o_parent = fs.n_outpos } :: [])); n_len = n1.n_len;
                    n_kind = n1.n_kind; n_shadowed = n1.n_shadowed } q'
           | None ->
             let st' = { n_edges = st.n_edges; n_fail = st.n_fail; n_output =
               st.n_output; n_outpos = fs.n_outpos }
             in
             outputs_loop (nfa_set n0 sid st') q'))

(** val build_outputs : 'a1 nfa -> n list -> 'a1 nfa res **)

let build_outputs n0 q = match q with
| [] -> Panic PIndex
| q0 :: _ -> if N.eqb q0 rOOT then Panic PDebugAssert else outputs_loop n0 q

(** val finish_nfa : 'a1 nfa -> 'a1 nfa res **)

let finish_nfa n0 =
  bind
    (match n0.n_kind with
     | Standard -> build_fails n0
     | _ -> build_fails_leftmost n0) (fun pat ->
    let (n1, q) = pat in build_outputs n1 q)

type item = { i_next : n; i_prev : n; i_used_base : bool; i_used_index : bool }

(** val item_default : item **)

let item_default =
  { i_next = N0; i_prev = N0; i_used_base = false; i_used_index = false }

type helper = { h_items : item nmap; h_cap : n; h_block_len : n; h_nfb : 
                n; h_nblocks : n; h_head : n option }

(** val helper_new : n -> n -> helper res **)

let helper_new block_len nfb =
  let cap = N.mul block_len nfb in
  if N.ltb u32_MAX cap
  then Err AutomatonScale
  else if N.eqb cap N0
       then Panic PAssert
       else Ok { h_items = nempty; h_cap = cap; h_block_len = block_len;
              h_nfb = nfb; h_nblocks = N0; h_head = None }

(** val num_elements : helper -> n **)

let num_elements h =
  N.mul h.h_nblocks h.h_block_len

(** val active_block_start : helper -> n **)

let active_block_start h =
  N.sub h.h_nblocks h.h_nfb

(** val active_index_start : helper -> n **)

let active_index_start h =
  N.mul (active_block_start h) h.h_block_len

(** val active_index_end : helper -> n **)

let active_index_end h =
  N.mul h.h_nblocks h.h_block_len

(** val offset : helper -> n -> n res **)

let offset h idx =
  if (&&) (N.leb (active_index_start h) idx) (N.ltb idx (active_index_end h))
  then Ok (N.modulo idx h.h_cap)
  else Panic PAssert

(** val get_item : helper -> n -> item res **)

let get_item h idx =
  bind (offset h idx) (fun off -> Ok
    (match nget off h.h_items with
     | Some it -> it
     | None -> item_default))

(** val with_items : helper -> item nmap -> helper **)

let with_items h m =
  { h_items = m; h_cap = h.h_cap; h_block_len = h.h_block_len; h_nfb =
    h.h_nfb; h_nblocks = h.h_nblocks; h_head = h.h_head }

(** val with_head : helper -> n option -> helper **)

let with_head h hd =
  { h_items = h.h_items; h_cap = h.h_cap; h_block_len = h.h_block_len;
    h_nfb = h.h_nfb; h_nblocks = h.h_nblocks; h_head = hd }

(** val upd_item : helper -> n -> (item -> item) -> helper res **)

let upd_item h idx f =
  bind (offset h idx) (fun off ->
    let it =
      match nget off h.h_items with
      | Some it -> it
      | None -> item_default
    in
    Ok (with_items h (nset off (f it) h.h_items)))

(** val set_next : n -> item -> item **)

let set_next x it =
  { i_next = x; i_prev = it.i_prev; i_used_base = it.i_used_base;
    i_used_index = it.i_used_index }

(** val set_prev : n -> item -> item **)

let set_prev x it =
  { i_next = it.i_next; i_prev = x; i_used_base = it.i_used_base;
    i_used_index = it.i_used_index }

(** val mark_base : item -> item **)

let mark_base it =
  { i_next = it.i_next; i_prev = it.i_prev; i_used_base = true;
    i_used_index = it.i_used_index }

(** val mark_index : item -> item **)

let mark_index it =
  { i_next = it.i_next; i_prev = it.i_prev; i_used_base = it.i_used_base;
    i_used_index = true }

(** val is_used_base : helper -> n -> bool res **)

let is_used_base h b =
  bind (get_item h b) (fun it -> Ok it.i_used_base)

(** val is_used_index : helper -> n -> bool res **)

let is_used_index h i =
  bind (get_item h i) (fun it -> Ok it.i_used_index)

(** val use_base : helper -> n -> helper res **)

let use_base h b =
  upd_item h b mark_base

(** val use_index : helper -> n -> helper res **)

let use_index h idx =
  bind (get_item h idx) (fun it0 ->
    if it0.i_used_index
    then Panic PDebugAssert
    else bind (upd_item h idx mark_index) (fun h1 ->
           bind (get_item h1 idx) (fun it ->
             let next = it.i_next in
             let prev = it.i_prev in
             bind (upd_item h1 prev (set_next next)) (fun h2 ->
               bind (upd_item h2 next (set_prev prev)) (fun h3 ->
                 match h3.h_head with
                 | Some hd ->
                   if N.eqb hd idx
                   then Ok
                          (with_head h3
                            (if N.eqb next idx then None else Some next))
                   else Ok h3
                 | None -> Panic PUnwrap)))))

(** val dropped_block : helper -> n option **)

let dropped_block h =
  if N.leb h.h_cap (num_elements h) then Some (active_block_start h) else None

(** val drop_loop : nat -> helper -> n -> helper res **)

let rec drop_loop fuel h end_idx =
  match fuel with
  | O -> OutOfFuel
  | S fuel' ->
    (match h.h_head with
     | Some hd ->
       if N.leb end_idx hd
       then Ok h
       else bind (use_index h hd) (fun h' -> drop_loop fuel' h' end_idx)
     | None -> Ok h)

(** val reset_range : helper -> n list -> helper res **)

let rec reset_range h = function
| [] -> Ok h
| idx :: r ->
  bind (offset h idx) (fun off ->
    let it = { i_next = (N.add idx (Npos XH)); i_prev =
      (if N.eqb idx N0 then u32_MAX else N.sub idx (Npos XH)); i_used_base =
      false; i_used_index = false }
    in
    reset_range (with_items h (nset off it h.h_items)) r)

(** val push_block : helper -> helper res **)

let push_block h =
  if N.ltb (N.sub u32_MAX h.h_block_len) (num_elements h)
  then Err AutomatonScale
  else bind
         (match dropped_block h with
          | Some closed ->
            drop_loop (S (N.to_nat h.h_block_len)) h
              (N.mul (N.add closed (Npos XH)) h.h_block_len)
          | None -> Ok h) (fun h1 ->
         let old_len = num_elements h1 in
         let new_len = N.add old_len h1.h_block_len in
         let h2 = { h_items = h1.h_items; h_cap = h1.h_cap; h_block_len =
           h1.h_block_len; h_nfb = h1.h_nfb; h_nblocks =
           (N.add h1.h_nblocks (Npos XH)); h_head = h1.h_head }
         in
         bind (reset_range h2 (nseq old_len (N.to_nat h2.h_block_len)))
           (fun h3 ->
           match h3.h_head with
           | Some hd ->
             bind (get_item h3 hd) (fun ith ->
               let tail = ith.i_prev in
               bind (upd_item h3 old_len (set_prev tail)) (fun h4 ->
                 bind (upd_item h4 tail (set_next old_len)) (fun h5 ->
                   bind (upd_item h5 (N.sub new_len (Npos XH)) (set_next hd))
                     (fun h6 ->
                     upd_item h6 hd (set_prev (N.sub new_len (Npos XH)))))))
           | None ->
             bind (upd_item h3 old_len (set_prev (N.sub new_len (Npos XH))))
               (fun h4 ->
               bind
                 (upd_item h4 (N.sub new_len (Npos XH)) (set_next old_len))
                 (fun h5 -> Ok (with_head h5 (Some old_len))))))

(** val find_unused_base : helper -> n list -> n option res **)

let rec find_unused_base h = function
| [] -> Ok None
| b :: r ->
  bind (is_used_base h b) (fun u ->
    if u then find_unused_base h r else Ok (Some b))

(** val unused_base_in_block : helper -> n -> n option res **)

let unused_base_in_block h block_idx =
  find_unused_base h
    (nseq (N.mul block_idx h.h_block_len) (N.to_nat h.h_block_len))

(** val vacant_next : helper -> n -> n option res **)

let vacant_next h cur =
  bind (get_item h cur) (fun it ->
    match h.h_head with
    | Some hd -> Ok (if N.eqb it.i_next hd then None else Some it.i_next)
    | None -> Panic PUnwrap)

(** val pk_a : n -> n **)

let pk_a x =
  N.shiftr x (Npos (XO (XO (XO XH))))

(** val pk_b : n -> n **)

let pk_b x =
  N.coq_land x (Npos (XI (XI (XI (XI (XI (XI (XI XH))))))))

(** val pk_set_a : n -> n -> n **)

let pk_set_a x a =
  N.coq_lor (N.shiftl a (Npos (XO (XO (XO XH))))) (pk_b x)

(** val pk_set_b : n -> n -> n **)

let pk_set_b x b =
  N.coq_lor (N.shiftl (pk_a x) (Npos (XO (XO (XO XH))))) b

type bstate = { b_base : n; b_fail : n; b_opos_ch : n }

(** val bstate_default : bstate **)

let bstate_default =
  { b_base = N0; b_fail = N0; b_opos_ch = N0 }

(** val b_check : bstate -> n **)

let b_check s =
  pk_b s.b_opos_ch

(** val b_outpos : bstate -> n **)

let b_outpos s =
  pk_a s.b_opos_ch

type 'v bw_automaton = { bw_states : bstate list;
                         bw_outputs : 'v output list; bw_kind : mkind;
                         bw_num_states : n }

type barr = { ba_map : bstate nmap; ba_len : n }

(** val ba_get : barr -> n -> bstate res **)

let ba_get a i =
  if N.ltb i a.ba_len
  then Ok (match nget i a.ba_map with
           | Some s -> s
           | None -> bstate_default)
  else Panic PIndex

(** val ba_upd : barr -> n -> (bstate -> bstate) -> barr res **)

let ba_upd a i f =
  bind (ba_get a i) (fun s -> Ok { ba_map = (nset i (f s) a.ba_map); ba_len =
    a.ba_len })

(** val set_check : n -> bstate -> bstate **)

let set_check c s =
  { b_base = s.b_base; b_fail = s.b_fail; b_opos_ch =
    (pk_set_b s.b_opos_ch c) }

(** val set_base : n -> bstate -> bstate **)

let set_base b s =
  { b_base = b; b_fail = s.b_fail; b_opos_ch = s.b_opos_ch }

(** val set_bfail : n -> bstate -> bstate **)

let set_bfail f s =
  { b_base = s.b_base; b_fail = f; b_opos_ch = s.b_opos_ch }

(** val set_outpos : n -> bstate -> bstate **)

let set_outpos p s =
  { b_base = s.b_base; b_fail = s.b_fail; b_opos_ch =
    (pk_set_a s.b_opos_ch p) }

(** val all_indices_free : helper -> n -> n list -> bool res **)

let rec all_indices_free h base = function
| [] -> Ok true
| c :: r ->
  bind (is_used_index h (N.coq_lxor base c)) (fun u ->
    if u then Ok false else all_indices_free h base r)

(** val check_valid_base : helper -> n -> n list -> n option res **)

let check_valid_base h base labels =
  bind (is_used_base h base) (fun ub ->
    if ub
    then Ok None
    else bind (all_indices_free h base labels) (fun free ->
           if free
           then Ok (if N.eqb base N0 then None else Some base)
           else Ok None))

(** val find_base_loop :
    nat -> helper -> n option -> n -> n list -> n option res **)

let rec find_base_loop fuel h cur l0 labels =
  match cur with
  | Some idx ->
    (match fuel with
     | O -> OutOfFuel
     | S fuel' ->
       bind (vacant_next h idx) (fun nxt ->
         bind (check_valid_base h (N.coq_lxor idx l0) labels) (fun r ->
           match r with
           | Some b -> Ok (Some b)
           | None -> find_base_loop fuel' h nxt l0 labels)))
  | None -> Ok None

(** val find_base : barr -> helper -> n list -> n res **)

let find_base a h labels = match labels with
| [] -> Panic PIndex
| l0 :: _ ->
  bind (find_base_loop (S (N.to_nat h.h_cap)) h h.h_head l0 labels) (fun r ->
    match r with
    | Some b -> Ok b
    | None ->
      if N.ltb u32_MAX a.ba_len
      then Panic PUnwrap
      else if N.eqb a.ba_len N0 then Panic PUnwrap else Ok a.ba_len)

(** val ric_loop : barr -> helper -> n -> n list -> barr res **)

let rec ric_loop a h ub = function
| [] -> Ok a
| c :: r ->
  let idx = N.coq_lxor ub c in
  bind
    (if (||) (N.eqb idx rOOT) (N.eqb idx dEAD)
     then Ok true
     else bind (is_used_index h idx) (fun u -> Ok (negb u))) (fun doit ->
    if doit
    then bind (ba_upd a idx (set_check c)) (fun a' -> ric_loop a' h ub r)
    else ric_loop a h ub r)

(** val remove_invalid_checks : barr -> helper -> n -> barr res **)

let remove_invalid_checks a h block_idx =
  bind (unused_base_in_block h block_idx) (fun ub ->
    match ub with
    | Some u ->
      ric_loop a h u
        (nseq N0 (S (S (S (S (S (S (S (S (S (S (S (S (S (S (S (S (S (S (S (S
          (S (S (S (S (S (S (S (S (S (S (S (S (S (S (S (S (S (S (S (S (S (S
          (S (S (S (S (S (S (S (S (S (S (S (S (S (S (S (S (S (S (S (S (S (S
          (S (S (S (S (S (S (S (S (S (S (S (S (S (S (S (S (S (S (S (S (S (S
          (S (S (S (S (S (S (S (S (S (S (S (S (S (S (S (S (S (S (S (S (S (S
          (S (S (S (S (S (S (S (S (S (S (S (S (S (S (S (S (S (S (S (S (S (S
          (S (S (S (S (S (S (S (S (S (S (S (S (S (S (S (S (S (S (S (S (S (S
          (S (S (S (S (S (S (S (S (S (S (S (S (S (S (S (S (S (S (S (S (S (S
          (S (S (S (S (S (S (S (S (S (S (S (S (S (S (S (S (S (S (S (S (S (S
          (S (S (S (S (S (S (S (S (S (S (S (S (S (S (S (S (S (S (S (S (S (S
          (S (S (S (S (S (S (S (S (S (S (S (S (S (S (S (S (S (S (S (S (S (S
          (S (S (S (S (S (S (S (S (S (S (S (S (S (S (S (S
          O)))))))))))))))))))))))))))))))))))))))))))))))))))))))))))))))))))))))))))))))))))))))))))))))))))))))))))))))))))))))))))))))))))))))))))))))))))))))))))))))))))))))))))))))))))))))))))))))))))))))))))))))))))))))))))))))))))))))))))))))))))))))))))))))))
    | None -> Ok a)

(** val extend_array : barr -> helper -> (barr * helper) res **)

let extend_array a h =
  if N.ltb (N.sub u32_MAX bLOCK_LEN) a.ba_len
  then Err AutomatonScale
  else bind
         (match dropped_block h with
          | Some cb -> remove_invalid_checks a h cb
          | None -> Ok a) (fun a1 ->
         bind (push_block h) (fun h1 -> Ok ({ ba_map = a1.ba_map; ba_len =
           (N.add a1.ba_len bLOCK_LEN) }, h1)))

(** val init_array : n -> (barr * helper) res **)

let init_array nfb =
  bind (helper_new bLOCK_LEN nfb) (fun h0 ->
    bind (match push_block h0 with
          | Err _ -> Panic PUnwrap
          | x -> x) (fun h1 ->
      bind (use_index h1 rOOT) (fun h2 ->
        bind (use_index h2 dEAD) (fun h3 -> Ok ({ ba_map = nempty; ba_len =
          bLOCK_LEN }, h3)))))

(** val idmap_get : n nmap -> n -> n -> n res **)

let idmap_get m len i =
  if N.ltb i len
  then Ok (match nget i m with
           | Some x -> x
           | None -> dEAD)
  else Panic PIndex

(** val place_children :
    barr -> helper -> n nmap -> n -> n -> (n * n) list -> n list ->
    (((barr * helper) * n nmap) * n list) res **)

let rec place_children a h idmap nst base es stack =
  match es with
  | [] -> Ok (((a, h), idmap), stack)
  | p :: r ->
    let (c, child) = p in
    let child_idx = N.coq_lxor base c in
    bind (use_index h child_idx) (fun h' ->
      bind (ba_upd a child_idx (set_check c)) (fun a' ->
        if N.ltb child nst
        then place_children a' h' (nset child child_idx idmap) nst base r
               (child :: stack)
        else Panic PIndex))

(** val dfs_loop :
    nat -> 'a1 nfa -> barr -> helper -> n nmap -> n list ->
    ((barr * helper) * n nmap) res **)

let rec dfs_loop fuel n0 a h idmap = function
| [] -> Ok ((a, h), idmap)
| sid :: stack' ->
  (match fuel with
   | O -> OutOfFuel
   | S fuel' ->
     if N.eqb sid dEAD
     then Panic PDebugAssert
     else bind (nfa_get n0 sid) (fun st ->
            bind (idmap_get idmap n0.n_nstates sid) (fun sidx ->
              if N.eqb sidx dEAD
              then Panic PDebugAssert
              else (match st.n_edges with
                    | [] -> dfs_loop fuel' n0 a h idmap stack'
                    | _ :: _ ->
                      let labels = map fst st.n_edges in
                      bind (find_base a h labels) (fun base ->
                        bind
                          (if N.leb a.ba_len base
                           then extend_array a h
                           else Ok (a, h)) (fun pat ->
                          let (a1, h1) = pat in
                          bind
                            (place_children a1 h1 idmap n0.n_nstates base
                              st.n_edges stack') (fun pat0 ->
                            let (p, stack2) = pat0 in
                            let (p0, idmap2) = p in
                            let (a2, h2) = p0 in
                            bind (ba_upd a2 sidx (set_base base)) (fun a3 ->
                              bind (use_base h2 base) (fun h3 ->
                                dfs_loop fuel' n0 a3 h3 idmap2 stack2)))))))))

(** val set_fails_loop : 'a1 nfa -> barr -> n nmap -> n list -> barr res **)

let rec set_fails_loop n0 a idmap = function
| [] -> Ok a
| i :: r ->
  if N.eqb i dEAD
  then set_fails_loop n0 a idmap r
  else bind (idmap_get idmap n0.n_nstates i) (fun idx ->
         if N.eqb idx dEAD
         then Panic PDebugAssert
         else bind (nfa_get n0 i) (fun st ->
                if N.ltb u24_MAX st.n_outpos
                then Err AutomatonScale
                else bind (ba_upd a idx (set_outpos st.n_outpos)) (fun a1 ->
                       if N.eqb st.n_fail dEAD
                       then bind (ba_upd a1 idx (set_bfail dEAD)) (fun a2 ->
                              set_fails_loop n0 a2 idmap r)
                       else bind (idmap_get idmap n0.n_nstates st.n_fail)
                              (fun fidx ->
                              if N.eqb fidx dEAD
                              then Panic PDebugAssert
                              else bind (ba_upd a1 idx (set_bfail fidx))
                                     (fun a2 -> set_fails_loop n0 a2 idmap r)))))

(** val ric_blocks : barr -> helper -> n list -> barr res **)

let rec ric_blocks a h = function
| [] -> Ok a
| b :: r -> bind (remove_invalid_checks a h b) (fun a' -> ric_blocks a' h r)

(** val barr_to_list : barr -> bstate list **)

let barr_to_list a =
  map (fun i ->
    match nget i a.ba_map with
    | Some s -> s
    | None -> bstate_default) (nseq N0 (N.to_nat a.ba_len))

(** val build_double_array : n -> 'a1 nfa -> bstate list res **)

let build_double_array nfb n0 =
  bind (init_array nfb) (fun pat ->
    let (a0, h0) = pat in
    bind
      (dfs_loop (S (N.to_nat n0.n_nstates)) n0 a0 h0 (nset rOOT rOOT nempty)
        (rOOT :: [])) (fun pat0 ->
      let (p, idmap) = pat0 in
      let (a1, h1) = p in
      bind (set_fails_loop n0 a1 idmap (nseq N0 (N.to_nat n0.n_nstates)))
        (fun a2 ->
        bind
          (ric_blocks a2 h1
            (nseq (active_block_start h1)
              (N.to_nat (N.sub h1.h_nblocks (active_block_start h1)))))
          (fun a3 -> Ok (barr_to_list a3)))))

(** val add_all :
    (n -> n) -> 'a1 nfa -> (n list * 'a1) list -> 'a1 nfa res **)

let rec add_all lbytes n0 = function
| [] -> Ok n0
| p0 :: r ->
  let (p, v) = p0 in bind (add0 lbytes n0 p v) (fun n' -> add_all lbytes n' r)

(** val bw_build_sparse_nfa : mkind -> (n list * 'a1) list -> 'a1 nfa res **)

let bw_build_sparse_nfa kind pvs =
  bind (add_all (fun _ -> Npos XH) (nfa_new kind) pvs) (fun n0 ->
    if N.eqb n0.n_len N0
    then Err InvalidArgument
    else if N.ltb u24_MAX n0.n_len then Err AutomatonScale else finish_nfa n0)

(** val bw_build_with_values :
    mkind -> n -> (n list * 'a1) list -> 'a1 bw_automaton res **)

let bw_build_with_values kind nfb pvs =
  if N.eqb nfb N0
  then Panic PAssert
  else bind (bw_build_sparse_nfa kind pvs) (fun n0 ->
         bind (build_double_array nfb n0) (fun sts ->
           if N.ltb u32_MAX (N.sub n0.n_nstates (Npos XH))
           then Err AutomatonScale
           else Ok { bw_states = sts; bw_outputs = n0.n_outputs; bw_kind =
                  kind; bw_num_states = (N.sub n0.n_nstates (Npos XH)) }))

(** val enumerate_conv :
    (nat -> 'a1 option) -> nat -> n list list -> (n list * 'a1) list option **)

let rec enumerate_conv conv i = function
| [] -> Some []
| p :: r ->
  (match conv i with
   | Some v ->
     (match enumerate_conv conv (S i) r with
      | Some l -> Some ((p, v) :: l)
      | None -> None)
   | None -> None)

(** val bw_build :
    (nat -> 'a1 option) -> mkind -> n -> n list list -> 'a1 bw_automaton res **)

let bw_build conv kind nfb ps =
  if N.eqb nfb N0
  then Panic PAssert
  else (match enumerate_conv conv O ps with
        | Some pvs -> bw_build_with_values kind nfb pvs
        | None -> Err InvalidConversion)

(** val is_scalar : n -> bool **)

let is_scalar c =
  (||)
    (N.ltb c (Npos (XO (XO (XO (XO (XO (XO (XO (XO (XO (XO (XO (XI (XI (XO
      (XI XH)))))))))))))))))
    ((&&)
      (N.ltb (Npos (XI (XI (XI (XI (XI (XI (XI (XI (XI (XI (XI (XI (XI (XO
        (XI XH)))))))))))))))) c)
      (N.leb c (Npos (XI (XI (XI (XI (XI (XI (XI (XI (XI (XI (XI (XI (XI (XI
        (XI (XI (XO (XO (XO (XO XH)))))))))))))))))))))))

(** val len_utf8 : n -> n **)

let len_utf8 c =
  if N.ltb c (Npos (XO (XO (XO (XO (XO (XO (XO XH))))))))
  then Npos XH
  else if N.ltb c (Npos (XO (XO (XO (XO (XO (XO (XO (XO (XO (XO (XO
            XH))))))))))))
       then Npos (XO XH)
       else if N.ltb c (Npos (XO (XO (XO (XO (XO (XO (XO (XO (XO (XO (XO (XO
                 (XO (XO (XO (XO XH)))))))))))))))))
            then Npos (XI XH)
            else Npos (XO (XO XH))

(** val encode_char : n -> n list **)

let encode_char c =
  if N.ltb c (Npos (XO (XO (XO (XO (XO (XO (XO XH))))))))
  then c :: []
  else if N.ltb c (Npos (XO (XO (XO (XO (XO (XO (XO (XO (XO (XO (XO
            XH))))))))))))
       then (N.add (Npos (XO (XO (XO (XO (XO (XO (XI XH))))))))
              (N.div c (Npos (XO (XO (XO (XO (XO (XO XH))))))))) :: (
              (N.add (Npos (XO (XO (XO (XO (XO (XO (XO XH))))))))
                (N.modulo c (Npos (XO (XO (XO (XO (XO (XO XH))))))))) :: [])
       else if N.ltb c (Npos (XO (XO (XO (XO (XO (XO (XO (XO (XO (XO (XO (XO
                 (XO (XO (XO (XO XH)))))))))))))))))
            then (N.add (Npos (XO (XO (XO (XO (XO (XI (XI XH))))))))
                   (N.div c (Npos (XO (XO (XO (XO (XO (XO (XO (XO (XO (XO (XO
                     (XO XH))))))))))))))) :: ((N.add (Npos (XO (XO (XO (XO
                                                 (XO (XO (XO XH))))))))
                                                 (N.modulo
                                                   (N.div c (Npos (XO (XO (XO
                                                     (XO (XO (XO XH))))))))
                                                   (Npos (XO (XO (XO (XO (XO
                                                   (XO XH))))))))) :: (
                   (N.add (Npos (XO (XO (XO (XO (XO (XO (XO XH))))))))
                     (N.modulo c (Npos (XO (XO (XO (XO (XO (XO XH))))))))) :: []))
            else (N.add (Npos (XO (XO (XO (XO (XI (XI (XI XH))))))))
                   (N.div c (Npos (XO (XO (XO (XO (XO (XO (XO (XO (XO (XO (XO
                     (XO (XO (XO (XO (XO (XO (XO XH))))))))))))))))))))) :: (
                   (N.add (Npos (XO (XO (XO (XO (XO (XO (XO XH))))))))
                     (N.modulo
                       (N.div c (Npos (XO (XO (XO (XO (XO (XO (XO (XO (XO (XO
                         (XO (XO XH)))))))))))))) (Npos (XO (XO (XO (XO (XO
                       (XO XH))))))))) :: ((N.add (Npos (XO (XO (XO (XO (XO
                                             (XO (XO XH))))))))
                                             (N.modulo
                                               (N.div c (Npos (XO (XO (XO (XO
                                                 (XO (XO XH)))))))) (Npos (XO
                                               (XO (XO (XO (XO (XO XH))))))))) :: (
                   (N.add (Npos (XO (XO (XO (XO (XO (XO (XO XH))))))))
                     (N.modulo c (Npos (XO (XO (XO (XO (XO (XO XH))))))))) :: [])))

(** val encode_utf8 : n list -> n list **)

let encode_utf8 cs =
  flat_map encode_char cs

(** val is_cont : n -> bool **)

let is_cont b =
  (&&) (N.leb (Npos (XO (XO (XO (XO (XO (XO (XO XH)))))))) b)
    (N.ltb b (Npos (XO (XO (XO (XO (XO (XO (XI XH)))))))))

(** val decode_one : n list -> (n * n list) option **)

let decode_one = function
| [] -> None
| b0 :: r ->
  if N.ltb b0 (Npos (XO (XO (XO (XO (XO (XO (XO XH))))))))
  then Some (b0, r)
  else if N.ltb b0 (Npos (XO (XI (XO (XO (XO (XO (XI XH))))))))
       then None
       else if N.ltb b0 (Npos (XO (XO (XO (XO (XO (XI (XI XH))))))))
            then (match r with
                  | [] -> None
                  | b1 :: r1 ->
                    if is_cont b1
                    then Some
                           ((N.add
                              (N.mul
                                (N.sub b0 (Npos (XO (XO (XO (XO (XO (XO (XI
                                  XH))))))))) (Npos (XO (XO (XO (XO (XO (XO
                                XH))))))))
                              (N.sub b1 (Npos (XO (XO (XO (XO (XO (XO (XO
                                XH)))))))))), r1)
                    else None)
            else if N.ltb b0 (Npos (XO (XO (XO (XO (XI (XI (XI XH))))))))
                 then (match r with
                       | [] -> None
                       | b1 :: l ->
                         (match l with
                          | [] -> None
                          | b2 :: r2 ->
                            let c =
                              N.add
                                (N.add
                                  (N.mul
                                    (N.sub b0 (Npos (XO (XO (XO (XO (XO (XI
                                      (XI XH))))))))) (Npos (XO (XO (XO (XO
                                    (XO (XO (XO (XO (XO (XO (XO (XO
                                    XH))))))))))))))
                                  (N.mul
                                    (N.sub b1 (Npos (XO (XO (XO (XO (XO (XO
                                      (XO XH))))))))) (Npos (XO (XO (XO (XO
                                    (XO (XO XH)))))))))
                                (N.sub b2 (Npos (XO (XO (XO (XO (XO (XO (XO
                                  XH)))))))))
                            in
                            if (&&)
                                 ((&&) ((&&) (is_cont b1) (is_cont b2))
                                   (N.leb (Npos (XO (XO (XO (XO (XO (XO (XO
                                     (XO (XO (XO (XO XH)))))))))))) c))
                                 (is_scalar c)
                            then Some (c, r2)
                            else None))
                 else if N.ltb b0 (Npos (XI (XO (XI (XO (XI (XI (XI XH))))))))
                      then (match r with
                            | [] -> None
                            | b1 :: l ->
                              (match l with
                               | [] -> None
                               | b2 :: l0 ->
                                 (match l0 with
                                  | [] -> None
                                  | b3 :: r3 ->
                                    let c =
                                      N.add
                                        (N.add
                                          (N.add
                                            (N.mul
                                              (N.sub b0 (Npos (XO (XO (XO (XO
                                                (XI (XI (XI XH))))))))) (Npos
                                              (XO (XO (XO (XO (XO (XO (XO (XO
                                              (XO (XO (XO (XO (XO (XO (XO (XO
                                              (XO (XO XH))))))))))))))))))))
                                            (N.mul
                                              (N.sub b1 (Npos (XO (XO (XO (XO
                                                (XO (XO (XO XH))))))))) (Npos
                                              (XO (XO (XO (XO (XO (XO (XO (XO
                                              (XO (XO (XO (XO XH)))))))))))))))
                                          (N.mul
                                            (N.sub b2 (Npos (XO (XO (XO (XO
                                              (XO (XO (XO XH))))))))) (Npos
                                            (XO (XO (XO (XO (XO (XO XH)))))))))
                                        (N.sub b3 (Npos (XO (XO (XO (XO (XO
                                          (XO (XO XH)))))))))
                                    in
                                    if (&&)
                                         ((&&)
                                           ((&&)
                                             ((&&) (is_cont b1) (is_cont b2))
                                             (is_cont b3))
                                           (N.leb (Npos (XO (XO (XO (XO (XO
                                             (XO (XO (XO (XO (XO (XO (XO (XO
                                             (XO (XO (XO XH)))))))))))))))))
                                             c))
                                         (N.leb c (Npos (XI (XI (XI (XI (XI
                                           (XI (XI (XI (XI (XI (XI (XI (XI
                                           (XI (XI (XI (XO (XO (XO (XO
                                           XH))))))))))))))))))))))
                                    then Some (c, r3)
                                    else None)))
                      else None

(** val decode_utf8 : nat -> n list -> n list option **)

let rec decode_utf8 fuel bs = match bs with
| [] -> Some []
| _ :: _ ->
  (match fuel with
   | O -> None
   | S fuel' ->
     (match decode_one bs with
      | Some p ->
        let (c, r) = p in
        (match decode_utf8 fuel' r with
         | Some cs -> Some (c :: cs)
         | None -> None)
      | None -> None))

(** val chars_of : n list -> n list option **)

let chars_of bs =
  decode_utf8 (length bs) bs

(** val dec_next :
    n list -> nat -> (((nat * n) * n list) * nat) option res **)

let dec_next rest pulled =
  match rest with
  | [] -> Ok None
  | first :: r0 ->
    if N.ltb first (Npos (XO (XO (XO (XO (XO (XO (XO XH))))))))
    then Ok (Some ((((S pulled), first), r0), (S pulled)))
    else (match r0 with
          | [] -> UB UUnwrapNone
          | b1 :: r1 ->
            let c = N.coq_land b1 (Npos (XI (XI (XI (XI (XI XH)))))) in
            if N.ltb first (Npos (XO (XO (XO (XO (XO (XI (XI XH))))))))
            then let cp =
                   N.coq_lor
                     (N.shiftl
                       (N.coq_land first (Npos (XI (XI (XI (XI XH)))))) (Npos
                       (XO (XI XH)))) c
                 in
                 if is_scalar cp
                 then Ok (Some ((((S (S pulled)), cp), r1), (S (S pulled))))
                 else UB UBadChar
            else (match r1 with
                  | [] -> UB UUnwrapNone
                  | b2 :: r2 ->
                    let c0 =
                      N.coq_lor (N.shiftl c (Npos (XO (XI XH))))
                        (N.coq_land b2 (Npos (XI (XI (XI (XI (XI XH)))))))
                    in
                    if N.ltb first (Npos (XO (XO (XO (XO (XI (XI (XI
                         XH))))))))
                    then let cp =
                           N.coq_lor
                             (N.shiftl
                               (N.coq_land first (Npos (XI (XI (XI XH)))))
                               (Npos (XO (XO (XI XH))))) c0
                         in
                         if is_scalar cp
                         then Ok (Some ((((S (S (S pulled))), cp), r2), (S (S
                                (S pulled)))))
                         else UB UBadChar
                    else (match r2 with
                          | [] -> UB UUnwrapNone
                          | b3 :: r3 ->
                            let c1 =
                              N.coq_lor (N.shiftl c0 (Npos (XO (XI XH))))
                                (N.coq_land b3 (Npos (XI (XI (XI (XI (XI
                                  XH)))))))
                            in
                            let cp =
                              N.coq_lor
                                (N.shiftl
                                  (N.coq_land first (Npos (XI (XI XH))))
                                  (Npos (XO (XI (XO (XO XH)))))) c1
                            in
                            if is_scalar cp
                            then Ok (Some ((((S (S (S (S pulled)))), cp),
                                   r3), (S (S (S (S pulled))))))
                            else UB UBadChar)))

type cstate = { c_base : n; c_check : n; c_fail : n; c_outpos : n }

(** val cstate_default : cstate **)

let cstate_default =
  { c_base = N0; c_check = dEAD; c_fail = dEAD; c_outpos = N0 }

type mapper = { mp_table : n list; mp_alpha : n }

(** val freq_before : (n * n) -> (n * n) -> bool **)

let freq_before x y =
  (||) (N.ltb (snd y) (snd x))
    ((&&) (N.eqb (snd x) (snd y)) (N.ltb (fst x) (fst y)))

(** val freq_insert : (n * n) -> (n * n) list -> (n * n) list **)

let rec freq_insert x l = match l with
| [] -> x :: []
| y :: r -> if freq_before x y then x :: l else y :: (freq_insert x r)

(** val freq_sort : (n * n) list -> (n * n) list **)

let freq_sort l =
  fold_right freq_insert [] l

type freqs = { fq_map : n nmap; fq_len : n }

(** val fq_get : freqs -> n -> n **)

let fq_get f c =
  match nget c f.fq_map with
  | Some x -> x
  | None -> N0

(** val fq_bump : freqs -> n -> freqs **)

let fq_bump f c =
  { fq_map = (nset c (N.add (fq_get f c) (Npos XH)) f.fq_map); fq_len =
    (if N.leb f.fq_len c then N.add c (Npos XH) else f.fq_len) }

(** val assign_codes : (n * n) list -> n -> n nmap -> n nmap **)

let rec assign_codes sorted i m =
  match sorted with
  | [] -> m
  | p :: r ->
    let (c, _) = p in assign_codes r (N.add i (Npos XH)) (nset c i m)

(** val mapper_new : freqs -> n list -> mapper **)

let mapper_new f present =
  let sorted = freq_sort (map (fun c -> (c, (fq_get f c))) present) in
  let tbl = assign_codes sorted N0 nempty in
  { mp_table =
  (map (fun c -> match nget c tbl with
                 | Some x -> x
                 | None -> iNVALID_CODE) (nseq N0 (N.to_nat f.fq_len)));
  mp_alpha = (N.of_nat (length sorted)) }

(** val sorted_insert : n -> n list -> n list **)

let rec sorted_insert c l = match l with
| [] -> c :: []
| y :: r ->
  if N.ltb c y
  then c :: l
  else if N.eqb c y then l else y :: (sorted_insert c r)

type 'v cw_automaton = { cw_states : cstate list; cw_mapper : mapper;
                         cw_outputs : 'v output list; cw_kind : mkind;
                         cw_num_states : n }

type carr = { ca_map : cstate nmap; ca_len : n }

(** val ca_get : carr -> n -> cstate res **)

let ca_get a i =
  if N.ltb i a.ca_len
  then Ok (match nget i a.ca_map with
           | Some s -> s
           | None -> cstate_default)
  else Panic PIndex

(** val ca_upd : carr -> n -> (cstate -> cstate) -> carr res **)

let ca_upd a i f =
  bind (ca_get a i) (fun s -> Ok { ca_map = (nset i (f s) a.ca_map); ca_len =
    a.ca_len })

(** val cset_check : n -> cstate -> cstate **)

let cset_check x s =
  { c_base = s.c_base; c_check = x; c_fail = s.c_fail; c_outpos = s.c_outpos }

(** val cset_base : n -> cstate -> cstate **)

let cset_base x s =
  { c_base = x; c_check = s.c_check; c_fail = s.c_fail; c_outpos =
    s.c_outpos }

(** val cset_fail : n -> cstate -> cstate **)

let cset_fail x s =
  { c_base = s.c_base; c_check = s.c_check; c_fail = x; c_outpos =
    s.c_outpos }

(** val cset_outpos : n -> cstate -> cstate **)

let cset_outpos x s =
  { c_base = s.c_base; c_check = s.c_check; c_fail = s.c_fail; c_outpos = x }

(** val cw_add_all :
    'a1 nfa -> freqs -> n list -> (n list * 'a1) list -> (('a1
    nfa * freqs) * n list) res **)

let rec cw_add_all n0 f present = function
| [] -> Ok ((n0, f), present)
| p0 :: r ->
  let (p, v) = p0 in
  bind (add0 len_utf8 n0 p v) (fun n' ->
    cw_add_all n' (fold_left fq_bump p f)
      (fold_left (fun l c -> sorted_insert c l) p present) r)

(** val code_of : n nmap -> n -> n option **)

let code_of tbl c =
  match nget c tbl with
  | Some x -> if N.eqb x iNVALID_CODE then None else Some x
  | None -> None

(** val code_insert : (n * n) -> (n * n) list -> (n * n) list **)

let rec code_insert x l = match l with
| [] -> x :: []
| y :: r -> if N.ltb (fst x) (fst y) then x :: l else y :: (code_insert x r)

(** val map_edges : n nmap -> (n * n) list -> (n * n) list res **)

let rec map_edges tbl = function
| [] -> Ok []
| p :: r ->
  let (label, child) = p in
  (match code_of tbl label with
   | Some code ->
     bind (map_edges tbl r) (fun l -> Ok (code_insert (code, child) l))
   | None -> Panic PUnwrap)

(** val cw_all_free : helper -> n -> (n * n) list -> bool res **)

let rec cw_all_free h base = function
| [] -> Ok true
| p :: r ->
  let (c, _) = p in
  bind (is_used_index h (N.coq_lxor base c)) (fun u ->
    if u then Ok false else cw_all_free h base r)

(** val verify_base : helper -> n -> (n * n) list -> n option res **)

let verify_base h base es =
  bind (cw_all_free h base es) (fun free ->
    if free then Ok (if N.eqb base N0 then None else Some base) else Ok None)

(** val cw_find_base_loop :
    nat -> helper -> n option -> n -> (n * n) list -> n option res **)

let rec cw_find_base_loop fuel h cur c0 es =
  match cur with
  | Some idx ->
    (match fuel with
     | O -> OutOfFuel
     | S fuel' ->
       bind (vacant_next h idx) (fun nxt ->
         bind (verify_base h (N.coq_lxor idx c0) es) (fun r ->
           match r with
           | Some b -> Ok (Some b)
           | None -> cw_find_base_loop fuel' h nxt c0 es)))
  | None -> Ok None

(** val cw_find_base : carr -> helper -> (n * n) list -> n res **)

let cw_find_base a h es = match es with
| [] -> Panic PDebugAssert
| p :: _ ->
  let (c0, _) = p in
  bind (cw_find_base_loop (S (N.to_nat h.h_cap)) h h.h_head c0 es) (fun r ->
    match r with
    | Some b -> Ok b
    | None ->
      if N.ltb u32_MAX a.ca_len
      then Panic PUnwrap
      else let b = N.coq_lxor a.ca_len c0 in
           if N.eqb b N0 then Panic PUnwrap else Ok b)

(** val cw_extend_array : n -> carr -> helper -> (carr * helper) res **)

let cw_extend_array block_len a h =
  if N.ltb (N.sub u32_MAX block_len) a.ca_len
  then Err AutomatonScale
  else bind (push_block h) (fun h1 -> Ok ({ ca_map = a.ca_map; ca_len =
         (N.add a.ca_len block_len) }, h1))

(** val npow2_loop : nat -> n -> n -> n **)

let rec npow2_loop fuel p x =
  match fuel with
  | O -> p
  | S fuel' ->
    if N.leb x p then p else npow2_loop fuel' (N.mul (Npos (XO XH)) p) x

(** val next_power_of_two : n -> n **)

let next_power_of_two x =
  npow2_loop (S (S (S (S (S (S (S (S (S (S (S (S (S (S (S (S (S (S (S (S (S
    (S (S (S (S (S (S (S (S (S (S (S (S O)))))))))))))))))))))))))))))))))
    (Npos XH) x

(** val cw_init_array : n -> n -> ((carr * helper) * n) res **)

let cw_init_array alpha nfb =
  let block_len = N.max (next_power_of_two alpha) (Npos (XO XH)) in
  bind (helper_new block_len nfb) (fun h0 ->
    bind (match push_block h0 with
          | Err _ -> Panic PUnwrap
          | x -> x) (fun h1 ->
      bind (use_index h1 rOOT) (fun h2 ->
        bind (use_index h2 dEAD) (fun h3 -> Ok (({ ca_map = nempty; ca_len =
          block_len }, h3), block_len)))))

(** val cidmap_get : n nmap -> n -> n -> n res **)

let cidmap_get m len i =
  if N.ltb i len
  then Ok (match nget i m with
           | Some x -> x
           | None -> dEAD)
  else Panic PIndex

(** val cw_place_children :
    carr -> helper -> n nmap -> n -> n -> n -> (n * n) list -> n list ->
    (((carr * helper) * n nmap) * n list) res **)

let rec cw_place_children a h idmap nst base sidx es stack =
  match es with
  | [] -> Ok (((a, h), idmap), stack)
  | p :: r ->
    let (c, child) = p in
    let child_idx = N.coq_lxor base c in
    bind (use_index h child_idx) (fun h' ->
      bind (ca_upd a child_idx (cset_check sidx)) (fun a' ->
        if N.ltb child nst
        then cw_place_children a' h' (nset child child_idx idmap) nst base
               sidx r (child :: stack)
        else Panic PIndex))

(** val cw_dfs_loop :
    nat -> n nmap -> n -> 'a1 nfa -> carr -> helper -> n nmap -> n list ->
    ((carr * helper) * n nmap) res **)

let rec cw_dfs_loop fuel tbl block_len n0 a h idmap = function
| [] -> Ok ((a, h), idmap)
| sid :: stack' ->
  (match fuel with
   | O -> OutOfFuel
   | S fuel' ->
     if N.eqb sid dEAD
     then Panic PDebugAssert
     else bind (nfa_get n0 sid) (fun st ->
            bind (cidmap_get idmap n0.n_nstates sid) (fun sidx ->
              if N.eqb sidx dEAD
              then Panic PDebugAssert
              else (match st.n_edges with
                    | [] ->
                      cw_dfs_loop fuel' tbl block_len n0 a h idmap stack'
                    | _ :: _ ->
                      bind (map_edges tbl st.n_edges) (fun mapped ->
                        bind (cw_find_base a h mapped) (fun base ->
                          bind
                            (if N.leb a.ca_len base
                             then cw_extend_array block_len a h
                             else Ok (a, h)) (fun pat ->
                            let (a1, h1) = pat in
                            bind
                              (cw_place_children a1 h1 idmap n0.n_nstates
                                base sidx mapped stack') (fun pat0 ->
                              let (p, stack2) = pat0 in
                              let (p0, idmap2) = p in
                              let (a2, h2) = p0 in
                              bind (ca_upd a2 sidx (cset_base base))
                                (fun a3 ->
                                cw_dfs_loop fuel' tbl block_len n0 a3 h2
                                  idmap2 stack2)))))))))

(** val cw_set_fails_loop :
    'a1 nfa -> carr -> n nmap -> n list -> carr res **)

let rec cw_set_fails_loop n0 a idmap = function
| [] -> Ok a
| i :: r ->
  if N.eqb i dEAD
  then cw_set_fails_loop n0 a idmap r
  else bind (cidmap_get idmap n0.n_nstates i) (fun idx ->
         if N.eqb idx dEAD
         then Panic PDebugAssert
         else bind (nfa_get n0 i) (fun st ->
                bind (ca_upd a idx (cset_outpos st.n_outpos)) (fun a1 ->
                  if N.eqb st.n_fail dEAD
                  then bind (ca_upd a1 idx (cset_fail dEAD)) (fun a2 ->
                         cw_set_fails_loop n0 a2 idmap r)
                  else bind (cidmap_get idmap n0.n_nstates st.n_fail)
                         (fun fidx ->
                         if N.eqb fidx dEAD
                         then Panic PDebugAssert
                         else bind (ca_upd a1 idx (cset_fail fidx))
                                (fun a2 -> cw_set_fails_loop n0 a2 idmap r)))))

(** val carr_to_list : carr -> cstate list **)

let carr_to_list a =
  map (fun i ->
    match nget i a.ca_map with
    | Some s -> s
    | None -> cstate_default) (nseq N0 (N.to_nat a.ca_len))

(** val cw_build_with_values :
    mkind -> n -> (n list * 'a1) list -> 'a1 cw_automaton res **)

let cw_build_with_values kind nfb pvs =
  if N.eqb nfb N0
  then Panic PAssert
  else bind
         (cw_add_all (nfa_new kind) { fq_map = nempty; fq_len = N0 } [] pvs)
         (fun pat ->
         let (p, present) = pat in
         let (n0, f) = p in
         let mp = mapper_new f present in
         if N.eqb n0.n_len N0
         then Err InvalidArgument
         else bind (finish_nfa n0) (fun n1 ->
                let tbl = index_list mp.mp_table in
                bind (cw_init_array mp.mp_alpha nfb) (fun pat0 ->
                  let (p0, block_len) = pat0 in
                  let (a0, h0) = p0 in
                  bind
                    (cw_dfs_loop (S (N.to_nat n1.n_nstates)) tbl block_len n1
                      a0 h0 (nset rOOT rOOT nempty) (rOOT :: []))
                    (fun pat1 ->
                    let (p1, idmap) = pat1 in
                    let (a1, _) = p1 in
                    bind
                      (cw_set_fails_loop n1 a1 idmap
                        (nseq N0 (N.to_nat n1.n_nstates))) (fun a2 ->
                      if N.ltb u32_MAX (N.sub n1.n_nstates (Npos XH))
                      then Err AutomatonScale
                      else Ok { cw_states = (carr_to_list a2); cw_mapper =
                             mp; cw_outputs = n1.n_outputs; cw_kind = kind;
                             cw_num_states = (N.sub n1.n_nstates (Npos XH)) })))))

(** val cw_enumerate_conv :
    (nat -> 'a1 option) -> nat -> n list list -> (n list * 'a1) list option **)

let rec cw_enumerate_conv conv i = function
| [] -> Some []
| p :: r ->
  (match conv i with
   | Some v ->
     (match cw_enumerate_conv conv (S i) r with
      | Some l -> Some ((p, v) :: l)
      | None -> None)
   | None -> None)

(** val cw_build :
    (nat -> 'a1 option) -> mkind -> n -> n list list -> 'a1 cw_automaton res **)

let cw_build conv kind nfb ps =
  if N.eqb nfb N0
  then Panic PAssert
  else (match cw_enumerate_conv conv O ps with
        | Some pvs -> cw_build_with_values kind nfb pvs
        | None -> Err InvalidConversion)

type 'v mtch = { m_length : n; m_end : nat; m_value : 'v }

(** val st_at : (n -> bstate option) -> n -> bstate res **)

let st_at sget i =
  match sget i with
  | Some s -> Ok s
  | None -> UB UStateIndex

(** val out_at : (n -> 'a1 output option) -> n -> 'a1 output res **)

let out_at oget pos =
  match oget (N.sub pos (Npos XH)) with
  | Some o -> Ok o
  | None -> UB UOutputIndex

(** val bw_child : (n -> bstate option) -> n -> n -> n option res **)

let bw_child sget s c =
  bind (st_at sget s) (fun st ->
    if N.eqb st.b_base N0
    then Ok None
    else let child = N.coq_lxor st.b_base c in
         bind (st_at sget child) (fun cs -> Ok
           (if N.eqb (b_check cs) c then Some child else None)))

(** val bw_next_state :
    (n -> bstate option) -> nat -> n -> n -> n -> (n * n) res **)

let rec bw_next_state sget fuel s c ticks =
  match fuel with
  | O -> OutOfFuel
  | S fuel' ->
    bind (bw_child sget s c) (fun ch ->
      match ch with
      | Some t -> Ok (t, (N.add ticks (Npos XH)))
      | None ->
        if N.eqb s rOOT
        then Ok (rOOT, (N.add ticks (Npos XH)))
        else bind (st_at sget s) (fun st ->
               bw_next_state sget fuel' st.b_fail c (N.add ticks (Npos XH))))

(** val bw_next_state_lm :
    (n -> bstate option) -> nat -> n -> n -> n -> (n * n) res **)

let rec bw_next_state_lm sget fuel s c ticks =
  match fuel with
  | O -> OutOfFuel
  | S fuel' ->
    bind (bw_child sget s c) (fun ch ->
      match ch with
      | Some t -> Ok (t, (N.add ticks (Npos XH)))
      | None ->
        if N.eqb s rOOT
        then Ok (rOOT, (N.add ticks (Npos XH)))
        else bind (st_at sget s) (fun st ->
               if N.eqb st.b_fail dEAD
               then Ok (rOOT, (N.add ticks (Npos XH)))
               else bw_next_state_lm sget fuel' st.b_fail c
                      (N.add ticks (Npos XH))))

(** val fuel0 : n -> nat **)

let fuel0 nslots =
  S (N.to_nat nslots)

type src = { s_rest : n list; s_pulled : nat }

(** val src_of : n list -> src **)

let src_of h =
  { s_rest = h; s_pulled = O }

type find_it = { f_src : src; f_ticks : n }

(** val find_scan :
    (n -> bstate option) -> (n -> 'a1 output option) -> n -> n list -> nat ->
    n -> n -> ('a1 mtch option * find_it) res **)

let rec find_scan sget oget nslots rest pulled state ticks =
  match rest with
  | [] ->
    Ok (None, { f_src = { s_rest = []; s_pulled = pulled }; f_ticks = ticks })
  | c :: rest' ->
    bind (bw_next_state sget (fuel0 nslots) state c ticks) (fun pat ->
      let (state', ticks') = pat in
      bind (st_at sget state') (fun st ->
        if N.eqb (b_outpos st) N0
        then find_scan sget oget nslots rest' (S pulled) state' ticks'
        else bind (out_at oget (b_outpos st)) (fun out -> Ok ((Some
               { m_length = out.o_length; m_end = (S pulled); m_value =
               out.o_value }), { f_src = { s_rest = rest'; s_pulled = (S
               pulled) }; f_ticks = ticks' }))))

(** val find_next :
    (n -> bstate option) -> (n -> 'a1 output option) -> n -> find_it -> ('a1
    mtch option * find_it) res **)

let find_next sget oget nslots it =
  find_scan sget oget nslots it.f_src.s_rest it.f_src.s_pulled rOOT it.f_ticks

(** val find_init : n list -> find_it **)

let find_init h =
  { f_src = (src_of h); f_ticks = N0 }

type ovl_it = { v_src : src; v_state : n; v_pos : nat; v_outpos : n;
                v_ticks : n }

(** val ovl_scan :
    (n -> bstate option) -> (n -> 'a1 output option) -> n -> n list -> nat ->
    n -> nat -> n -> ('a1 mtch option * ovl_it) res **)

let rec ovl_scan sget oget nslots rest pulled state pos ticks =
  match rest with
  | [] ->
    Ok (None, { v_src = { s_rest = []; s_pulled = pulled }; v_state = state;
      v_pos = pos; v_outpos = N0; v_ticks = ticks })
  | c :: rest' ->
    bind (bw_next_state sget (fuel0 nslots) state c ticks) (fun pat ->
      let (state', ticks') = pat in
      bind (st_at sget state') (fun st ->
        if N.eqb (b_outpos st) N0
        then ovl_scan sget oget nslots rest' (S pulled) state' pos ticks'
        else bind (out_at oget (b_outpos st)) (fun out -> Ok ((Some
               { m_length = out.o_length; m_end = (S pulled); m_value =
               out.o_value }), { v_src = { s_rest = rest'; s_pulled = (S
               pulled) }; v_state = state'; v_pos = (S pulled); v_outpos =
               out.o_parent; v_ticks = ticks' }))))

(** val ovl_next :
    (n -> bstate option) -> (n -> 'a1 output option) -> n -> ovl_it -> ('a1
    mtch option * ovl_it) res **)

let ovl_next sget oget nslots it =
  if N.eqb it.v_outpos N0
  then ovl_scan sget oget nslots it.v_src.s_rest it.v_src.s_pulled it.v_state
         it.v_pos it.v_ticks
  else bind (out_at oget it.v_outpos) (fun out -> Ok ((Some { m_length =
         out.o_length; m_end = it.v_pos; m_value = out.o_value }), { v_src =
         it.v_src; v_state = it.v_state; v_pos = it.v_pos; v_outpos =
         out.o_parent; v_ticks = it.v_ticks }))

(** val ovl_init : n list -> ovl_it **)

let ovl_init h =
  { v_src = (src_of h); v_state = rOOT; v_pos = O; v_outpos = N0; v_ticks =
    N0 }

type nos_it = { x_src : src; x_state : n; x_ticks : n }

(** val nos_scan :
    (n -> bstate option) -> (n -> 'a1 output option) -> n -> n list -> nat ->
    n -> n -> ('a1 mtch option * nos_it) res **)

let rec nos_scan sget oget nslots rest pulled state ticks =
  match rest with
  | [] ->
    Ok (None, { x_src = { s_rest = []; s_pulled = pulled }; x_state = state;
      x_ticks = ticks })
  | c :: rest' ->
    bind (bw_next_state sget (fuel0 nslots) state c ticks) (fun pat ->
      let (state', ticks') = pat in
      bind (st_at sget state') (fun st ->
        if N.eqb (b_outpos st) N0
        then nos_scan sget oget nslots rest' (S pulled) state' ticks'
        else bind (out_at oget (b_outpos st)) (fun out -> Ok ((Some
               { m_length = out.o_length; m_end = (S pulled); m_value =
               out.o_value }), { x_src = { s_rest = rest'; s_pulled = (S
               pulled) }; x_state = state'; x_ticks = ticks' }))))

(** val nos_next :
    (n -> bstate option) -> (n -> 'a1 output option) -> n -> nos_it -> ('a1
    mtch option * nos_it) res **)

let nos_next sget oget nslots it =
  nos_scan sget oget nslots it.x_src.s_rest it.x_src.s_pulled it.x_state
    it.x_ticks

(** val nos_init : n list -> nos_it **)

let nos_init h =
  { x_src = (src_of h); x_state = rOOT; x_ticks = N0 }

type lm_it = { l_hay : n list; l_pos : nat; l_ticks : n }

(** val lm_scan :
    (n -> bstate option) -> n -> n list -> nat -> n -> n -> nat -> n ->
    (((n * nat) option * nat) * n) res **)

let rec lm_scan sget nslots rest i state last selfpos ticks =
  match rest with
  | [] ->
    Ok (((if N.eqb last N0 then None else Some (last, selfpos)), selfpos),
      ticks)
  | c :: rest' ->
    bind (bw_next_state_lm sget (fuel0 nslots) state c ticks) (fun pat ->
      let (state', ticks') = pat in
      if N.eqb state' rOOT
      then if N.eqb last N0
           then lm_scan sget nslots rest' (S i) state' last selfpos ticks'
           else Ok (((Some (last, selfpos)), selfpos), ticks')
      else bind (st_at sget state') (fun st ->
             if N.eqb (b_outpos st) N0
             then lm_scan sget nslots rest' (S i) state' last selfpos ticks'
             else lm_scan sget nslots rest' (S i) state' (b_outpos st) (S i)
                    ticks'))

(** val lm_next :
    (n -> bstate option) -> (n -> 'a1 output option) -> n -> lm_it -> ('a1
    mtch option * lm_it) res **)

let lm_next sget oget nslots it =
  bind
    (lm_scan sget nslots (skipn it.l_pos it.l_hay) it.l_pos rOOT N0 it.l_pos
      it.l_ticks) (fun pat ->
    let (p, ticks') = pat in
    let (r, pos') = p in
    let it' = { l_hay = it.l_hay; l_pos = pos'; l_ticks = ticks' } in
    (match r with
     | Some p0 ->
       let (opos, e) = p0 in
       bind (out_at oget opos) (fun out -> Ok ((Some { m_length =
         out.o_length; m_end = e; m_value = out.o_value }), it'))
     | None -> Ok (None, it')))

(** val lm_init : n list -> lm_it **)

let lm_init h =
  { l_hay = h; l_pos = O; l_ticks = N0 }

(** val drain :
    ('a2 -> ('a1 mtch option * 'a2) res) -> nat -> 'a2 -> ('a1 mtch
    list * 'a2) res **)

let rec drain next k it =
  match k with
  | O -> OutOfFuel
  | S k' ->
    bind (next it) (fun pat ->
      let (r, it') = pat in
      (match r with
       | Some m ->
         bind (drain next k' it') (fun pat0 ->
           let (ms, it'') = pat0 in Ok ((m :: ms), it''))
       | None -> Ok ([], it')))

(** val bw_sget : 'a1 bw_automaton -> n -> bstate option **)

let bw_sget a =
  let m = index_list a.bw_states in (fun i -> nget i m)

(** val bw_oget : 'a1 bw_automaton -> n -> 'a1 output option **)

let bw_oget a =
  let m = index_list a.bw_outputs in (fun i -> nget i m)

(** val bw_nslots : 'a1 bw_automaton -> n **)

let bw_nslots a =
  N.of_nat (length a.bw_states)

(** val cst_at : (n -> cstate option) -> n -> cstate res **)

let cst_at sget i =
  match sget i with
  | Some s -> Ok s
  | None -> UB UStateIndex

(** val cout_at : (n -> 'a1 output option) -> n -> 'a1 output res **)

let cout_at oget pos =
  match oget (N.sub pos (Npos XH)) with
  | Some o -> Ok o
  | None -> UB UOutputIndex

(** val mapper_get : (n -> n option) -> n -> n option **)

let mapper_get tget c =
  match tget c with
  | Some code -> if N.eqb code iNVALID_CODE then None else Some code
  | None -> None

(** val cw_child : (n -> cstate option) -> n -> n -> n option res **)

let cw_child sget s mc =
  bind (cst_at sget s) (fun st ->
    if N.eqb st.c_base N0
    then Ok None
    else let child = N.coq_lxor st.c_base mc in
         bind (cst_at sget child) (fun cs -> Ok
           (if N.eqb cs.c_check s then Some child else None)))

(** val cw_next_loop :
    (n -> cstate option) -> nat -> n -> n -> n -> (n * n) res **)

let rec cw_next_loop sget fuel s mc ticks =
  match fuel with
  | O -> OutOfFuel
  | S fuel' ->
    bind (cw_child sget s mc) (fun ch ->
      match ch with
      | Some t -> Ok (t, (N.add ticks (Npos XH)))
      | None ->
        if N.eqb s rOOT
        then Ok (rOOT, (N.add ticks (Npos XH)))
        else bind (cst_at sget s) (fun st ->
               cw_next_loop sget fuel' st.c_fail mc (N.add ticks (Npos XH))))

(** val cfuel0 : n -> nat **)

let cfuel0 nslots =
  S (N.to_nat nslots)

(** val cw_next_state :
    (n -> cstate option) -> (n -> n option) -> n -> n -> n -> n -> (n * n) res **)

let cw_next_state sget tget nslots s c ticks =
  match mapper_get tget c with
  | Some mc -> cw_next_loop sget (cfuel0 nslots) s mc ticks
  | None -> Ok (rOOT, ticks)

(** val cw_next_loop_lm :
    (n -> cstate option) -> nat -> n -> n -> n -> (n * n) res **)

let rec cw_next_loop_lm sget fuel s mc ticks =
  match fuel with
  | O -> OutOfFuel
  | S fuel' ->
    bind (cw_child sget s mc) (fun ch ->
      match ch with
      | Some t -> Ok (t, (N.add ticks (Npos XH)))
      | None ->
        if N.eqb s rOOT
        then Ok (rOOT, (N.add ticks (Npos XH)))
        else bind (cst_at sget s) (fun st ->
               if N.eqb st.c_fail dEAD
               then Ok (rOOT, (N.add ticks (Npos XH)))
               else cw_next_loop_lm sget fuel' st.c_fail mc
                      (N.add ticks (Npos XH))))

(** val cw_next_state_lm :
    (n -> cstate option) -> (n -> n option) -> n -> n -> n -> n -> (n * n) res **)

let cw_next_state_lm sget tget nslots s c ticks =
  match mapper_get tget c with
  | Some mc -> cw_next_loop_lm sget (cfuel0 nslots) s mc ticks
  | None -> Ok (rOOT, ticks)

(** val cfind_scan :
    (n -> cstate option) -> (n -> 'a1 output option) -> (n -> n option) -> n
    -> nat -> n list -> nat -> n -> n -> ('a1 mtch option * find_it) res **)

let rec cfind_scan sget oget tget nslots fuel rest pulled state ticks =
  match fuel with
  | O -> OutOfFuel
  | S fuel' ->
    bind (dec_next rest pulled) (fun d ->
      match d with
      | Some p ->
        let (p0, pulled') = p in
        let (p1, rest') = p0 in
        let (pos, c) = p1 in
        bind (cw_next_state sget tget nslots state c ticks) (fun pat ->
          let (state', ticks') = pat in
          bind (cst_at sget state') (fun st ->
            if N.eqb st.c_outpos N0
            then cfind_scan sget oget tget nslots fuel' rest' pulled' state'
                   ticks'
            else bind (cout_at oget st.c_outpos) (fun out -> Ok ((Some
                   { m_length = out.o_length; m_end = pos; m_value =
                   out.o_value }), { f_src = { s_rest = rest'; s_pulled =
                   pulled' }; f_ticks = ticks' }))))
      | None ->
        Ok (None, { f_src = { s_rest = rest; s_pulled = pulled }; f_ticks =
          ticks }))

(** val cfind_next :
    (n -> cstate option) -> (n -> 'a1 output option) -> (n -> n option) -> n
    -> find_it -> ('a1 mtch option * find_it) res **)

let cfind_next sget oget tget nslots it =
  cfind_scan sget oget tget nslots (S (length it.f_src.s_rest))
    it.f_src.s_rest it.f_src.s_pulled rOOT it.f_ticks

(** val covl_scan :
    (n -> cstate option) -> (n -> 'a1 output option) -> (n -> n option) -> n
    -> nat -> n list -> nat -> n -> nat -> n -> ('a1 mtch option * ovl_it) res **)

let rec covl_scan sget oget tget nslots fuel rest pulled state pos ticks =
  match fuel with
  | O -> OutOfFuel
  | S fuel' ->
    bind (dec_next rest pulled) (fun d ->
      match d with
      | Some p0 ->
        let (p1, pulled') = p0 in
        let (p2, rest') = p1 in
        let (p, c) = p2 in
        bind (cw_next_state sget tget nslots state c ticks) (fun pat ->
          let (state', ticks') = pat in
          bind (cst_at sget state') (fun st ->
            if N.eqb st.c_outpos N0
            then covl_scan sget oget tget nslots fuel' rest' pulled' state' p
                   ticks'
            else bind (cout_at oget st.c_outpos) (fun out -> Ok ((Some
                   { m_length = out.o_length; m_end = p; m_value =
                   out.o_value }), { v_src = { s_rest = rest'; s_pulled =
                   pulled' }; v_state = state'; v_pos = p; v_outpos =
                   out.o_parent; v_ticks = ticks' }))))
      | None ->
        Ok (None, { v_src = { s_rest = rest; s_pulled = pulled }; v_state =
          state; v_pos = pos; v_outpos = N0; v_ticks = ticks }))

(** val covl_next :
    (n -> cstate option) -> (n -> 'a1 output option) -> (n -> n option) -> n
    -> ovl_it -> ('a1 mtch option * ovl_it) res **)

let covl_next sget oget tget nslots it =
  if N.eqb it.v_outpos N0
  then covl_scan sget oget tget nslots (S (length it.v_src.s_rest))
         it.v_src.s_rest it.v_src.s_pulled it.v_state it.v_pos it.v_ticks
  else bind (cout_at oget it.v_outpos) (fun out -> Ok ((Some { m_length =
         out.o_length; m_end = it.v_pos; m_value = out.o_value }), { v_src =
         it.v_src; v_state = it.v_state; v_pos = it.v_pos; v_outpos =
         out.o_parent; v_ticks = it.v_ticks }))

(** val cnos_scan :
    (n -> cstate option) -> (n -> 'a1 output option) -> (n -> n option) -> n
    -> nat -> n list -> nat -> n -> n -> ('a1 mtch option * nos_it) res **)

let rec cnos_scan sget oget tget nslots fuel rest pulled state ticks =
  match fuel with
  | O -> OutOfFuel
  | S fuel' ->
    bind (dec_next rest pulled) (fun d ->
      match d with
      | Some p0 ->
        let (p1, pulled') = p0 in
        let (p2, rest') = p1 in
        let (p, c) = p2 in
        bind (cw_next_state sget tget nslots state c ticks) (fun pat ->
          let (state', ticks') = pat in
          bind (cst_at sget state') (fun st ->
            if N.eqb st.c_outpos N0
            then cnos_scan sget oget tget nslots fuel' rest' pulled' state'
                   ticks'
            else bind (cout_at oget st.c_outpos) (fun out -> Ok ((Some
                   { m_length = out.o_length; m_end = p; m_value =
                   out.o_value }), { x_src = { s_rest = rest'; s_pulled =
                   pulled' }; x_state = state'; x_ticks = ticks' }))))
      | None ->
        Ok (None, { x_src = { s_rest = rest; s_pulled = pulled }; x_state =
          state; x_ticks = ticks }))

(** val cnos_next :
    (n -> cstate option) -> (n -> 'a1 output option) -> (n -> n option) -> n
    -> nos_it -> ('a1 mtch option * nos_it) res **)

let cnos_next sget oget tget nslots it =
  cnos_scan sget oget tget nslots (S (length it.x_src.s_rest))
    it.x_src.s_rest it.x_src.s_pulled it.x_state it.x_ticks

(** val clm_scan :
    (n -> cstate option) -> (n -> n option) -> n -> n list -> n -> n -> nat
    -> nat -> n -> (((n * nat) option * nat) * n) res **)

let rec clm_scan sget tget nslots cs state last selfpos skips ticks =
  match cs with
  | [] ->
    Ok (((if N.eqb last N0 then None else Some (last, selfpos)), selfpos),
      ticks)
  | c :: cs' ->
    let skips0 = add skips (N.to_nat (len_utf8 c)) in
    bind (cw_next_state_lm sget tget nslots state c ticks) (fun pat ->
      let (state', ticks') = pat in
      if N.eqb state' rOOT
      then if N.eqb last N0
           then clm_scan sget tget nslots cs' state' last selfpos skips0
                  ticks'
           else Ok (((Some (last, selfpos)), selfpos), ticks')
      else bind (cst_at sget state') (fun st ->
             if N.eqb st.c_outpos N0
             then clm_scan sget tget nslots cs' state' last selfpos skips0
                    ticks'
             else clm_scan sget tget nslots cs' state' st.c_outpos
                    (add selfpos skips0) O ticks'))

(** val clm_next :
    (n -> cstate option) -> (n -> 'a1 output option) -> (n -> n option) -> n
    -> lm_it -> ('a1 mtch option * lm_it) res **)

let clm_next sget oget tget nslots it =
  if Nat.ltb (length it.l_hay) it.l_pos
  then UB UStrSlice
  else (match chars_of (skipn it.l_pos it.l_hay) with
        | Some cs ->
          bind (clm_scan sget tget nslots cs rOOT N0 it.l_pos O it.l_ticks)
            (fun pat ->
            let (p, ticks') = pat in
            let (r, pos') = p in
            let it' = { l_hay = it.l_hay; l_pos = pos'; l_ticks = ticks' } in
            (match r with
             | Some p0 ->
               let (opos, e) = p0 in
               bind (cout_at oget opos) (fun out -> Ok ((Some { m_length =
                 out.o_length; m_end = e; m_value = out.o_value }), it'))
             | None -> Ok (None, it')))
        | None -> UB UStrSlice)

(** val cw_sget : 'a1 cw_automaton -> n -> cstate option **)

let cw_sget a =
  let m = index_list a.cw_states in (fun i -> nget i m)

(** val cw_oget : 'a1 cw_automaton -> n -> 'a1 output option **)

let cw_oget a =
  let m = index_list a.cw_outputs in (fun i -> nget i m)

(** val cw_tget : 'a1 cw_automaton -> n -> n option **)

let cw_tget a =
  let m = index_list a.cw_mapper.mp_table in (fun i -> nget i m)

(** val cw_nslots : 'a1 cw_automaton -> n **)

let cw_nslots a =
  N.of_nat (length a.cw_states)

(** val triple : 'a1 mtch -> ((nat * nat) * 'a1) res **)

let triple m =
  if Nat.leb (N.to_nat m.m_length) m.m_end
  then Ok (((sub m.m_end (N.to_nat m.m_length)), m.m_end), m.m_value)
  else Panic POverflow

(** val triples : 'a1 mtch list -> ((nat * nat) * 'a1) list res **)

let rec triples = function
| [] -> Ok []
| m :: r ->
  bind (triple m) (fun t -> bind (triples r) (fun ts -> Ok (t :: ts)))

(** val run_iter :
    ('a2 -> ('a1 mtch option * 'a2) res) -> nat -> 'a2 -> ((nat * nat) * 'a1)
    list res **)

let run_iter next k it =
  bind (drain next k it) (fun pat -> let (ms, _) = pat in triples ms)

(** val bw_find_iter :
    'a1 bw_automaton -> n list -> ((nat * nat) * 'a1) list res **)

let bw_find_iter a h =
  if is_standard a.bw_kind
  then run_iter (find_next (bw_sget a) (bw_oget a) (bw_nslots a)) (S (S
         (length h))) (find_init h)
  else Panic PKind

(** val bw_find_overlapping_iter :
    'a1 bw_automaton -> n list -> ((nat * nat) * 'a1) list res **)

let bw_find_overlapping_iter a h =
  if is_standard a.bw_kind
  then run_iter (ovl_next (bw_sget a) (bw_oget a) (bw_nslots a)) (S
         (mul (S (length h)) (S (length a.bw_outputs)))) (ovl_init h)
  else Panic PKind

(** val bw_find_overlapping_no_suffix_iter :
    'a1 bw_automaton -> n list -> ((nat * nat) * 'a1) list res **)

let bw_find_overlapping_no_suffix_iter a h =
  if is_standard a.bw_kind
  then run_iter (nos_next (bw_sget a) (bw_oget a) (bw_nslots a)) (S (S
         (length h))) (nos_init h)
  else Panic PKind

(** val bw_leftmost_find_iter :
    'a1 bw_automaton -> n list -> ((nat * nat) * 'a1) list res **)

let bw_leftmost_find_iter a h =
  if is_leftmost a.bw_kind
  then run_iter (lm_next (bw_sget a) (bw_oget a) (bw_nslots a)) (S (S
         (length h))) (lm_init h)
  else Panic PKind

(** val cw_find_iter :
    'a1 cw_automaton -> n list -> ((nat * nat) * 'a1) list res **)

let cw_find_iter a h =
  if is_standard a.cw_kind
  then run_iter
         (cfind_next (cw_sget a) (cw_oget a) (cw_tget a) (cw_nslots a)) (S (S
         (length h))) (find_init h)
  else Panic PKind

(** val cw_find_overlapping_iter :
    'a1 cw_automaton -> n list -> ((nat * nat) * 'a1) list res **)

let cw_find_overlapping_iter a h =
  if is_standard a.cw_kind
  then run_iter (covl_next (cw_sget a) (cw_oget a) (cw_tget a) (cw_nslots a))
         (S (mul (S (length h)) (S (length a.cw_outputs)))) (ovl_init h)
  else Panic PKind

(** val cw_find_overlapping_no_suffix_iter :
    'a1 cw_automaton -> n list -> ((nat * nat) * 'a1) list res **)

let cw_find_overlapping_no_suffix_iter a h =
  if is_standard a.cw_kind
  then run_iter (cnos_next (cw_sget a) (cw_oget a) (cw_tget a) (cw_nslots a))
         (S (S (length h))) (nos_init h)
  else Panic PKind

(** val cw_leftmost_find_iter :
    'a1 cw_automaton -> n list -> ((nat * nat) * 'a1) list res **)

let cw_leftmost_find_iter a h =
  if is_leftmost a.cw_kind
  then run_iter (clm_next (cw_sget a) (cw_oget a) (cw_tget a) (cw_nslots a))
         (S (S (length h))) (lm_init h)
  else Panic PKind

(** val bw_heap_bytes : n -> 'a1 bw_automaton -> n **)

let bw_heap_bytes osz a =
  N.add (N.mul (N.of_nat (length a.bw_states)) (Npos (XO (XO (XI XH)))))
    (N.mul (N.of_nat (length a.bw_outputs)) osz)

(** val cw_heap_bytes : n -> 'a1 cw_automaton -> n **)

let cw_heap_bytes osz a =
  N.add
    (N.add
      (N.mul (N.of_nat (length a.cw_states)) (Npos (XO (XO (XO (XO XH))))))
      (N.mul (N.of_nat (length a.cw_mapper.mp_table)) (Npos (XO (XO XH)))))
    (N.mul (N.of_nat (length a.cw_outputs)) osz)

(** val to_le : nat -> n -> n list **)

let rec to_le n0 x =
  match n0 with
  | O -> []
  | S k ->
    (N.coq_land x (Npos (XI (XI (XI (XI (XI (XI (XI XH))))))))) :: (to_le k
                                                                    (N.shiftr
                                                                    x (Npos
                                                                    (XO (XO
                                                                    (XO
                                                                    XH))))))

(** val of_le : n list -> n **)

let rec of_le = function
| [] -> N0
| b :: r ->
  N.add b (N.mul (Npos (XO (XO (XO (XO (XO (XO (XO (XO XH))))))))) (of_le r))

(** val take_n : nat -> n list -> (n list * n list) res **)

let rec take_n n0 src0 =
  match n0 with
  | O -> Ok ([], src0)
  | S k ->
    (match src0 with
     | [] -> Panic PIndex
     | b :: r ->
       bind (take_n k r) (fun pat -> let (h, t) = pat in Ok ((b :: h), t)))

(** val ser_u32 : n -> n list **)

let ser_u32 x =
  to_le (S (S (S (S O)))) x

(** val de_u32 : n list -> (n * n list) res **)

let de_u32 src0 =
  bind (take_n (S (S (S (S O)))) src0) (fun pat ->
    let (h, r) = pat in Ok ((of_le h), r))

(** val ser_onz : n -> n list **)

let ser_onz =
  ser_u32

(** val de_onz : n list -> (n * n list) res **)

let de_onz =
  de_u32

type 'v serializable = { sv_ser : ('v -> n list);
                         sv_de : (n list -> ('v * n list) res); sv_bytes : 
                         nat }

type vtype =
| VUnsigned of nat
| VSigned of nat
| VEmpty

(** val pow256 : nat -> z **)

let pow256 n0 =
  Z.pow (Zpos (XO (XO (XO (XO (XO (XO (XO (XO XH))))))))) (Z.of_nat n0)

(** val vt_in_range : vtype -> z -> bool **)

let vt_in_range t z0 =
  match t with
  | VUnsigned n0 -> (&&) (Z.leb Z0 z0) (Z.ltb z0 (pow256 n0))
  | VSigned n0 ->
    (&&) (Z.leb (Z.opp (Z.div (pow256 n0) (Zpos (XO XH)))) z0)
      (Z.ltb z0 (Z.div (pow256 n0) (Zpos (XO XH))))
  | VEmpty -> Z.eqb z0 Z0

(** val vt_ser : vtype -> z -> n list **)

let vt_ser t z0 =
  match t with
  | VUnsigned n0 -> to_le n0 (Z.to_N z0)
  | VSigned n0 -> to_le n0 (Z.to_N (Z.modulo z0 (pow256 n0)))
  | VEmpty -> []

(** val vt_de : vtype -> n list -> (z * n list) res **)

let vt_de t src0 =
  match t with
  | VUnsigned n0 ->
    bind (take_n n0 src0) (fun pat ->
      let (h, r) = pat in Ok ((Z.of_N (of_le h)), r))
  | VSigned n0 ->
    bind (take_n n0 src0) (fun pat ->
      let (h, r) = pat in
      let u = Z.of_N (of_le h) in
      Ok
      ((if Z.ltb u (Z.div (pow256 n0) (Zpos (XO XH)))
        then u
        else Z.sub u (pow256 n0)), r))
  | VEmpty -> Ok (Z0, src0)

(** val vt_bytes : vtype -> nat **)

let vt_bytes = function
| VUnsigned n0 -> n0
| VSigned n0 -> n0
| VEmpty -> O

(** val vt_serializable : vtype -> z serializable **)

let vt_serializable t =
  { sv_ser = (vt_ser t); sv_de = (vt_de t); sv_bytes = (vt_bytes t) }

(** val vt_conv : vtype -> nat -> z option **)

let vt_conv t i =
  match t with
  | VEmpty -> Some Z0
  | _ -> if vt_in_range t (Z.of_nat i) then Some (Z.of_nat i) else None

(** val kind_to_u8 : mkind -> n **)

let kind_to_u8 = function
| Standard -> N0
| LeftmostLongest -> Npos XH
| LeftmostFirst -> Npos (XO XH)

(** val kind_of_u8 : n -> mkind **)

let kind_of_u8 b =
  if N.eqb b (Npos XH)
  then LeftmostLongest
  else if N.eqb b (Npos (XO XH)) then LeftmostFirst else Standard

(** val de_kind : n list -> (mkind * n list) res **)

let de_kind = function
| [] -> Panic PIndex
| b :: r -> Ok ((kind_of_u8 b), r)

(** val ser_vec : ('a1 -> n list) -> 'a1 list -> n list **)

let ser_vec f l =
  app (ser_u32 (N.of_nat (length l))) (flat_map f l)

(** val de_items :
    (n list -> ('a1 * n list) res) -> nat -> n list -> ('a1 list * n list) res **)

let rec de_items de n0 src0 =
  match n0 with
  | O -> Ok ([], src0)
  | S k ->
    bind (de src0) (fun pat ->
      let (x, r) = pat in
      bind (de_items de k r) (fun pat0 ->
        let (xs, r') = pat0 in Ok ((x :: xs), r')))

(** val de_vec :
    (n list -> ('a1 * n list) res) -> n list -> ('a1 list * n list) res **)

let de_vec de src0 =
  bind (de_u32 src0) (fun pat ->
    let (len, r) = pat in de_items de (N.to_nat len) r)

(** val ser_output : 'a1 serializable -> 'a1 output -> n list **)

let ser_output sV o =
  app (sV.sv_ser o.o_value) (app (ser_u32 o.o_length) (ser_onz o.o_parent))

(** val de_output :
    'a1 serializable -> n list -> ('a1 output * n list) res **)

let de_output sV src0 =
  bind (sV.sv_de src0) (fun pat ->
    let (v, r) = pat in
    bind (de_u32 r) (fun pat0 ->
      let (l, r0) = pat0 in
      bind (de_onz r0) (fun pat1 ->
        let (p, r1) = pat1 in
        Ok ({ o_value = v; o_length = l; o_parent = p }, r1))))

(** val ser_bstate : bstate -> n list **)

let ser_bstate s =
  app (ser_onz s.b_base) (app (ser_u32 s.b_fail) (ser_u32 s.b_opos_ch))

(** val de_bstate : n list -> (bstate * n list) res **)

let de_bstate src0 =
  bind (de_onz src0) (fun pat ->
    let (b, r) = pat in
    bind (de_u32 r) (fun pat0 ->
      let (f, r0) = pat0 in
      bind (de_u32 r0) (fun pat1 ->
        let (oc, r1) = pat1 in
        Ok ({ b_base = b; b_fail = f; b_opos_ch = oc }, r1))))

(** val ser_cstate : cstate -> n list **)

let ser_cstate s =
  app (ser_onz s.c_base)
    (app (ser_u32 s.c_check) (app (ser_u32 s.c_fail) (ser_onz s.c_outpos)))

(** val de_cstate : n list -> (cstate * n list) res **)

let de_cstate src0 =
  bind (de_onz src0) (fun pat ->
    let (b, r) = pat in
    bind (de_u32 r) (fun pat0 ->
      let (c, r0) = pat0 in
      bind (de_u32 r0) (fun pat1 ->
        let (f, r1) = pat1 in
        bind (de_onz r1) (fun pat2 ->
          let (o, r2) = pat2 in
          Ok ({ c_base = b; c_check = c; c_fail = f; c_outpos = o }, r2)))))

(** val ser_mapper : mapper -> n list **)

let ser_mapper m =
  app (ser_vec ser_u32 m.mp_table) (ser_u32 m.mp_alpha)

(** val de_mapper : n list -> (mapper * n list) res **)

let de_mapper src0 =
  bind (de_vec de_u32 src0) (fun pat ->
    let (t, r) = pat in
    bind (de_u32 r) (fun pat0 ->
      let (a, r0) = pat0 in Ok ({ mp_table = t; mp_alpha = a }, r0)))

(** val bw_serialize : 'a1 serializable -> 'a1 bw_automaton -> n list **)

let bw_serialize sV a =
  app (ser_vec ser_bstate a.bw_states)
    (app (ser_vec (ser_output sV) a.bw_outputs)
      (app ((kind_to_u8 a.bw_kind) :: []) (ser_u32 a.bw_num_states)))

(** val bw_deserialize :
    'a1 serializable -> n list -> ('a1 bw_automaton * n list) res **)

let bw_deserialize sV src0 =
  bind (de_vec de_bstate src0) (fun pat ->
    let (sts, r) = pat in
    bind (de_vec (de_output sV) r) (fun pat0 ->
      let (outs, r0) = pat0 in
      bind (de_kind r0) (fun pat1 ->
        let (k, r1) = pat1 in
        bind (de_u32 r1) (fun pat2 ->
          let (ns, r2) = pat2 in
          Ok ({ bw_states = sts; bw_outputs = outs; bw_kind = k;
          bw_num_states = ns }, r2)))))

(** val cw_serialize : 'a1 serializable -> 'a1 cw_automaton -> n list **)

let cw_serialize sV a =
  app (ser_vec ser_cstate a.cw_states)
    (app (ser_mapper a.cw_mapper)
      (app (ser_vec (ser_output sV) a.cw_outputs)
        (app ((kind_to_u8 a.cw_kind) :: []) (ser_u32 a.cw_num_states))))

(** val cw_deserialize :
    'a1 serializable -> n list -> ('a1 cw_automaton * n list) res **)

let cw_deserialize sV src0 =
  bind (de_vec de_cstate src0) (fun pat ->
    let (sts, r) = pat in
    bind (de_mapper r) (fun pat0 ->
      let (mp, r0) = pat0 in
      bind (de_vec (de_output sV) r0) (fun pat1 ->
        let (outs, r1) = pat1 in
        bind (de_kind r1) (fun pat2 ->
          let (k, r2) = pat2 in
          bind (de_u32 r2) (fun pat3 ->
            let (ns, r3) = pat3 in
            Ok ({ cw_states = sts; cw_mapper = mp; cw_outputs = outs;
            cw_kind = k; cw_num_states = ns }, r3))))))

(** val sub0 : n list -> nat -> nat -> n list **)

let sub0 h s e =
  firstn (sub e s) (skipn s h)

(** val occs_len :
    (n list * 'a1) list -> n list -> nat -> nat -> ((nat * nat) * 'a1) list **)

let occs_len pvs h e l =
  map (fun pv -> (((sub e l), e), (snd pv)))
    (filter (fun pv -> list_eqb (fst pv) (sub0 h (sub e l) e)) pvs)

(** val ends_at_from :
    (n list * 'a1) list -> n list -> nat -> nat -> ((nat * nat) * 'a1) list **)

let ends_at_from pvs h from e =
  flat_map (occs_len pvs h e) (rev (seq (S O) (sub e from)))

(** val ends_at :
    (n list * 'a1) list -> n list -> nat -> ((nat * nat) * 'a1) list **)

let ends_at pvs h e =
  ends_at_from pvs h O e

(** val spec_overlapping :
    (n list * 'a1) list -> n list -> ((nat * nat) * 'a1) list **)

let spec_overlapping pvs h =
  flat_map (ends_at pvs h) (seq (S O) (length h))

(** val spec_nosuffix :
    (n list * 'a1) list -> n list -> ((nat * nat) * 'a1) list **)

let spec_nosuffix pvs h =
  flat_map (fun e -> firstn (S O) (ends_at pvs h e)) (seq (S O) (length h))

(** val first_end :
    (n list * 'a1) list -> n list -> nat -> nat list -> ((nat * nat) * 'a1)
    option **)

let rec first_end pvs h from = function
| [] -> None
| e :: r ->
  (match ends_at_from pvs h from e with
   | [] -> first_end pvs h from r
   | m :: _ -> Some m)

(** val spec_find_from :
    nat -> (n list * 'a1) list -> n list -> nat -> ((nat * nat) * 'a1) list **)

let rec spec_find_from fuel pvs h from =
  match fuel with
  | O -> []
  | S fuel' ->
    (match first_end pvs h from (seq (S from) (sub (length h) from)) with
     | Some p ->
       let (p0, v) = p in
       let (s, e) = p0 in ((s, e), v) :: (spec_find_from fuel' pvs h e)
     | None -> [])

(** val spec_find :
    (n list * 'a1) list -> n list -> ((nat * nat) * 'a1) list **)

let spec_find pvs h =
  spec_find_from (S (length h)) pvs h O

(** val is_prefix : n list -> n list -> bool **)

let rec is_prefix p t =
  match p with
  | [] -> true
  | x :: p' ->
    (match t with
     | [] -> false
     | y :: t' -> (&&) (N.eqb x y) (is_prefix p' t'))

(** val longest_at :
    (n list * 'a1) list -> n list -> nat -> (n list * 'a1) option **)

let longest_at pvs h s =
  fold_left (fun best pv ->
    if is_prefix (fst pv) (skipn s h)
    then (match best with
          | Some b ->
            if Nat.ltb (length (fst b)) (length (fst pv))
            then Some pv
            else best
          | None -> Some pv)
    else best) pvs None

(** val first_at :
    (n list * 'a1) list -> n list -> nat -> (n list * 'a1) option **)

let first_at pvs h s =
  find (fun pv -> is_prefix (fst pv) (skipn s h)) pvs

(** val first_start :
    (nat -> (n list * 'a1) option) -> nat list -> (nat * (n list * 'a1))
    option **)

let rec first_start choose = function
| [] -> None
| s :: r ->
  (match choose s with
   | Some pv -> Some (s, pv)
   | None -> first_start choose r)

(** val spec_leftmost_from :
    nat -> (nat -> (n list * 'a1) option) -> nat -> nat ->
    ((nat * nat) * 'a1) list **)

let rec spec_leftmost_from fuel choose hlen from =
  match fuel with
  | O -> []
  | S fuel' ->
    (match first_start choose (seq from (sub hlen from)) with
     | Some p ->
       let (s, pv) = p in
       let e = add s (length (fst pv)) in
       ((s, e), (snd pv)) :: (spec_leftmost_from fuel' choose hlen e)
     | None -> [])

(** val nonempty_pats : (n list * 'a1) list -> (n list * 'a1) list **)

let nonempty_pats pvs =
  filter (fun pv -> negb (list_eqb (fst pv) [])) pvs

(** val spec_lml :
    (n list * 'a1) list -> n list -> ((nat * nat) * 'a1) list **)

let spec_lml pvs h =
  spec_leftmost_from (S (length h)) (longest_at (nonempty_pats pvs) h)
    (length h) O

(** val spec_lmf :
    (n list * 'a1) list -> n list -> ((nat * nat) * 'a1) list **)

let spec_lmf pvs h =
  spec_leftmost_from (S (length h)) (first_at (nonempty_pats pvs) h)
    (length h) O

(** val effective_go :
    n list list -> (n list * 'a1) list -> (n list * 'a1) list **)

let rec effective_go seen = function
| [] -> []
| p0 :: r ->
  let (p, v) = p0 in
  if existsb (fun q -> (&&) (is_prefix q p) (negb (list_eqb q p))) seen
  then effective_go (app seen (p :: [])) r
  else (p, v) :: (effective_go (app seen (p :: [])) r)

(** val effective : (n list * 'a1) list -> (n list * 'a1) list **)

let effective pvs =
  effective_go [] pvs

(** val prefixes_of : n list -> n list list **)

let rec prefixes_of = function
| [] -> []
| x :: r -> (x :: []) :: (map (fun x0 -> x :: x0) (prefixes_of r))

(** val dedup : n list list -> n list list **)

let rec dedup = function
| [] -> []
| x :: r -> if existsb (list_eqb x) r then dedup r else x :: (dedup r)

(** val distinct_nonempty_prefixes : (n list * 'a1) list -> n list list **)

let distinct_nonempty_prefixes pvs =
  dedup (flat_map (fun pv -> prefixes_of (fst pv)) pvs)
