# Mimic nfa_builder.rs (leftmost) and test the characterisation used in DESIGN 5.3:
#  (a) fail_lm(u) = fail_std(u) if start(fail_std u) <= mu0(u) else DEAD
#  (b) output_pos(u) = pattern suffix of u starting at mu0(u), if any, else None
import random, itertools
ROOT, DEAD = 0, 1
def build(pats, first):
    edges=[{},{}]; out=[None,None]; strs=["",None]
    for i,p in enumerate(pats):
        s=ROOT; shadow=False
        for c in p:
            if first and out[s] is not None: shadow=True; break
            if c in edges[s]: s=edges[s][c]
            else:
                edges.append({}); out.append(None); strs.append(strs[s]+c); edges[s][c]=len(edges)-1; s=len(edges)-1
        if shadow: continue
        assert out[s] is None
        out[s]=i
    n=len(edges); fail=[ROOT]*n
    q=[edges[ROOT][c] for c in sorted(edges[ROOT])]
    qi=0
    while qi<len(q):
        s=q[qi]; qi+=1
        if out[s] is not None: fail[s]=DEAD
        for c in sorted(edges[s]):
            ch=edges[s][c]; f=fail[s]
            if f==DEAD: nf=DEAD
            else:
                while True:
                    if c in edges[f]: nf=edges[f][c]; break
                    nx=fail[f]
                    if nx==DEAD: nf=DEAD; break
                    if f==ROOT and nx==ROOT: nf=ROOT; break
                    f=nx
            fail[ch]=nf; q.append(ch)
    opos=[None]*n
    for s in q:
        if out[s] is not None: opos[s]=s   # identify output by its own state
        else: opos[s]=opos[fail[s]] if fail[s]!=DEAD else None
    return edges,out,strs,fail,opos,q
def check(pats, first):
    edges,out,strs,fail,opos,q=build(pats,first)
    nodes={strs[i]:i for i in range(len(strs)) if strs[i] is not None}
    eff=[strs[i] for i in range(len(strs)) if strs[i] is not None and out[i] is not None]
    for u,i in nodes.items():
        if u=="": continue
        # mu0
        occ=[s for p in eff for s in range(len(u)-len(p)+1) if u[s:s+len(p)]==p]
        mu0=min(occ) if occ else 10**9
        # std fail = longest proper suffix in nodes
        for a in range(1,len(u)+1):
            if u[a:] in nodes: break
        fstd=nodes[u[a:]]
        exp = fstd if a<=mu0 else DEAD
        if fail[i]!=exp: return ("fail",pats,u,fail[i],exp)
        # output
        sufpat=[p for p in eff if u.endswith(p) and len(u)-len(p)==mu0]
        expo = nodes[sufpat[0]] if sufpat else None
        if opos[i]!=expo: return ("opos",pats,u,opos[i],expo)
    return None
random.seed(1); bad=0
for it in range(200000):
    k=random.randint(1,6); al="ab" if random.random()<.6 else "abc"
    ps=[]
    while len(ps)<k:
        p="".join(random.choice(al) for _ in range(random.randint(1,5)))
        if p not in ps: ps.append(p)
    for first in (False,True):
        r=check(ps,first)
        if r: bad+=1; print(r); 
    if bad>5: break
print("bad",bad)
