#!/bin/sh
# Builds the framework from files on disk only (offline): the Coq development (full .vo build),
# the extracted model + OCaml driver, the Rust harness (debug + release) against /repo.
set -e
cd "$(dirname "$0")"
export CARGO_NET_OFFLINE=true
mkdir -p build coq/extracted
python3 tools/consts.py >/dev/null
( cd coq && coq_makefile -f _CoqProject -o Makefile >/dev/null && timeout 7000 make -j16 )
python3 - <<'PY'
import sys, os
sys.path.insert(0, "tools")
import vlib
log = []
ok, _ = vlib.build_driver(log)
for prof in ("release", "debug"):
    okh, exe, out = vlib.build_harness(prof, log)
    ok = ok and okh
for name, rc, out in log:
    print("==", name, "rc", rc)
    if rc != 0:
        print(out)
sys.exit(0 if ok else 1)
PY
echo "setup done"
